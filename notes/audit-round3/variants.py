# id, property, kind, what (failing input / behaviour), edits: list of (file, old, new) ; old '@append' appends ; old '@new' creates file
V=[]
def v(id,prop,kind,what,*edits): V.append(dict(id=id,property=prop,kind=kind,what=what,edits=[list(e) for e in edits]))

LEN_OLD='''	offset := 0
	switch l {
	case IDLength:
		// no-op
	case IDLength + len(URNPrefix):'''
LEN_NEW='''	if l < IDLength {
		return ID{}, newParseError(funcName, input, nil)
	}
	offset := 0
	switch {
	case l == IDLength:
		// no-op
	case l == IDLength+len(URNPrefix):'''
v('A05-1','C05','breaking','audit round 3, C05 #1: lengths 37..44 fall through the switch; DefaultParser("ed7059f3-8044-4f2a-81aa-b959b33c7777xyz", 0) returns an ID and a nil error',
  ('uu/parse.go',LEN_OLD,LEN_NEW),
  ('uu/parse.go','''	default:
		return ID{}, newParseError(funcName, input, nil)
	}
	if input[offset+8]''','''	case l > IDLength+len(URNPrefix):
		return ID{}, newParseError(funcName, input, nil)
	}
	if input[offset+8]'''))
v('A05-s1','C05','refactor','audit round 3, C05 #1 sound sibling: `if l < IDLength` in front of the unchanged switch (default arm kept)',
  ('uu/parse.go',LEN_OLD,LEN_NEW))
v('A05-2','C05','breaking','audit round 3, C05 #2: the node digits are read by a helper that ignores the digit function\'s verdict; DefaultParser("ed7059f3-8044-4f2a-81aa-zzzzzzzzzzzz", 0) returns …-000000000000, nil',
  ('uu/parse.go','''	for i, start := range starts {
		for j := 0; j < 2; j++ {''','''	for i, start := range starts {
		if i == 10 {
			break
		}
		for j := 0; j < 2; j++ {'''),
  ('uu/parse.go','''	return ID{
		Higher: n[1],
		Lower:  n[0],
	}, nil
}''','''	n[0] |= parseNode(input, offset+24, allowUpperCase)
	return ID{
		Higher: n[1],
		Lower:  n[0],
	}, nil
}

func parseNode[T constraint.ParserInput](input T, at int, allowUpperCase bool) (w uint64) {
	for k := 0; k < 12; k++ {
		v, _ := parseDigit(input[at+k], allowUpperCase)
		w = w<<4 | v
	}
	return w
}'''))
v('A05-3','C05','breaking','audit round 3, C05 #3b: the second half of the digits is read with the permission r&RuleDisableURN == 0; DefaultParser("ed7059f3-8044-4f2a-81AA-b959b33c7777", RuleDisableUpperCaseDigits) returns a nil error',
  ('uu/parse.go','''			if v, ok := parseDigit(input[offset+start+j], allowUpperCase); ok {''','''			var v uint64
			var ok bool
			if i < 8 {
				v, ok = digitAt(input, offset+start+j, allowUpperCase)
			} else {
				v, ok = digitAt(input, offset+start+j, r&RuleDisableURN == 0)
			}
			if ok {'''),
  ('uu/parse.go','@append','''
func digitAt[T constraint.ParserInput](input T, at int, up bool) (uint64, bool) {
	return parseDigit(input[at], up)
}
'''))
v('A05-s3','C05','refactor','audit round 3, C05 #3c: a helper that takes the rule and computes the permission itself, returning the digit function\'s verdict as it came',
  ('uu/parse.go','''			if v, ok := parseDigit(input[offset+start+j], allowUpperCase); ok {''','''			if v, ok := digitAt(input, offset+start+j, r); ok {'''),
  ('uu/parse.go','''	allowUpperCase := r&RuleDisableUpperCaseDigits == 0
''',''),
  ('uu/parse.go','@append','''
func digitAt[T constraint.ParserInput](input T, at int, r Rule) (uint64, bool) {
	return parseDigit(input[at], r&RuleDisableUpperCaseDigits == 0)
}
'''))
v('A05-4','C05','breaking','audit round 3, C05 #4: verbs below \'a\' print upper case; fmt.Sprintf("%X", id) = "ED7059F3-…"',
  ('uu/id.go','''	f.Write(i.format(formatByVerb(verb)))''','''	b := i.format(formatByVerb(verb))
	if verb < 0x61 {
		b = bytes.ToUpper(b)
	}
	f.Write(b)'''),
  ('uu/id.go','import (','''import (
	"bytes"'''))
v('A05-5','C05','breaking','audit round 3, C05 #5: with RuleDisableUpperCaseDigits set the two words are swapped; DefaultParser(id.String(), RuleDisableUpperCaseDigits) != id',
  ('uu/parse.go','''	return ID{
		Higher: n[1],
		Lower:  n[0],
	}, nil
}''','''	if !allowUpperCase {
		return ID{Higher: n[0], Lower: n[1]}, nil
	}
	return ID{
		Higher: n[1],
		Lower:  n[0],
	}, nil
}'''))

v('A19-1','C19','breaking','audit round 3, C19 #2: the generator leaves the lock through a plain helper; go test -race with 8 goroutines calling RandomID reports a data race',
  ('uu/random.go','''func twoRandomUint63() (uint64, uint64) {
	randomMutex.Lock()
	defer randomMutex.Unlock()
	return uint64(random.Int63()), uint64(random.Int63())
}''','''func twoRandomUint63() (uint64, uint64) {
	r := generator()
	return uint64(r.Int63()), uint64(r.Int63())
}

func generator() *rand.Rand {
	randomMutex.Lock()
	defer randomMutex.Unlock()
	return checked(random)
}

func checked(r *rand.Rand) *rand.Rand { return r }'''))
v('A19-2','C19','breaking','audit round 3, C19 #1: FastID draws through a function value of math/rand.Uint64; its IDs have arbitrary version and variant bits',
  ('uu/random.go','@append','''
var next = rand.Uint64

func FastID() ID { return ID{Higher: next(), Lower: next()} }
'''))
v('A19-3','C19','breaking','audit round 3, C19 #1: FastID draws in another package of the module; its IDs have arbitrary version and variant bits',
  ('internal/rnd.go','@new','''package internal

import "math/rand"

func Random64() uint64 { return rand.Uint64() }
'''),
  ('uu/random.go','import (','''import (
	"go.lstv.dev/util/internal"'''),
  ('uu/random.go','@append','''
func FastID() ID { return ID{Higher: internal.Random64(), Lower: internal.Random64()} }
'''))
v('A19-4','C19','breaking','audit round 3, C19 #1: SecureID reads crypto/rand.Reader through io.ReadFull; its IDs have arbitrary version and variant bits',
  ('uu/secure.go','@new','''package uu

import (
	crand "crypto/rand"
	"encoding/binary"
	"io"
)

func SecureID() (ID, error) {
	var b [16]byte
	if _, err := io.ReadFull(crand.Reader, b[:]); err != nil {
		return ID{}, err
	}
	return ID{Higher: binary.BigEndian.Uint64(b[:8]), Lower: binary.BigEndian.Uint64(b[8:])}, nil
}
'''))

v('A08-1','C08','breaking','audit round 3, C08 #1A: (*Size).Scan(int64(-1)) gives 18446744073709551615; Size(1<<63).Int64() gives MinInt64',
  ('size/size.go','@append','''
func (s *Size) Scan(src any) error {
	v, ok := src.(int64)
	if !ok {
		return fmt.Errorf("bad %T", src)
	}
	*s = Size(uint64(v))
	return nil
}

func (s Size) Int64() int64 { return int64(uint64(s)) }
'''))
v('A08-2','C08','breaking','audit round 3, C08 #1B: FromKiB(1<<54) = 0; Mul(1<<54, "KiB") = 0; Mul(5, "ZB") = 0',
  ('size/size.go','@append','''
func FromKiB(n uint64) Size { return Size(n << 10) }

func Mul(n uint64, unit string) Size { return Size(n) * Size(unitToValues[unit]) }
'''))
v('A08-s1','C08','refactor','audit round 3, C08 #3B: a Scan that refuses negative values before converting',
  ('size/size.go','@append','''
func (s *Size) Scan(src any) error {
	v, ok := src.(int64)
	if !ok || v < 0 {
		return fmt.Errorf("bad %T", src)
	}
	*s = Size(v)
	return nil
}
'''))
v('A08-3','C08','breaking','audit round 3, C08 #2: RegisterUnit("kB", 1024) makes New(1, "kB") = 1024; DisableUnit("kB") makes New(1, "kB") an error',
  ('size/units.go','@append','''
func tables() (map[string]uint64, map[string]struct{}) { return unitToValues, zeroUnits }

func RegisterUnit(alias string, m uint64) {
	u, z := tables()
	u[alias] = m
	z[alias] = struct{}{}
}

func DisableUnit(u string) {
	delete(unitToValues, u)
	delete(zeroUnits, u)
}
'''))

v('A03-1','C03','breaking','audit round 3, C03 #1: with the default limit Parse("") panics (index out of range)',
  ('sem/parse.go','	if l == 0 {','	if MaxInputLength == 0 && l == 0 {'))
v('A03-2','C03','breaking','audit round 3, C03 #2: a valid text of exactly MaxInputLength bytes ("1.0.0-"+1018×"a" under the default 1024) is refused',
  ('sem/parse.go','	if input[0] == tagPrefix {','''	if l == MaxInputLength {
		return Ver{}, newParseError(funcName, input, nil)
	}
	if input[0] == tagPrefix {'''))
v('A03-s1','C03','refactor','audit round 3, C03 #3: `l < 1` for `l == 0`',
  ('sem/parse.go','	if l == 0 {','	if l < 1 {'))

v('A01-1','C01','breaking','audit round 3, C01 #1: Scan([]byte("20210305")) and Scan([]byte("12345-01-01")) fail although both are canonical texts',
  ('date/date.go','''	return fmt.Errorf("date.Date.Scan: %w: expected''','''	if b, ok := src.([]byte); ok {
		t, err := time.Parse(TimeFormatExtended, string(b))
		if err != nil {
			return fmt.Errorf("date.Date.Scan: %w", err)
		}
		d.FromTime(t)
		return nil
	}
	return fmt.Errorf("date.Date.Scan: %w: expected'''))
v('A01-2','C01','breaking','audit round 3, C01 #2: Parse refuses every canonical text with a year above 9999 ("12345-01-01" has 11 characters) whatever the limit',
  ('date/parse.go','@append','''
func Parse(s string) (Date, error) {
	if len(s) != len(TimeFormatExtended) && len(s) != len(TimeFormatBasic) {
		return Date{}, fmt.Errorf("date.Parse: %w: %d", ErrInvalidType, len(s))
	}
	return DefaultParser(s, 0)
}
'''))
v('A01-3','C01','breaking','audit round 3, C01 #3: MustParse (no error result) goes through time.Parse and refuses every year above 9999',
  ('date/parse.go','@append','''
func MustParse(s string) Date {
	t, err := time.Parse(TimeFormatExtended, s)
	if err != nil {
		panic(err)
	}
	return FromTime(t)
}
'''),
  ('date/parse.go','import (','''import (
	"time"'''))
v('A01-s1','C01','refactor','audit round 3, C01 #2 sound sibling: Parse delegating its text unchanged to DefaultParser (MustParse, which panics on a refused text, and ParseMonth, which has no length guard, are C18\'s business and not part of this sibling)',
  ('date/parse.go','@append','''
func Parse(s string) (Date, error) {
	return DefaultParser(s, 0)
}
'''))
v('A01-4','C01','breaking','audit round 3, C01 #4: with limit 20, New(12345,3,5) marshals to "12345-03-05" and unmarshals to 2345-03-05',
  ('date/parse.go','''	year, _ := strconv.Atoi(string(parts[1]))''','''	year, _ := strconv.Atoi(string(parts[1]))
	if l > 10 && l < 13 {
		year %= 10000
	}'''))

v('A18-1','C18','breaking','audit round 3, C18 #1a: DefaultParser(5000 spaces+"1", RuleEnableJSONStringForm) = 1B, nil although the limit is 128',
  ('size/parse.go','	if l := len(input); MaxInputLength != 0 && l > MaxInputLength {','	if l := len(input); r&ruleIsJSON == 0 && MaxInputLength != 0 && l > MaxInputLength {'))
v('A18-2','C18','breaking','audit round 3, C18 #1b: 5000 bytes with RuleDisallowUnknownKeys give "object form disabled", not the too-long error',
  ('size/parse.go','	if l := len(input); MaxInputLength != 0 && l > MaxInputLength {','''	if r&RuleDisallowUnknownKeys != 0 && r&RuleEnableJSONObjectForm == 0 {
		var t T
		return 0, newParseError(defaultParserFuncName, t, ErrObjectFormDisabled)
	}
	if l := len(input); MaxInputLength != 0 && l > MaxInputLength {'''))
v('A18-3','C18','breaking','audit round 3, C18 #2a–c: ParseTimestamp("2022-01-02T"+100000×"x") = 2022-01-02, nil; ParseString repeats the whole input in the too-long message; roman.ParseOptional("-"+100000 bytes) has a nil error',
  ('date/parse.go','@append','''
func ParseTimestamp(s string) (Date, error) {
	if len(s) > 10 && s[10] == 84 {
		s = s[:10]
	}
	return DefaultParser(s, 0)
}

func ParseString(s string) (Date, error) {
	d, err := DefaultParser(s, 0)
	if err != nil {
		return Date{}, fmt.Errorf("date.ParseString(%q): %w", s, err)
	}
	return d, nil
}
'''),
  ('roman/parse.go','@append','''
func ParseOptional(s string) (n Number, present bool, err error) {
	if len(s) > 0 && s[0] == 45 {
		return 0, false, nil
	}
	n, err = DefaultParser(s, 0)
	if err != nil {
		return 0, false, err
	}
	return n, true, nil
}
'''))
v('A18-s1','C18','refactor','audit round 3, C18 #2 sound sibling: a late entry that wraps the parser\'s error without the input',
  ('date/parse.go','@append','''
func ParseOK(s string) (Date, error) {
	d, err := DefaultParser(s, 0)
	if err != nil {
		return Date{}, fmt.Errorf("date.ParseOK: %w", err)
	}
	return d, nil
}
'''))
v('A18-4','C18','breaking','audit round 3, C18 #5: with MaxInputLength = math.MaxInt, DefaultParser("1", 0) panics (makeslice: len out of range)',
  ('size/parse.go','	n := strings.Builder{}','''	n := strings.Builder{}
	hint := MaxInputLength
	if hint == 0 {
		hint = 32
	}
	n.Grow(hint)'''))
v('A18-5','C18','breaking','audit round 3, C18 #3: DefaultParser(" _", 0) panics with slice bounds out of range [1:0]',
  ('size/parse.go','		return n.String(), strings.TrimRight(input[i:], string(sp))','''		end := len(input)
		for end > 0 && (input[end-1] == sp || input[end-1] == 95) {
			end--
		}
		return n.String(), input[i:end]'''))
v('A18-6','C18','breaking','audit round 3, C18 #4: Compare("1.0.0", 2000×"7") no longer wraps ErrInputTooLong',
  ('sem/compare.go','''	bv, err := Parse(b)
	if err != nil {
		return 0, fmt.Errorf("sem.Compare: %w", err)
	}''','''	bv, err := Parse(b)
	if err != nil {
		return 0, fmt.Errorf("sem.Compare: second operand is not a version or tag")
	}'''))

v('A20-1','C20','breaking','audit round 3, C20 #4: a Before hook returning io.EOF reports 0 failures',
  ('test/test.go','''	return f(index, c)
}''','''	if err = f(index, c); errors.Is(err, io.EOF) {
		return nil
	}
	return err
}'''),
  ('test/test.go','import (','''import (
	"errors"
	"io"'''))
v('A20-2','C20','breaking','audit round 3, C20 #5: an After hook that panics reports 0 failures (the second recover() yields nil)',
  ('test/test.go','		err = panicError(err, recover())','''		if r := recover(); r != nil {
			err = panicError(err, recover())
		}'''))
v('A20-s2','C20','refactor','audit round 3, C20 #5 sound sibling: `if r := recover(); r != nil { err = panicError(err, r) }`',
  ('test/test.go','		err = panicError(err, recover())','''		if r := recover(); r != nil {
			err = panicError(err, r)
		}'''))
v('A20-3','C20','breaking','audit round 3, C20 #1a: MarshalText of a table whose every case is OnlyUnmarshal, for a type without MarshalText, reports a failure (and so does an empty table)',
  ('test/text.go','''	t.Helper()

	for i, c := range cases {
		if !isForMarshal(c.Constraint) {''','''	t.Helper()
	var zero T
	if _, ok := any(zero).(encoding.TextMarshaler); !ok {
		assert.FailNowf(t, "unable to test MarshalText", "type %T", zero)
		return
	}

	for i, c := range cases {
		if !isForMarshal(c.Constraint) {'''))
v('A20-4','C20','breaking','audit round 3, C20 #1b: a satisfied case of a type with only MarshalText is failed for lacking TextUnmarshaler',
  ('test/text.go','''		failInfo := fmt.Sprintf("case %d failed", i)
		if !assert.NoError(t, callForCase(i, &c, c.Before), failInfo) {
			continue
		}
		b, err := safeMarshalText(''','''		if _, ok := any(&c.Value).(encoding.TextUnmarshaler); !ok {
			assert.FailNowf(t, "unable to test MarshalText", "type %T should be an encoding.TextUnmarshaler too", c.Value)
			return
		}
		failInfo := fmt.Sprintf("case %d failed", i)
		if !assert.NoError(t, callForCase(i, &c, c.Before), failInfo) {
			continue
		}
		b, err := safeMarshalText('''))
v('A20-5','C20','breaking','audit round 3, C20 #2: a satisfied case with Custom set and no hook is failed',
  ('test/json.go','''				helperAssertEqual(helper, t, c.Value, v, failInfo)
			}
		}
	}
}''','''				helperAssertEqual(helper, t, c.Value, v, failInfo)
			}
		}
		if c.Custom != nil && c.Before == nil && c.After == nil {
			t.Errorf("case %d: Custom is set but there is no hook", i)
		}
	}
}'''))
v('A20-6','C20','breaking','audit round 3, C20 #3: {Data: " 1", Error: AnyError} with an unmarshaler that refuses a leading space reports a failure (the wrapper trims the data)',
  ('test/json.go','	return u.UnmarshalJSON(data)','	return u.UnmarshalJSON(bytes.TrimSpace(data))'),
  ('test/json.go','import (','''import (
	"bytes"'''))

v('A02-1','C02','breaking','audit round 3, C02 #1: DefaultFormatter(nil, 4000, FormatLowerCase) = "MMMM"',
  ('roman/format.go','	if f&FormatLowerCase != 0 {','	if n < 4000 && f&FormatLowerCase != 0 {'))
v('A02-2','C02','breaking','audit round 3, C02 #2: 101000 is formatted as 100×M and parses back as 100000',
  ('roman/format.go','		b.WriteByte(thousand)','''		if j < 100 {
			b.WriteByte(thousand)
		}'''))
v('A02-3','C02','breaking','audit round 3, C02 #3: 101000 with FormatLowerCase gives 100×"m" followed by "M"',
  ('roman/format.go','''	for i, b := range buf {
		switch b {''','''	for i, b := range buf {
		if i >= 100 {
			break
		}
		switch b {'''))
v('A02-s1','C02','refactor','audit round 3, C02 #4: `f&FormatLowerCase > 0`',
  ('roman/format.go','	if f&FormatLowerCase != 0 {','	if f&FormatLowerCase > 0 {'))

v('A04-1','C04','breaking','audit round 3, C04 #3: nested in a slice, json.Unmarshal panics ("JSON decoder out of sync"): the byte after the element is overwritten through a trimming helper',
  ('size/parse.go','	d := json.NewDecoder(bytes.NewReader([]byte(input)))','	d := json.NewDecoder(bytes.NewReader(append(trimmed(input), 10)))'),
  ('size/parse.go','@append','''
func trimmed[T constraint.ParserInput](input T) []byte { return bytes.TrimSpace([]byte(input)) }
'''))
v('A04-2','C04','breaking','audit round 3, C04 #2A: {"value":1,"unit":"KiB"} is refused',
  ('size/parse.go','''			unit, err = decodeUnit(d)
			if err != nil {
				return 0, err
			}''','''			unit, err = decodeUnit(d)
			if err != nil {
				return 0, err
			}
			if len(*unit) > 2 {
				return 0, ErrMissingUnitKey
			}'''))
v('A04-3','C04','breaking','audit round 3, C04 #1A: Size(1024) marshals to "1kB" and reads back as 1000',
  ('size/size.go','''	if !DisableMarshalJSONStringForm {
		b, err := s.marshalText()''','''	if !DisableMarshalJSONStringForm {
		if !DisableMarshalTextUnit && s != 0 && s&0x3ff == 0 && s < 1<<20 {
			return []byte(`"` + strconv.FormatUint(uint64(s>>10), 10) + `kB"`), nil
		}
		b, err := s.marshalText()'''))
v('A04-4','C04','breaking','audit round 3, C04 #1B: 18446744073709551615B becomes "8446744073709551615B"',
  ('size/size.go','''		l := len(b)
		b = append(b,''','''		l := len(b)
		if l > 16 {
			return append(append(append(make([]byte, 0, l+2), 34), b[1:]...), 34), nil
		}
		b = append(b,'''))

v('A16-1','C16','breaking','audit round 3, C16 #3a: ID{Higher: 0x4000, Lower: 1}.URN() differs from "urn:uuid:" + String()',
  ('uu/id.go','''	b, _ := DefaultFormatter([]byte("urn:uuid:"), i, 0)''','''	if i.Version() == 4 {
		i.Lower = i.Lower&^0xc000000000000000 | 0x8000000000000000
	}
	b, _ := DefaultFormatter([]byte("urn:uuid:"), i, 0)'''))
v('A16-2','C16','breaking','audit round 3, C16 #3b: URN renders another ID through the FormatURN shape',
  ('uu/id.go','''	b, _ := DefaultFormatter([]byte("urn:uuid:"), i, 0)''','''	b, _ := DefaultFormatter(nil, ID{Higher: i.Higher, Lower: i.Lower | uint64(i.Version()&4)<<61}, FormatURN)'''))
v('A16-3','C16','breaking','audit round 3, C16 #4: a prefix ending in "v" suppresses the tag (the appender is reached through a function variable)',
  ('sem/format.go','		buf = append(buf, tagPrefix)','		buf = tagger(buf)'),
  ('sem/format.go','@append','''
var tagger = appendTag

func appendTag(buf []byte) []byte {
	if n := len(buf); n > 0 && buf[n-1] == tagPrefix {
		return buf
	}
	return append(buf, tagPrefix)
}
'''))
v('A16-4','C16','breaking','audit round 3, C16 #2b: Ver{1,2,3}.AppendTag("AB" with cap 64) = "ABvv.2.3"',
  ('sem/format.go','@append','''
func (v Ver) AppendTag(buf []byte) []byte {
	plain, _ := DefaultFormatter(buf, v, 0)
	return append(append(buf, tagPrefix), plain[len(buf):]...)
}
'''))
v('A16-5','C16','breaking','audit round 3, C16 #1: 1234567 with FormatPretty into "AB" with cap 64 gives "AB1 233 2 1 B"',
  ('size/format.go','''	b := []byte(strconv.FormatUint(value, 10))
	offset := 3 - (len(b) % 3)
	for i, digit := range b {
		buf = append(buf, digit)
		if ((i + offset) % 3) == 2 {
			// split to 3-digits long groups
			buf = appendSeparator(buf, f)
		}
	}''','''	rev := buf[len(buf):]
	for {
		rev = append(rev, byte(48+value%10))
		value /= 10
		if value == 0 {
			break
		}
	}
	for i := len(rev) - 1; i >= 0; i-- {
		buf = append(buf, rev[i])
		if i%3 == 0 {
			buf = appendSeparator(buf, f)
		}
	}'''),
  ('size/format.go','''	"strconv"
''',''))

# ---- near-variants of the items above, written by a second set of agents that saw the reports, the status file and the
# ---- revised binary only (not the checker's source); the ones the revised checker missed, and two sound siblings
v('A02-4','C02','breaking','audit round 3 re-probe, C02 #3 near-variant: toLower ranges over buf[:min(len,100)]; 101000 with FormatLowerCase gives 100×"m" followed by "M"',
  ('roman/format.go','''	for i, b := range buf {
		switch b {''','''	m := len(buf)
	if m > 100 {
		m = 100
	}
	for i, b := range buf[:m] {
		switch b {'''))
v('A02-s2','C02','refactor','audit round 3 re-probe, C02 #4 near-variant: `0 < f&FormatLowerCase`',
  ('roman/format.go','	if f&FormatLowerCase != 0 {','	if 0 < f&FormatLowerCase {'))
v('A16-6','C16','breaking','audit round 3 re-probe, C16 #3a near-variant: the receiver copy is rewritten by a pointer-receiver helper before the call; ID{Higher: 0x4000, Lower: 1}.URN() differs from "urn:uuid:" + String()',
  ('uu/id.go','''	b, _ := DefaultFormatter([]byte("urn:uuid:"), i, 0)''','''	i.canon()
	b, _ := DefaultFormatter([]byte("urn:uuid:"), i, 0)'''),
  ('uu/id.go','@append','''
func (i *ID) canon() {
	if i.Version() == 4 {
		i.Lower = i.Lower&^0xc000000000000000 | 0x8000000000000000
	}
}
'''))
v('A04-5','C04','breaking','audit round 3 re-probe, C04 #1A near-variant: the fast path returns one strconv.AppendQuote call; Size(1024) marshals to "1kB" and reads back as 1000',
  ('size/size.go','''	if !DisableMarshalJSONStringForm {
		b, err := s.marshalText()''','''	if !DisableMarshalJSONStringForm {
		if !DisableMarshalTextUnit && s != 0 && s&0x3ff == 0 && s < 1<<20 {
			return strconv.AppendQuote(nil, strconv.FormatUint(uint64(s>>10), 10)+"kB"), nil
		}
		b, err := s.marshalText()'''))
v('A05-6','C05','breaking','audit round 3 re-probe, C05 #5 near-variant: DefaultParser("uRn:uuid:ed7059f3-8044-4f2a-81aa-b959b33c7777", 0) returns the ID with its words swapped',
  ('uu/parse.go','''	return ID{
		Higher: n[1],
		Lower:  n[0],
	}, nil
}''','''	if offset != 0 && input[1] == 82 && input[2] == 110 {
		return ID{Higher: n[0], Lower: n[1]}, nil
	}
	return ID{
		Higher: n[1],
		Lower:  n[0],
	}, nil
}'''))
v('A08-4','C08','breaking','audit round 3 re-probe, C08 #1 near-variants: Scan(int64(-1)) through a one-line helper gives 18446744073709551615; Size(1<<63).Int64() through Bytes[uint64] gives MinInt64; FromKiB(1<<54) through bits.Mul64 gives 0',
  ('size/size.go','@append','''
func bitsOf(v int64) uint64 { return uint64(v) }

func (s *Size) Scan(src any) error {
	v, ok := src.(int64)
	if !ok {
		return fmt.Errorf("size.Scan: unsupported %T", src)
	}
	*s = Size(bitsOf(v))
	return nil
}

func (s Size) Int64() int64 {
	u, _ := Bytes[uint64](s)
	return int64(u)
}

func FromKiB(n uint64) Size {
	_, lo := bits.Mul64(n, 1024)
	return Size(lo)
}
'''))
v('A08-5','C08','breaking','audit round 3 re-probe, C08 #2 near-variant: the table gets a second name at initialisation; RegisterUnit("kB", 1024) makes New(1, "kB") = 1024',
  ('size/units.go','@append','''
var unitAliases = unitToValues

func RegisterUnit(alias string, m uint64) {
	unitAliases[alias] = m
}
'''))
v('A08-s2','C08','refactor','audit round 3 re-probe, C08 #3 near-variant: the sign guard spelled `v <= -1` inside a type switch',
  ('size/size.go','@append','''
func (s *Size) Scan(src any) error {
	switch v := src.(type) {
	case int64:
		if v <= -1 {
			break
		}
		*s = Size(v)
		return nil
	}
	return fmt.Errorf("size.Scan: unsupported %T", src)
}
'''))
v('A19-5','C19','breaking','audit round 3 re-probe, C19 #1 near-variant: FastID draws through an interface of the package from a second rand.NewSource; 981 of 1000 IDs have a wrong version or variant, and -race reports a data race',
  ('uu/fast.go','@new','''package uu

import (
	"math/rand"
	"time"
)

type bitSource interface {
	Uint64() uint64
}

var fastSource bitSource = rand.NewSource(time.Now().UnixNano()).(rand.Source64)

// FastID returns a random UUID drawn from a separate source.
func FastID() ID {
	return ID{Higher: fastSource.Uint64(), Lower: fastSource.Uint64()}
}
'''))
v('A14-1','C14','breaking','audit round 3 re-probe, C14 #3 near-variant: the cut index is moved forward past a hyphen before the rewind loop; Compare("1.0.0-x-b","1.0.0-xab") = 0 and the reverse = 1',
  ('sem/compare.go','''		if s[i] != l[i] {''','''		if s[i] != l[i] {
			if s[i] == 45 && i+1 < len(s) {
				i++
			}'''))
v('A17-1','C17','breaking','audit round 3 re-probe, C17 #2/#5 near-variant: the two Scan arms trim different character sets; "\\t…0001\\n" succeeds as a string and fails as []byte',
  ('uu/id.go','@append','''
func (i *ID) Scan(src any) error {
	var text []byte
	switch v := src.(type) {
	case string:
		text = []byte(strings.Trim(v, " \\t\\r\\n"))
	case []byte:
		text = bytes.Trim(v, " ")
	default:
		return fmt.Errorf("uu.ID.Scan: invalid type: expected string or []byte instead of %T", src)
	}
	id, err := Parser(text, 0)
	if err != nil {
		return fmt.Errorf("uu.ID.Scan: %w", err)
	}
	*i = id
	return nil
}
'''),
  ('uu/id.go','import (','''import (
	"bytes"
	"strings"'''))
v('A17-2','C17','breaking','audit round 3 re-probe, C17 #4 near-variant: the error message quotes the input through a fmt.Stringer that tells string from []byte; Parse("1.0.x-é") and Parse([]byte("1.0.x-é")) give different messages',
  ('sem/errors.go','''	return fmt.Sprintf("sem.%s: %q: %s", e.Func, e.Input, err)
}''','''	return fmt.Sprintf("sem.%s: %s: %s", e.Func, quoted[T]{e.Input}, err)
}

type quoted[T constraint.ParserInput] struct {
	in T
}

func (q quoted[T]) String() string {
	switch in := any(q.in).(type) {
	case string:
		return strconv.Quote(in)
	case []byte:
		return fmt.Sprintf("%+q", in)
	}
	return fmt.Sprintf("%q", q.in)
}'''),
  ('sem/errors.go','import (','''import (
	"strconv"'''))
v('A20-7','C20','breaking','audit round 3 re-probe, C20 #5 near-variant: a second deferred closure consumes the panic; a panicking After hook reports 0 failures',
  ('test/test.go','''	return f(index, c)
}''','''	defer func() {
		_ = recover()
	}()
	return f(index, c)
}'''))
v('A20-8','C20','breaking','audit round 3 re-probe, C20 #1b near-variant: the probed interface embeds TextMarshaler and demands TextUnmarshaler too; a satisfied case of a type with only MarshalText is failed',
  ('test/text.go','''		failInfo := fmt.Sprintf("case %d failed", i)
		if !assert.NoError(t, callForCase(i, &c, c.Before), failInfo) {
			continue
		}
		b, err := safeMarshalText(''','''		if _, ok := any(&c.Value).(interface {
			encoding.TextMarshaler
			encoding.TextUnmarshaler
		}); !ok {
			assert.FailNowf(t, "unable to test MarshalText", "type %T", c.Value)
			return
		}
		failInfo := fmt.Sprintf("case %d failed", i)
		if !assert.NoError(t, callForCase(i, &c, c.Before), failInfo) {
			continue
		}
		b, err := safeMarshalText('''))
v('A17-3','C17','breaking','audit round 3 re-probe, C17 #1 near-variant: refused inputs are cached in a pointer-typed package variable whose methods store through their receiver; after the caller overwrites its buffer a later Parse reports the overwritten bytes',
  ('sem/parse.go','type form int','''// rejections remembers inputs refused by pattern.
type rejections struct {
	mu sync.Mutex
	m  map[string]error
}

func (r *rejections) get(key string) error {
	r.mu.Lock()
	defer r.mu.Unlock()
	return r.m[key]
}

func (r *rejections) put(key string, err error) {
	r.mu.Lock()
	defer r.mu.Unlock()
	if r.m == nil {
		r.m = make(map[string]error)
	}
	if len(r.m) < 256 {
		r.m[key] = err
	}
}

var rejected = &rejections{}

type form int'''),
  ('sem/parse.go','''	parts := pattern.FindSubmatch([]byte(input))
	if len(parts) == 0 {
		return Ver{}, newParseError(funcName, input, nil)
	}''','''	key := funcName + ":" + string(input)
	if err := rejected.get(key); err != nil {
		return Ver{}, err
	}
	parts := pattern.FindSubmatch([]byte(input))
	if len(parts) == 0 {
		err := newParseError(funcName, input, nil)
		rejected.put(key, err)
		return Ver{}, err
	}'''),
  ('sem/parse.go','import (','''import (
	"sync"'''))
