#!/usr/bin/env python3-vt
"""Validate MANIFEST.json and every evidence file against the harness schemas."""
import json, sys, glob, jsonschema
ok = True
def check(path, schema):
    global ok
    try:
        jsonschema.validate(json.load(open(path)), json.load(open(schema)))
    except Exception as e:
        ok = False
        print("INVALID", path, str(e)[:300])
check('/verif/MANIFEST.json', '/root/.vp/MANIFEST.schema.json')
for f in sorted(glob.glob('/verif/evidence/C*.json')):
    check(f, '/root/.vp/EVIDENCE.schema.json')
print("valid" if ok else "FAILED")
sys.exit(0 if ok else 1)
