#!/bin/bash
# usage: try_mutant.sh <worktree> <mutant-dir> [props]
# Applies <mutant-dir>/patch.diff in the scratch worktree, confirms the repo's own suite stays green and the demo
# fails with / passes without the change (DEMO_GOARCH / DEMO_FLAGS: a demo that needs GOARCH=386 or -race), then runs the static checks against that worktree (-repo) and reverts.
export GOFLAGS=-mod=mod GOPROXY=off GOSUMDB=off GOTOOLCHAIN=local GOWORK=off
wt=$1; m=$2; props=${3:-all}
cd "$wt" || exit 2
git checkout -q -- . ; git clean -fdq -e '_mutants*' -e '_refactors'
place=$(grep -m1 -o 'place in: *[^ ]*' "$m/demo_test.go" | sed 's/place in: *//')
[ -z "$place" ] && place=$(grep -m1 -o '[a-z]*/[a-z_0-9]*_test.go' "$m/demo_test.go" "$m/notes.md" | head -1 | sed 's/.*://')
cp "$m/demo_test.go" "$place" 2>/dev/null || { echo "DEMO-PLACE-UNKNOWN $m"; }
pkg=./$(dirname "$place")
names=$(grep -o "^func Test[A-Za-z0-9_]*" "$m/demo_test.go" | sed "s/func //" | paste -sd"|")
base=$(GOARCH=${DEMO_GOARCH:-$(go env GOARCH)} go test $DEMO_FLAGS -vet=off -count=1 -timeout 180s -run "^($names)\$" $pkg 2>&1 | tail -1)
git apply "$m/patch.diff" || { echo "PATCH-FAILED $m"; exit 2; }
mut=$(GOARCH=${DEMO_GOARCH:-$(go env GOARCH)} go test $DEMO_FLAGS -vet=off -count=1 -timeout 180s -run "^($names)\$" $pkg 2>&1 | tail -1)
rm -f "$place"
suite=$(go build ./... 2>&1 && go test -vet=off -count=1 ./... 2>&1 | grep -v '^ok' | head -3)
fired=$(GOARCH=${DEMO_GOARCH:-$(go env GOARCH)} /verif/bin/utilcheck -repo "$wt" -prop $props -no-evidence 2>&1 | grep -a '^VIOLATION' | sed 's/VIOLATION property=\([A-Z0-9]*\).*/\1/' | sort -u | tr '\n' ' ')
git checkout -q -- . ; git clean -fdq -e '_mutants*' -e '_refactors'
echo "MUTANT $m | demo-clean: ${base:0:40} | demo-mutant: ${mut:0:40} | suite-nonok: ${suite:-none} | FIRED: ${fired:-NONE}"
