#!/usr/bin/env python3
"""usage: refresh_metas.py <cross_check output> — record in seeded/*/meta.json what the last full cross check saw:
expected_to_fire (breaking: every property that reported it), known_false_alarms (refactor: the properties that still
report it). Silent variants must have fired nothing; a breaking change its own property must have caught."""
import json, re, sys
bad = 0
for l in open(sys.argv[1]):
    m = re.match(r'(\S+) (\S+) (\S+) \| fired: (.*)', l.strip())
    if not m:
        continue
    id, kind, prop, f = m.groups()
    if 'CHECKER-BROKEN' in f:
        print('CHECKER-BROKEN', l.strip()); bad += 1
        f = f.split('|')[0]
    fired = [] if f.strip() == 'NONE' else f.split()
    p = '/verif/seeded/%s/meta.json' % id
    meta = json.load(open(p))
    if kind == 'breaking':
        if prop not in fired:
            print('MISS', l.strip()); bad += 1
        meta['expected_to_fire'] = fired
    elif kind == 'refactor':
        meta['known_false_alarms'] = fired
        meta['expected_to_fire'] = []
    elif kind == 'silent':
        if fired:
            print('FALSE-ALARM', l.strip()); bad += 1
    json.dump(meta, open(p, 'w'), indent=1)
sys.exit(1 if bad else 0)
