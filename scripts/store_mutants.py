#!/usr/bin/env python3
"""Re-verify every sub-agent mutant in its scratch worktree and keep the confirmed ones under /verif/seeded."""
import json, os, re, shutil, subprocess, sys
from concurrent.futures import ThreadPoolExecutor
args = sys.argv[1:]
ROUND = 1
if args and args[0] == "--round":
    ROUND = int(args[1]); args = args[2:]
props = args or ["C%02d" % i for i in range(1, 21)]
# demos that need a non-default build to show the difference (confirmed by hand first)
DEMO_ENV = {("C19", 2, 2): {"DEMO_GOARCH": "386"}, ("C19", 2, 3): {"DEMO_FLAGS": "-race"},
            ("C01", 3, 3): {"DEMO_GOARCH": "386"}, ("C05", 3, 2): {"DEMO_GOARCH": "386"}, ("C15", 3, 1): {"DEMO_GOARCH": "386"}, ("C04", 3, 2): {"DEMO_GOARCH": "386"}, ("C13", 3, 3): {"DEMO_GOARCH": "386"},
            ("C02", 4, 1): {"DEMO_GOARCH": "386"}, ("C04", 4, 3): {"DEMO_GOARCH": "386"}, ("C07", 4, 2): {"DEMO_GOARCH": "386"}, ("C08", 4, 2): {"DEMO_GOARCH": "386"}, ("C10", 4, 1): {"DEMO_GOARCH": "386"},
            ("C19", 4, 2): {"DEMO_FLAGS": "-race"}, ("C19", 4, 3): {"DEMO_GOARCH": "386"},
            ("C03", 5, 2): {"DEMO_GOARCH": "386"}, ("C13", 5, 3): {"DEMO_FLAGS": "-race"}, ("C19", 5, 1): {"DEMO_FLAGS": "-race"},
            ("C14", 6, 1): {"DEMO_GOARCH": "386"}, ("C05", 6, 3): {"DEMO_GOARCH": "386"}, ("C19", 6, 1): {"DEMO_FLAGS": "-race"},
            ("C08", 7, 3): {"DEMO_GOARCH": "386"}}
DEMO_ENV.update({("C19", 8, 1): {"DEMO_FLAGS": "-race"}, ("C19", 8, 2): {"DEMO_GOARCH": "386"}, ("C19", 8, 3): {"DEMO_FLAGS": "-race"}})
def one_prop(p):
    for k in ((1, 2) if ROUND == 1 else (1, 2, 3)):
        sub = "_mutants" if ROUND == 1 else "_mutants%d" % ROUND
        wt, m = "/tmp/wt-%s" % p, "/tmp/wt-%s/%s/%d" % (p, sub, k)
        env = dict(os.environ); env.update(DEMO_ENV.get((p, ROUND, k), {}))
        if not os.path.exists(m + "/patch.diff"):
            print("missing", m); continue
        out = subprocess.run(["/verif/scripts/try_mutant.sh", wt, m], capture_output=True, text=True, errors="replace", env=env).stdout
        mm = re.search(r"demo-clean: (.*?) \| demo-mutant: (.*?) \| suite-nonok: (.*?) \| FIRED: (.*)", out)
        if not mm:
            print("unparsed", m, out[:200]); continue
        clean, mut, suite, fired = [x.strip() for x in mm.groups()]
        ok = clean.startswith("ok") and mut.startswith("FAIL") and suite == "none"
        fired_list = [x for x in fired.split() if x != "NONE"]
        print(p, k, "confirmed" if ok else "NOT-CONFIRMED", "fired:", fired_list, "| clean:", clean[:30], "| mut:", mut[:20], "| suite:", suite[:40])
        if not ok:
            continue
        dst = "/verif/seeded/%s-%d" % (p, k) if ROUND == 1 else "/verif/seeded/%s-r%d-%d" % (p, ROUND, k)
        os.makedirs(dst, exist_ok=True)
        shutil.copy(m + "/patch.diff", dst + "/patch.diff")
        shutil.copy(m + "/demo_test.go", dst + "/demo_test.go")
        notes = open(m + "/notes.md", errors="replace").read() if os.path.exists(m + "/notes.md") else ""
        open(dst + "/notes.md", "w").write(notes)
        place = re.search(r"place in: *(\S+)", open(m + "/demo_test.go", errors="replace").read())
        meta = {
            "property": p,
            "kind": "breaking",
            "origin": "fresh sub-agent given only the property text and a scratch worktree of /repo",
            "what": notes.strip().split("\n\n")[0][:600],
            "needs_to_manifest": "see notes.md",
            "demo_placement": place.group(1) if place else "see first comment of demo_test.go",
            "demo_env": DEMO_ENV.get((p, ROUND, k), {}),
            "round": ROUND,
            "expected_to_fire": sorted(set(fired_list + ([p] if p in fired_list else []))),
            "confirmed_by_me": {
                "repo_suite_with_change": "go build ./... && go test -vet=off -count=1 ./... : all packages ok",
                "demo_on_unchanged_tree": clean,
                "demo_with_change": mut,
                "checks_run": "./bin/utilcheck -repo <worktree with patch> -prop all -no-evidence",
                "checks_that_fired": fired_list,
            },
        }
        json.dump(meta, open(dst + "/meta.json", "w"), indent=1)

with ThreadPoolExecutor(max_workers=6) as ex:
    list(ex.map(one_prop, props))
