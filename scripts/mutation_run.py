#!/usr/bin/env python3
"""usage: mutation_run.py <mutations.jsonl> <results.jsonl> [jobs] — for every single-token mutation listed by
checker/cmd/mutate: scratch copy of /repo, apply, build, run the library's own suite; for those the suite does not
notice, run every static check (UTILCHECK, default /verif/bin/utilcheck) and record which properties report it.
Survivors of both (suite green, no check fires) are equivalent mutants or holes in the rules: read them by hand.
A tool for testing the checker; not part of any registered check."""
import json, os, subprocess, sys, tempfile, shutil
from concurrent.futures import ThreadPoolExecutor
muts = [json.loads(l) for l in open(sys.argv[1])]
out = open(sys.argv[2], 'a')
jobs = int(sys.argv[3]) if len(sys.argv) > 3 else 8
done = set()
if os.path.exists(sys.argv[2]):
    for l in open(sys.argv[2]):
        try:
            r = json.loads(l); done.add((r['file'], r['offset'], r['new']))
        except Exception:
            pass
env = dict(os.environ, GOFLAGS='-mod=mod', GOPROXY='off', GOSUMDB='off', GOTOOLCHAIN='local', GOWORK='off')
uc = os.environ.get('UTILCHECK', '/verif/bin/utilcheck')
def one(m):
    if (m['file'], m['offset'], m['new']) in done:
        return
    d = tempfile.mkdtemp(prefix='mu-', dir='/tmp')
    try:
        subprocess.run(['rsync', '-a', '--exclude', '.git', '/repo/', d + '/'], check=True)
        p = os.path.join(d, m['file'])
        b = open(p, 'rb').read()
        old = m['old'].encode()
        assert b[m['offset']:m['offset'] + len(old)] == old, m
        open(p, 'wb').write(b[:m['offset']] + m['new'].encode() + b[m['offset'] + len(old):])
        bld = subprocess.run(['go', 'build', './...'], cwd=d, env=env, capture_output=True, text=True)
        res = dict(m)
        if bld.returncode != 0:
            res['status'] = 'does-not-compile'
        else:
            # RECHECK=1: the input lists mutations already known to be invisible to the suite (a previous run's
            # 'reported' / 'SURVIVED' records): only the checks are run again
            t = subprocess.CompletedProcess([], 0, stdout='') if os.environ.get('RECHECK') else subprocess.run('go test -count=1 -timeout 120s ./... 2>&1 | grep -v "^ok" | head -3', shell=True, cwd=d, env=env, capture_output=True, text=True)
            if t.stdout.strip():
                res['status'] = 'killed-by-suite'
            else:
                c = subprocess.run([uc, '-verif', '/verif', '-repo', d, '-prop', 'all', '-no-evidence'], capture_output=True, text=True, errors='replace')
                fired = sorted({l.split('property=')[1].split()[0] for l in c.stdout.splitlines() if l.startswith('VIOLATION')})
                res['status'] = 'reported' if fired else 'SURVIVED'
                res['fired'] = fired
        out.write(json.dumps(res) + '\n'); out.flush()
    finally:
        shutil.rmtree(d, ignore_errors=True)
with ThreadPoolExecutor(max_workers=jobs) as ex:
    list(ex.map(one, muts))
