#!/usr/bin/env python3
"""usage: store_refactors.py --round N [Cnn ...] — re-verify the behaviour-preserving variants a sub-agent left in
/tmp/wt-Cnn/_refactors<N>/k (suite green, the author's equivalence test green, both on a scratch copy of /repo with the
patch), run every check on them and keep the confirmed ones as /verif/seeded/Rnn-rN-k (kind refactor;
known_false_alarms = the properties that report it)."""
import json, os, re, shutil, subprocess, sys
from concurrent.futures import ThreadPoolExecutor
args = sys.argv[1:]
ROUND = 2
if args and args[0] == "--round":
    ROUND = int(args[1]); args = args[2:]
props = args or ["C%02d" % i for i in range(1, 21)]
KINDS = {1: "control-flow idiom swap", 2: "extract/inline/rename/move/parameter order", 3: "equivalent library call or data representation", 4: "hoisting, locals, redundant fast paths, reordering"}
def one(p):
    for k in (1, 2, 3, 4):
        m = "/tmp/wt-%s/_refactors%d/%d" % (p, ROUND, k)
        if not os.path.exists(m + "/patch.diff"):
            print("missing", m); continue
        out = subprocess.run(["/verif/scripts/try_refactor.sh", m], capture_output=True, text=True, errors="replace").stdout
        mm = re.search(r"equiv: (.*?) \| suite-nonok: (.*?) \| FIRED: (.*)", out)
        if not mm:
            print("unparsed", m, out[:200]); continue
        eq, suite, fired = [x.strip() for x in mm.groups()]
        ok = suite == "none" and "FAIL" not in eq and "unplaced" not in eq
        fl = [x for x in fired.split() if x != "NONE"]
        print(p, k, "confirmed" if ok else "NOT-CONFIRMED", "equiv:", eq, "| suite:", suite[:60], "| fired:", fl)
        if not ok:
            continue
        dst = "/verif/seeded/R%s-r%d-%d" % (p[1:], ROUND, k)
        os.makedirs(dst, exist_ok=True)
        for f in os.listdir(m):
            if f.endswith(".diff") or f.endswith(".md") or f.endswith("_test.go"):
                shutil.copy(os.path.join(m, f), os.path.join(dst, f))
        notes = open(m + "/notes.md", errors="replace").read() if os.path.exists(m + "/notes.md") else ""
        meta = {"property": p, "kind": "refactor", "refactor_kind": KINDS.get(k, ""), "round": ROUND,
                "origin": "fresh sub-agent given only the property text and a scratch worktree of /repo, asked for behaviour-preserving refactorings (round %d: modest everyday edits, different from the earlier rounds')" % ROUND,
                "what": notes.strip().split("\n")[0][:300], "expected_to_fire": [],
                "confirmed_by_me": {"repo_suite_with_change": "go build ./... && go test -vet=off -count=1 ./... : all packages ok", "authors_old_vs_new_equivalence_test": eq, "first_run_fired": fl},
                "known_false_alarms": fl}
        json.dump(meta, open(dst + "/meta.json", "w"), indent=1)
with ThreadPoolExecutor(max_workers=5) as ex:
    list(ex.map(one, props))
