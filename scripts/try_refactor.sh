#!/bin/bash
# usage: try_refactor.sh <dir with patch.diff [equiv_test.go]>
# Behaviour-preserving variant: applies the patch to a scratch copy of /repo, confirms the repo's suite (and the
# author's old-vs-new equivalence test, if any) is green, then runs every check against the copy. Anything that fires is
# a false-alarm candidate to be read by hand.
export GOFLAGS=-mod=mod GOPROXY=off GOSUMDB=off GOTOOLCHAIN=local GOWORK=off
m=$1
d=$(mktemp -d /tmp/rf-XXXX); rsync -a --exclude .git --exclude '_mutants*' --exclude _refactors /repo/ $d/
(cd $d && patch -p1 -s < $m/patch.diff) || { echo "REFACTOR $m | PATCH-FAILED"; rm -rf $d; exit 2; }
eq=none
for t in $m/*_test.go; do
  [ -f "$t" ] || continue
  place=$(grep -m1 -o 'place in: *[^ ]*' $t | sed 's/place in: *//')
  if [ -n "$place" ]; then
    cp $t $d/$place
    names=$(grep -o "^func Test[A-Za-z0-9_]*" $t | sed "s/func //" | paste -sd"|")
    r=$(cd $d && go test -vet=off -count=1 -timeout 600s -run "^($names)\$" ./$(dirname $place) 2>&1 | tail -1 | cut -c1-12)
    rm -f $d/$place
    eq="${eq/none/}$r;"
  else eq="${eq/none/}unplaced;"; fi
done
suite=$(cd $d && go build ./... 2>&1 && go test -vet=off -count=1 ./... 2>&1 | grep -v '^ok' | head -3)
fired=$(/verif/bin/utilcheck -repo $d -prop all -no-evidence 2>&1 | grep -a '^VIOLATION' | sed 's/VIOLATION property=\([A-Z0-9]*\).*/\1/' | sort -u | tr '\n' ' ')
rm -rf $d
echo "REFACTOR $m | equiv: $eq | suite-nonok: ${suite:-none} | FIRED: ${fired:-NONE}"
