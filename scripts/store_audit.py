#!/usr/bin/env python3
"""usage: store_audit.py <spec.py> [id-regexp] — store the demonstrations of a rule audit as seeded variants (A<nn>-k breaking,
A<nn>-sk behaviour-preserving siblings): scratch copy of /repo, the edits of the spec, suite run, checker run, then
/verif/seeded/<id>/{patch.diff,demonstration.md,meta.json}. Origin differs from the Cnn/Rnn variants: the audit agents
could read the checker; the demonstrations are kept as regression material for the rules they led to."""
import sys,os,re,json,subprocess,tempfile,shutil
spec=sys.argv[1]; pat=re.compile(sys.argv[2] if len(sys.argv)>2 else '.')
ns={}; exec(open(spec).read(),ns); V=ns['V']
env=dict(os.environ,GOFLAGS='-mod=mod',GOPROXY='off',GOSUMDB='off',GOTOOLCHAIN='local',GOWORK='off')
uc=os.environ.get('UTILCHECK','/verif/bin/utilcheck')
for v in V:
    if not pat.search(v['id']): continue
    base=tempfile.mkdtemp(prefix='av-',dir='/tmp'); a=os.path.join(base,'a'); b=os.path.join(base,'b')
    for d in (a,b): subprocess.run(['rsync','-a','--exclude','.git','/repo/',d+'/'],check=True)
    for f,old,new in v['edits']:
        p=os.path.join(b,f)
        if old=='@new': open(p,'w').write(new); continue
        s=open(p).read()
        if old=='@append': s+=new
        else:
            assert old in s,(v['id'],f,old[:40]); s=s.replace(old,new,1)
        open(p,'w').write(s)
    t=subprocess.run('go build ./... && go test -count=1 ./... 2>&1 | grep -v "^ok" | head -5',shell=True,cwd=b,env=env,capture_output=True,text=True)
    suite=(t.stdout+t.stderr).strip() or 'green'
    diff=subprocess.run(['diff','-ruN','a','b'],cwd=base,capture_output=True,text=True).stdout
    diff=re.sub(r'^(---|\+\+\+) (a|b)/(\S+)\t.*$',r'\1 \2/\3',diff,flags=re.M)
    r=subprocess.run([uc,'-verif','/verif','-repo',b,'-prop','all','-no-evidence'],capture_output=True,text=True,errors='replace')
    fired=sorted(set(re.findall(r'^VIOLATION property=(\w+)',r.stdout,flags=re.M)))
    shutil.rmtree(base)
    ok = suite=='green' and ((v['kind']=='breaking' and v['property'] in fired) or (v['kind']=='refactor' and not fired))
    print(v['id'],v['kind'],'suite:',suite[:60],'fired:',fired,'' if ok else '  <<< NOT STORED')
    if not ok: continue
    d='/verif/seeded/'+v['id']; os.makedirs(d,exist_ok=True)
    open(d+'/patch.diff','w').write(diff)
    open(d+'/demonstration.md','w').write('# '+v['id']+'\n\n'+v['what']+'\n\nThe demonstration (input, observed and expected behaviour, suite run) is item-for-item in '
        '`/verif/notes/audit-round3/report-'+v['property']+'.md`; the edit is reproduced from there by `scripts/store_audit.py`.\n')
    meta={'property':v['property'],'kind':v['kind'],
          'origin':('rule audit round 3, re-probe: near-variant written by an agent that saw the audit report, the status file and the revised checker binary (not its source; not a fresh property-text-only agent); kept as regression material for the rule it led to'
                    if 're-probe' in v['what'] else
                    'rule audit round 3: demonstration by an audit sub-agent that could read the checker (not a fresh property-text-only agent); kept as regression material for the rule it led to'),
          'what':v['what'],'demo_env':{},'round':'audit3',
          'confirmed_by_me':{'repo_suite_with_change':'go build ./... && go test -count=1 ./... : '+suite,'checks_run':'utilcheck -repo <copy with patch> -prop all -no-evidence','checks_that_fired':fired}}
    if v['kind']=='breaking': meta['expected_to_fire']=fired
    else: meta['known_false_alarms']=[]
    json.dump(meta,open(d+'/meta.json','w'),indent=1)
