#!/bin/bash
# usage: why.sh <seeded-id> <props>   — apply the seeded patch to a scratch copy of /repo and show non-discharged obligations
export GOFLAGS=-mod=mod GOPROXY=off GOSUMDB=off GOTOOLCHAIN=local GOWORK=off
d=$(mktemp -d /tmp/why-XXXX); rsync -a --exclude .git /repo/ $d/; (cd $d && patch -p1 -s < /verif/seeded/$1/patch.diff) || { echo patch failed; rm -rf $d; exit 1; }
${UTILCHECK:-/verif/bin/utilcheck} -repo $d -prop $2 -no-evidence -v 2>&1 | grep -a -v '^discharged\|^VIOLATION\|^UNDECIDED' | cut -c1-330
rm -rf $d
