#!/bin/bash
# usage: cross_check.sh [jobs] [id-regexp]  — run every check against every seeded variant (scratch copy of /repo + patch) and
# print "<id> <kind> <property> | fired: ..." ; used to look for misses (own property silent) and cross-property false alarms.
export GOFLAGS=-mod=mod GOPROXY=off GOSUMDB=off GOTOOLCHAIN=local GOWORK=off
one() {
  id=$1; m=/verif/seeded/$id
  kind=$(jq -r .kind $m/meta.json); prop=$(jq -r .property $m/meta.json)
  d=$(mktemp -d /tmp/cc-XXXX); rsync -a --exclude .git /repo/ $d/
  (cd $d && patch -p1 -s < $m/patch.diff) || { echo "$id PATCH-FAILED"; rm -rf $d; return; }
  arch=$(jq -r '.demo_env.DEMO_GOARCH // empty' $m/meta.json)
  out=$(GOARCH=${arch:-$(go env GOARCH)} ${UTILCHECK:-/verif/bin/utilcheck} -repo $d -prop all -no-evidence 2>&1)
  fired=$(echo "$out" | grep -a '^VIOLATION' | sed 's/VIOLATION property=\([A-Z0-9]*\).*/\1/' | sort -u | tr '\n' ' ')
  # a checker-level failure (analyser panic, load error) is not a verdict: shown apart
  broken=$(echo "$out" | grep -a '^BROKEN' | sed 's/BROKEN property=\([A-Z0-9]*\).*/\1/' | sort -u | tr '\n' ' ')
  rm -rf $d
  echo "$id $kind $prop | fired: ${fired:-NONE}${broken:+ | CHECKER-BROKEN: $broken}"
}
export -f one
ls /verif/seeded | grep "${2:-.}" | xargs -P ${1:-6} -n 1 bash -c 'one "$0"' | sort
