// Package ctl holds the positive controls of the checker: one deliberately violating function per path rule
// whose expected violation count on a healthy tree is zero. Every check run analyses these with the same engine
// and fails as broken if a control is not flagged. Nothing here is ever compiled into bafko/util.
package ctl

import (
	"errors"
	"fmt"
	"math/rand"
	"sync"
)

var ErrBad = errors.New("bad")

var MaxInputLength = 8

var ErrInputTooLong = errors.New("input too long")

// InputWrite writes into the bytes it is given (C17.ro control).
// lastInput: InputRetain keeps the caller's bytes (C17.ro retention control).
var lastInput struct{ b []byte }

// InputRetain remembers the slice it was given.
func InputRetain(input []byte) int {
	lastInput.b = input[1:]
	return len(input)
}

func InputWrite(input []byte) int {
	if len(input) > 0 {
		input[0] = 'x'
	}
	return len(input)
}

type Value struct{ n int }

// UnmarshalText assigns before the error is known (C17.store control).
func (v *Value) UnmarshalText(data []byte) error {
	v.n = len(data)
	if len(data) > 3 {
		return fmt.Errorf("ctl: %w", ErrBad)
	}
	return nil
}

// FormatTruncate drops the caller's bytes (C16.append control).
func FormatTruncate(buf []byte, n int) ([]byte, error) {
	buf = buf[:0]
	return append(buf, byte('0'+n%10)), nil
}

// FormatOverwrite rewrites the caller's first byte (C16.append control).
func FormatOverwrite(buf []byte, n int) ([]byte, error) {
	buf = append(buf, byte('0'+n%10))
	buf[0] = '#'
	return buf, nil
}

// FormatPeek makes its output depend on the caller's existing bytes (C16.indep control).
func FormatPeek(buf []byte, n int) ([]byte, error) {
	if len(buf) > 0 && buf[0] == '-' {
		return append(buf, '!'), nil
	}
	return append(buf, byte('0'+n%10)), nil
}

var lastOut []byte

// FormatRetain keeps a slice of the caller's buffer in a package-level variable (C16.append retention control).
func FormatRetain(buf []byte, n int) ([]byte, error) {
	out := append(buf, byte('0'+n%10))
	lastOut = out[len(buf):]
	return out, nil
}

// ParsePanics panics and indexes without a guard (C18.T1 / C18.T2 controls).
func ParsePanics(input []byte) (int, error) {
	if len(input) == 3 {
		panic("three")
	}
	return int(input[5]), nil
}

// ParseLoops has a loop without a progress argument (C18.T3 control).
func ParseLoops(input []byte) int {
	n := 0
	for i := 0; i < len(input); {
		if input[i] == 'x' {
			i++
		}
		n++
	}
	return n
}

// WrapV formats a sentinel with %v: errors.Is stops working (S-WRAP control).
func WrapV() error {
	return fmt.Errorf("ctl: %v: detail", ErrBad)
}

// NonZeroWithError returns a value together with an error (S-ERRZERO control).
func NonZeroWithError(input []byte) (int, error) {
	if len(input) == 0 {
		return 7, fmt.Errorf("ctl: %w", ErrBad)
	}
	return len(input), nil
}

// LimitLate uses the input before the length guard and compares with >= (C18.L controls).
func LimitLate(input []byte) (int, error) {
	first := input[0]
	if MaxInputLength != 0 && len(input) >= MaxInputLength {
		return 0, fmt.Errorf("%w: %q", ErrInputTooLong, input)
	}
	return int(first), nil
}

var (
	mu     sync.Mutex
	random = rand.New(rand.NewSource(1))
)

// Unlocked draws from the shared generator without holding the mutex (C19.lock control).
func Unlocked() int64 {
	_ = &mu
	return random.Int63()
}
