module go.lstv.dev/utilfix

go 1.18
