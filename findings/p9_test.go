package triage

import (
	"testing"

	"go.lstv.dev/util/size"
)

// Spaces around the whole are ignored and never change the value.
func TestP9(t *testing.T) {
	for _, in := range []string{"1KiB", " 1KiB", "  1KiB", "1KiB ", "1KiB  ", "  1 KiB   ", "1   "} {
		s, err := size.DefaultParser(in, 0)
		want := size.Size(1024)
		if in == "1   " {
			want = 1
		}
		if err != nil || s != want {
			t.Errorf("%q = %d, %v", in, s, err)
		}
	}
}
