package triage

import (
	"testing"

	"go.lstv.dev/util/roman"
)

func TestP4(t *testing.T) {
	buf := []byte("MIX-")
	out, _ := roman.DefaultFormatter(buf, 4, roman.FormatLowerCase)
	if string(out) != "MIX-iv" {
		t.Fatalf("got %q want %q", out, "MIX-iv")
	}
}
