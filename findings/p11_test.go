package triage

import (
	"testing"

	"go.lstv.dev/util/sem"
)

// Numeric pre-release identifiers are compared numerically: 11 < 101, 101 < 1001, 12 < 102.
// Before 3368f98 all three pairs compared equal (0): the operands were cut at the first differing byte,
// inside the digit run, and the digits in front of it were dropped before the digit counts were compared.
func TestP11(t *testing.T) {
	for _, p := range [][2]string{{"11", "101"}, {"101", "1001"}, {"12", "102"}, {"x.11", "x.101"}} {
		if c := sem.New(1, 0, 0, p[0]).Compare(sem.New(1, 0, 0, p[1])); c != -1 {
			t.Errorf("1.0.0-%s vs 1.0.0-%s = %d, want -1", p[0], p[1], c)
		}
		if c := sem.New(1, 0, 0, p[1]).Compare(sem.New(1, 0, 0, p[0])); c != 1 {
			t.Errorf("1.0.0-%s vs 1.0.0-%s = %d, want 1", p[1], p[0], c)
		}
	}
	// the pinned departure stays: a01 == a1
	if c := sem.DefaultComparePreRelease("a01", "a1"); c != 0 {
		t.Errorf("a01 vs a1 = %d, pinned 0", c)
	}
}
