package triage

import (
	"errors"
	"testing"

	"go.lstv.dev/util/size"
)

// Object keys are case-insensitive in ASCII; any other key is an unknown member. Before the fix the key
// "unİt" (dotted capital I) was lower-cased to "unit" by strings.ToLower.
func TestP15(t *testing.T) {
	const obj = size.RuleEnableJSONObjectForm
	if s, err := size.DefaultParser("{\"value\":1,\"unİt\":\"KiB\"}", obj|size.RuleDisallowUnknownKeys); !errors.Is(err, size.ErrUnexpectedKey) {
		t.Errorf("unknown key accepted: %d, %v", s, err)
	}
	if s, err := size.DefaultParser("{\"value\":1,\"unit\":\"KiB\",\"unİt\":\"B\"}", obj); err != nil || s != 1024 {
		t.Errorf("unknown member not skipped: %d, %v", s, err)
	}
	if s, err := size.DefaultParser("{\"value\":1,\"unİt\":\"KiB\"}", obj); !errors.Is(err, size.ErrMissingUnitKey) {
		t.Errorf("missing unit not reported: %d, %v", s, err)
	}
	if s, err := size.DefaultParser(`{"VALUE":2,"Unit":"KiB"}`, obj); err != nil || s != 2048 {
		t.Errorf("ASCII case-insensitivity lost: %d, %v", s, err)
	}
}
