package triage

import (
	"testing"

	"go.lstv.dev/util/sem"
)

// Residual of P5 after the numeric fix (recorded as a known finding, C06.sep): the comparison never separates identifiers.
func TestP5Residual(t *testing.T) {
	for _, c := range []struct {
		a, b string
		want int
	}{
		{"1.0.0-a.b", "1.0.0-a-", -1},
		{"1.0.0-2", "1.0.0-1a", -1},
		{"1.0.0-2.x", "1.0.0-11", -1},
	} {
		if got, err := sem.Compare(c.a, c.b); err != nil || got != c.want {
			t.Errorf("Compare(%s, %s) = %d, %v; want %d", c.a, c.b, got, err, c.want)
		}
	}
}
