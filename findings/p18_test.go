package triage

import (
	"testing"

	ttest "go.lstv.dev/util/test"
)

type p18OnlyUnmarshaler struct{}

func (*p18OnlyUnmarshaler) UnmarshalText([]byte) error { return nil }

type p18T struct{ failures int }

func (t *p18T) Errorf(string, ...interface{}) { t.failures++ }
func (t *p18T) FailNow()                      { t.failures++ }
func (t *p18T) Helper()                       {}

// Cases restricted to the other direction are ignored: a table whose only case is OnlyUnmarshal has no case that
// applies to MarshalText, so nothing may be reported — not even that the type has no MarshalText.
func TestP18(t *testing.T) {
	rec := &p18T{}
	ttest.MarshalText(rec, []ttest.CaseText[*p18OnlyUnmarshaler]{{Constraint: ttest.OnlyUnmarshal, Data: "x", Value: &p18OnlyUnmarshaler{}}})
	if rec.failures != 0 {
		t.Errorf("%d failures reported although no case applies to MarshalText", rec.failures)
	}
}
