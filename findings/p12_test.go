package triage

import (
	"errors"
	"fmt"
	"testing"

	ttest "go.lstv.dev/util/test"
)

type p12T struct{ failures int }

func (t *p12T) Errorf(format string, args ...interface{}) { t.failures++; _ = fmt.Sprintf(format, args...) }
func (t *p12T) FailNow()                                  { t.failures++ }
func (t *p12T) Helper()                                   {}

type p12M struct{}

func (p12M) MarshalText() ([]byte, error)   { return []byte{}, errors.New("boom") }
func (p12M) MarshalBinary() ([]byte, error) { return []byte{}, errors.New("boom") }
func (p12M) MarshalJSON() ([]byte, error)   { return []byte{}, errors.New("boom") }

// An empty (non-nil) result alongside an expected error is not a failing case: only a non-empty result is.
// Before de7e7e8 the three marshal helpers asserted assert.Nil and reported it.
func TestP12(t *testing.T) {
	rec := &p12T{}
	ttest.MarshalText(rec, []ttest.CaseText[p12M]{{Error: ttest.AnyError}})
	ttest.MarshalBinary(rec, []ttest.CaseBinary[p12M]{{Error: ttest.AnyError}})
	ttest.MarshalJSON(rec, []ttest.CaseJSON[p12M]{{Error: ttest.AnyError}})
	if rec.failures != 0 {
		t.Errorf("%d failures reported for satisfied cases", rec.failures)
	}
}
