package triage

import (
	"testing"

	ttest "go.lstv.dev/util/test"
)

type p13Empty struct{}

func (p13Empty) MarshalBinary() ([]byte, error) { return []byte{}, nil }

type p13Nil struct{}

func (p13Nil) MarshalBinary() ([]byte, error) { return nil, nil }

// nil and empty []byte are the same (empty) data: neither case below has differing data.
// Before the fix MarshalBinary compared them with assert.Equal, which tells nil from empty.
func TestP13(t *testing.T) {
	rec := &p12T{}
	ttest.MarshalBinary(rec, []ttest.CaseBinary[p13Empty]{{}})
	ttest.MarshalBinary(rec, []ttest.CaseBinary[p13Nil]{{Data: []byte{}}})
	if rec.failures != 0 {
		t.Errorf("%d failures reported for satisfied cases", rec.failures)
	}
}
