package triage

import (
	"testing"

	"go.lstv.dev/util/date"
)

// The parser must accept only existing calendar days.
func TestP1(t *testing.T) {
	for _, in := range []string{"2021-02-30", "2021-02-29", "2021-04-31", "2021-00-10", "2021-01-00", "20210230", "1900-02-29"} {
		if d, err := date.DefaultParser(in, 0); err == nil {
			t.Errorf("%q accepted as %s", in, d)
		}
	}
	for _, in := range []string{"2020-02-29", "2000-02-29", "2021-12-31", "0001-01-01", "0000-01-01", "20200229"} {
		if d, err := date.DefaultParser(in, 0); err != nil {
			t.Errorf("%q rejected: %v", in, err)
		} else if got := d.String(); got != in && !(len(in) == 8 && got == in[:4]+"-"+in[4:6]+"-"+in[6:]) {
			t.Errorf("%q parsed as %s", in, got)
		}
	}
}
