package triage

import (
	"errors"
	"fmt"
	"testing"

	utest "go.lstv.dev/util/test"
)

type recT struct{ failures int }

func (r *recT) Errorf(string, ...any) { r.failures++ }
func (r *recT) FailNow()              { r.failures++ }
func (r *recT) Helper()               {}

type failing struct{}

func (*failing) UnmarshalText([]byte) error { return errors.New("boom") }

// P10 (C20, known finding): a case whose error predicate ErrorMatch("^x$") is not met by the obtained error "boom"
// must make the helper report a failure. test.ErrorMatch answers false without reporting, so nothing is recorded.
// The sibling predicates report. This test FAILS on the current tree: it documents the finding.
func TestP10(t *testing.T) {
	for _, p := range []struct {
		name string
		pred utest.AssertErrorFunc
	}{
		{"Error", utest.Error("x")},
		{"ErrorHasPrefix", utest.ErrorHasPrefix("x")},
		{"ErrorHasSuffix", utest.ErrorHasSuffix("x")},
		{"ErrorMatch", utest.ErrorMatch("^x$")},
	} {
		r := &recT{}
		utest.UnmarshalText(r, []utest.CaseText[failing]{{Error: p.pred, Data: "d"}}, nil)
		fmt.Printf("%s: failures reported = %d\n", p.name, r.failures)
		if r.failures == 0 {
			t.Errorf("%s: unmet error predicate was not reported", p.name)
		}
	}
}
