package triage

import (
	"math"
	"testing"

	"go.lstv.dev/util/date"
)

// Ordering agrees with what the accessors report, also for the largest stored year, and adding a day to
// 2147483647-12-31 lands on 2147483648-01-01 (64-bit targets; on 32-bit targets int cannot hold that year —
// recorded as a known finding). Before 3aa5188 the year was read as int(d.year+1), which wrapped.
func TestP16(t *testing.T) {
	if math.MaxInt == math.MaxInt32 {
		t.Skip("32-bit target: year 2147483648 is not representable as int")
	}
	last := date.New(math.MaxInt32, 12, 31)
	next := last.Add(0, 0, 1)
	if y, m, d := next.Date(); y != math.MaxInt32+1 || m != 1 || d != 1 {
		t.Errorf("next day is %d-%d-%d", y, m, d)
	}
	if !next.After(last) || next.Before(last) || !next.Time().After(last.Time()) {
		t.Errorf("order of %v and %v disagrees with their times", next, last)
	}
	b := date.New(2000, 1, 1)
	if !next.After(b) || !next.Time().After(b.Time()) {
		t.Errorf("%v vs %v", next, b)
	}
}
