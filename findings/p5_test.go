package triage

import (
	"testing"

	"go.lstv.dev/util/sem"
)

// SemVer 2.0.0 §11: identifiers are compared one by one, numeric ones numerically.
func TestP5(t *testing.T) {
	for _, c := range []struct {
		a, b string
		want int
	}{
		{"1.0.0-beta.2", "1.0.0-beta.11", -1},
		{"1.0.0-2", "1.0.0-11", -1},
		{"1.0.0-a.b", "1.0.0-a-", -1},
		{"1.0.0-alpha", "1.0.0-alpha.1", -1},
		{"1.0.0-alpha.1", "1.0.0-alpha.beta", -1},
		{"1.0.0-alpha.beta", "1.0.0-beta", -1},
		{"1.0.0-beta.11", "1.0.0-rc.1", -1},
		{"1.0.0-rc.1", "1.0.0", -1},
		{"1.0.0-1", "1.0.0-a", -1},
		{"1.0.0-9", "1.0.0-10", -1},
	} {
		got, err := sem.Compare(c.a, c.b)
		if err != nil || got != c.want {
			t.Errorf("Compare(%s, %s) = %d, %v; want %d", c.a, c.b, got, err, c.want)
		}
		got, err = sem.Compare(c.b, c.a)
		if err != nil || got != -c.want {
			t.Errorf("Compare(%s, %s) = %d, %v; want %d", c.b, c.a, got, err, -c.want)
		}
	}
}
