package triage

import (
	"testing"

	ttest "go.lstv.dev/util/test"
)

type p17M struct{}

func (p17M) MarshalText() ([]byte, error) { return []byte("a"), nil }

// With an interface-typed T every case has its own dynamic type: a later case whose value lacks the interface is
// reported ("a type lacking the interface"), no panic escapes. Before 638135b only the first case was tested and
// the unchecked conversion of the second one panicked outside the helper's recover.
func TestP17(t *testing.T) {
	rec := &p12T{}
	func() {
		defer func() {
			if r := recover(); r != nil {
				t.Errorf("panic escaped the helper: %v", r)
			}
		}()
		ttest.MarshalText[any](rec, []ttest.CaseText[any]{{Value: p17M{}, Data: "a"}, {Value: 42}})
	}()
	if rec.failures == 0 {
		t.Errorf("the case lacking the interface was not reported")
	}
}
