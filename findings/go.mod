module triage

go 1.18

require go.lstv.dev/util v0.0.0

replace go.lstv.dev/util => /repo
