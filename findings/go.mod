module triage

go 1.18

require go.lstv.dev/util v0.0.0

require (
	github.com/davecgh/go-spew v1.1.0 // indirect
	github.com/pmezard/go-difflib v1.0.0 // indirect
	github.com/stretchr/testify v1.7.1 // indirect
	gopkg.in/yaml.v3 v3.0.0-20200313102051-9f266ea9e77c // indirect
)

replace go.lstv.dev/util => /repo
