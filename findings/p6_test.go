package triage

import (
	"testing"

	"go.lstv.dev/util/sem"
)

// Comparing entry points must be total: Ver fields are plain strings and may hold any bytes.
func TestP6(t *testing.T) {
	defer func() {
		if r := recover(); r != nil {
			t.Fatalf("panic: %v", r)
		}
	}()
	if c := sem.DefaultComparePreRelease("éé", "éé"); c != 0 {
		t.Fatalf("got %d want 0", c)
	}
	a := sem.Ver{PreRelease: "ä1"}
	b := sem.Ver{PreRelease: "ä2"}
	if c := a.Compare(b); c != -1 {
		t.Fatalf("got %d want -1", c)
	}
}
