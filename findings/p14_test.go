package triage

import (
	"errors"
	"testing"

	"go.lstv.dev/util/size"
)

// The JSON string form gives what the text rules give for the decoded string: with RuleDisableUnit a text with a
// unit is refused. Before the fix the string form dropped the rule and returned 1024.
func TestP14(t *testing.T) {
	_, errText := size.DefaultParser("1KiB", size.RuleDisableUnit)
	s, errJSON := size.DefaultParser(`"1KiB"`, size.RuleEnableJSONStringForm|size.RuleDisableUnit)
	if !errors.Is(errText, size.ErrUnitDisabled) {
		t.Fatalf("text form: %v", errText)
	}
	if !errors.Is(errJSON, size.ErrUnitDisabled) {
		t.Errorf("JSON string form: %d, %v; want ErrUnitDisabled", s, errJSON)
	}
	if s, err := size.DefaultParser(`"1024"`, size.RuleEnableJSONStringForm|size.RuleDisableUnit); err != nil || s != 1024 {
		t.Errorf("unit-less string: %d, %v", s, err)
	}
}
