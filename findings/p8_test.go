package triage

import (
	"testing"

	"go.lstv.dev/util/size"
)

func TestP8_zeroDisables(t *testing.T) {
	old := size.MaxObjectKeys
	defer func() { size.MaxObjectKeys = old }()
	size.MaxObjectKeys = 0 // documented: "Set 0 to disable this setting"
	s, err := size.DefaultParser(`{"value":1,"unit":"KiB"}`, size.RuleEnableJSONObjectForm)
	if err != nil || s != 1024 {
		t.Fatalf("MaxObjectKeys=0: got %d, %v", s, err)
	}
}

func TestP8_orderIndependent(t *testing.T) {
	old := size.MaxObjectKeys
	defer func() { size.MaxObjectKeys = old }()
	size.MaxObjectKeys = 2
	_, e1 := size.DefaultParser(`{"a":0,"value":1,"unit":"B"}`, size.RuleEnableJSONObjectForm)
	_, e2 := size.DefaultParser(`{"value":1,"unit":"B","a":0}`, size.RuleEnableJSONObjectForm)
	if (e1 == nil) != (e2 == nil) {
		t.Fatalf("verdict depends on member order: %v vs %v", e1, e2)
	}
	if e1 == nil {
		t.Fatalf("3 members accepted with MaxObjectKeys=2")
	}
}
