package triage

import (
	"testing"

	"go.lstv.dev/util/roman"
)

// The parser is documented as case-insensitive: the value must not depend on letter case.
func TestP3(t *testing.T) {
	for _, c := range []struct {
		in   string
		want roman.Number
	}{{"d", 500}, {"D", 500}, {"mdclxvi", 1666}, {"MDCLXVI", 1666}, {"iv", 4}, {"ix", 9}, {"xl", 40}, {"cm", 900}, {"viii", 8}, {"lxxx", 80}} {
		got, err := roman.DefaultParser(c.in, 0)
		if err != nil || got != c.want {
			t.Errorf("%q = %d, %v; want %d", c.in, got, err, c.want)
		}
	}
}
