package triage

import (
	"testing"

	"go.lstv.dev/util/size"
)

// Input that is not exactly one well-formed JSON value must be rejected.
func TestP7(t *testing.T) {
	r := size.RuleEnableJSONStringForm | size.RuleEnableJSONObjectForm
	for _, in := range []string{
		`1 x`,
		`1 2`,
		`"1KiB" "2KiB"`,
		`{"value":1,"unit":"B"`,
		`{"value":1,"unit":"B"} trailing`,
		`{"value":1,"unit":"B"}}`,
	} {
		if s, err := size.DefaultParser(in, r); err == nil {
			t.Errorf("%q accepted as %d", in, s)
		}
	}
	var s size.Size
	if err := s.UnmarshalJSON([]byte(`{"value":1,"unit":"KiB"`)); err == nil {
		t.Errorf("UnmarshalJSON accepted a truncated object: %d", s)
	}
}
