package triage

import (
	"testing"

	"go.lstv.dev/util/date"
)

// UnmarshalBinary must never yield a value that is not a real calendar date.
func TestP2(t *testing.T) {
	for _, in := range [][]byte{
		{1, 0, 0, 7, 230, 13, 32},
		{1, 0, 0, 7, 229, 2, 30},
		{1, 0, 0, 7, 229, 0, 1},
		{1, 0, 0, 7, 229, 1, 0},
		{1, 0, 0, 7, 229, 255, 255},
	} {
		var d date.Date
		if err := d.UnmarshalBinary(in); err == nil {
			t.Errorf("%v accepted as %s", in, d)
		}
	}
	want := date.New(2021, 2, 28)
	b, _ := want.MarshalBinary()
	var d date.Date
	if err := d.UnmarshalBinary(b); err != nil || !d.Equal(want) {
		t.Errorf("round trip: %v %s", err, d)
	}
}
