// Package lang is a decision procedure for regular languages given as Go
// regexp patterns: subset construction over the rune partition induced by all
// patterns of a Space, products, emptiness with shortest witnesses, and word
// counting. It never runs a regexp against an input; it reasons about the
// compiled automaton (regexp/syntax.Prog), which is what package regexp executes.
package lang

import (
	"fmt"
	"regexp/syntax"
	"sort"
	"strings"
	"unicode"
)

// MaxStates bounds every automaton; beyond it the question is undecided, never true.
const MaxStates = 50000

// D is a complete DFA over the classes of its Space. State 0 is initial.
type D struct {
	Trans  [][]int
	Accept []bool
}

func (d *D) States() int { return len(d.Trans) }

// Space is a common alphabet partition for a set of patterns.
type Space struct {
	lo     []rune  // lowest rune of class i
	rep    []rune  // a readable representative of class i
	Weight []int64 // number of runes in class i
}

func (s *Space) Classes() int { return len(s.lo) }

func parse(pat string) (*syntax.Regexp, error) {
	re, err := syntax.Parse(pat, syntax.Perl)
	if err != nil {
		return nil, err
	}
	return re, nil
}

// compileSearch compiles pat with the semantics of (*regexp.Regexp).Match: the input contains a match.
func compileSearch(pat string) (*syntax.Prog, error) {
	if _, err := parse(pat); err != nil {
		return nil, err
	}
	re, err := parse(`(?s:.*)(?:` + pat + `)(?s:.*)`)
	if err != nil {
		return nil, err
	}
	p, err := syntax.Compile(re.Simplify())
	if err != nil {
		return nil, err
	}
	for _, in := range p.Inst {
		if in.Op == syntax.InstEmptyWidth {
			if op := syntax.EmptyOp(in.Arg); op&(syntax.EmptyWordBoundary|syntax.EmptyNoWordBoundary|syntax.EmptyBeginLine|syntax.EmptyEndLine) != 0 {
				return nil, fmt.Errorf("pattern %q uses a word-boundary or line anchor, outside the supported subset", pat)
			}
		}
	}
	return p, nil
}

func boundaries(ps []*syntax.Prog) []rune {
	set := map[rune]bool{0: true}
	add := func(lo, hi rune) {
		set[lo] = true
		if hi < unicode.MaxRune {
			set[hi+1] = true
		}
	}
	for _, p := range ps {
		for _, in := range p.Inst {
			switch in.Op {
			case syntax.InstRune, syntax.InstRune1:
				rs := in.Rune
				if len(rs) == 1 {
					add(rs[0], rs[0])
					if syntax.Flags(in.Arg)&syntax.FoldCase != 0 {
						for r := unicode.SimpleFold(rs[0]); r != rs[0]; r = unicode.SimpleFold(r) {
							add(r, r)
						}
					}
					continue
				}
				for i := 0; i+1 < len(rs); i += 2 {
					add(rs[i], rs[i+1])
					if syntax.Flags(in.Arg)&syntax.FoldCase != 0 && rs[i+1]-rs[i] < 256 {
						for c := rs[i]; c <= rs[i+1]; c++ {
							for r := unicode.SimpleFold(c); r != c; r = unicode.SimpleFold(r) {
								add(r, r)
							}
						}
					}
				}
			case syntax.InstRuneAny, syntax.InstRuneAnyNotNL:
				add('\n', '\n')
			}
		}
	}
	var out []rune
	for r := range set {
		out = append(out, r)
	}
	sort.Slice(out, func(i, j int) bool { return out[i] < out[j] })
	return out
}

// Build compiles every pattern (search semantics, as regexp.Match) into a DFA over one common Space.
func Build(patterns ...string) (*Space, []*D, error) {
	var progs []*syntax.Prog
	for _, pat := range patterns {
		p, err := compileSearch(pat)
		if err != nil {
			return nil, nil, err
		}
		progs = append(progs, p)
	}
	lo := boundaries(progs)
	sp := &Space{lo: lo, rep: make([]rune, len(lo)), Weight: make([]int64, len(lo))}
	const nice = "01239aAbBzZ-.+v_ "
	for i, r := range lo {
		hi := rune(unicode.MaxRune)
		if i+1 < len(lo) {
			hi = lo[i+1] - 1
		}
		sp.Weight[i] = int64(hi-r) + 1
		sp.rep[i] = r
		for _, c := range nice {
			if c >= r && c <= hi {
				sp.rep[i] = c
				break
			}
		}
		if sp.rep[i] == r && (r < 0x21 || r == 0x7f) {
			for c := rune(0x21); c <= hi && c < 0x7f; c++ {
				if c >= r {
					sp.rep[i] = c
					break
				}
			}
		}
	}
	var ds []*D
	for _, p := range progs {
		d, err := subset(p, lo)
		if err != nil {
			return nil, nil, err
		}
		ds = append(ds, d)
	}
	return sp, ds, nil
}

func closure(p *syntax.Prog, pcs []uint32, atBegin, atEnd bool) []uint32 {
	seen := map[uint32]bool{}
	var out []uint32
	var visit func(pc uint32)
	visit = func(pc uint32) {
		if seen[pc] {
			return
		}
		seen[pc] = true
		in := p.Inst[pc]
		switch in.Op {
		case syntax.InstAlt, syntax.InstAltMatch:
			visit(in.Out)
			visit(in.Arg)
		case syntax.InstNop, syntax.InstCapture:
			visit(in.Out)
		case syntax.InstEmptyWidth:
			need := syntax.EmptyOp(in.Arg)
			var have syntax.EmptyOp
			if atBegin {
				have |= syntax.EmptyBeginText
			}
			if atEnd {
				have |= syntax.EmptyEndText
			}
			if need&^have == 0 {
				visit(in.Out)
			}
		case syntax.InstFail:
		default:
			out = append(out, pc)
		}
	}
	for _, pc := range pcs {
		visit(pc)
	}
	sort.Slice(out, func(i, j int) bool { return out[i] < out[j] })
	return out
}

func key(pcs []uint32, begin bool) string {
	var sb strings.Builder
	if begin {
		sb.WriteByte('B')
	}
	for _, p := range pcs {
		fmt.Fprintf(&sb, "%d,", p)
	}
	return sb.String()
}

func subset(p *syntax.Prog, reps []rune) (*D, error) {
	d := &D{}
	states := map[string]int{}
	var front [][]uint32
	var begin []bool
	add := func(f []uint32, b bool) int {
		k := key(f, b)
		if id, ok := states[k]; ok {
			return id
		}
		id := len(front)
		states[k] = id
		front = append(front, f)
		begin = append(begin, b)
		d.Trans = append(d.Trans, nil)
		acc := false
		for _, pc := range closure(p, f, b, true) {
			if p.Inst[pc].Op == syntax.InstMatch {
				acc = true
			}
		}
		d.Accept = append(d.Accept, acc)
		return id
	}
	add([]uint32{uint32(p.Start)}, true)
	for i := 0; i < len(front); i++ {
		if len(front) > MaxStates {
			return nil, fmt.Errorf("automaton exceeds %d states", MaxStates)
		}
		cl := closure(p, front[i], begin[i], false)
		row := make([]int, len(reps))
		for ci, r := range reps {
			var next []uint32
			for _, pc := range cl {
				in := p.Inst[pc]
				switch in.Op {
				case syntax.InstRune, syntax.InstRune1, syntax.InstRuneAny, syntax.InstRuneAnyNotNL:
					if in.MatchRune(r) {
						next = append(next, in.Out)
					}
				}
			}
			sort.Slice(next, func(a, b int) bool { return next[a] < next[b] })
			var dd []uint32
			for j, x := range next {
				if j == 0 || x != next[j-1] {
					dd = append(dd, x)
				}
			}
			row[ci] = add(dd, false)
		}
		d.Trans[i] = row
	}
	return d, nil
}

// Product builds the product automaton with acceptance f(a accepts, b accepts).
func (s *Space) Product(a, b *D, f func(x, y bool) bool) *D {
	type pair struct{ x, y int }
	idx := map[pair]int{{0, 0}: 0}
	order := []pair{{0, 0}}
	out := &D{}
	nc := s.Classes()
	for i := 0; i < len(order); i++ {
		p := order[i]
		row := make([]int, nc)
		for c := 0; c < nc; c++ {
			np := pair{a.Trans[p.x][c], b.Trans[p.y][c]}
			id, ok := idx[np]
			if !ok {
				id = len(order)
				idx[np] = id
				order = append(order, np)
			}
			row[c] = id
		}
		out.Trans = append(out.Trans, row)
		out.Accept = append(out.Accept, f(a.Accept[p.x], b.Accept[p.y]))
	}
	return out
}

func (s *Space) And(a, b *D) *D    { return s.Product(a, b, func(x, y bool) bool { return x && y }) }
func (s *Space) Or(a, b *D) *D     { return s.Product(a, b, func(x, y bool) bool { return x || y }) }
func (s *Space) AndNot(a, b *D) *D { return s.Product(a, b, func(x, y bool) bool { return x && !y }) }
func (s *Space) Xor(a, b *D) *D    { return s.Product(a, b, func(x, y bool) bool { return x != y }) }

// Not complements a DFA (it is complete).
func (s *Space) Not(a *D) *D {
	out := &D{Trans: a.Trans, Accept: make([]bool, len(a.Accept))}
	for i, v := range a.Accept {
		out.Accept[i] = !v
	}
	return out
}

// Witness returns a shortest accepted word (ties broken by class order), or ok=false if the language is empty.
func (s *Space) Witness(d *D) (string, bool) {
	type item struct {
		st   int
		path []rune
	}
	seen := map[int]bool{0: true}
	q := []item{{0, nil}}
	for len(q) > 0 {
		it := q[0]
		q = q[1:]
		if d.Accept[it.st] {
			return string(it.path), true
		}
		for c := range s.lo {
			ns := d.Trans[it.st][c]
			if !seen[ns] {
				seen[ns] = true
				q = append(q, item{ns, append(append([]rune{}, it.path...), s.rep[c])})
			}
		}
	}
	return "", false
}

// Empty reports whether d accepts nothing.
func (s *Space) Empty(d *D) bool {
	_, ok := s.Witness(d)
	return !ok
}

// Subset decides L(a) ⊆ L(b); on failure it returns a shortest word of L(a) \ L(b).
func (s *Space) Subset(a, b *D) (bool, string) {
	w, ok := s.Witness(s.AndNot(a, b))
	return !ok, w
}

// Equal decides L(a) = L(b); on failure it returns a shortest distinguishing word and which side accepts it.
func (s *Space) Equal(a, b *D) (bool, string, string) {
	w, ok := s.Witness(s.Xor(a, b))
	if !ok {
		return true, "", ""
	}
	if s.Accepts(a, w) {
		return false, w, "first"
	}
	return false, w, "second"
}

// Accepts runs the DFA over word (used only on witnesses produced by the procedure itself and on
// literals read from the tree, never on enumerated inputs).
func (s *Space) Accepts(d *D, word string) bool {
	st := 0
	for _, r := range word {
		st = d.Trans[st][s.classOf(r)]
	}
	return d.Accept[st]
}

func (s *Space) classOf(r rune) int {
	i := sort.Search(len(s.lo), func(i int) bool { return s.lo[i] > r })
	return i - 1
}

// Count returns the number of accepted words of exactly n runes.
func (s *Space) Count(d *D, n int) int64 {
	cur := make([]int64, len(d.Trans))
	cur[0] = 1
	for step := 0; step < n; step++ {
		nx := make([]int64, len(d.Trans))
		for st, v := range cur {
			if v == 0 {
				continue
			}
			for c := range s.lo {
				nx[d.Trans[st][c]] += v * s.Weight[c]
			}
		}
		cur = nx
	}
	var tot int64
	for st, v := range cur {
		if d.Accept[st] {
			tot += v
		}
	}
	return tot
}

// MinLen returns the length of a shortest accepted word, or -1.
func (s *Space) MinLen(d *D) int {
	w, ok := s.Witness(d)
	if !ok {
		return -1
	}
	return len([]rune(w))
}

func (d *D) live() []bool {
	n := len(d.Trans)
	live := make([]bool, n)
	for changed := true; changed; {
		changed = false
		for st := 0; st < n; st++ {
			if live[st] {
				continue
			}
			if d.Accept[st] {
				live[st], changed = true, true
				continue
			}
			for _, t := range d.Trans[st] {
				if live[t] {
					live[st], changed = true, true
					break
				}
			}
		}
	}
	return live
}

// MaxLen returns the length of a longest accepted word, -1 if empty, or -2 if unbounded.
func (s *Space) MaxLen(d *D) int {
	n := len(d.Trans)
	live := d.live()
	if !live[0] {
		return -1
	}
	memo := make([]int, n)
	state := make([]int, n) // 0 new, 1 on stack, 2 done
	unbounded := false
	var rec func(st int) int
	rec = func(st int) int {
		if state[st] == 1 {
			unbounded = true
			return 0
		}
		if state[st] == 2 {
			return memo[st]
		}
		state[st] = 1
		best := -1
		if d.Accept[st] {
			best = 0
		}
		for _, t := range d.Trans[st] {
			if !live[t] {
				continue
			}
			if v := rec(t); v >= 0 && v+1 > best {
				best = v + 1
			}
		}
		state[st] = 2
		memo[st] = best
		return best
	}
	r := rec(0)
	if unbounded {
		return -2
	}
	return r
}

// CaptureSub returns the source text of capture group k of pat, re-printed by regexp/syntax (which keeps
// the flags in effect at that point).
func CaptureSub(pat string, k int) (string, error) {
	re, err := parse(pat)
	if err != nil {
		return "", err
	}
	var found *syntax.Regexp
	var walk func(r *syntax.Regexp)
	walk = func(r *syntax.Regexp) {
		if r.Op == syntax.OpCapture && r.Cap == k {
			found = r.Sub[0]
		}
		for _, s := range r.Sub {
			walk(s)
		}
	}
	walk(re)
	if found == nil {
		return "", fmt.Errorf("pattern has no capture group %d", k)
	}
	return found.String(), nil
}

// NumCap returns the number of capture groups of pat.
func NumCap(pat string) (int, error) {
	re, err := parse(pat)
	if err != nil {
		return 0, err
	}
	return re.MaxCap(), nil
}

// Alphabet returns the runes < 128 that occur in some accepted word of d.
func (s *Space) Alphabet(d *D) string {
	n := len(d.Trans)
	reach := make([]bool, n)
	reach[0] = true
	for changed := true; changed; {
		changed = false
		for st := 0; st < n; st++ {
			if !reach[st] {
				continue
			}
			for _, t := range d.Trans[st] {
				if !reach[t] {
					reach[t], changed = true, true
				}
			}
		}
	}
	live := d.live()
	used := make([]bool, len(s.lo))
	for st := 0; st < n; st++ {
		if !reach[st] {
			continue
		}
		for c, t := range d.Trans[st] {
			if live[t] {
				used[c] = true
			}
		}
	}
	var sb strings.Builder
	for c, u := range used {
		if !u {
			continue
		}
		hi := rune(unicode.MaxRune)
		if c+1 < len(s.lo) {
			hi = s.lo[c+1] - 1
		}
		for r := s.lo[c]; r <= hi && r < 128; r++ {
			sb.WriteRune(r)
		}
	}
	return sb.String()
}

// PrefixLive reports whether some accepted word starts with prefix.
func (s *Space) PrefixLive(d *D, prefix string) bool {
	st := 0
	for _, r := range prefix {
		st = d.Trans[st][s.classOf(r)]
	}
	return d.live()[st]
}

// Skeleton renders the top-level shape of pat with the content of every capture group abstracted away: `<k>` for
// capture k, literal text as itself, `[x]` for an optional piece, `^` and `$` for the text anchors, `(?)` for any
// other piece that consumes input outside a capture, and `!op{…}` for a capture nested under an operator that lets it
// participate more than once or not at all (alternation, repetition). A matched text is the concatenation of its
// captures and the literals between them exactly when the skeleton is a plain sequence of these.
func Skeleton(pat string) (string, error) {
	re, err := parse(pat)
	if err != nil {
		return "", err
	}
	var hasCap func(r *syntax.Regexp) bool
	hasCap = func(r *syntax.Regexp) bool {
		if r.Op == syntax.OpCapture {
			return true
		}
		for _, s := range r.Sub {
			if hasCap(s) {
				return true
			}
		}
		return false
	}
	var render func(r *syntax.Regexp) string
	render = func(r *syntax.Regexp) string {
		switch r.Op {
		case syntax.OpConcat:
			var sb strings.Builder
			for _, s := range r.Sub {
				sb.WriteString(render(s))
			}
			return sb.String()
		case syntax.OpCapture:
			if hasCap(r.Sub[0]) {
				return fmt.Sprintf("<%d:%s>", r.Cap, render(r.Sub[0]))
			}
			return fmt.Sprintf("<%d>", r.Cap)
		case syntax.OpLiteral:
			s := string(r.Rune)
			if r.Flags&syntax.FoldCase != 0 {
				s = "(?i:" + s + ")"
			}
			return s
		case syntax.OpQuest:
			return "[" + render(r.Sub[0]) + "]"
		case syntax.OpAlternate:
			if len(r.Sub) == 2 {
				for i := range r.Sub {
					if r.Sub[i].Op == syntax.OpEmptyMatch {
						return "[" + render(r.Sub[1-i]) + "]"
					}
				}
			}
		case syntax.OpBeginText:
			return "^"
		case syntax.OpEndText:
			return "$"
		case syntax.OpEmptyMatch:
			return ""
		}
		if hasCap(r) {
			var parts []string
			for _, s := range r.Sub {
				parts = append(parts, render(s))
			}
			return "!" + r.Op.String() + "{" + strings.Join(parts, "|") + "}"
		}
		return "(?)"
	}
	return render(re), nil
}

// Words lists every word d accepts, if the language is finite, has at most limit words and every rune class on an
// accepting path holds a single rune (so that the listing is the language itself, not a sample of it).
func (s *Space) Words(d *D, limit int) ([]string, bool) {
	live := d.live()
	var out []string
	onPath := map[int]bool{}
	ok := true
	var walk func(st int, path []rune)
	walk = func(st int, path []rune) {
		if !ok {
			return
		}
		if onPath[st] {
			ok = false // a cycle through a live state: infinitely many words
			return
		}
		if d.Accept[st] {
			out = append(out, string(path))
			if len(out) > limit {
				ok = false
				return
			}
		}
		onPath[st] = true
		for c := range s.lo {
			ns := d.Trans[st][c]
			if !live[ns] {
				continue
			}
			if s.Weight[c] != 1 {
				ok = false
				break
			}
			walk(ns, append(append([]rune{}, path...), s.lo[c]))
		}
		onPath[st] = false
	}
	if live[0] {
		walk(0, nil)
	}
	sort.Strings(out)
	return out, ok
}
