package lang

import (
	"fmt"
	"regexp/syntax"
	"sort"
	"strings"
	"unicode"
)

// --- DFA over rune classes from regexp/syntax.Prog ---

type nfa struct {
	prog *syntax.Prog
}

func compile(pat string) *syntax.Prog {
	re, err := syntax.Parse(pat, syntax.Perl)
	if err != nil {
		panic(err)
	}
	re = re.Simplify()
	p, err := syntax.Compile(re)
	if err != nil {
		panic(err)
	}
	return p
}

// boundaries collects rune boundaries used by the prog
func boundaries(ps ...*syntax.Prog) []rune {
	set := map[rune]bool{0: true}
	for _, p := range ps {
		for _, in := range p.Inst {
			switch in.Op {
			case syntax.InstRune, syntax.InstRune1:
				rs := in.Rune
				if len(rs) == 1 {
					rs = []rune{rs[0], rs[0]}
					if syntax.Flags(in.Arg)&syntax.FoldCase != 0 {
						for r := unicode.SimpleFold(rs[0]); r != rs[0]; r = unicode.SimpleFold(r) {
							set[r] = true
							set[r+1] = true
						}
					}
				}
				for i := 0; i+1 < len(rs); i += 2 {
					set[rs[i]] = true
					set[rs[i+1]+1] = true
				}
			case syntax.InstRuneAny, syntax.InstRuneAnyNotNL:
				set['\n'] = true
				set['\n'+1] = true
			}
		}
	}
	var out []rune
	for r := range set {
		if r <= unicode.MaxRune {
			out = append(out, r)
		}
	}
	sort.Slice(out, func(i, j int) bool { return out[i] < out[j] })
	return out // representative of class i is out[i]
}

type state struct {
	pcs   []uint32
	begun bool
}

func key(pcs []uint32) string {
	var sb strings.Builder
	for _, p := range pcs {
		fmt.Fprintf(&sb, "%d,", p)
	}
	return sb.String()
}

// closure follows Alt/Nop/Capture/EmptyWidth (given context flags) from pcs
func closure(p *syntax.Prog, pcs []uint32, atBegin, atEnd bool) []uint32 {
	seen := map[uint32]bool{}
	var out []uint32
	var visit func(pc uint32)
	visit = func(pc uint32) {
		if seen[pc] {
			return
		}
		seen[pc] = true
		in := p.Inst[pc]
		switch in.Op {
		case syntax.InstAlt, syntax.InstAltMatch:
			visit(in.Out)
			visit(in.Arg)
		case syntax.InstNop, syntax.InstCapture:
			visit(in.Out)
		case syntax.InstEmptyWidth:
			need := syntax.EmptyOp(in.Arg)
			var have syntax.EmptyOp
			if atBegin {
				have |= syntax.EmptyBeginText | syntax.EmptyBeginLine
			}
			if atEnd {
				have |= syntax.EmptyEndText | syntax.EmptyEndLine
			}
			if need&^have == 0 {
				visit(in.Out)
			}
			// word boundaries / line anchors mid-text unsupported: treated as failing
		case syntax.InstFail:
		default:
			out = append(out, pc)
		}
	}
	for _, pc := range pcs {
		visit(pc)
	}
	sort.Slice(out, func(i, j int) bool { return out[i] < out[j] })
	return out
}

// DFA state: set of pcs *before* applying end-closure. We keep raw pcs (post-closure with atEnd=false),
// acceptance is determined by closure with atEnd=true from the raw "frontier".
type dfa struct {
	p      *syntax.Prog
	reps   []rune
	states map[string]int
	front  [][]uint32 // frontier (pre-closure pcs) per state
	begin  []bool
	trans  [][]int
	accept []bool
}

func build(p *syntax.Prog, reps []rune) *dfa {
	d := &dfa{p: p, reps: reps, states: map[string]int{}}
	add := func(front []uint32, begin bool) int {
		k := key(front)
		if begin {
			k = "B" + k
		}
		if id, ok := d.states[k]; ok {
			return id
		}
		id := len(d.front)
		d.states[k] = id
		d.front = append(d.front, front)
		d.begin = append(d.begin, begin)
		d.trans = append(d.trans, nil)
		acc := false
		for _, pc := range closure(p, front, begin, true) {
			if p.Inst[pc].Op == syntax.InstMatch {
				acc = true
			}
		}
		d.accept = append(d.accept, acc)
		return id
	}
	add([]uint32{uint32(p.Start)}, true)
	for i := 0; i < len(d.front); i++ {
		cl := closure(p, d.front[i], d.begin[i], false)
		row := make([]int, len(reps))
		for ci, r := range reps {
			var next []uint32
			for _, pc := range cl {
				in := p.Inst[pc]
				switch in.Op {
				case syntax.InstRune, syntax.InstRune1, syntax.InstRuneAny, syntax.InstRuneAnyNotNL:
					if in.MatchRune(r) {
						next = append(next, in.Out)
					}
				}
			}
			sort.Slice(next, func(a, b int) bool { return next[a] < next[b] })
			// dedupe
			var dd []uint32
			for j, x := range next {
				if j == 0 || x != next[j-1] {
					dd = append(dd, x)
				}
			}
			row[ci] = add(dd, false)
		}
		d.trans[i] = row
	}
	return d
}

// compare returns a witness string in A\B or B\A, or "" if equal.
func diff(a, b *dfa, reps []rune) (string, string) {
	type pair struct{ x, y int }
	type item struct {
		p    pair
		path string
	}
	seen := map[pair]bool{{0, 0}: true}
	q := []item{{pair{0, 0}, ""}}
	for len(q) > 0 {
		it := q[0]
		q = q[1:]
		if a.accept[it.p.x] != b.accept[it.p.y] {
			if a.accept[it.p.x] {
				return it.path, "A-only"
			}
			return it.path, "B-only"
		}
		for ci, r := range reps {
			np := pair{a.trans[it.p.x][ci], b.trans[it.p.y][ci]}
			if !seen[np] {
				seen[np] = true
				q = append(q, item{np, it.path + string(r)})
			}
		}
	}
	return "", ""
}

const (
	digitPattern           = `[0-9]`
	digitsPattern          = digitPattern + `+`
	nonDigitPattern        = `[A-Za-z\-]`
	identPattern           = `[0-9A-Za-z\-]`
	numIdentPattern        = `0|[1-9][0-9]*`
	alphanumIdentPattern   = `(?:` + identPattern + `*` + nonDigitPattern + identPattern + `*)`
	versionCorePattern     = `(` + numIdentPattern + `)\.(` + numIdentPattern + `)\.(` + numIdentPattern + `)`
	preReleasePattern      = preReleaseIdentPattern + `(?:\.` + preReleaseIdentPattern + `)*`
	preReleaseIdentPattern = `(?:` + alphanumIdentPattern + `|(?:` + numIdentPattern + `))`
	buildPattern           = buildIdentPattern + `(?:\.` + buildIdentPattern + `)*`
	buildIdentPattern      = `(?:` + alphanumIdentPattern + `|` + digitsPattern + `)`
	semverPattern          = `^` + versionCorePattern + `(?:\-(` + preReleasePattern + `))?(?:\+(` + buildPattern + `))?$`
)

func check(name, pa, pb string) {
	A, B := compile(pa), compile(pb)
	reps := boundaries(A, B)
	da, db := build(A, reps), build(B, reps)
	w, side := diff(da, db, reps)
	fmt.Printf("%s: classes=%d statesA=%d statesB=%d witness=%q %s\n", name, len(reps), len(da.front), len(db.front), w, side)
}

// ---- generic DFA ops on explicit tables ----
type D struct {
	n      int
	trans  [][]int
	accept []bool
}

func fromDfa(d *dfa) *D { return &D{len(d.front), d.trans, d.accept} }

func product(a, b *D, nc int, f func(x, y bool) bool) *D {
	type pair struct{ x, y int }
	idx := map[pair]int{{0, 0}: 0}
	order := []pair{{0, 0}}
	out := &D{}
	for i := 0; i < len(order); i++ {
		p := order[i]
		row := make([]int, nc)
		for c := 0; c < nc; c++ {
			np := pair{a.trans[p.x][c], b.trans[p.y][c]}
			id, ok := idx[np]
			if !ok {
				id = len(order)
				idx[np] = id
				order = append(order, np)
			}
			row[c] = id
		}
		out.trans = append(out.trans, row)
		out.accept = append(out.accept, f(a.accept[p.x], b.accept[p.y]))
	}
	out.n = len(order)
	return out
}

func witness(d *D, reps []rune) (string, bool) {
	type item struct {
		s    int
		path string
	}
	seen := map[int]bool{0: true}
	q := []item{{0, ""}}
	for len(q) > 0 {
		it := q[0]
		q = q[1:]
		if d.accept[it.s] {
			return it.path, true
		}
		for c, r := range reps {
			ns := d.trans[it.s][c]
			if !seen[ns] {
				seen[ns] = true
				q = append(q, item{ns, it.path + string(r)})
			}
		}
	}
	return "", false
}

// count words of length n, weighting each class by its number of ASCII members we care about
func count(d *D, reps []rune, n int, weight []int) int64 {
	cur := make([]int64, d.n)
	cur[0] = 1
	for step := 0; step < n; step++ {
		nx := make([]int64, d.n)
		for s, v := range cur {
			if v == 0 {
				continue
			}
			for c := range reps {
				nx[d.trans[s][c]] += v * int64(weight[c])
			}
		}
		cur = nx
	}
	var tot int64
	for s, v := range cur {
		if d.accept[s] {
			tot += v
		}
	}
	return tot
}

func two(pred func(int) bool) string {
	var alts []string
	for i := 0; i < 100; i++ {
		if pred(i) {
			alts = append(alts, fmt.Sprintf("%02d", i))
		}
	}
	return "(?:" + strings.Join(alts, "|") + ")"
}

func dateLang() {
	pat := `^([0-9]{4,9})-?(1[0-2]|0[0-9])-?(3[01]|[0-2][0-9])$`
	Dg := `[0-9]`
	mult4 := two(func(i int) bool { return i%4 == 0 && i != 0 })
	mult4z := two(func(i int) bool { return i%4 == 0 })
	nmult4 := two(func(i int) bool { return i%4 != 0 })
	leap := `(?:` + Dg + `{2,7}` + mult4 + `|` + Dg + `{0,5}` + mult4z + `00)`
	nonleap := `(?:` + Dg + `{2,7}` + nmult4 + `|` + Dg + `{0,5}` + nmult4 + `00)`
	years := Dg + `{4,9}`
	d31 := two(func(i int) bool { return i >= 1 && i <= 31 })
	d30 := two(func(i int) bool { return i >= 1 && i <= 30 })
	d29 := two(func(i int) bool { return i >= 1 && i <= 29 })
	d28 := two(func(i int) bool { return i >= 1 && i <= 28 })
	real := func(sep string) string {
		return `(?:` + years + sep + `(?:01|03|05|07|08|10|12)` + sep + d31 + `|` + years + sep + `(?:04|06|09|11)` + sep + d30 + `|` + leap + sep + `02` + sep + d29 + `|` + nonleap + sep + `02` + sep + d28 + `)`
	}
	realPat := `^(?:` + real("-") + `|` + real("") + `)$`
	shapePat := `^[0-9]{4,9}(?:-[0-9]{2}-[0-9]{2}|[0-9]{4})$`
	// end-offset predicates
	p3 := `^[\x00-\x{10FFFF}]*-[\x00-\x{10FFFF}]{2}$`
	p5 := `^[\x00-\x{10FFFF}]*-[\x00-\x{10FFFF}]{4}$`
	p6 := `^[\x00-\x{10FFFF}]*-[\x00-\x{10FFFF}]{5}$`
	progs := []*syntax.Prog{compile(pat), compile(realPat), compile(shapePat), compile(p3), compile(p5), compile(p6), compile(`^` + leap + `$`), compile(`^` + nonleap + `$`), compile(`^` + years + `$`)}
	reps := boundaries(progs...)
	var ds []*D
	for _, p := range progs {
		ds = append(ds, fromDfa(build(p, reps)))
	}
	nc := len(reps)
	and := func(x, y bool) bool { return x && y }
	or := func(x, y bool) bool { return x || y }
	andnot := func(x, y bool) bool { return x && !y }
	P, Real, Shape, P3, P5, P6, Leap, NonLeap, Years := ds[0], ds[1], ds[2], ds[3], ds[4], ds[5], ds[6], ds[7], ds[8]
	// oracle self-checks
	w, ok := witness(product(Leap, NonLeap, nc, and), reps)
	fmt.Println("leap∩nonleap nonempty:", ok, w)
	w, ok = witness(product(product(Leap, NonLeap, nc, or), Years, nc, func(x, y bool) bool { return x != y }), reps)
	fmt.Println("leap∪nonleap != years:", ok, w)
	weight := make([]int, nc)
	for c, r := range reps {
		hi := rune(0x110000)
		if c+1 < nc {
			hi = reps[c+1]
		}
		weight[c] = int(hi - r)
	}
	fmt.Println("real words of length 10:", count(Real, reps, 10, weight), "length 8:", count(Real, reps, 8, weight))
	// accepted layout language: (P3&&P6) || (!P3&&!P5)
	ext := product(product(P, P3, nc, and), P6, nc, and)
	basic := product(product(P, P3, nc, andnot), P5, nc, andnot)
	acc := product(ext, basic, nc, or)
	fmt.Println("states: P", P.n, "Real", Real.n, "acc", acc.n)
	w, ok = witness(product(acc, Shape, nc, andnot), reps)
	fmt.Println("acc \\ shape:", ok, w)
	w, ok = witness(product(Real, acc, nc, andnot), reps)
	fmt.Println("real \\ acc:", ok, w)
	w, ok = witness(product(acc, Real, nc, andnot), reps)
	fmt.Printf("acc \\ real: %v %q\n", ok, w)
	// mixed layouts rejected?
	mixed := product(P, acc, nc, andnot)
	w, ok = witness(mixed, reps)
	fmt.Printf("pattern \\ acc (half-separated forms rejected by code): %v %q\n", ok, w)
}

func main() {
	dateLang()

	official := `^(0|[1-9]\d*)\.(0|[1-9]\d*)\.(0|[1-9]\d*)(?:-((?:0|[1-9]\d*|\d*[a-zA-Z-][0-9a-zA-Z-]*)(?:\.(?:0|[1-9]\d*|\d*[a-zA-Z-][0-9a-zA-Z-]*))*))?(?:\+([0-9a-zA-Z-]+(?:\.[0-9a-zA-Z-]+)*))?$`
	check("semver", semverPattern, official)
	check("semver-mut", strings.Replace(semverPattern, `[1-9][0-9]*)\.(`, `[0-9][0-9]*)\.(`, 1), official)
	check("roman", `(?i)^(M*)(D?C{0,4}|CD|CM)(L?X{0,4}|XL|XC)(V?I{0,4}|IV|IX)$`, `^[Mm]*(?:[Dd]?[Cc]{0,4}|[Cc][Dd]|[Cc][Mm])(?:[Ll]?[Xx]{0,4}|[Xx][Ll]|[Xx][Cc])(?:[Vv]?[Ii]{0,4}|[Ii][Vv]|[Ii][Xx])$`)
	check("date-vs-shape", `^([0-9]{4,9})-?(1[0-2]|0[0-9])-?(3[01]|[0-2][0-9])$`, `^[0-9]{4,9}(?:-(?:1[0-2]|0[1-9])-(?:3[01]|[12][0-9]|0[1-9])|(?:1[0-2]|0[1-9])(?:3[01]|[12][0-9]|0[1-9]))$`)
}
