package props

import (
	"utilcheck/flow"
)

func init() {
	register(&Prop{
		ID:    "C09",
		Title: "Date parser accepts only real calendar dates and keeps their components",
		Run:   runC09,
		Explanation: "C09.layout: the end-relative separator tests of date.DefaultParser are turned into a decision table over (byte at len-3 is '-', len-5, len-6, RuleDisableBasic); the accepted layout language L_acc = pattern ∩ (continue valuations) is computed on the DFA of the regexp constant and must satisfy L_acc ⊆ D{4,9}-DD-DD ∪ D{4,9}DDDD (no half-separated form) and Real ⊆ L_acc, Real being the checker's own real-calendar-date language (Gregorian leap rule over decimal digits, self-checked by counting 3 652 425 words of length 8). " +
			"C09.valid: either L_acc ⊆ Real, or the month and day decoded from captures 2,3 pass, before the success return, a calendar-validity guard comparing them with components of the normalised construction (New/time.Date round trip), failing edge returning a parse error; otherwise the shortest word of L_acc \\ Real is reported. " +
			"C09.comp: captures 1,2,3 flow through strconv.Atoi into New(year, month, day) in that order. S-ERRZERO, S-WRAP, C18.L for package date.",
		NotDecided:  []string{"time.Date∘Time.Date is the identity on real dates (trusted summary)", "a validity guard written as an explicit days-in-month table is outside the enumerated idioms and would be reported undecided"},
		Assumptions: []string{"time.Date normalises out-of-range components and is the identity on in-range ones", "strconv.Atoi is exact on digit strings of at most 9 digits"},
		Technique:   "regular-language inclusion on DFAs + taint/sanitizer dominator rule over go/ssa",
	})
}

func runC09(e *Env) {
	dp := e.Fn("C09.valid", "date", "DefaultParser")
	if dp != nil {
		e.Flow(func(c *flow.Ctx) { c.RuleCalendarParser(dp) })
	}
	e.S.Floor("C09.valid", 1)
	ruleErrZero(e, "C09.errzero", "date")
	ruleWrap(e, "C09.wrap", "date")
	ruleLimit(e, "C09.limit", "date")
	e.S.Floor("C09.errzero", 5)
	e.S.Floor("C09.wrap", 5)
	e.S.Floor("C09.limit", 4)
}
