package props

import (
	"fmt"
	"go/constant"
	"sort"
	"strings"

	"utilcheck/flow"
	"utilcheck/lang"
	"utilcheck/pred"

	"golang.org/x/tools/go/ssa"
)

func init() {
	register(&Prop{
		ID:    "C09",
		Title: "Date parser accepts only real calendar dates and keeps their components",
		Run:   runC09,
		Explanation: "C09.layout: the end-relative separator tests of date.DefaultParser are turned into a decision table over (byte at len-3 is '-', len-5, len-6, RuleDisableBasic); the accepted layout language L_acc = pattern ∩ (continue valuations) is computed on the DFA of the regexp constant and must satisfy L_acc ⊆ D{4,9}-DD-DD ∪ D{4,9}DDDD (no half-separated form) and Real ⊆ L_acc, Real being the checker's own real-calendar-date language (Gregorian leap rule over decimal digits, self-checked by counting 3 652 425 words of length 8). " +
			"C09.valid / C09.comp: DefaultParser evaluated on a text of the extended layout with the match returning opaque captures, Atoi(capture k) an opaque number, New and Date()/Year()/Month()/Day() uninterpreted; the comparisons between a component of New(…) and a parsed number are the atoms of a decision tree: the value accepted is New(num 1, num 2, num 3), and it is accepted exactly on the valuation where year, month and day were each compared with the number of the matching capture and found equal — every other valuation ends in an error, and an accepting valuation that never asked about a component is a violation. " +
			"Under RuleDisableBasic no text of the basic layout reaches another outcome than ErrBasicFormatDisabled, also on the failing side of the calendar guard (a second table extracted with the guard failing: the rule is decided before the calendar). S-ERRZERO, S-WRAP, C18.L for package date. The guard tree is extracted for the extended and basic layouts with 4- and 9-digit years and with RuleDisableBasic clear and set (basic layout under the rule: no accepting valuation); the skeleton of date.pattern is ^<1>[-]<2>[-]<3>$." +
			" C09.paths: the Scan obligations of C07.deleg (a time.Time and nothing else) and the late-entry rule filed here: every path by which a text becomes a date is the decided parser or hands its text to it unchanged.",
		NotDecided:  []string{"time.Date∘Time.Date is the identity on real dates (trusted summary)", "a validity guard written as an explicit days-in-month table is outside the enumerated idioms and would be reported undecided"},
		Assumptions: []string{"time.Date normalises out-of-range components and is the identity on in-range ones", "strconv.Atoi is exact on digit strings of at most 9 digits"},
		Technique:   "regular-language inclusion on DFAs + taint/sanitizer dominator rule over go/ssa",
	})
}

func runC09(e *Env) {
	ruleC09Layout(e)
	// the calendar guard compares against New(...): New must be the UTC construction, FromTime the plain decoding
	ruleNewDeleg(e, "C09.new")
	if a := newDateAbs(e); a != nil {
		ruleFromTime(e, "C09.new", a)
	}
	e.S.Floor("C09.new", 7)
	ruleC09Sem(e)
	e.S.Floor("C09.comp", 1)
	e.S.Floor("C09.valid", 1)
	ruleNoMatchRejects(e, "C09.reject", e.Fn("C09.reject", "date", "DefaultParser"))
	e.S.Floor("C09.reject", 1)
	ruleErrZero(e, "C09.errzero", "date")
	ruleWrap(e, "C09.wrap", "date")
	ruleLimitAccept(e, "C09.limit", "date")
	ruleTyped(e, "C09.typed", "date")
	e.S.Floor("C09.typed", 1)
	e.S.Floor("C09.errzero", 5)
	e.S.Floor("C09.wrap", 5)
	e.S.Floor("C09.limit", 2)
	// "the date parser" is every path by which a text becomes a date: besides DefaultParser (above) and UnmarshalText
	// (which hands its bytes whole to the Parser: C01/C18 delegation), Scan — it takes a time.Time and nothing else;
	// a text-taking function added beside them delegates unchanged or is undecided
	ruleScanPath(e, "C09.paths")
	ruleLateEntriesDelegate(e, "C09.paths", "date", "Date")
	e.S.Floor("C09.paths", 2)
}

// ---------------------------------------------------------------------------
// C09.layout / C01.lang: accepted layout language of the date parser

func two(pred func(int) bool) string {
	var alts []string
	for i := 0; i < 100; i++ {
		if pred(i) {
			alts = append(alts, fmt.Sprintf("%02d", i))
		}
	}
	return "(?:" + strings.Join(alts, "|") + ")"
}

// realDateLanguage builds the checker's own language of existing calendar days, for the separator sep ("-" or "").
// The Gregorian leap rule is regular over decimal digits: a year is leap iff its last two digits are a non-zero
// multiple of 4, or they are 00 and the two digits before them are a multiple of 4.
func realDateLanguage(sep string) (real, leap, nonleap, years string) {
	dg := `[0-9]`
	mult4 := two(func(i int) bool { return i%4 == 0 && i != 0 })
	mult4z := two(func(i int) bool { return i%4 == 0 })
	nmult4 := two(func(i int) bool { return i%4 != 0 })
	leap = `(?:` + dg + `{2,7}` + mult4 + `|` + dg + `{0,5}` + mult4z + `00)`
	nonleap = `(?:` + dg + `{2,7}` + nmult4 + `|` + dg + `{0,5}` + nmult4 + `00)`
	years = dg + `{4,9}`
	d31 := two(func(i int) bool { return i >= 1 && i <= 31 })
	d30 := two(func(i int) bool { return i >= 1 && i <= 30 })
	d29 := two(func(i int) bool { return i >= 1 && i <= 29 })
	d28 := two(func(i int) bool { return i >= 1 && i <= 28 })
	real = `(?:` + years + sep + `(?:01|03|05|07|08|10|12)` + sep + d31 + `|` + years + sep + `(?:04|06|09|11)` + sep + d30 + `|` + leap + sep + `02` + sep + d29 + `|` + nonleap + sep + `02` + sep + d28 + `)`
	return
}

type dateLayout struct {
	sp                       *lang.Space
	acc0, acc1, disabled     *lang.D // accepted with rule bit clear / set; rejected with ErrBasicFormatDisabled (bit set)
	other1                   *lang.D // rejected with any other error although the rule bit is set
	realExt, realBasic, real *lang.D
	pattern                  *lang.D
	leaves                   int
	extra                    []*lang.D // DFAs of the caller's extra patterns, in the same space
}

// dateLayoutLanguages extracts the layout decision table of date.DefaultParser and turns it into languages.
func dateLayoutLanguages(e *Env, rule string, extra ...string) *dateLayout {
	return dateLayoutLanguagesG(e, rule, true, extra...)
}

// dateLayoutLanguagesG: guardPasses selects the side of the calendar round-trip guard the table is extracted for
// (true: the written day exists; false: it does not, every leaf is then a rejection).
func dateLayoutLanguagesG(e *Env, rule string, guardPasses bool, extra ...string) *dateLayout {
	dp := e.Fn(rule, "date", "DefaultParser")
	if dp == nil {
		return nil
	}
	site := flow.FnName(dp)
	pat, ok := e.pattern(rule, "date", "pattern")
	if !ok {
		return nil
	}
	fixed := func(a, b pred.Val) (int, bool, bool) {
		as, bs := a.String(), b.String()
		switch {
		case as == "len(input)" && bs == "0":
			return 1, true, true // non-empty input
		case dateLimitOn && as == "*date.MaxInputLength" && bs == "0":
			return 1, true, true // limit raised: set, and the text within it
		case dateLimitOn && as == "len(input)" && bs == "*date.MaxInputLength":
			return -1, true, true
		case dateLimitOn && as == "*date.MaxInputLength" && bs == "len(input)":
			return 1, true, true
		case as == "*date.MaxInputLength" && bs == "0":
			return 0, true, true // limit disabled: the guard is C18.L's business
		case as == "len(input)" && bs == "*date.MaxInputLength":
			return 1, true, true // a non-empty text against the disabled limit (0): longer, and not rejected
		case as == "*date.MaxInputLength" && bs == "len(input)":
			return -1, true, true
		case (strings.HasPrefix(as, "len((*regexp.Regexp).FindSubmatch(") || strings.HasPrefix(as, "len((*regexp.Regexp).FindStringSubmatch(")) && bs == "0":
			return 1, true, true // the pattern matched
		case (strings.HasPrefix(as, "(*regexp.Regexp).FindSubmatch(") || strings.HasPrefix(as, "(*regexp.Regexp).FindStringSubmatch(")) && bs == "nil":
			return 1, true, true // `parts == nil`: the same test
		case strings.Contains(as, "#") && strings.Contains(bs, "strconv.Atoi"), strings.Contains(bs, "#") && strings.Contains(as, "strconv.Atoi"),
			strings.Contains(as, "New(") && strings.Contains(bs, "strconv.Atoi"), strings.Contains(bs, "New(") && strings.Contains(as, "strconv.Atoi"):
			if !guardPasses {
				return 1, true, true
			}
			return 0, true, true // calendar round-trip guard passes (decided by C09.valid)
		}
		return 0, false, false
	}
	keyOf := func(a, b pred.Val) (string, bool) {
		// a length pre-filter (`l < 8`, `l > 15`): the length of the input against a constant is an atom with three orders
		if a.String() == "len(input)" {
			if c, ok := b.(pred.Const); ok && c.V != nil && c.V.Kind() == constant.Int {
				if k, exact := constant.Int64Val(c.V); exact && k > 0 && k < 64 {
					return fmt.Sprintf("len?%d", k), true
				}
			}
		}
		if el, ok := a.(pred.Elem); ok && el.Base.String() == "input" {
			if af, ok := el.Index.(pred.Affine); ok && af.X.String() == "len(input)" && af.C < 0 {
				if c, ok := b.(pred.Const); ok && c.V != nil {
					return fmt.Sprintf("byte@%d==%s", -af.C, c.V.ExactString()), true
				}
			}
			// absolute offset from the start
			if ic, ok := el.Index.(pred.Const); ok && ic.V != nil {
				if c, ok := b.(pred.Const); ok && c.V != nil {
					return fmt.Sprintf("byte@+%s==%s", ic.V.ExactString(), c.V.ExactString()), true
				}
			}
		}
		if bits, ok := a.(pred.Bits); ok {
			if c, ok := b.(pred.Const); ok && c.V != nil && c.V.ExactString() == "0" {
				var idx []string
				for i, bit := range bits.B {
					switch bit.K {
					case 's':
						if bit.Sym != "r" || bit.Idx != i {
							return "", false
						}
						idx = append(idx, fmt.Sprint(i))
					case '0':
					default:
						return "", false
					}
				}
				return "rule&bits(" + strings.Join(idx, ",") + ")", true
			}
		}
		return "", false
	}
	domain := func(key string) []int {
		if strings.HasPrefix(key, "len?") {
			return []int{-1, 0, 1}
		}
		return []int{0, 1} // equal / different
	}
	sums := map[string]pred.Summary{
		"go.lstv.dev/util/date.New": func(ev *pred.Evaluator, args []pred.Val) (pred.Val, error) {
			return pred.Term{Fn: "New", Args: args}, nil
		},
		"(go.lstv.dev/util/date.Date).Date": func(ev *pred.Evaluator, args []pred.Val) (pred.Val, error) {
			return pred.Tuple{pred.Term{Fn: "Date#0", Args: args}, pred.Term{Fn: "Date#1", Args: args}, pred.Term{Fn: "Date#2", Args: args}}, nil
		},
		"(go.lstv.dev/util/date.Date).Equal": func(ev *pred.Evaluator, args []pred.Val) (pred.Val, error) {
			return pred.Const{V: constant.MakeBool(guardPasses)}, nil
		},
	}
	newInlined(sums, func(a []pred.Val) pred.Val { return pred.Term{Fn: "New", Args: a} })
	for k, acc := range []string{"Year", "Month", "Day"} {
		k := k
		if _, has := sums["(go.lstv.dev/util/date.Date)."+acc]; !has {
			sums["(go.lstv.dev/util/date.Date)."+acc] = func(ev *pred.Evaluator, args []pred.Val) (pred.Val, error) {
				return pred.Term{Fn: fmt.Sprintf("Date#%d", k), Args: args[:1]}, nil
			}
		}
	}
	mk := func() []pred.Val { return []pred.Val{pred.Sym{Name: "input"}, pred.Sym{Name: "r"}} }
	leaves, err := extractTree(e.P.SSA, dp, mk, sums, fixed, keyOf, domain)
	if err != nil {
		e.S.Unk(rule, site, "layout table", "decision table not extractable: "+err.Error(), e.Pos(dp))
		return nil
	}
	// atoms → languages
	offsets := map[string]bool{}
	ruleKey := ""
	lenKeys := map[string]bool{}
	for _, l := range leaves {
		for k := range l.Assign {
			if strings.HasPrefix(k, "len?") {
				lenKeys[k] = true
			} else if strings.HasPrefix(k, "byte@") {
				offsets[k] = true
			} else {
				if ruleKey != "" && ruleKey != k {
					e.S.Unk(rule, site, "layout table", "more than one rule-bit atom: "+ruleKey+", "+k, e.Pos(dp))
					return nil
				}
				ruleKey = k
			}
		}
	}
	var offKeys []string
	for k := range offsets {
		offKeys = append(offKeys, k)
	}
	sort.Strings(offKeys)
	any := `[\x00-\x{10FFFF}]`
	pats := []string{pat}
	for _, k := range offKeys {
		var off int
		var c int
		if strings.HasPrefix(k, "byte@+") {
			if _, err := fmt.Sscanf(k, "byte@+%d==%d", &off, &c); err != nil || off < 0 || c < 0 || c > 127 {
				e.S.Unk(rule, site, "layout table", "unsupported atom "+k, e.Pos(dp))
				return nil
			}
			pats = append(pats, fmt.Sprintf(`^%s{%d}\x{%02x}%s*$`, any, off, c, any))
			continue
		}
		if _, err := fmt.Sscanf(k, "byte@%d==%d", &off, &c); err != nil || off < 1 || c < 0 || c > 127 {
			e.S.Unk(rule, site, "layout table", "unsupported atom "+k, e.Pos(dp))
			return nil
		}
		pats = append(pats, fmt.Sprintf(`^%s*\x{%02x}%s{%d}$`, any, c, any, off-1))
	}
	var lenKeyList []string
	for k := range lenKeys {
		lenKeyList = append(lenKeyList, k)
	}
	sort.Strings(lenKeyList)
	lenBase := len(pats)
	for _, k := range lenKeyList {
		var n int
		fmt.Sscanf(k, "len?%d", &n)
		// the words of the pattern are ASCII, so byte length and rune length agree on everything intersected with it
		pats = append(pats, fmt.Sprintf(`^%s{0,%d}$`, any, n-1), fmt.Sprintf(`^%s{%d}$`, any, n), fmt.Sprintf(`^%s{%d,}$`, any, n+1))
	}
	rExt, _, _, _ := realDateLanguage("-")
	rBasic, leap, nonleap, years := realDateLanguage("")
	base := len(pats)
	pats = append(pats, `^`+rExt+`$`, `^`+rBasic+`$`, `^`+leap+`$`, `^`+nonleap+`$`, `^`+years+`$`)
	pats = append(pats, extra...)
	sp, ds, err := lang.Build(pats...)
	if err != nil {
		e.S.Unk(rule, site, "automaton", "language not decidable by the supported subset: "+err.Error(), e.Pos(dp))
		return nil
	}
	atomD := map[string]*lang.D{}
	for i, k := range offKeys {
		atomD[k] = ds[1+i]
	}
	lenD := map[string][3]*lang.D{}
	for i, k := range lenKeyList {
		lenD[k] = [3]*lang.D{ds[lenBase+3*i], ds[lenBase+3*i+1], ds[lenBase+3*i+2]}
	}
	out := &dateLayout{sp: sp, pattern: ds[0], realExt: ds[base], realBasic: ds[base+1], leaves: len(leaves), extra: ds[base+5:]}
	out.real = sp.Or(out.realExt, out.realBasic)
	// oracle self-checks
	Leap, NonLeap, Years := ds[base+2], ds[base+3], ds[base+4]
	if !sp.Empty(sp.And(Leap, NonLeap)) || !sp.Empty(sp.Xor(sp.Or(Leap, NonLeap), Years)) {
		e.S.Unk(rule, "(oracle)", "self-check", "leap / non-leap year languages do not partition [0-9]{4,9}: checker defect", "")
		return nil
	}
	n8, n10 := sp.Count(out.real, 8), sp.Count(out.real, 10)
	if n8 != 3652425 || n10 != 3652425*101 {
		e.S.Unk(rule, "(oracle)", "self-check", fmt.Sprintf("real-calendar-date oracle counts %d words of length 8 and %d of length 10, expected 3652425 and 368894925: checker defect", n8, n10), "")
		return nil
	}
	e.S.Ok(rule, "(oracle)", "self-check", fmt.Sprintf("real-date oracle: leap/non-leap partition the years; %d words of length 8 (years 0000-9999, basic) and %d of length 10, as the calendar demands; %d DFA states", n8, n10, out.real.States()), "")
	empty := sp.AndNot(ds[0], ds[0])
	out.acc0, out.acc1, out.disabled, out.other1 = empty, empty, empty, empty
	for _, l := range leaves {
		if l.Err != nil {
			e.S.Unk(rule, site, "layout table", fmt.Sprintf("valuation {%s} not decided: %v", l, l.Err), e.Pos(dp))
			return nil
		}
		L := ds[0]
		for k, v := range l.Assign {
			if strings.HasPrefix(k, "len?") {
				L = sp.And(L, lenD[k][v+1])
				continue
			}
			if !strings.HasPrefix(k, "byte@") {
				continue
			}
			if v == 0 {
				L = sp.And(L, atomD[k])
			} else {
				L = sp.AndNot(L, atomD[k])
			}
		}
		kind := classifyDateOutcome(l.Out)
		if kind == "?" {
			e.S.Unk(rule, site, "layout table", fmt.Sprintf("valuation {%s}: unrecognised outcome %v", l, l.Out.Ret), e.Pos(dp))
			return nil
		}
		bitStates := []int{0, 1} // rule atom: 0 = masked bits equal 0 (flag clear), 1 = flag set
		if v, has := l.Assign[ruleKey]; has && ruleKey != "" {
			bitStates = []int{v}
		}
		for _, bs := range bitStates {
			switch {
			case kind == "accept" && bs == 0:
				out.acc0 = sp.Or(out.acc0, L)
			case kind == "accept" && bs == 1:
				out.acc1 = sp.Or(out.acc1, L)
			case kind == "ErrBasicFormatDisabled" && bs == 1:
				out.disabled = sp.Or(out.disabled, L)
			case kind == "ErrBasicFormatDisabled" && bs == 0:
				e.S.Bad(rule, site, "layout table", fmt.Sprintf("valuation {%s} rejects with ErrBasicFormatDisabled although RuleDisableBasic is not set", l), e.Pos(dp), "")
			case bs == 1:
				out.other1 = sp.Or(out.other1, L)
			}
		}
	}
	if ruleKey != "rule&bits(0)" {
		e.S.Bad(rule, site, "rule bit", "the basic-format gate does not test exactly RuleDisableBasic (bit 0) of the rule argument: "+ruleKey, e.Pos(dp), "")
	}
	return out
}

func classifyDateOutcome(o *pred.Outcome) string {
	t, ok := o.Ret.(pred.Tuple)
	if !ok || len(t) != 2 {
		return "?"
	}
	if c, ok := t[1].(pred.Const); ok && c.V == nil {
		return "accept"
	}
	ifc, ok := t[1].(pred.Iface)
	if !ok {
		return "?"
	}
	p, ok := ifc.V.(pred.Ptr)
	if !ok || p.Cell == nil {
		return "?"
	}
	s, ok := p.Cell.V.(*pred.StructV)
	if !ok || len(s.Fields) != 3 {
		return "?"
	}
	switch errv := s.Fields[2].(type) {
	case pred.Const:
		if errv.V == nil {
			return "reject"
		}
	case pred.Sym:
		if errv.Name == "*date.ErrBasicFormatDisabled" {
			return "ErrBasicFormatDisabled"
		}
		return "reject:" + errv.Name
	}
	return "reject:other"
}

func ruleC09Layout(e *Env) {
	const rule = "C09.layout"
	dl := dateLayoutLanguages(e, rule, `^[0-9]{4,9}-[0-9]{2}-[0-9]{2}$`, `^[0-9]{4,9}[0-9]{4}$`)
	if dl == nil {
		return
	}
	sp := dl.sp
	shapeExt, shapeBasic := dl.extra[0], dl.extra[1]
	site := "date.DefaultParser"
	e.S.Ok(rule, site, "layout table", fmt.Sprintf("%d abstract valuations of the separator tests and the rule bit extracted", dl.leaves), "")
	e.langSubset(rule, site, "no half-separated form (rule clear)", sp, dl.acc0, sp.Or(shapeExt, shapeBasic), "accepted layouts", "D{4,9}-DD-DD ∪ D{4,9}DDDD")
	e.langSubset(rule, site, "every real date accepted (rule clear)", sp, dl.real, dl.acc0, "real calendar dates", "accepted layouts")
	e.langSubset(rule, site, "extended only (RuleDisableBasic)", sp, dl.acc1, shapeExt, "accepted layouts under RuleDisableBasic", "D{4,9}-DD-DD")
	e.langSubset(rule, site, "every real extended date accepted (RuleDisableBasic)", sp, dl.realExt, dl.acc1, "real dates, extended layout", "accepted layouts under RuleDisableBasic")
	e.langSubset(rule, site, "basic → ErrBasicFormatDisabled", sp, dl.realBasic, dl.disabled, "real dates, basic layout", "texts rejected with ErrBasicFormatDisabled under RuleDisableBasic")
	e.langSubset(rule, site, "ErrBasicFormatDisabled only for the basic layout", sp, dl.disabled, shapeBasic, "texts rejected with ErrBasicFormatDisabled", "D{4,9}DDDD")
	// "the basic form is rejected with its dedicated error when disabled": no text of the basic layout reaches another
	// outcome under the rule, also when the written day does not exist (the table extracted for the failing side of the
	// calendar guard): the rule is decided before the calendar
	e.langSubset(rule, site, "basic layout under RuleDisableBasic gets no other error", sp, sp.And(dl.other1, shapeBasic), sp.AndNot(shapeBasic, shapeBasic), "basic-layout texts rejected with another error under RuleDisableBasic", "∅")
	if df := dateLayoutLanguagesG(e, rule, false, `^[0-9]{4,9}[0-9]{4}$`); df != nil {
		e.langSubset(rule, site, "basic layout under RuleDisableBasic gets no other error (day does not exist)", df.sp, df.sp.And(df.other1, df.extra[0]), df.sp.AndNot(df.extra[0], df.extra[0]), "basic-layout texts of a non-existing day rejected with another error under RuleDisableBasic", "∅")
		if _, some := df.sp.Witness(df.sp.Or(df.acc0, df.acc1)); some {
			e.S.Bad(rule, site, "guard side", "a text is accepted on the failing side of the calendar guard", e.Pos(e.F("date", "DefaultParser")), "20210230")
		}
	}
	// what the regexp alone lets through beyond real dates must be stopped by the calendar guard (C09.valid)
	if w, some := sp.Witness(sp.AndNot(dl.acc0, dl.real)); some {
		e.S.Ok(rule, site, "needs calendar guard", fmt.Sprintf("the layout language alone contains non-dates (shortest: %q); rejecting them is the job of the guard checked by C09.valid", w), "")
	} else {
		e.S.Ok(rule, site, "needs calendar guard", "the layout language contains real dates only", "")
	}
}

// ruleC09Sem: the date parser's construction and calendar guard, decided on its decision tree instead of its shape.
// DefaultParser is evaluated on an input of the extended layout (YYYY-MM-DD, within the limit, flags clear) with
// the match returning opaque captures, strconv.Atoi(capture k) an opaque number num(k), New and Date()/Year()/
// Month()/Day() uninterpreted. The comparisons between a component of New(...) and a parsed number are the atoms:
//
//	C09.comp  — the value accepted is New(num(1), num(2), num(3));
//	C09.valid — it is accepted only on the valuation where year, month and day of the constructed date were each
//	            compared with the number parsed from the matching capture and found equal; every other valuation
//	            ends in an error. Helpers, early exits and the order of the three comparisons do not matter.
func ruleC09Sem(e *Env) {
	dp := e.Fn("C09.valid", "date", "DefaultParser")
	if dp == nil {
		return
	}
	e.skeleton("C09.comp", "date", "pattern", "^<1>[-]<2>[-]<3>$")
	comp := func(k int) pred.Summary {
		return func(ev *pred.Evaluator, args []pred.Val) (pred.Val, error) {
			return pred.Term{Fn: fmt.Sprintf("Date#%d", k), Args: args[:1]}, nil
		}
	}
	sums := map[string]pred.Summary{
		"go.lstv.dev/util/date.New": func(ev *pred.Evaluator, args []pred.Val) (pred.Val, error) {
			return pred.Term{Fn: "New", Args: args}, nil
		},
		"(go.lstv.dev/util/date.Date).Date": func(ev *pred.Evaluator, args []pred.Val) (pred.Val, error) {
			return pred.Tuple{pred.Term{Fn: "Date#0", Args: args}, pred.Term{Fn: "Date#1", Args: args}, pred.Term{Fn: "Date#2", Args: args}}, nil
		},
		"(go.lstv.dev/util/date.Date).Year":  comp(0),
		"(go.lstv.dev/util/date.Date).Month": comp(1),
		"(go.lstv.dev/util/date.Date).Day":   comp(2),
		"strconv.Atoi": func(ev *pred.Evaluator, args []pred.Val) (pred.Val, error) {
			return pred.Tuple{pred.Term{Fn: "num", Args: args}, pred.Const{}}, nil
		},
	}
	newInlined(sums, func(a []pred.Val) pred.Val { return pred.Term{Fn: "New", Args: a} })
	for k, acc := range []string{"Year", "Month", "Day"} {
		k := k
		if _, has := sums["(go.lstv.dev/util/date.Date)."+acc]; !has {
			sums["(go.lstv.dev/util/date.Date)."+acc] = func(ev *pred.Evaluator, args []pred.Val) (pred.Val, error) {
				return pred.Term{Fn: fmt.Sprintf("Date#%d", k), Args: args[:1]}, nil
			}
		}
	}
	for _, n := range []string{"(*regexp.Regexp).FindSubmatch", "(*regexp.Regexp).FindStringSubmatch"} {
		sums[n] = func(ev *pred.Evaluator, args []pred.Val) (pred.Val, error) {
			sv := &pred.SliceV{}
			for i := 0; i < 4; i++ {
				sv.Elems = append(sv.Elems, &pred.Cell{V: pred.Sym{Name: fmt.Sprintf("cap%d", i)}, Name: "capture"})
			}
			return sv, nil
		}
	}
	// the offset form: start and end of the same captures (subject[start:end] is the capture again)
	for _, n := range []string{"(*regexp.Regexp).FindSubmatchIndex", "(*regexp.Regexp).FindStringSubmatchIndex"} {
		sums[n] = func(ev *pred.Evaluator, args []pred.Val) (pred.Val, error) {
			sv := &pred.SliceV{}
			for i := 0; i < 4; i++ {
				for _, end := range []bool{false, true} {
					sv.Elems = append(sv.Elems, &pred.Cell{V: pred.Offset{Cap: pred.Sym{Name: fmt.Sprintf("cap%d", i)}, End: end}, Name: "offset"})
				}
			}
			return sv, nil
		}
	}
	basicBit, _ := tabConstInt(e, "date", "RuleDisableBasic")
	// the tree is extracted once per layout (only the length and the positions of '-' matter) and rule setting:
	// the construction and the guard must not depend on the number of year digits or on the separators
	for _, vr := range []struct {
		name, layout string
		ruleSet      bool
		limitOn      bool
	}{
		{"", "0000-00-00", false, false},
		{" (basic)", "00000000", false, false},
		{" (9-digit year)", "000000000-00-00", false, false},
		{" (9-digit year, basic)", "0000000000000", false, false},
		{" (RuleDisableBasic)", "0000-00-00", true, false},
		{" (9-digit year, RuleDisableBasic)", "000000000-00-00", true, false},
		{" (basic, RuleDisableBasic)", "00000000", true, false},
		// the limit raised instead of disabled: set, the text within it — what lies behind `MaxInputLength != 0 && …`
		{" (limit raised)", "0000-00-00", false, true},
		{" (9-digit year, limit raised)", "000000000-00-00", false, true},
		{" (9-digit year, basic, limit raised)", "0000000000000", false, true},
	} {
		dateLimitOn = vr.limitOn
		ruleC09SemOn(e, dp, sums, vr.name, vr.layout, vr.ruleSet, basicBit)
	}
	dateLimitOn = false
	// the year widths in between (a branch taken for 5 to 8 year digits only is entered in none of the readings above)
	for w := 5; w <= 8; w++ {
		y := strings.Repeat("0", w)
		ruleC09SemOn(e, dp, sums, fmt.Sprintf(" (%d-digit year)", w), y+"-00-00", false, basicBit)
		ruleC09SemOn(e, dp, sums, fmt.Sprintf(" (%d-digit year, basic)", w), y+"0000", false, basicBit)
	}
}

// dateLimitOn selects the world the date parser's tables are extracted in: false — MaxInputLength is 0 (disabled);
// true — it is set and the text lies within it.
var dateLimitOn bool

func ruleC09SemOn(e *Env, dp *ssa.Function, sums map[string]pred.Summary, vname, layout string, ruleSet bool, basicBit int64) {
	site := flow.FnName(dp)
	pos := e.Pos(dp)
	fixed := func(a, b pred.Val) (int, bool, bool) {
		as, bs := a.String(), b.String()
		c, isC := b.(pred.Const)
		switch {
		case dateLimitOn && as == "*date.MaxInputLength" && bs == "0":
			return 1, true, true
		case dateLimitOn && as == "len(input)" && bs == "*date.MaxInputLength":
			return -1, true, true
		case dateLimitOn && as == "*date.MaxInputLength" && bs == "len(input)":
			return 1, true, true
		case as == "*date.MaxInputLength" && bs == "0":
			return 0, true, true
		case as == "len(input)" && bs == "*date.MaxInputLength":
			return 1, true, true // a non-empty text against the disabled limit (0): longer, and not rejected
		case as == "*date.MaxInputLength" && bs == "len(input)":
			return -1, true, true
		case as == "len(input)" && isC && c.V != nil && c.V.Kind() == constant.Int:
			k, _ := constant.Int64Val(c.V)
			return sgn(len(layout) - int(k)), true, true
		}
		if el, ok := a.(pred.Elem); ok && el.Base.String() == "input" && isC && c.V != nil {
			off := -1
			if af, ok := el.Index.(pred.Affine); ok && af.X.String() == "len(input)" && af.C < 0 {
				off = len(layout) + int(af.C)
			} else if ic, ok := el.Index.(pred.Const); ok && ic.V != nil {
				if k, exact := constant.Int64Val(ic.V); exact {
					off = int(k)
				}
			}
			if off >= 0 && off < len(layout) {
				want, _ := constant.Int64Val(c.V)
				return sgn(int(layout[off]) - int(want)), true, true
			}
		}
		if bits, ok := a.(pred.Bits); ok && bs == "0" {
			for _, bit := range bits.B {
				if bit.K == '1' {
					return 1, true, true
				}
			}
			return 0, true, true // rule flags clear
		}
		return 0, false, false
	}
	guardOf := func(v pred.Val) (int, bool) { // component k of New(…)
		t, ok := v.(pred.Term)
		// … of the date that is accepted: the construction from the three parsed numbers (a guard on New(year, month, 1)
		// and New(year, January, day) lets 30 February through as 2 March)
		if !ok || !strings.HasPrefix(t.Fn, "Date#") || len(t.Args) != 1 || t.Args[0].String() != "New(num(cap1),num(cap2),num(cap3))" {
			return 0, false
		}
		return int(t.Fn[len("Date#")] - '0'), true
	}
	numOf := func(v pred.Val) (int, bool) { // num(capJ)
		t, ok := v.(pred.Term)
		if !ok || t.Fn != "num" || len(t.Args) != 1 {
			return 0, false
		}
		s := t.Args[0].String()
		if !strings.HasPrefix(s, "cap") || len(s) != 4 {
			return 0, false
		}
		return int(s[3] - '0'), true
	}
	keyOf := func(a, b pred.Val) (string, bool) {
		for _, p := range [][2]pred.Val{{a, b}, {b, a}} {
			if k, ok := guardOf(p[0]); ok {
				if j, ok := numOf(p[1]); ok {
					return fmt.Sprintf("guard %d~%d", k, j), true
				}
			}
		}
		return "", false
	}
	mk := func() []pred.Val {
		if ruleSet {
			return []pred.Val{pred.Sym{Name: "input"}, pred.Const{V: constant.MakeInt64(basicBit)}}
		}
		return []pred.Val{pred.Sym{Name: "input"}, pred.Sym{Name: "r"}}
	}
	expectNone := ruleSet && !strings.Contains(layout, "-")
	leaves, err := extractTree(e.P.SSA, dp, mk, sums, fixed, keyOf, binDomain)
	if err != nil {
		e.S.Unk("C09.valid", site, "guard"+vname, "not evaluable: "+err.Error(), pos)
		return
	}
	names := []string{"year", "month", "day"}
	accepts, guardBad, compBad, und := 0, "", "", ""
	for _, lf := range leaves {
		if lf.Err != nil {
			und = lf.Err.Error()
			break
		}
		t, ok := lf.Out.Ret.(pred.Tuple)
		if !ok || len(t) != 2 {
			und = "unexpected result " + lf.Out.Ret.String()
			break
		}
		accepted := t[1].String() == "nil"
		allEqual, missing, foreign := true, "", ""
		for k := 0; k < 3; k++ {
			v, asked := lf.Assign[fmt.Sprintf("guard %d~%d", k, k+1)]
			if !asked {
				missing = names[k]
			} else if v != 0 {
				allEqual = false
			}
		}
		for key := range lf.Assign {
			var k, j int
			if n, _ := fmt.Sscanf(key, "guard %d~%d", &k, &j); n == 2 && j != k+1 {
				foreign = fmt.Sprintf("the %s of the constructed date is compared with the number of capture %d", names[k], j)
			}
		}
		switch {
		case foreign != "":
			guardBad = foreign
		case accepted && missing != "":
			guardBad = "a text is accepted without the " + missing + " of the constructed date having been compared with the parsed " + missing + ": time.Date normalises an impossible " + missing + " into another date"
		case accepted && !allEqual:
			guardBad = "a text is accepted although a component of the constructed date differs from the parsed one {" + lf.String() + "}"
		case !accepted && allEqual && missing == "":
			guardBad = "a date whose three components survive the construction unchanged is rejected {" + lf.String() + "}"
		}
		if accepted {
			accepts++
			if got, want := t[0].String(), "New(num(cap1),num(cap2),num(cap3))"; got != want {
				compBad = "the accepted value is " + got + ", documented " + want + " (year, month, day from captures 1, 2, 3)"
			}
		}
	}
	switch {
	case und != "":
		e.S.Unk("C09.valid", site, "guard"+vname, "not evaluable: "+und, pos)
		e.S.Unk("C09.comp", site, "construction"+vname, "not evaluable: "+und, pos)
		return
	case expectNone:
		if accepts > 0 {
			e.S.Bad("C09.valid", site, "guard"+vname, "a text of the basic layout is accepted although RuleDisableBasic is set", pos, "20210101")
		} else {
			e.S.Ok("C09.valid", site, "guard"+vname, "no valuation accepts a text of the basic layout under RuleDisableBasic", pos)
		}
		return
	case accepts == 0:
		guardBad = "no valuation accepts a text of this layout"
	}
	if guardBad != "" {
		e.S.Bad("C09.valid", site, "guard"+vname, guardBad, pos, "2021-02-30")
	} else {
		e.S.Ok("C09.valid", site, "guard"+vname, "accepted exactly when year, month and day of New(…) each equal the parsed numbers; every other valuation is an error", pos)
	}
	if compBad != "" {
		e.S.Bad("C09.comp", site, "construction"+vname, compBad, pos, "")
	} else if accepts > 0 {
		e.S.Ok("C09.comp", site, "construction"+vname, "accepted value = New(number of capture 1, of capture 2, of capture 3)", pos)
	}
}
