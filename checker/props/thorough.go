package props

import (
	"bufio"
	"bytes"
	"encoding/json"
	"fmt"
	"os"
	"os/exec"
	"path/filepath"
	"regexp"
	"sort"
	"strconv"
	"strings"

	"golang.org/x/tools/go/callgraph/cha"
	"golang.org/x/tools/go/callgraph/vta"
	"golang.org/x/tools/go/ssa"
	"golang.org/x/tools/go/ssa/ssautil"

	"utilcheck/core"
	"utilcheck/flow"
)

// Thorough adds the deeper cross-checks of the thorough tier to the report of property id:
//  1. VTA call graph as an independent cross-check of the reachable sets the path rules work on;
//  2. the compiler's own list of unproven bounds checks against the index obligations (C18);
//  3. the checker self-test: every seeded breaking change of this property (committed under /verif/seeded) is
//     applied to a scratch copy of the current tree and must make this property's check fire; every committed
//     behaviour-preserving variant must leave it silent.
func Thorough(e *Env, id string, rep *core.Report, repo, vdir string) {
	switch id {
	case "C17", "C18":
		thoroughVTA(e, id, rep)
	}
	if id == "C18" {
		thoroughBCE(e, rep, repo)
	}
	thoroughSelfTest(id, rep, repo, vdir)
}

func thoroughVTA(e *Env, id string, rep *core.Report) {
	roots := totalityRoots(e, "C18.T1")
	static := e.C.Reachable(roots...)
	all := ssautil.AllFunctions(e.P.SSA)
	cg := vta.CallGraph(all, cha.CallGraph(e.P.SSA))
	seen := map[*ssa.Function]bool{}
	var visit func(fn *ssa.Function)
	visit = func(fn *ssa.Function) {
		if fn == nil || seen[fn] {
			return
		}
		seen[fn] = true
		if !flow.InRepo(flow.Origin(fn)) {
			return // calls made by the standard library (fmt → Error/String/Format of any type) are not followed
		}
		if n := cg.Nodes[fn]; n != nil {
			for _, out := range n.Out {
				visit(out.Callee.Func)
			}
		}
	}
	// instantiations of the generic roots are separate nodes: start from every function whose origin is a root
	rootSet := map[*ssa.Function]bool{}
	for _, r := range roots {
		rootSet[flow.Origin(r)] = true
	}
	for fn := range all {
		if rootSet[flow.Origin(fn)] {
			visit(fn)
		}
	}
	missing := map[string]bool{}
	uniq := map[*ssa.Function]bool{}
	for fn := range seen {
		o := flow.Origin(fn)
		if !flow.InRepo(o) {
			continue
		}
		uniq[o] = true
		if !static[o] {
			missing[flow.FnName(o)] = true
		}
	}
	rule := id + ".vta"
	if len(missing) == 0 {
		rep.Obs = append(rep.Obs, core.Ob{Rule: rule, Site: "(call graph)", Construct: "reachable set", Status: core.Discharged,
			Msg: fmt.Sprintf("VTA call graph reaches %d in-module functions (generic bodies counted once) from the %d entry points, all inside the statically resolved set of %d the path rules analysed", len(uniq), len(roots), len(static))})
		return
	}
	var names []string
	for k := range missing {
		names = append(names, k)
	}
	sort.Strings(names)
	rep.Obs = append(rep.Obs, core.Ob{Rule: rule, Site: "(call graph)", Construct: "reachable set", Status: core.Undecided,
		Msg: "VTA reaches in-module functions the rules did not analyse (dynamic dispatch not resolved statically): " + strings.Join(names, ", ")})
}

var bceLine = regexp.MustCompile(`^(.+\.go):(\d+):(\d+): Found (IsInBounds|IsSliceInBounds)`)

// thoroughBCE: every bounds check the Go compiler itself could not prove away, inside a function of the
// totality closure, must be one of the index obligations the prover discharged (or reported).
func thoroughBCE(e *Env, rep *core.Report, repo string) {
	cmd := exec.Command("go", "build", "-a", "-gcflags=go.lstv.dev/util/...=-d=ssa/check_bce/debug=1", "./...")
	cmd.Dir = repo
	cache, err := os.MkdirTemp("", "utilcheck-bce-")
	if err == nil {
		defer os.RemoveAll(cache)
	}
	cmd.Env = append(os.Environ(), "GOFLAGS=-mod=mod", "GOPROXY=off", "GOSUMDB=off", "GOTOOLCHAIN=local", "GOWORK=off")
	var out bytes.Buffer
	cmd.Stderr = &out
	cmd.Stdout = &out
	if err := cmd.Run(); err != nil && !strings.Contains(out.String(), "Found Is") {
		rep.Broken = append(rep.Broken, "compiler bounds-check listing failed: "+err.Error()+": "+firstLines(out.String(), 3))
		return
	}
	// positions of the obligations of C18.T2
	have := map[string]bool{}
	for _, o := range rep.Obs {
		if o.Rule == "C18.T2" && o.Pos != "" {
			have[o.Pos] = true
		}
	}
	// functions of the closure by file:line range
	roots := totalityRoots(e, "C18.T1")
	type span struct {
		file     string
		from, to int
		name     string
	}
	var spans []span
	inlinedCall := map[string]bool{} // call sites of in-module callees: the compiler reports inlined checks there
	for fn := range e.C.Reachable(roots...) {
		for _, b := range fn.Blocks {
			for _, in := range b.Instrs {
				if call, ok := in.(*ssa.Call); ok {
					if callee := e.C.StaticCallee(&call.Call); callee != nil && flow.InRepo(callee) {
						pp := e.P.SSA.Fset.Position(call.Pos())
						inlinedCall[shortPos(pp.Filename, pp.Line)] = true
					}
				}
			}
		}
		if fn.Syntax() == nil {
			continue
		}
		p0, p1 := e.P.SSA.Fset.Position(fn.Syntax().Pos()), e.P.SSA.Fset.Position(fn.Syntax().End())
		spans = append(spans, span{p0.Filename, p0.Line, p1.Line, flow.FnName(fn)})
	}
	sites, inClosure, unmatched := 0, 0, []string{}
	sc := bufio.NewScanner(&out)
	for sc.Scan() {
		m := bceLine.FindStringSubmatch(sc.Text())
		if m == nil {
			continue
		}
		sites++
		file := m[1]
		if !filepath.IsAbs(file) {
			file = filepath.Join(repo, file)
		}
		line, _ := strconv.Atoi(m[2])
		for _, s := range spans {
			if s.file == file && line >= s.from && line <= s.to {
				inClosure++
				if !have[shortPos(file, line)] && !inlinedCall[shortPos(file, line)] {
					unmatched = append(unmatched, fmt.Sprintf("%s (%s)", shortPos(file, line), s.name))
				}
				break
			}
		}
	}
	if len(unmatched) == 0 {
		rep.Obs = append(rep.Obs, core.Ob{Rule: "C18.bce", Site: "(compiler)", Construct: "unproven bounds checks", Status: core.Discharged,
			Msg: fmt.Sprintf("the compiler lists %d unproven bounds checks in the module, %d of them inside the totality closure; each is an index obligation handled by the bound prover", sites, inClosure)})
	} else {
		sort.Strings(unmatched)
		rep.Obs = append(rep.Obs, core.Ob{Rule: "C18.bce", Site: "(compiler)", Construct: "unproven bounds checks", Status: core.Undecided,
			Msg: "the compiler keeps bounds checks at sites the index prover did not see: " + strings.Join(unmatched, ", ")})
	}
}

func firstLines(s string, n int) string {
	l := strings.Split(s, "\n")
	if len(l) > n {
		l = l[:n]
	}
	return strings.Join(l, " | ")
}

// ---------------------------------------------------------------------------
// self-test

type seedMeta struct {
	Property string   `json:"property"`
	Kind     string   `json:"kind"` // "breaking" | "silent" | "refactor"
	Fires    []string `json:"expected_to_fire"`
	What     string   `json:"what"`
	// refactor: behaviour-preserving change written by a sub-agent; the properties listed here are known to report it
	// (an idiom the rules do not recognise yet) — recorded imprecision, not an expectation
	KnownFalseAlarms []string `json:"known_false_alarms"`
	// a change that manifests only on another target (DEMO_GOARCH=386): the variant is analysed as loaded for that target
	DemoEnv map[string]string `json:"demo_env"`
}

func thoroughSelfTest(id string, rep *core.Report, repo, vdir string) {
	dirs, _ := filepath.Glob(filepath.Join(vdir, "seeded", "*"))
	sort.Strings(dirs)
	exe, err := os.Executable()
	if err != nil {
		rep.Broken = append(rep.Broken, "self-test: "+err.Error())
		return
	}
	ran, missed, falseAlarm, skipped := 0, []string{}, []string{}, []string{}
	knownImprecise, nowSilent := []string{}, []string{}
	for _, d := range dirs {
		b, err := os.ReadFile(filepath.Join(d, "meta.json"))
		if err != nil {
			continue
		}
		var m seedMeta
		if json.Unmarshal(b, &m) != nil {
			continue
		}
		// only the property a variant was written for: collateral firings of other properties are not required
		applies := m.Property == id
		if !applies {
			continue
		}
		scratch, err := os.MkdirTemp("", "utilcheck-selftest-")
		if err != nil {
			rep.Broken = append(rep.Broken, "self-test: "+err.Error())
			return
		}
		verdict := func() string {
			defer os.RemoveAll(scratch)
			// scratch copy of the current working tree (tracked and untracked sources, no .git)
			cp := exec.Command("rsync", "-a", "--exclude", ".git", repo+"/", scratch+"/")
			if out, err := cp.CombinedOutput(); err != nil {
				return "copy failed: " + string(out)
			}
			ap := exec.Command("patch", "-p1", "-s", "--no-backup-if-mismatch", "-i", filepath.Join(d, "patch.diff"))
			ap.Dir = scratch
			if out, err := ap.CombinedOutput(); err != nil {
				return "skipped: patch does not apply to the current tree (" + firstLines(string(out), 1) + ")"
			}
			run := exec.Command(exe, "-repo", scratch, "-verif", vdir, "-prop", id, "-tier", "quick", "-no-evidence")
			if arch := m.DemoEnv["DEMO_GOARCH"]; arch != "" {
				run.Env = append(os.Environ(), "GOARCH="+arch)
			}
			out, _ := run.CombinedOutput()
			fired := strings.Contains(string(out), "VIOLATION property="+id)
			if strings.Contains(string(out), "BROKEN") {
				return "broken: " + firstLines(string(out), 2)
			}
			if fired {
				return "fired"
			}
			return "silent"
		}()
		name := filepath.Base(d)
		ran++
		switch {
		case strings.HasPrefix(verdict, "skipped"):
			skipped = append(skipped, name)
			ran--
		case strings.HasPrefix(verdict, "copy failed"), strings.HasPrefix(verdict, "broken"):
			rep.Broken = append(rep.Broken, "self-test "+name+": "+verdict)
		case m.Kind == "refactor":
			known := false
			for _, k := range m.KnownFalseAlarms {
				if k == id {
					known = true
				}
			}
			switch {
			case verdict == "fired" && known:
				knownImprecise = append(knownImprecise, name)
			case verdict == "fired":
				falseAlarm = append(falseAlarm, name)
			case known:
				nowSilent = append(nowSilent, name)
			}
		case m.Kind == "silent" && verdict == "fired":
			falseAlarm = append(falseAlarm, name)
		case m.Kind != "silent" && verdict == "silent":
			missed = append(missed, name)
		}
	}
	rep.Extra["selftest_variants_run"] = ran
	rep.Extra["selftest_skipped_not_applicable"] = skipped
	rep.Extra["selftest_missed"] = missed
	rep.Extra["selftest_false_alarm"] = falseAlarm
	rep.Extra["selftest_refactorings_still_reported"] = knownImprecise
	rep.Extra["selftest_refactorings_silent_but_listed"] = nowSilent
	if len(missed) > 0 {
		rep.Broken = append(rep.Broken, "checker self-test: seeded breaking change(s) not detected by "+id+": "+strings.Join(missed, ", "))
	}
	if len(falseAlarm) > 0 {
		rep.Broken = append(rep.Broken, "checker self-test: behaviour-preserving variant(s) raise an alarm in "+id+": "+strings.Join(falseAlarm, ", "))
	}
	if ran > 0 && len(missed) == 0 && len(falseAlarm) == 0 {
		rep.Obs = append(rep.Obs, core.Ob{Rule: id + ".selftest", Site: "(checker)", Construct: "seeded variants", Status: core.Discharged,
			Msg: fmt.Sprintf("%d committed variants of the tree (breaking changes must fire, behaviour-preserving edits must stay silent) analysed on scratch copies: all as expected", ran)})
	}
}
