package props

import (
	"fmt"
	"go/constant"
	"go/token"
	"go/types"
	"strings"

	"golang.org/x/tools/go/ssa"

	"utilcheck/flow"
	"utilcheck/pred"
)

// S-DELEG: every text entry point of a value type reaches its package's formatter/parser only through the
// package-level function variable, with the documented flag argument; those variables are initialised to the
// Default* functions and never reassigned inside the module; the verb table of Format is the documented one.
// Decided by evaluating each method symbolically with the global function variables left uninterpreted.

type delegSpec struct {
	pkg, typ, recv string
	marshalFlag    string            // third argument of Formatter in MarshalText
	stringFlag     string            // flag of String()
	verbs          map[rune]string   // documented verb → flag expression
	defaultVerb    string            // flag for any other verb
	extra          map[string]string // other methods → flag ("StringTag" …)
	unmarshalRule  string            // second argument of Parser in UnmarshalText
	hasFormat      bool
}

func delegSpecs(e *Env) map[string]delegSpec {
	c := func(pkg, name string) string {
		v, ok := tabConstInt(e, pkg, name)
		if !ok {
			return "?" + name
		}
		return fmt.Sprint(v)
	}
	or := func(a, b string) string {
		var x, y int64
		fmt.Sscan(a, &x)
		fmt.Sscan(b, &y)
		return fmt.Sprint(x | y)
	}
	return map[string]delegSpec{
		"date": {pkg: "date", typ: "Date", recv: "d", marshalFlag: "0", stringFlag: "0", hasFormat: true,
			verbs: map[rune]string{'b': c("date", "FormatBasic"), 'e': "0", 's': "0"}, defaultVerb: "0", unmarshalRule: "0"},
		"roman": {pkg: "roman", typ: "Number", recv: "n", marshalFlag: "*roman.DefaultFormat", stringFlag: "*roman.DefaultFormat", hasFormat: true,
			verbs:       map[rune]string{'L': c("roman", "FormatLong"), 'l': or(c("roman", "FormatLong"), c("roman", "FormatLowerCase")), 'R': "0", 'r': c("roman", "FormatLowerCase"), 's': "*roman.DefaultFormat"},
			defaultVerb: "*roman.DefaultFormat", unmarshalRule: "0"},
		"sem": {pkg: "sem", typ: "Ver", recv: "v", marshalFlag: "0", stringFlag: "0", hasFormat: true,
			verbs: map[rune]string{'t': c("sem", "FormatTag"), 's': "0"}, defaultVerb: "0", extra: map[string]string{"StringTag": c("sem", "FormatTag")}, unmarshalRule: "0"},
		"uu": {pkg: "uu", typ: "ID", recv: "i", marshalFlag: "0", stringFlag: "0", hasFormat: true,
			verbs: map[rune]string{'u': c("uu", "FormatURN"), 's': "0"}, defaultVerb: "0", unmarshalRule: "0"},
	}
}

// errAtoms makes "error value == nil" an atom of the decision tree.
func errKeyOf(a, b pred.Val) (string, bool) {
	if c, ok := b.(pred.Const); ok && c.V == nil {
		if t, ok := a.(pred.Term); ok {
			return "nil? " + t.String(), true
		}
	}
	return "", false
}

func binDomain(string) []int { return []int{0, 1} }

// ext names result #k of an uninterpreted call written as fn(args): the evaluator prints it fn#k(args).
func ext(call string, k int) string {
	i := strings.Index(call, "(")
	if i < 0 {
		return call
	}
	return fmt.Sprintf("%s#%d%s", call[:i], k, call[i:])
}

// valueOfType builds the abstract receiver: a struct of symbols or a single symbol.
func (e *Env) abstractValue(pkg, typ, name string) pred.Val {
	sp := e.P.ByName[pkg]
	if sp == nil || sp.Type(typ) == nil {
		return pred.Sym{Name: name}
	}
	t := sp.Type(typ).Type()
	if structOf(t) != nil {
		return pred.Sym{Name: name} // opaque struct symbol: fields show as name.#k, enough for delegation
	}
	return pred.Sym{Name: name}
}

func ruleDeleg(e *Env, rule, pkg string) {
	spec, ok := delegSpecs(e)[pkg]
	if !ok {
		return
	}
	// globals: initialisers and who-writes
	for _, g := range []struct{ name, want string }{{"Formatter", "DefaultFormatter"}, {"Parser", "DefaultParser"}} {
		gv := e.Var(rule, pkg, g.name)
		if gv == nil {
			continue
		}
		f := e.C.GlobalFuncInit(gv)
		if f == nil || flow.Origin(f) != e.F(pkg, g.want) {
			e.S.Bad(rule, pkg+"."+g.name, "initialiser", "the package-level "+g.name+" is not initialised to "+g.want+" or is reassigned inside the module", "", "")
		} else {
			e.S.Ok(rule, pkg+"."+g.name, "initialiser", "= "+g.want+", never reassigned inside the module", "")
		}
	}
	// every abstract run: summaries make the Default* functions uninterpreted too
	sums := map[string]pred.Summary{}
	for _, n := range []string{"DefaultFormatter", "DefaultParser"} {
		if f := e.F(pkg, n); f != nil {
			name := n
			sums[f.String()] = func(ev *pred.Evaluator, args []pred.Val) (pred.Val, error) {
				return pred.Term{Fn: name, Args: args}, nil
			}
		}
	}
	run := func(fn *ssa.Function, args func() []pred.Val) []leaf {
		leaves, err := extractTreeWith(e.P.SSA, fn, args, sums, nil, errKeyOf, binDomain, e.globalTables())
		if err != nil {
			e.S.Unk(rule, flow.FnName(fn), "delegation", err.Error(), e.Pos(fn))
			return nil
		}
		return leaves
	}
	R := spec.recv
	fmtCall := func(flag string) string { return fmt.Sprintf("dyn:*%s.Formatter(nil,%s,%s)", pkg, R, flag) }
	// MarshalText
	if fn := e.Method(rule, pkg, spec.typ, "MarshalText"); fn != nil {
		site := flow.FnName(fn)
		call := fmtCall(spec.marshalFlag)
		for _, lf := range run(fn, func() []pred.Val { return []pred.Val{pred.Sym{Name: R}} }) {
			if lf.Err != nil {
				e.S.Unk(rule, site, "MarshalText", lf.Err.Error(), e.Pos(fn))
				continue
			}
			got := lf.Out.Ret.String()
			if lf.Assign["nil? "+ext(call, 1)] == 0 && len(lf.Assign) == 1 {
				if got == "("+ext(call, 0)+", nil)" {
					e.S.Ok(rule, site, "MarshalText ok", "returns Formatter(nil, "+R+", "+spec.marshalFlag+")", e.Pos(fn))
				} else {
					e.S.Bad(rule, site, "MarshalText ok", "returns "+got+"; documented: the bytes of Formatter(nil, value, "+spec.marshalFlag+")", e.Pos(fn), "")
				}
			} else if len(lf.Assign) == 1 && strings.HasPrefix(got, "(nil, fmt.Errorf(") && strings.Contains(got, ext(call, 1)) {
				e.S.Ok(rule, site, "MarshalText error", "formatter error returned wrapped, with nil data", e.Pos(fn))
			} else {
				e.S.Bad(rule, site, "MarshalText {"+lf.String()+"}", "returns "+got+"; the formatter must be called once as "+call, e.Pos(fn), "")
			}
		}
	}
	// format(f) and String / extras / Format
	formatFn := e.P.Method(pkg, spec.typ, "format")
	checkFormatted := func(fn *ssa.Function, construct, flag string, mkArgs func() []pred.Val, wrap func(string) string) {
		site := flow.FnName(fn)
		call := fmtCall(flag)
		fallback := fmt.Sprintf("DefaultFormatter#0(nil,%s,%s)", R, flag)
		for _, lf := range run(fn, mkArgs) {
			if lf.Err != nil {
				e.S.Unk(rule, site, construct, lf.Err.Error(), e.Pos(fn))
				continue
			}
			got := lf.Out.Ret.String()
			nilKey := "nil? " + ext(call, 1)
			v, asked := lf.Assign[nilKey]
			switch {
			case !asked:
				e.S.Bad(rule, site, construct, "does not go through the package-level Formatter with flag "+flag+" (result "+got+")", e.Pos(fn), "")
			case v == 0 && got == wrap(ext(call, 0)):
				e.S.Ok(rule, site, construct+" ok", "= Formatter(nil, "+R+", "+flag+")", e.Pos(fn))
			case v == 1 && got == wrap(fallback):
				e.S.Ok(rule, site, construct+" fallback", "on a formatter error falls back to DefaultFormatter with the same flag", e.Pos(fn))
			default:
				e.S.Bad(rule, site, construct+" {"+lf.String()+"}", "result "+got+"; documented: Formatter(nil, value, "+flag+") with DefaultFormatter as fallback", e.Pos(fn), "")
			}
		}
	}
	ident := func(s string) string { return s }
	if formatFn != nil {
		// the unexported helper's own parameters: the receiver, the flags, and — in a variant that lets its callers hand
		// in the buffer — a byte slice, for which the exported callers (decided through the helper below) pass nil
		checkFormatted(formatFn, "format(f)", "f", func() []pred.Val {
			args := []pred.Val{pred.Sym{Name: R}}
			for _, q := range formatFn.Params[1:] {
				if sl, ok := q.Type().Underlying().(*types.Slice); ok {
					if b, ok := sl.Elem().Underlying().(*types.Basic); ok && b.Kind() == types.Uint8 {
						args = append(args, pred.Const{})
						continue
					}
				}
				args = append(args, pred.Sym{Name: "f"})
			}
			return args
		}, ident)
	}
	if fn := e.Method(rule, pkg, spec.typ, "String"); fn != nil {
		checkFormatted(fn, "String", spec.stringFlag, func() []pred.Val { return []pred.Val{pred.Sym{Name: R}} }, ident)
	}
	for name, flag := range spec.extra {
		if fn := e.Method(rule, pkg, spec.typ, name); fn != nil {
			checkFormatted(fn, name, flag, func() []pred.Val { return []pred.Val{pred.Sym{Name: R}} }, ident)
		}
	}
	// verb table through Format: the bytes written to the fmt.State
	if spec.hasFormat {
		if fn := e.Method(rule, pkg, spec.typ, "Format"); fn != nil {
			site := flow.FnName(fn)
			type vc struct {
				name string
				verb pred.Val
				flag string
			}
			var cases []vc
			for v, fl := range spec.verbs {
				cases = append(cases, vc{"%" + string(v), pred.Const{V: constant.MakeInt64(int64(v))}, fl})
			}
			cases = append(cases, vc{"other verb", pred.Sym{Name: "verb"}, spec.defaultVerb})
			// every further verb the code itself singles out (`if verb == 'v'`, a case 'q' in the verb function): not in the
			// documented table, so it must render like any other verb — each gets a scenario of its own, because the
			// symbolic "other verb" differs from every constant it is compared with
			seenVerb := map[int64]bool{}
			for _, f := range flow.SortedFuncs(e.C.Reachable(fn)) {
				if !flow.InRepo(f) || f.Pkg != fn.Pkg {
					continue
				}
				for _, b := range f.Blocks {
					for _, in := range b.Instrs {
						bo, ok := in.(*ssa.BinOp)
						if !ok {
							continue
						}
						ordering := bo.Op == token.LSS || bo.Op == token.LEQ || bo.Op == token.GTR || bo.Op == token.GEQ
						if bo.Op != token.EQL && bo.Op != token.NEQ && !ordering {
							continue
						}
						for _, side := range [][2]ssa.Value{{bo.X, bo.Y}, {bo.Y, bo.X}} {
							k, isK := side[0].(*ssa.Const)
							bt, isB := side[1].Type().Underlying().(*types.Basic)
							if !isK || k.Value == nil || k.Value.Kind() != constant.Int || !isB || bt.Kind() != types.Int32 {
								continue
							}
							r0, exact := constant.Int64Val(k.Value)
							// a range test (`verb < 'a'`) cuts the verbs in two: the constant and its two neighbours stand for
							// the verbs on either side (the symbolic other verb is greater than every constant only)
							around := []int64{r0}
							if ordering {
								around = []int64{r0 - 1, r0, r0 + 1}
							}
							for _, r := range around {
								if _, documented := spec.verbs[rune(r)]; !exact || documented || seenVerb[r] || r < 0x20 || r > 0x7e {
									continue
								}
								seenVerb[r] = true
								cases = append(cases, vc{"%" + string(rune(r)) + " (singled out, not documented)", pred.Const{V: constant.MakeInt64(r)}, spec.defaultVerb})
							}
						}
					}
				}
			}
			for _, c := range cases {
				call := fmtCall(c.flag)
				fixed := func(a, b pred.Val) (int, bool, bool) {
					if s, ok := a.(pred.Sym); ok && s.Name == "verb" {
						return 1, true, true // differs from every case constant
					}
					if s, ok := b.(pred.Sym); ok && s.Name == "verb" {
						return -1, true, true
					}
					// the verb looked up in a package-level table of verbs: an undocumented verb is not a key, provided
					// every key of the table is one of the documented verbs (each of which has its own scenario)
					if tm, ok := a.(pred.Term); ok && tm.Fn == "lookup#1" && len(tm.Args) == 2 && tm.Args[1].String() == "verb" && b.String() == "true" {
						if mv, ok := e.globalTables()(strings.TrimPrefix(tm.Args[0].String(), "*") + "#map"); ok {
							if m, ok := mv.(*pred.MapV); ok {
								for k := range m.Entries {
									var r int64
									if _, err := fmt.Sscan(k, &r); err != nil {
										return 0, false, false
									}
									if _, documented := spec.verbs[rune(r)]; !documented {
										return 0, false, false
									}
								}
								return 1, true, true
							}
						}
					}
					return 0, false, false
				}
				leaves, err := extractTreeWith(e.P.SSA, fn, func() []pred.Val { return []pred.Val{pred.Sym{Name: R}, pred.Sym{Name: "state"}, c.verb} }, sums, fixed, errKeyOf, binDomain, e.globalTables())
				if err != nil {
					e.S.Unk(rule, site, c.name, err.Error(), e.Pos(fn))
					continue
				}
				for _, lf := range leaves {
					if lf.Err != nil {
						e.S.Unk(rule, site, c.name, lf.Err.Error(), e.Pos(fn))
						continue
					}
					v, asked := lf.Assign["nil? "+ext(call, 1)]
					if !asked || v != 0 {
						if !asked {
							e.S.Bad(rule, site, c.name, "verb "+c.name+" does not format with flag "+c.flag+" through the package-level Formatter", e.Pos(fn), "")
						}
						continue
					}
					// the formatted bytes must be written to the state
					want := "invoke.Write(state," + ext(call, 0) + ")"
					found := 0
					var other string
					for _, t := range lf.trace() {
						if t == want {
							found++
						} else if strings.Contains(t, "(state,") || strings.Contains(t, ",state,") || strings.Contains(t, ",state)") || strings.Contains(t, "(state)") {
							other = t
						}
					}
					if found == 1 && other != "" || found > 1 {
						e.S.Bad(rule, site, c.name, "besides the formatted bytes the fmt.State receives more output on this path ("+map[bool]string{true: other, false: "written twice"}[other != ""]+")", e.Pos(fn), "")
					} else if found == 1 {
						e.S.Ok(rule, site, c.name, "writes Formatter(nil, "+R+", "+c.flag+") to the fmt.State", e.Pos(fn))
					} else {
						e.S.Bad(rule, site, c.name, "the bytes formatted with flag "+c.flag+" are not what is written to the fmt.State", e.Pos(fn), "")
					}
				}
			}
		}
	}
	// UnmarshalText
	if fn := e.Method(rule, pkg, spec.typ, "UnmarshalText"); fn != nil {
		ruleUnmarshalDeleg(e, rule, pkg, fn, "UnmarshalText", spec.unmarshalRule, sums)
	}
}

// ruleUnmarshalDeleg: `v, err := Parser(data, <rule>); if err != nil { return wrapped }; *recv = v; return nil`.
func ruleUnmarshalDeleg(e *Env, rule, pkg string, fn *ssa.Function, name, ruleArg string, sums map[string]pred.Summary) {
	site := flow.FnName(fn)
	call := fmt.Sprintf("dyn:*%s.Parser(data,%s)", pkg, ruleArg)
	var recv *pred.Cell
	mk := func() []pred.Val {
		recv = &pred.Cell{V: pred.Sym{Name: "old"}, Name: "recv"}
		return []pred.Val{pred.Ptr{Cell: recv}, pred.Sym{Name: "data"}}
	}
	treeSnapshot = func() string { return fmt.Sprint(recv.V) }
	leaves, err := extractTree(e.P.SSA, fn, mk, sums, nil, errKeyOf, binDomain)
	treeSnapshot = nil
	if err != nil {
		e.S.Unk(rule, site, name, err.Error(), e.Pos(fn))
		return
	}
	for _, lf := range leaves {
		if lf.Err != nil {
			e.S.Unk(rule, site, name, lf.Err.Error(), e.Pos(fn))
			continue
		}
		v, asked := lf.Assign["nil? "+ext(call, 1)]
		got := lf.Out.Ret.String()
		final := lf.final
		switch {
		case !asked:
			e.S.Bad(rule, site, name, "does not parse through the package-level Parser with rule "+ruleArg+" (asked: "+lf.String()+")", e.Pos(fn), "")
		case v == 0 && (got == "nil" || got == ext(call, 1)) && final == ext(call, 0): // (the parser's error is nil on this valuation)
			e.S.Ok(rule, site, name+" ok", "receiver := Parser(data, "+ruleArg+"), returns nil", e.Pos(fn))
		case v == 1 && strings.HasPrefix(got, "fmt.Errorf(") && strings.Contains(got, ext(call, 1)) && final == "old" &&
			strings.Contains(strings.ReplaceAll(got, ext(call, 1), ""), "data"):
			// whatever the parser refused — a text beyond the length limit included — would be repeated by the wrapper
			e.S.Bad(rule, site, name+" error", "the wrapper puts the input itself into its message ("+got+"): the parser's input-too-long error then reproduces the input", e.Pos(fn), "")
		case v == 1 && strings.HasPrefix(got, "fmt.Errorf(") && strings.Contains(got, ext(call, 1)) && final == "old":
			e.S.Ok(rule, site, name+" error", "parser error returned wrapped, receiver untouched", e.Pos(fn))
		default:
			e.S.Bad(rule, site, name+" {"+lf.String()+"}", fmt.Sprintf("returns %s with receiver = %s; documented: assign the parsed value only on success, return the wrapped error otherwise", got, final), e.Pos(fn), "")
		}
	}
}
