package props

import (
	"fmt"

	"golang.org/x/tools/go/ssa"

	"utilcheck/flow"
	"utilcheck/pred"
)

func init() {
	register(&Prop{
		ID:    "C18",
		Title: "Parsers are total and enforce the configured input limit first",
		Run:   runC18,
		Explanation: "C18.L: per package, a guard `MaxInputLength != 0 && len(input) > MaxInputLength` (strict; mirrored forms accepted; followed through in-repo helpers, a bool predicate of the module and a helper that is handed len(input)) dominates every regexp call, index/slice of the input and decoder construction; its true edge returns an error wrapping that package's ErrInputTooLong built from the zero value of T with no operand derived from the input's bytes; no return with a nil error lies outside the guard's continuation (except under len(input) == 0), so a fast path cannot answer over-long input; the sentinel is produced nowhere else, and a function holding such a guard is never called again from the code it reaches (the limit applies to the caller's input, not to data derived from it). " +
			"C18.T1: in the call-graph closure of 27 entry points no explicit panic, no non-comma-ok type assertion (except boxing round trips and one listed exception — the JSON object key token asserted to string — whose justification, that every member value is consumed completely by the nesting counter of the value skipper, is itself checked), no integer division by a non-constant. " +
			"C18.T2: every index/slice site in that closure is an obligation handed to a bound prover (dominating length facts, regexp sub-match count and shortest word from the pattern's automaton, range keys, length scenarios, caller-order preconditions, array bounds). " +
			"C18.wrap: every fmt.Errorf of the five packages that has an error operand binds it with %w, and every error type carrying an error exposes it through Unwrap — the too-long sentinel produced at the guard is still what errors.Is finds at each entry point. C18.T3: every CFG cycle in the closure ranges over a finite collection, counts to a constant or a loaded length, or consumes a decoder token on each iteration. C18.entry: UnmarshalText (and size's UnmarshalJSON) hand the bytes they are given, whole and unchanged, to the package-level Parser, assign only on success and do not repeat the input in their own message (the too-long error would reproduce it). A call of a module function with the input in front of the guard is work unless that function has the guard itself or does no work on the text." +
			" Added after the second rule audit: the entry set is open — exported functions and methods of the value packages that take a string or []byte, return an error last and hand back no text are entry points too (one named exception: size.New, whose string is a unit key); such a late entry has the guard itself or hands its text (or a part of it) to a guarded entry of the package before any call receives it or any loop reads it (RuleLimitLate), and is a root of the panic-site, bounds and loop rules." +
			" C18.L 'limit use': a value read from MaxInputLength is compared or printed in the too-long message, nothing else (no reservation, pattern or bound built from it). C18.T1 also reports the dereference of a pointer obtained by a type assertion without a nil test. A helper that only reads the sentinel (errors.Is) does not produce it. Since audit round 3: the continuation behind the guard is entered from the length test or the limit-is-zero test only; any rejection in front of the guard that is not the error of another guarded parse is reported; a late entry may not hand on a part of its text, succeed round the delegation, or wrap the error in one built from the input; a local copy of the limit is held to the same uses; two-ended slices carry the obligation low <= high.",
		NotDecided:  []string{"the limit for entry points that cannot refuse (no error result: a bool-valued validator, DefaultComparePreRelease): they have nothing to reject with and are not held to C18.L", "stdlib totality (regexp, strconv, encoding/json, fmt are assumed not to panic on any input)", "allocation size inside stdlib", "behaviour of user-supplied Parser/Formatter/ComparePreRelease replacements"},
		Assumptions: []string{"regexp.FindSubmatch returns nil or NumSubexp+1 entries", "a successful match implies len(subject) >= shortest word of the pattern", "json.Decoder returns object keys as string tokens"},
		Technique:   "dominator/path rules + interval bound prover over go/ssa",
	})
}

func totalityRoots(e *Env, rule string) []*ssa.Function {
	var roots []*ssa.Function
	for _, pkg := range ValuePkgs {
		roots = append(roots, parserEntryFuncs(e, rule, pkg)...)
	}
	for _, n := range []string{"Compare", "CompareTag", "CompareVersion", "Latest", "LatestTag", "LatestVersion", "DefaultComparePreRelease"} {
		roots = append(roots, e.Fn(rule, "sem", n))
	}
	for _, m := range unmarshalMethods {
		roots = append(roots, e.Method(rule, m[0], m[1], m[2]))
	}
	for _, m := range [][3]string{{"sem", "Ver", "Compare"}, {"sem", "Ver", "Valid"}, {"sem", "Ver", "Latest"}} {
		roots = append(roots, e.Method(rule, m[0], m[1], m[2]))
	}
	return funcs(roots...)
}

func runC18(e *Env) {
	ruleLimit(e, "C18.L", ValuePkgs...)
	e.S.Floor("C18.L", 24)
	// "rejected with that package's input-too-long error": the sentinel produced at the guard must still be found by
	// errors.Is at every entry point, so every re-wrapping on the way up binds the error with %w and every error type
	// that carries one exposes it (S-WRAP under this property, for all five packages)
	ruleWrap(e, "C18.wrap", ValuePkgs...)
	e.S.Floor("C18.wrap", 40)

	roots := totalityRoots(e, "C18.T1")
	reach := e.C.Reachable(roots...)
	e.Flow(func(c *flow.Ctx) {
		c.RuleNoPanicSites(reach, map[string]string{
			"json-object-key:string": "json.Decoder.Token returns object keys as string (contract of encoding/json at a member boundary inside an object)",
		})
		c.RuleIndexObligations(reach)
		c.RuleLoopProgress(reach)
	})
	// the listed exception (object keys are strings) holds only if the reader consumes every member value completely
	ruleSkipper(e, "C18.T1", e.F("size", "decodeAndSkipNested"))
	if len(roots) < 27 {
		e.S.Unk("C18.T1", "(anchors)", "floor", "fewer than 27 entry points resolved", "")
	}
	e.S.Ok("C18.T1", "(entry points)", "closure", fmt.Sprintf("%d entry points, %d in-repo functions in their call-graph closure scanned for panic sites", len(roots), len(reach)), "")
	e.S.Floor("C18.T2", 40)
	e.S.Floor("C18.T3", 5)
	// the text entry points of the value types enforce the limit through their parser: the bytes they are given
	// reach the package-level Parser whole and unchanged (the delegation rule of the round-trip properties, its
	// UnmarshalText half filed here)
	specs := delegSpecs(e)
	for _, pkg := range []string{"date", "roman", "sem", "uu"} {
		if fn := e.Method("C18.entry", pkg, specs[pkg].typ, "UnmarshalText"); fn != nil {
			ruleUnmarshalDeleg(e, "C18.entry", pkg, fn, "UnmarshalText", specs[pkg].unmarshalRule, map[string]pred.Summary{})
		}
	}
	unitBit, _ := tabConstInt(e, "size", "RuleDisableUnit")
	if fn := e.Method("C18.entry", "size", "Size", "UnmarshalText"); fn != nil {
		ruleUnmarshalDeleg(e, "C18.entry", "size", fn, "UnmarshalText", fmt.Sprint(maskedSym("*size.DefaultRule", unitBit)), map[string]pred.Summary{})
	}
	if fn := e.Method("C18.entry", "size", "Size", "UnmarshalJSON"); fn != nil {
		ruleUnmarshalDeleg(e, "C18.entry", "size", fn, "UnmarshalJSON", "*size.DefaultRule", map[string]pred.Summary{})
	}
	e.S.Floor("C18.entry", 12)
}
