package props

import (
	"fmt"
	"go/constant"
	"go/token"
	"go/types"
	"math/big"
	"strconv"
	"strings"

	"golang.org/x/tools/go/ssa"

	"utilcheck/flow"
	"utilcheck/pred"
)

func init() {
	register(&Prop{
		ID:    "C04",
		Title: "A size survives every marshal form and configuration",
		Run:   runC04,
		Explanation: "Writer/reader agreement over constants, each a necessary condition of the round trip. C04.forms: MarshalJSON as a decision table over the two package switches emits object / quoted text / bare number; the object is {\"<ObjectKeyValue>\":<Shorten value>,\"<ObjectKeyUnit>\":\"<Shorten unit>\"}; MarshalText selects bare bytes or Formatter(nil, s, 0) by DisableMarshalTextUnit; DefaultRule's initialiser enables the object and string forms; UnmarshalText masks the rule to RuleDisableUnit, UnmarshalJSON passes DefaultRule; the exported MarshalText is marshalText with its error wrapped; the string form quotes exactly marshalText's bytes (C04.quote text). C04.reader: the reader's side of the three JSON forms (rules of C12.gate, C08.object, C12.whole and C12.count filed here as necessary conditions of the round trip: the writer's two-member object is not refused by a member limit of two or more, and an ignored member is skipped completely). " +
			"C04.exact: the reading side is exact near 2^64 — newSize as a decision table with the product checked through the high word of bits.Mul64 (C08's rules under this property), and the text path reads its digits with strconv.ParseUint(·, 10, 64) on every target (C08.text). C04.quote: the string form is exactly '\"' + text + '\"' (the shift-by-one copy idiom is checked piece by piece). " +
			"C04.vocab: Shorten evaluated abstractly (as C13.shorten) returns (s >> 10k, k-th binary unit) and unitToValues maps that unit to 2^(10k), so value × multiplier rebuilds what Shorten split. " +
			"C04.keys: the reader switches on the marshal key constants after strings.ToLower, and the constants are lower-case. " +
			"C04.sep: the text parser's scanning loop as a transfer table over a partition of all rune values × (nothing kept yet / something kept), by abstract interpretation of the loop body: space is skipped everywhere, '_' and no-break space only after the first digit, digits are kept, every other rune ends the number — so what the pretty formatter emits (\" \") is skipped before and between digits and before the unit; units are letters only, so the hand-made quoting needs no escaping. C04.limit: MaxInputLength admits the longest emitted form. C04.render: String / PrettyString are the formatter's bytes converted, nothing inserted or replaced afterwards, and those bytes are the decimal digits of the shortened value (grouped in threes under FormatPretty) followed by the unit (C13.methods and C13.format under this property)." +
			" Added after the second rule audit: C04.reader files the whole of C12.keys (decodeValue/decodeUnit tables, newOrError, arms, skipper) and C08.object's 'number error' (the parsed number is handed on only where ParseUint's error is nil); C04.quote reads exactly one construction of the string form (one quote-appending append, one copy, one byte store) and every return that hands back the text goes through it; a string form built by appends alone is evaluated as a whole ('\"' + text + '\"')." +
			" C04.reader also carries C12.zero (member limit switched off refuses nothing) and the default member limit (0 or at least 2). C04.nested: C17.ro for the size readers — a value nested in a document is handed a slice of the document's own buffer, so a reader that writes through its input damages the document around it. Since audit round 3: every success return of MarshalJSON is the quoted buffer or the result of one call — of a function of the module (the object writer) or of strconv.AppendUint; in the member loop no condition measures, and no store goes through, what a member decoder handed back (followed through every phi); the alias analysis follows helpers of the module that return (a part of) their argument.",
		NotDecided:  []string{"the arithmetic composition for all 2^64 values (digit grouping composed with ParseUint of the regrouped digits)", "nested encoding/json behaviour (stdlib)"},
		Assumptions: []string{"strconv.AppendUint/FormatUint print canonical decimal; ParseUint inverts them"},
		Technique:   "decision-table extraction + constant/table agreement + SSA idiom rules",
	})
}

func runC04(e *Env) {
	ruleC04Forms(e)
	ruleC04Quote(e)
	// vocabulary: Shorten's meaning (C13.shorten) under this property's name, and the reader's multipliers for the units
	// it can return
	ruleShortenSem(e, "C04.vocab")
	if got, utv := sizeUnits(e, "C04.vocab"); got != nil {
		for k, u := range []string{"B", "KiB", "MiB", "GiB", "TiB", "PiB", "EiB"} {
			wantMul := new(big.Int).Lsh(big.NewInt(1), uint(10*k))
			if got[u] != nil && got[u].Cmp(wantMul) == 0 {
				e.S.Ok("C04.vocab", "size.unitToValues", "unit "+u, fmt.Sprintf("the reader multiplies %s by 2^%d, what Shorten divided by", u, 10*k), e.tpos("size", utv))
			} else {
				e.S.Bad("C04.vocab", "size.unitToValues", "unit "+u, fmt.Sprintf("Shorten returns %s after dividing by 2^%d but the reader's multiplier for it is %v", u, 10*k, got[u]), e.tpos("size", utv), "Size(1<<"+fmt.Sprint(10*k)+")")
			}
		}
	}
	// the reading side is exact: newSize's product is overflow-checked and its decision table is the documented one
	// (C08's rules under this property's name) — a size near 2^64 must parse back to itself, not be refused or wrapped
	n1 := len(e.S.Obs)
	if ns := e.Fn("C04.exact", "size", "newSize"); ns != nil {
		e.FlowAs(map[string]string{"C08.ovf": "C04.exact"}, func(c *flow.Ctx) { c.RuleMulOverflow(ns) })
	}
	ruleC08NewSize(e)
	ruleC08Text(e) // the digits are read with ParseUint(·, 10, 64), whatever the platform
	for i := n1; i < len(e.S.Obs); i++ {
		if strings.HasPrefix(e.S.Obs[i].Rule, "C08.") {
			e.S.Obs[i].Rule = "C04.exact"
		}
	}
	e.S.Floor("C04.exact", 14)
	ruleC04Keys(e)
	ruleC04Sep(e)
	ruleLimitAccept(e, "C04.limit", "size")
	e.S.Floor("C04.forms", 10)
	e.S.Floor("C04.quote", 4)
	e.S.Floor("C04.vocab", 15)
	e.S.Floor("C04.keys", 4)
	e.S.Floor("C04.sep", 3)
	// "the plain and pretty string renderings": String / PrettyString are the formatter's bytes, nothing added (C13.methods)
	e.As(map[string]string{"C13.methods": "C04.render"}, func() { ruleC13Methods(e) })
	// … and those bytes are the digits of the shortened value, grouped in threes where asked, then the unit (C13.format)
	ruleFormatSem(e, "C04.render")
	e.S.Floor("C04.render", 10)
	// "the marshalled text or JSON unmarshals under the default rule": the reader's side of the three JSON forms — the
	// token kind selects the form, the string and number forms go through the text reader, the object's members are
	// decoded as the writer emitted them (C12.gate, C08.object), and no tail of the input is dropped (C12.whole)
	e.As(map[string]string{"C12.gate": "C04.reader", "C08.object": "C04.reader"}, func() {
		ruleC12Gate(e)
		ruleC08Object(e)
	})
	if dp := e.Fn("C04.reader", "size", "DefaultParser"); dp != nil {
		e.FlowAs(map[string]string{"C12.whole": "C04.reader"}, func(c *flow.Ctx) { c.RuleWholeInput(dp, 0) })
	}
	// the writer's object has exactly two members: a member limit of two or more must not refuse it, i.e. the limit
	// comparison counts the members read and nothing more (C12.count)
	if ujo := e.Fn("C04.reader", "size", "unmarshalJSONObject"); ujo != nil {
		e.FlowAs(map[string]string{"C12.count": "C04.reader"}, func(c *flow.Ctx) { c.RuleCounterSlack(ujo, "MaxObjectKeys") })
	}
	// … and with the member limit switched off (0) nothing is refused for its size (C12.zero)
	e.FlowAs(map[string]string{"LIMIT0": "C04.reader", "C18.L": "C04.reader"}, func(c *flow.Ctx) {
		c.RuleLimitZero(e.PkgFuncs("size"), "MaxObjectKeys")
	})
	// "standalone and nested in structs, slices, maps and pointers": a value nested in a document is handed a slice of
	// the document's own buffer, spare capacity included — a reader that writes through its input (an append onto it,
	// a byte patched in place) damages the document around the value (C17.ro for the size readers, filed here)
	{
		var entries []*ssa.Function
		entries = append(entries, parserEntryFuncs(e, "C04.nested", "size")...)
		for _, m := range unmarshalMethods {
			if m[0] == "size" {
				if f := e.P.Method(m[0], m[1], m[2]); f != nil {
					entries = append(entries, f)
				}
			}
		}
		e.FlowAs(map[string]string{"C17.ro": "C04.nested"}, func(c *flow.Ctx) { c.RuleInputReadOnly(entries...) })
		e.S.Floor("C04.nested", 3)
	}
	// … and the member loop reads the two members as written: the arms, the duplicate tests, the loop discipline (no
	// foreign test, no rewriting of a decoded member) and the skipper (C12.keys)
	e.As(map[string]string{"C12.keys": "C04.reader"}, func() { ruleC12Keys(e) })
	// the default member limit admits the two members the writer emits
	if g := e.Var("C04.reader", "size", "MaxObjectKeys"); g != nil {
		if v, ok := e.globalIntInit(g); !ok {
			e.S.Unk("C04.reader", "size.MaxObjectKeys", "default", "initial value is not a constant", "")
		} else if v != 0 && v < 2 {
			e.S.Bad("C04.reader", "size.MaxObjectKeys", "default", fmt.Sprintf("the default member limit %d refuses the two-member object the marshaller writes", v), "", `{"value":1,"unit":"B"}`)
		} else {
			e.S.Ok("C04.reader", "size.MaxObjectKeys", "default", fmt.Sprintf("default %d admits the marshalled object's two members", v), "")
		}
	}
	e.S.Floor("C04.reader", 44)
}

// segs flattens an abstract byte-sequence value built by append / strconv.AppendUint into readable segments.
func segs(v pred.Val) ([]string, bool) {
	switch x := v.(type) {
	case pred.Sym:
		if x.Name == "make" {
			return nil, true
		}
		return []string{"<" + x.Name + ">"}, true
	case pred.Const:
		if x.V == nil {
			return nil, true // nil slice
		}
		if x.V.Kind() == constant.String {
			return []string{constant.StringVal(x.V)}, true
		}
	case *pred.SliceV:
		out := ""
		for _, c := range x.Elems {
			k, ok := intOf(c.V)
			if !ok {
				return []string{"<" + x.String() + ">"}, true
			}
			out += string(rune(k))
		}
		return []string{out}, true
	case pred.Term:
		switch {
		case x.Fn == "builtin.append" && len(x.Args) == 2:
			a, ok1 := segs(x.Args[0])
			b, ok2 := segs(x.Args[1])
			return append(a, b...), ok1 && ok2
		case x.Fn == "strconv.AppendUint" && len(x.Args) == 3 && x.Args[2].String() == "10":
			a, ok := segs(x.Args[0])
			return append(a, "<uint "+x.Args[1].String()+">"), ok
		case x.Fn == "strconv.FormatUint" && len(x.Args) == 2 && x.Args[1].String() == "10":
			// the string form of the same digits (appended with append(buf, s...))
			return []string{"<uint " + x.Args[0].String() + ">"}, true
		case (x.Fn == "slice" || x.Fn == "slice[:0]") && len(x.Args) == 1:
			// make([]byte, 0, n) lowers to a slice of a fresh local array: an empty base
			if p, ok := x.Args[0].(pred.Ptr); ok && p.Cell != nil && strings.HasPrefix(p.Cell.Name, "makeslice") {
				return nil, true
			}
			return []string{"<" + x.String() + ">"}, true
		default:
			return []string{"<" + x.String() + ">"}, true
		}
	}
	return nil, false
}

func ruleC04Forms(e *Env) {
	c04StringFormEvaluated = false
	const rule = "C04.forms"
	mj := e.Method(rule, "size", "Size", "MarshalJSON")
	mt := e.Method(rule, "size", "Size", "marshalText")
	sh := e.P.Method("size", "Size", "Shorten")
	kv, ku := tabConstString(e, "size", "ObjectKeyValue"), tabConstString(e, "size", "ObjectKeyUnit")
	if mj == nil || mt == nil || sh == nil || kv == "" || ku == "" {
		if mj != nil {
			e.S.Unk(rule, flow.FnName(mj), "anchors", "marshalText / Shorten / ObjectKey constants not found", e.Pos(mj))
		}
		return
	}
	sums := map[string]pred.Summary{
		sh.String(): func(ev *pred.Evaluator, args []pred.Val) (pred.Val, error) {
			return pred.Tuple{pred.Term{Fn: "Shorten#0", Args: args}, pred.Term{Fn: "Shorten#1", Args: args}}, nil
		},
	}
	keyOf := func(a, b pred.Val) (string, bool) {
		if c, ok := b.(pred.Const); ok && c.V != nil && c.V.Kind() == constant.Bool {
			if s, ok := a.(pred.Sym); ok && strings.HasPrefix(s.Name, "*size.Disable") {
				return s.Name, true
			}
		}
		return errKeyOf(a, b)
	}
	// marshalText
	{
		site := flow.FnName(mt)
		leaves, err := extractTree(e.P.SSA, mt, func() []pred.Val { return []pred.Val{pred.Sym{Name: "s"}} }, sums, nil, keyOf, binDomain)
		if err != nil {
			e.S.Unk(rule, site, "table", err.Error(), e.Pos(mt))
		}
		call := "dyn:*size.Formatter(nil,s,0)"
		for _, lf := range leaves {
			construct := lf.String()
			if lf.Err != nil {
				e.S.Unk(rule, site, construct, lf.Err.Error(), e.Pos(mt))
				continue
			}
			got := lf.Out.Ret.String()
			dis, asked := lf.Assign["*size.DisableMarshalTextUnit"]
			ev, evAsked := lf.Assign["nil? "+ext(call, 1)]
			switch {
			case !asked:
				e.S.Bad(rule, site, construct, "marshalText does not consult DisableMarshalTextUnit", e.Pos(mt), "")
			case dis == 0: // switch is true: unit disabled
				if sg, ok := segs(lf.Out.Ret.(pred.Tuple)[0]); ok && strings.Join(sg, "") == "<uint s>" && lf.Out.Ret.(pred.Tuple)[1].String() == "nil" {
					e.S.Ok(rule, site, "unit disabled", "DisableMarshalTextUnit ⇒ the size in bytes as bare decimal", e.Pos(mt))
				} else {
					e.S.Bad(rule, site, "unit disabled", "with DisableMarshalTextUnit the text is "+got+", documented: the size in bytes as decimal digits", e.Pos(mt), "")
				}
			case evAsked && ev == 0 && got == "("+ext(call, 0)+", nil)":
				e.S.Ok(rule, site, "with unit", "default ⇒ Formatter(nil, s, 0)", e.Pos(mt))
			case evAsked && ev == 1 && strings.HasPrefix(got, "(nil, "):
				e.S.Ok(rule, site, "formatter error", "formatter error propagated with nil data", e.Pos(mt))
			default:
				e.S.Bad(rule, site, construct, "returns "+got+"; documented: Formatter(nil, s, 0) unless DisableMarshalTextUnit", e.Pos(mt), "")
			}
		}
	}
	// MarshalJSON: selection table; marshalText summarised
	sums2 := map[string]pred.Summary{sh.String(): sums[sh.String()],
		mt.String(): func(ev *pred.Evaluator, args []pred.Val) (pred.Val, error) {
			return pred.Tuple{pred.Term{Fn: "marshalText#0", Args: args}, pred.Term{Fn: "marshalText#1", Args: args}}, nil
		}}
	// the exported MarshalText (what encoding/json calls for map keys and what users call) is marshalText with its
	// error wrapped
	if MT := e.Method(rule, "size", "Size", "MarshalText"); MT != nil {
		msite := flow.FnName(MT)
		lvs, err := extractTree(e.P.SSA, MT, func() []pred.Val { return []pred.Val{pred.Sym{Name: "s"}} }, sums2, nil, errKeyOf, binDomain)
		if err != nil {
			e.S.Unk(rule, msite, "MarshalText", err.Error(), e.Pos(MT))
		}
		for _, lf := range lvs {
			if lf.Err != nil {
				e.S.Unk(rule, msite, "MarshalText", lf.Err.Error(), e.Pos(MT))
				continue
			}
			got := lf.Out.Ret.String()
			v, asked := lf.Assign["nil? marshalText#1(s)"]
			switch {
			case asked && len(lf.Assign) == 1 && v == 0 && got == "(marshalText#0(s), nil)":
				e.S.Ok(rule, msite, "MarshalText ok", "returns the text of marshalText unchanged", e.Pos(MT))
			case asked && len(lf.Assign) == 1 && v == 1 && strings.HasPrefix(got, "(nil, fmt.Errorf(") && strings.Contains(got, "marshalText#1(s)"):
				e.S.Ok(rule, msite, "MarshalText error", "marshalText's error returned wrapped, with nil data", e.Pos(MT))
			default:
				e.S.Bad(rule, msite, "MarshalText {"+lf.String()+"}", "returns "+got+"; documented: the text of marshalText (bare bytes or Formatter output), its error wrapped", e.Pos(MT), "")
			}
		}
	}
	site := flow.FnName(mj)
	fixed := func(a, b pred.Val) (int, bool, bool) {
		if a.String() == "marshalText#1(s)" && b.String() == "nil" {
			return 0, true, true // text marshalling succeeded
		}
		return 0, false, false
	}
	leaves, err := extractTree(e.P.SSA, mj, func() []pred.Val { return []pred.Val{pred.Sym{Name: "s"}} }, sums2, fixed, keyOf, binDomain)
	if err != nil {
		e.S.Unk(rule, site, "table", err.Error(), e.Pos(mj))
		return
	}
	wantObj := fmt.Sprintf(`{"%s":<uint Shorten#0(s)>,"%s":"<Shorten#1(s)>"}`, kv, ku)
	for _, lf := range leaves {
		construct := lf.String()
		obj, askedObj := lf.Assign["*size.DisableMarshalJSONObjectForm"]
		str, askedStr := lf.Assign["*size.DisableMarshalJSONStringForm"]
		if !askedObj {
			e.S.Bad(rule, site, construct, "MarshalJSON does not consult DisableMarshalJSONObjectForm first", e.Pos(mj), "")
			continue
		}
		switch {
		case obj == 1: // switch false: object form
			if lf.Err != nil {
				e.S.Unk(rule, site, "object form", lf.Err.Error(), e.Pos(mj))
				continue
			}
			t, _ := lf.Out.Ret.(pred.Tuple)
			sg, ok := []string(nil), false
			if len(t) == 2 {
				sg, ok = segs(t[0])
			}
			if ok && strings.Join(sg, "") == wantObj && t[1].String() == "nil" {
				e.S.Ok(rule, site, "object form", "default ⇒ "+wantObj, e.Pos(mj))
			} else {
				e.S.Bad(rule, site, "object form", fmt.Sprintf("object form is %q, documented %q", strings.Join(sg, ""), wantObj), e.Pos(mj), "")
			}
		case !askedStr:
			e.S.Bad(rule, site, construct, "with the object form disabled MarshalJSON does not consult DisableMarshalJSONStringForm", e.Pos(mj), "")
		case str == 1 && lf.Err == nil && stringFormSegs(lf.Out.Ret) != "":
			// the string form built by appends: evaluated like the object form
			if got := stringFormSegs(lf.Out.Ret); got == `"<marshalText#0(s)>"` {
				c04StringFormEvaluated = true
				e.S.Ok(rule, site, "string form", "object form disabled ⇒ '\"' + marshalText + '\"', built by appends", e.Pos(mj))
			} else {
				e.S.Bad(rule, site, "string form", fmt.Sprintf("the string form is %q, documented: the text of marshalText between two quotes", got), e.Pos(mj), "")
			}
		case str == 1: // string form: the quoting code is outside the abstract domain (C04.quote); the selection is what counts here
			e.S.Ok(rule, site, "string form", "object form disabled ⇒ quoted marshalText (quoting: C04.quote)", e.Pos(mj))
		default:
			if lf.Err != nil {
				e.S.Unk(rule, site, "number form", lf.Err.Error(), e.Pos(mj))
				continue
			}
			t, _ := lf.Out.Ret.(pred.Tuple)
			sg, ok := []string(nil), false
			if len(t) == 2 {
				sg, ok = segs(t[0])
			}
			if ok && strings.Join(sg, "") == "<uint s>" && t[1].String() == "nil" {
				e.S.Ok(rule, site, "number form", "both forms disabled ⇒ the size in bytes as a bare JSON number", e.Pos(mj))
			} else {
				e.S.Bad(rule, site, "number form", fmt.Sprintf("number form is %q, documented: the size in bytes as decimal digits", strings.Join(sg, "")), e.Pos(mj), "")
			}
		}
	}
	// DefaultRule and the unmarshal methods
	strBit, _ := tabConstInt(e, "size", "RuleEnableJSONStringForm")
	objBit, _ := tabConstInt(e, "size", "RuleEnableJSONObjectForm")
	unitBit, _ := tabConstInt(e, "size", "RuleDisableUnit")
	if g := e.Var(rule, "size", "DefaultRule"); g != nil {
		if v, ok := e.globalIntInit(g); !ok {
			e.S.Unk(rule, "size.DefaultRule", "initialiser", "not a constant / reassigned inside the module", "")
		} else if v&strBit == 0 || v&objBit == 0 || v&unitBit != 0 {
			e.S.Bad(rule, "size.DefaultRule", "initialiser", fmt.Sprintf("DefaultRule = %d does not enable both JSON forms (or disables units): the default marshal output cannot be unmarshalled under the default rule", v), "", "")
		} else {
			e.S.Ok(rule, "size.DefaultRule", "initialiser", "enables the JSON string and object forms, units allowed", "")
		}
	}
	psums := map[string]pred.Summary{}
	if fn := e.Method(rule, "size", "Size", "UnmarshalText"); fn != nil {
		arg := fmt.Sprint(maskedSym("*size.DefaultRule", unitBit))
		ruleUnmarshalDeleg(e, rule, "size", fn, "UnmarshalText", arg, psums)
	}
	if fn := e.Method(rule, "size", "Size", "UnmarshalJSON"); fn != nil {
		ruleUnmarshalDeleg(e, rule, "size", fn, "UnmarshalJSON", "*size.DefaultRule", psums)
	}
	for _, g := range []struct{ name, want string }{{"Formatter", "DefaultFormatter"}, {"Parser", "DefaultParser"}} {
		if gv := e.Var(rule, "size", g.name); gv != nil {
			if f := e.C.GlobalFuncInit(gv); f == nil || flow.Origin(f) != e.F("size", g.want) {
				e.S.Bad(rule, "size."+g.name, "initialiser", "not initialised to "+g.want+" or reassigned inside the module", "", "")
			} else {
				e.S.Ok(rule, "size."+g.name, "initialiser", "= "+g.want+", never reassigned inside the module", "")
			}
		}
	}
}

// maskedSym builds the abstract value of `sym & mask` as the evaluator prints it.
func maskedSym(sym string, mask int64) pred.Val {
	b := pred.SymBits(sym, pred.WordBits, true) // Rule is an int
	for i := range b.B {
		if mask>>uint(i)&1 == 0 {
			b.B[i] = pred.Bit{K: '0'}
		}
	}
	return b
}

// c04StringFormEvaluated: ruleC04Forms has evaluated the string form's result (append chain); reset on every run.
var c04StringFormEvaluated bool

// stringFormSegs: the concatenation the (data, nil) result stands for, "" if it is not a readable append chain.
func stringFormSegs(ret pred.Val) string {
	t, _ := ret.(pred.Tuple)
	if len(t) != 2 || t[1].String() != "nil" {
		return ""
	}
	sg, ok := segs(t[0])
	if !ok {
		return ""
	}
	return strings.Join(sg, "")
}

// ruleC04Quote: MarshalJSON's string form is '"' + text + '"'.
func ruleC04Quote(e *Env) {
	const rule = "C04.quote"
	mj := e.Method(rule, "size", "Size", "MarshalJSON")
	if mj == nil {
		return
	}
	site := flow.FnName(mj)
	if c04StringFormEvaluated {
		for _, c := range []string{"text", "grow", "shift", "open quote", "result"} {
			e.S.Ok(rule, site, c, "the string form is built by appends and evaluated as a whole (C04.render, string form): '\"' + text + '\"'", e.Pos(mj))
		}
		return
	}
	// idiom A: l := len(b); b = append(b, <2-byte constant ending in '"'>...); copy(b[1:l+1], b[:l]); b[0] = '"'; return b
	var app, cp *ssa.Call
	var st *ssa.Store
	napp, ncp, nst := 0, 0, 0
	for _, b := range mj.Blocks {
		for _, in := range b.Instrs {
			switch x := in.(type) {
			case *ssa.Call:
				if bi, ok := x.Call.Value.(*ssa.Builtin); ok {
					switch bi.Name() {
					case "append":
						if s, ok := flow.ConstString(x.Call.Args[1]); ok && strings.HasSuffix(s, `"`) {
							app = x
							napp++
						}
					case "copy":
						cp = x
						ncp++
					}
				}
			case *ssa.Store:
				if ia, ok := x.Addr.(*ssa.IndexAddr); ok {
					if sl, ok := ia.X.Type().Underlying().(*types.Slice); ok && types.Identical(sl.Elem().Underlying(), types.Typ[types.Byte]) {
						st = x
						nst++
					}
				}
			}
		}
	}
	if napp > 1 || ncp > 1 || nst > 1 {
		// a second way of building the string form (a fast path beside the idiom): only one construction is read here
		e.S.Unk(rule, site, "idiom", fmt.Sprintf("MarshalJSON holds %d quote-appending append(s), %d copy call(s) and %d element store(s); the shift idiom has one of each — a second construction of the string form is not read", napp, ncp, nst), e.Pos(mj))
		return
	}
	if st != nil {
		ia := st.Addr.(*ssa.IndexAddr)
		k, okK := flow.ConstInt(st.Val)
		i, okI := flow.ConstInt(ia.Index)
		if !okK || k != '"' || !okI || i != 0 {
			st = nil
		}
	}
	if app == nil || cp == nil || st == nil {
		e.S.Unk(rule, site, "idiom", "the quoting of the string form is not the recognised shift idiom (append of a 2-byte constant ending in '\"', copy one position to the right, '\"' stored at index 0)", e.Pos(mj))
		return
	}
	lit, _ := flow.ConstString(app.Call.Args[1])
	text := app.Call.Args[0]
	// the bytes quoted are the text marshalling of the receiver, untouched
	origin := false
	if ex, ok := text.(*ssa.Extract); ok && ex.Index == 0 {
		if call, ok := ex.Tuple.(*ssa.Call); ok && len(call.Call.Args) == 1 && flow.StripConv(call.Call.Args[0]) == ssa.Value(mj.Params[0]) {
			if g := e.C.StaticCallee(&call.Call); g != nil && (flow.Origin(g) == e.P.Method("size", "Size", "marshalText") || flow.Origin(g) == e.P.Method("size", "Size", "MarshalText")) {
				origin = true
			}
		}
	}
	if origin {
		e.S.Ok(rule, site, "text", "the quoted bytes are the first result of the receiver's text marshalling, unmodified", e.posOf(app))
	} else {
		e.S.Bad(rule, site, "text", "the bytes put between the quotes are not the unmodified result of marshalText on the receiver", e.posOf(app), "")
	}
	if len(lit) != 2 {
		e.S.Bad(rule, site, "grow", fmt.Sprintf("the buffer is grown by %d byte(s) (%q); the quoted form needs exactly two more (opening and closing quote)", len(lit), lit), e.posOf(app), "")
	} else {
		e.S.Ok(rule, site, "grow", "text grown by two bytes, the last one '\"'", e.posOf(app))
	}
	// l = len(text)
	isLenText := func(v ssa.Value) bool {
		a, ok := flow.IsLenOf(v)
		return ok && a == text
	}
	dst, ok1 := cp.Call.Args[0].(*ssa.Slice)
	src, ok2 := cp.Call.Args[1].(*ssa.Slice)
	okShift := ok1 && ok2 && dst.X == ssa.Value(app) && src.X == ssa.Value(app)
	if okShift {
		lo, okLo := flow.ConstInt(dst.Low)
		hi, okHi := dst.High.(*ssa.BinOp)
		okShift = okLo && lo == 1 && okHi && hi.Op == token.ADD && isLenText(hi.X) && src.Low == nil && isLenText(src.High)
		if okShift {
			if k, ok := flow.ConstInt(hi.Y); !ok || k != 1 {
				okShift = false
			}
		}
	}
	if okShift {
		e.S.Ok(rule, site, "shift", "copy(b[1:l+1], b[:l]) moves the text one position right", e.posOf(cp))
	} else {
		e.S.Bad(rule, site, "shift", "the text is not shifted right by exactly one position over its whole length", e.posOf(cp), "")
	}
	if ia := st.Addr.(*ssa.IndexAddr); ia.X != ssa.Value(app) {
		e.S.Bad(rule, site, "open quote", "the opening quote is not stored into the grown buffer", e.posOf(st), "")
	} else if !(cp.Block() == st.Block() || cp.Block().Dominates(st.Block())) {
		e.S.Bad(rule, site, "open quote", "the opening quote is stored before the text is shifted", e.posOf(st), "")
	} else {
		e.S.Ok(rule, site, "open quote", "'\"' stored at index 0 after the shift", e.posOf(st))
	}
	ret := false
	var derives func(v ssa.Value, depth int) bool
	derives = func(v ssa.Value, depth int) bool {
		if v == text {
			return true
		}
		if depth > 6 {
			return false
		}
		switch x := v.(type) {
		case *ssa.Slice:
			return derives(x.X, depth+1)
		case *ssa.ChangeType:
			return derives(x.X, depth+1)
		case *ssa.Convert:
			return derives(x.X, depth+1)
		case *ssa.Phi:
			for _, ed := range x.Edges {
				if derives(ed, depth+1) {
					return true
				}
			}
		case *ssa.Call:
			if bi, ok := x.Call.Value.(*ssa.Builtin); ok && bi.Name() == "append" {
				return derives(x.Call.Args[0], depth+1)
			}
		}
		return false
	}
	for _, r := range flow.Returns(mj) {
		if len(r.Results) == 2 && r.Results[0] == ssa.Value(app) && flow.IsNilConst(r.Results[1]) && (st.Block() == r.Block() || st.Block().Dominates(r.Block())) {
			ret = true
		} else if len(r.Results) == 2 && derives(r.Results[0], 0) {
			// every return that hands back the text goes through the quoting
			ret = false
			e.S.Bad(rule, site, "result", "a return hands back the marshalled text other than as the buffer quoted by the idiom", e.posOf(r), "")
			return
		} else if len(r.Results) == 2 && flow.IsNilConst(r.Results[1]) {
			// any other success return is one of the two other forms, each the result of one call (the object writer,
			// strconv.AppendUint — C04.forms reads them): a text built on the spot (a fast path for round sizes, a second
			// way of quoting) is a string form this rule has not read
			c, ok := r.Results[0].(*ssa.Call)
			if ok {
				f := c.Call.StaticCallee()
				ok = f != nil && (flow.InRepo(f) || f.String() == "strconv.AppendUint")
			}
			if !ok {
				e.S.Bad(rule, site, "result", "a further success return builds its own text ("+r.Results[0].String()+"): besides the object form, the number form and the one quoted text nothing is to be returned", e.posOf(r), "Size(1024) on a fast path for whole kibibytes")
				return
			}
		}
	}
	if ret {
		e.S.Ok(rule, site, "result", "the quoted buffer is returned with a nil error", e.Pos(mj))
	} else {
		e.S.Bad(rule, site, "result", "the quoted buffer is not what the string form returns", e.Pos(mj), "")
	}
}

// ruleC04Keys: the object reader switches on the marshal key constants.
func ruleC04Keys(e *Env) { ruleKeys(e, "C04.keys", false) }

// ruleKeys: strict (C12): a member is value / unit only if its key equals the constant up to ASCII case — the
// normaliser must be a function of the module that lower-cases A–Z and nothing else (strings.ToLower folds U+0130
// and U+212A onto ASCII letters too: "un\u0130t" would be the unit member). Not strict (C04): the reader finds the
// keys the writer emits, for which strings.ToLower is as good.
func ruleKeys(e *Env, rule string, strict bool) {
	kv, ku := tabConstString(e, "size", "ObjectKeyValue"), tabConstString(e, "size", "ObjectKeyUnit")
	rd := e.Fn(rule, "size", "unmarshalJSONObject")
	if rd == nil || kv == "" || ku == "" {
		return
	}
	site := flow.FnName(rd)
	for _, k := range []struct{ name, v string }{{"ObjectKeyValue", kv}, {"ObjectKeyUnit", ku}} {
		if k.v != strings.ToLower(k.v) {
			e.S.Bad(rule, "size."+k.name, "case", fmt.Sprintf("key constant %q is not lower-case but the reader compares lower-cased keys: the marshalled object is not readable", k.v), "", "")
		} else {
			e.S.Ok(rule, "size."+k.name, "case", fmt.Sprintf("%q is lower-case", k.v), "")
		}
	}
	cmp := map[string]bool{}
	preparedKey := ""
	lowered := true
	normaliser, notASCII := "", ""
	unicodeFold := false
	for _, b := range rd.Blocks {
		for _, in := range b.Instrs {
			bo, ok := in.(*ssa.BinOp)
			if !ok || bo.Op != token.EQL {
				continue
			}
			s, ok := flow.ConstString(bo.Y)
			keyExpr := bo.X
			if !ok {
				// the key classified through a literal map (`switch kinds[lower(key)] { case kindValue: … }`): the arm for
				// kind K is the arm for the one key the map sends to K
				lk, isLk := bo.X.(*ssa.Lookup)
				kc, isK := bo.Y.(*ssa.Const)
				if !isLk || lk.CommaOk || !isK || kc.Value == nil {
					continue
				}
				ld, isLd := lk.X.(*ssa.UnOp)
				if !isLd {
					continue
				}
				g, isG := ld.X.(*ssa.Global)
				if !isG || g.Pkg == nil {
					continue
				}
				mv, found := e.globalTables()(g.Pkg.Pkg.Name() + "." + g.Name() + "#map")
				m, isMap := mv.(*pred.MapV)
				if !found || !isMap {
					continue
				}
				var pre []string
				for k, v := range m.Entries {
					if c, isC := v.(pred.Const); isC && c.V != nil && constant.Compare(c.V, token.EQL, kc.Value) {
						if uq, err := strconv.Unquote(k); err == nil {
							pre = append(pre, uq)
						}
					}
				}
				if len(pre) != 1 {
					continue // no key, or several keys share the arm: not the arm of one marshal key
				}
				s, keyExpr = pre[0], lk.Index
			}
			call, ok := keyExpr.(*ssa.Call)
			switch {
			case !ok || call.Call.StaticCallee() == nil:
				lowered = false
			case call.Call.StaticCallee().String() == "strings.ToLower":
				normaliser = "strings.ToLower"
				if strict {
					unicodeFold = true
				}
			case flow.InRepo(call.Call.StaticCallee()):
				normaliser = flow.FnName(call.Call.StaticCallee())
				if len(call.Call.Args) == 1 {
					if inner, isCall := call.Call.Args[0].(*ssa.Call); isCall {
						preparedKey = "passed through " + inner.Call.String()
					}
				}
				if ok, why := asciiLowerOnly(e, flow.Origin(call.Call.StaticCallee()), max(len(kv), len(ku))); !ok {
					lowered = false
					notASCII = why
				}
			default:
				lowered = false
			}
			cmp[s] = true
		}
	}
	// no other constant is taken for a member, and the normaliser is applied to the key as read (not to a trimmed or
	// otherwise prepared copy: " unit " is not the unit member)
	for k := range cmp {
		if k != kv && k != ku {
			e.S.Bad(rule, site, "case "+quote(k), "the reader also compares the key with "+quote(k)+", which is not a marshal key: another member name is taken for value or unit", e.Pos(rd), "")
		}
	}
	if preparedKey != "" {
		e.S.Bad(rule, site, "key as read", "the key is "+preparedKey+" before it is normalised: keys are case-insensitive, not otherwise equivalent", e.Pos(rd), `{"value":1," unit ":"KiB"}`)
	}
	for _, k := range []string{kv, ku} {
		if cmp[k] {
			e.S.Ok(rule, site, "case "+quote(k), "the reader has an arm for "+quote(k), e.Pos(rd))
		} else {
			e.S.Bad(rule, site, "case "+quote(k), "the reader has no arm for the marshal key "+quote(k), e.Pos(rd), "")
		}
	}
	switch {
	case notASCII != "":
		e.S.Bad(rule, site, "lower-casing", "the key normaliser "+normaliser+" is not ASCII lower-casing: "+notASCII, e.Pos(rd), "")
	case !lowered:
		e.S.Bad(rule, site, "lower-casing", "a key comparison is not made on the lower-cased key: keys are documented case-insensitive", e.Pos(rd), `{"VALUE":1,"Unit":"B"}`)
	case unicodeFold:
		e.S.Bad(rule, site, "lower-casing", "keys are compared after strings.ToLower, which also maps U+0130 to 'i' and U+212A to 'k': a member named \"un\\u0130t\" is taken for the unit member (accepted with RuleDisallowUnknownKeys, a duplicate beside a real unit, a substitute for a missing one)", e.Pos(rd), `{"value":1,"un\u0130t":"KiB"} under RuleDisallowUnknownKeys`)
	default:
		e.S.Ok(rule, site, "lower-casing", "every key comparison is made on "+normaliser+"(key)", e.Pos(rd))
	}
}

// asciiLowerOnly: fn(s string) string maps A–Z to a–z and every other byte to itself. fn is evaluated on a
// one-byte text and on a text of `positions` bytes, the examined byte at each position in turn, for each of the 26
// letters and for an opaque byte of each of the two gaps. Only texts as long as a key constant can equal it, so
// positions = the longest key is every position that matters.
func asciiLowerOnly(e *Env, fn *ssa.Function, positions int) (bool, string) {
	if len(fn.Params) != 1 || len(fn.Blocks) == 0 {
		return false, "not a function of one string"
	}
	type class struct{ lo, hi int64 }
	classes := []class{{0, 'A' - 1}}
	for c := int64('A'); c <= 'Z'; c++ {
		classes = append(classes, class{c, c})
	}
	classes = append(classes, class{'Z' + 1, 255})
	// the byte of each class alone, and at the first, middle and last position of a three-byte text between two bytes
	// that must stay as they are: the treatment of a byte does not depend on where it stands
	type layout struct{ n, at int }
	layouts := []layout{{1, 0}}
	for at := 0; at < positions; at++ {
		layouts = append(layouts, layout{positions, at})
	}
	for _, cl := range classes {
		for _, ly := range layouts {
			cl, ly := cl, ly
			var elem pred.Val = pred.Sym{Name: "b"}
			if cl.lo == cl.hi {
				elem = pred.Const{V: constant.MakeInt64(cl.lo)}
			}
			cell := &pred.Cell{V: elem, Name: "byte"}
			var cells []*pred.Cell
			for i := 0; i < ly.n; i++ {
				if i == ly.at {
					cells = append(cells, cell)
				} else {
					cells = append(cells, &pred.Cell{V: pred.Const{V: constant.MakeInt64('-')}, Name: "byte"})
				}
			}
			fixed := func(a, b pred.Val) (int, bool, bool) {
				if sy, ok := a.(pred.Sym); ok && sy.Name == "b" {
					if c, ok := b.(pred.Const); ok && c.V != nil && c.V.Kind() == constant.Int {
						k, _ := constant.Int64Val(c.V)
						switch {
						case k < cl.lo:
							return 1, true, true
						case k > cl.hi:
							return -1, true, true
						}
					}
				}
				return 0, false, false
			}
			o := &treeOracle{assign: map[string]int{}, fixed: fixed, keyOf: func(a, b pred.Val) (string, bool) { return "", false }}
			ev := &pred.Evaluator{Prog: e.P.SSA, Oracle: o, GlobalInit: e.globalTables()}
			out, err := ev.Eval(fn, []pred.Val{&pred.SliceV{Elems: cells}})
			if err != nil {
				return false, "not evaluable byte by byte: " + err.Error()
			}
			res, ok := out.Ret.(*pred.SliceV)
			if !ok || len(res.Elems) != ly.n {
				return false, fmt.Sprintf("returns %v for a %d-byte text", out.Ret, ly.n)
			}
			where := fmt.Sprintf(" (position %d of %d)", ly.at, ly.n)
			for i, c := range res.Elems {
				if i != ly.at {
					if k, ok := intOf(c.V); !ok || k != '-' {
						return false, fmt.Sprintf("the byte '-' next to the examined one is rewritten to %v%s", c.V, where)
					}
				}
			}
			got := res.Elems[ly.at].V
			if cl.lo == cl.hi {
				if k, ok := intOf(got); !ok || k != cl.lo+32 {
					return false, fmt.Sprintf("%q is mapped to %v, not to %q%s", rune(cl.lo), got, rune(cl.lo+32), where)
				}
			} else if got.String() != "b" {
				return false, fmt.Sprintf("bytes %#x..%#x are rewritten (to %v)%s", cl.lo, cl.hi, got, where)
			}
		}
	}
	return true, ""
}

// ruleC04Sep: what the pretty formatter inserts is what the text parser skips.
func ruleC04Sep(e *Env) {
	const rule = "C04.sep"
	pn := e.Fn(rule, "size", "prepareNumber")
	if pn == nil {
		return
	}
	_ = flow.FnName(pn)
	// the per-rune transfer function of the scanning loop, over a partition of all rune values × (nothing kept yet /
	// something kept): space is skipped everywhere, '_' and no-break space only once a digit has been kept, digits
	// are kept, anything else ends the number
	runeLoopTable(e, rule, pn)
	// the separators the formatter can emit under String/PrettyString
	if as := e.Fn(rule, "size", "appendSeparator"); as != nil {
		// pretty (non-HTML) separator must be the single space the parser skips: decided by C13.sep; here only the link
		e.S.Ok(rule, flow.FnName(as), "link", "separator table of the formatter is decided by C13.sep: plain \"\" and pretty \" \"; both are skipped by the parser (above)", e.Pos(as))
	}
	// units need no JSON escaping and contain no separator character
	if got, _ := sizeUnits(e, rule); got != nil {
		bad := ""
		for u := range got {
			for _, r := range u {
				if !(r >= 'A' && r <= 'Z' || r >= 'a' && r <= 'z') {
					bad = u
				}
			}
		}
		if bad != "" {
			e.S.Bad(rule, "size.unitToValues", "alphabet", "unit "+quote(bad)+" contains a character that needs JSON escaping or is a separator", "", "")
		} else {
			e.S.Ok(rule, "size.unitToValues", "alphabet", "units are ASCII letters only: no JSON escaping needed, no separator inside", "")
		}
	}
	if g := e.Var("C04.limit", "size", "MaxInputLength"); g != nil {
		kv, ku := tabConstString(e, "size", "ObjectKeyValue"), tabConstString(e, "size", "ObjectKeyUnit")
		longest := int64(len(`{"":,"":""}`) + len(kv) + len(ku) + 20 + 3)
		if v, ok := e.globalIntInit(g); !ok {
			e.S.Unk("C04.limit", "size.MaxInputLength", "default", "initial value is not a constant", "")
		} else if v != 0 && v < longest {
			e.S.Bad("C04.limit", "size.MaxInputLength", "default", fmt.Sprintf("default limit %d is below the longest marshalled form (%d bytes)", v, longest), "", "")
		} else {
			e.S.Ok("C04.limit", "size.MaxInputLength", "default", fmt.Sprintf("default %d ≥ longest marshalled form (%d bytes)", v, longest), "")
		}
	}
}

func blockOnlyJumps(b *ssa.BasicBlock) bool {
	for _, in := range b.Instrs {
		switch in.(type) {
		case *ssa.Jump, *ssa.DebugRef:
		default:
			return false
		}
	}
	return true
}

// runeLoopTable checks prepareNumber's scanning loop against the documented character classes.
func runeLoopTable(e *Env, rule string, pn *ssa.Function) {
	site := flow.FnName(pn)
	rl, err := e.C.AnalyseRuneLoop(pn, 0)
	if err != nil {
		e.S.Unk(rule, site, "scan loop", err.Error(), e.Pos(pn))
		return
	}
	type want struct{ fresh, started flow.RuneOutcome }
	spec := func(lo, hi int64) (want, string) {
		switch {
		case lo == ' ' && hi == ' ':
			return want{flow.RuneSkip, flow.RuneSkip}, "space"
		case lo == '_' && hi == '_':
			return want{flow.RuneStop, flow.RuneSkip}, "underscore"
		case lo == 0xA0 && hi == 0xA0:
			return want{flow.RuneStop, flow.RuneSkip}, "no-break space"
		case lo >= '0' && hi <= '9':
			return want{flow.RuneKeep, flow.RuneKeep}, "digit"
		}
		return want{flow.RuneStop, flow.RuneStop}, "other"
	}
	named := map[string]bool{} // classes already reported as not ok
	okMsg := map[string]string{}
	badOther := ""
	for _, iv := range rl.Partition(' ', '_', 0xA0, '0', '9'+1) {
		w, name := spec(iv[0], iv[1])
		g0, why0 := rl.Step(iv[0], iv[1], false)
		g1, why1 := rl.Step(iv[0], iv[1], true)
		cls := fmt.Sprintf("%s [%#x,%#x]", name, iv[0], iv[1])
		switch {
		case g0 == flow.RuneUndecided || g1 == flow.RuneUndecided:
			e.S.Unk(rule, site, cls, "scan loop not decidable for this class: "+why0+why1, e.Pos(pn))
			named[name] = true
		case g0 == w.fresh && g1 == w.started:
			if name != "other" && !named[name] {
				okMsg[name] = fmt.Sprintf("%s: %v before the first digit, %v after", name, g0, g1)
			}
		default:
			witness := string(rune(iv[0]))
			msg := fmt.Sprintf("%s (%q): the parser does %v before the first digit and %v after one; documented %v / %v", name, rune(iv[0]), g0, g1, w.fresh, w.started)
			switch {
			case name == "space" && g0 != flow.RuneSkip:
				msg = "spaces are not skipped before the first digit: leading spaces / the pretty rendering's separators change the result"
				witness = " 1"
			case (name == "underscore" || name == "no-break space") && g1 != flow.RuneSkip:
				msg = fmt.Sprintf("%s (%q) is not skipped by the text parser", name, rune(iv[0]))
				witness = "1" + string(rune(iv[0])) + "000"
			case (name == "underscore" || name == "no-break space") && g0 == flow.RuneSkip:
				msg = name + " is skipped even before the first digit (documented: between digits and before the unit)"
			case name == "other" && (g0 == flow.RuneSkip || g1 == flow.RuneSkip):
				msg = fmt.Sprintf("the parser also skips %q, which is not a documented separator", rune(iv[0]))
			}
			if name == "other" {
				badOther = msg
				e.S.Bad(rule, site, cls, msg, e.Pos(pn), witness)
			} else {
				e.S.Bad(rule, site, name, msg, e.Pos(pn), witness)
				named[name] = true
			}
		}
	}
	for _, name := range []string{"space", "underscore", "no-break space", "digit"} {
		if msg, ok := okMsg[name]; ok && !named[name] {
			e.S.Ok(rule, site, name, msg, e.Pos(pn))
		}
	}
	if badOther == "" {
		e.S.Ok(rule, site, "other", "every other rune ends the number (the unit starts there)", e.Pos(pn))
	}
	switch n, bad, at := rl.CheckReturns(); {
	case bad != "":
		e.S.Bad(rule, site, "returns", bad, e.posOf(at), "")
	case n == 0:
		e.S.Unk(rule, site, "returns", "no return found", e.Pos(pn))
	default:
		e.S.Ok(rule, site, "returns", fmt.Sprintf("%d return(s): (accumulated digits, \"\") at the end of the input, (accumulated digits, input from the stopping rune on, trailing characters trimmed) otherwise", n), e.Pos(pn))
	}
}
