package props

import (
	"fmt"
	"go/token"
	"go/types"
	"sort"
	"strconv"
	"strings"

	"golang.org/x/tools/go/ssa"

	"utilcheck/flow"
	"utilcheck/lang"
	"utilcheck/pred"
)

func init() {
	register(&Prop{
		ID:    "C14",
		Title: "Version comparison is a coherent order and next/latest respect it",
		Run:   runC14,
		Explanation: "C14.range: interprocedural constant-set propagation closed under negation: every return of Ver.Compare, DefaultComparePreRelease and the functions below it is in {−1,0,1}. " +
			"C14.swap: DefaultComparePreRelease evaluated over the length orderings with the scan left uninterpreted: out(a,b) = −out(b,a) holds syntactically for len(a) ≠ len(b); for equal lengths the residual obligation cPR(a,b) = −cPR(b,a) is listed as not decided. C14.suffix: the remainder comparison as a decision table: all-digit remainders are ordered by length after trimming zeros, then lexically; anything else lexically; the sign convention is that of the caller. " +
			"C14.core: Ver.Compare over the 27 core orderings (as C06.core) gives reflexivity on the core and antisymmetry of the core part. C14.build: no read of Ver.Build on the comparison path. " +
			"C14.latest: Ver.Latest returns one of its two operands unchanged and the argument only when Compare = −1. C14.entry: the six string helpers (as C06.entry), including: an error is returned only behind the failing edge of one of the two parse calls, so a helper fails exactly when a text is invalid for its parser, and every success return carries the result of the method applied to the two parsed values (no shortcut on the texts). " +
			"C14.scan: the byte scan hands the remainder comparison the two operands cut at one common index up to their ends, and ends with 0 under equal lengths (C06.scan under this property: the structural part of antisymmetry for equal lengths). C14.next: NextMajor/Minor/Patch results are (inc,0,0), (copy,inc,0), (copy,copy,inc) with empty PreRelease/Build, inc being word 0 of bits.Add64(field,1,0), and the only panic is on the carry ≠ 0 edge. C14.parse: the helpers' parser as a decision table with its capture → field mapping through strconv.ParseUint (as C03.gate / C06.parse): a text is refused exactly when it is outside the grammar or a component exceeds 64 bits. In C14.swap each distinct callee of DefaultComparePreRelease is a term of its own (two different scan functions on two branches do not cancel). C14.lang: the language of sem.pattern is the SemVer 2.0.0 grammar (C03.lang under this property): a helper errs exactly when a text is invalid." +
			" Added after the second rule audit: C14.suffix 'cut': the index at which the remainders are cut is the first differing position, possibly moved back by a loop (or helper, or TrimRight of the common prefix) that reads only the index and the byte in front of it — a cut that depends on a byte at or behind the difference is not the same for both argument orders; every two-argument callee returned at a difference is tabulated; C14.lang carries the skeleton; C14.entry accepts `return x, err` where err is known nil; Latest may compare in either direction (the mirrored sign).",
		NotDecided:  []string{"antisymmetry of the remainder comparison on the values (C14.suffix gives its decision table, C14.scan that both calls compare the same two remainders at one common index; that strings.Compare / the digit-run order of two texts is antisymmetric is taken from the table, not re-proved per value)"},
		Assumptions: []string{"strings.Compare ∈ {−1,0,1} and is antisymmetric", "bits.Add64 returns sum and carry"},
		Technique:   "predicate abstraction with uninterpreted callees + constant-set propagation over go/ssa",
	})
}

func runC14(e *Env) {
	ruleC06Core(e, "C14.core")
	ruleC06Build(e, "C14.build")
	ruleC06Entry(e, "C14.entry")
	ruleC14Range(e)
	ruleC14Swap(e)
	ruleSuffix(e, "C14.suffix")
	e.S.Floor("C14.suffix", 6)
	ruleC14Latest(e)
	ruleC14Next(e)
	e.S.Floor("C14.core", 28)
	e.S.Floor("C14.entry", 30)
	e.S.Floor("C14.range", 3)
	e.S.Floor("C14.swap", 3)
	e.S.Floor("C14.latest", 3)
	e.S.Floor("C14.next", 6)
	// antisymmetry for equal lengths, the residual of C14.swap: the scan hands the remainder comparison both operands cut
	// at one common index (cut at two different ones, cmp(a,b) and cmp(b,a) compare different pairs of texts)
	ruleC06Scan(e, "C14.scan")
	e.S.Floor("C14.scan", 3)
	// "an error exactly when either text is invalid for that helper": what the helpers' parser accepts and which field
	// each capture reaches (decision table of sem.unmarshalText, as C03.gate / C06.parse)
	ruleSemGate(e, "C14.parse", "C14.parse")
	e.S.Floor("C14.parse", 18)
	ruleNoMatchRejects(e, "C14.parse", e.Fn("C14.parse", "sem", "unmarshalText")) // … and an invalid text is an error
	// "invalid" is the SemVer grammar: a helper that refuses a valid text (1.0.0-alpha+001) fails where it must not
	e.As(map[string]string{"C03.lang": "C14.lang", "C03.num": "C14.lang", "C03.valid": "C14.lang"}, func() { ruleC03Lang(e) })
	// … and the compared fields are the captures of that pattern laid out as the grammar lays them out: nothing matched
	// lies outside the five captures and the literals between them (a group that swallowed "0." in front of the
	// pre-release would change what is compared without changing the language)
	e.skeleton("C14.lang", "sem", "pattern", "^<1>.<2>.<3>[-<4>][+<5>]$")
	e.S.Floor("C14.lang", 3)
}

// ---- C14.range

func ruleC14Range(e *Env) {
	const rule = "C14.range"
	cmp := e.Method(rule, "sem", "Ver", "Compare")
	if cmp == nil {
		return
	}
	memo := map[*ssa.Function]map[int64]bool{}
	var top = map[int64]bool{1 << 40: true}
	var retSet func(fn *ssa.Function, depth int) map[int64]bool
	var valSet func(v ssa.Value, depth int) map[int64]bool
	valSet = func(v ssa.Value, depth int) map[int64]bool {
		if depth > 10 {
			return top
		}
		if k, ok := flow.ConstInt(v); ok {
			return map[int64]bool{k: true}
		}
		switch x := v.(type) {
		case *ssa.UnOp:
			if x.Op == token.SUB {
				out := map[int64]bool{}
				for k := range valSet(x.X, depth+1) {
					if k == 1<<40 {
						return top
					}
					out[-k] = true
				}
				return out
			}
		case *ssa.BinOp:
			// products of small sets (sign * result)
			if x.Op == token.MUL {
				a, b := valSet(x.X, depth+1), valSet(x.Y, depth+1)
				if a[1<<40] || b[1<<40] || len(a)*len(b) > 64 {
					return top
				}
				out := map[int64]bool{}
				for p := range a {
					for q := range b {
						out[p*q] = true
					}
				}
				return out
			}
		case *ssa.Phi:
			out := map[int64]bool{}
			for _, ed := range x.Edges {
				for k := range valSet(ed, depth+1) {
					out[k] = true
				}
			}
			return out
		case *ssa.Call:
			callee := e.C.StaticCallee(&x.Call)
			if callee == nil {
				return top
			}
			switch callee.String() {
			case "strings.Compare", "bytes.Compare":
				return map[int64]bool{-1: true, 0: true, 1: true}
			}
			if flow.InRepo(callee) {
				return retSet(callee, depth+1)
			}
		case *ssa.Convert:
			return valSet(x.X, depth+1)
		}
		return top
	}
	retSet = func(fn *ssa.Function, depth int) map[int64]bool {
		fn = flow.Origin(fn)
		if s, ok := memo[fn]; ok {
			return s
		}
		memo[fn] = map[int64]bool{} // recursion guard
		out := map[int64]bool{}
		for _, r := range flow.Returns(fn) {
			if len(r.Results) != 1 {
				out[1<<40] = true
				continue
			}
			for k := range valSet(r.Results[0], depth) {
				out[k] = true
			}
		}
		memo[fn] = out
		return out
	}
	retSet(cmp, 0)
	var fns []*ssa.Function
	for f := range memo {
		fns = append(fns, f)
	}
	sort.Slice(fns, func(i, j int) bool { return fns[i].String() < fns[j].String() })
	for _, f := range fns {
		var ks []int64
		for k := range memo[f] {
			ks = append(ks, k)
		}
		sort.Slice(ks, func(i, j int) bool { return ks[i] < ks[j] })
		bad := ""
		for _, k := range ks {
			if k == 1<<40 {
				bad = "a value of unknown range"
			} else if k < -1 || k > 1 {
				bad = fmt.Sprint(k)
			}
		}
		if bad != "" {
			e.S.Bad(rule, flow.FnName(f), "results", "the comparison path can return "+bad+", outside {-1,0,1}", e.Pos(f), "")
		} else {
			e.S.Ok(rule, flow.FnName(f), "results", fmt.Sprintf("every return value is in %v ⊆ {-1,0,1}", ks), e.Pos(f))
		}
	}
}

// ---- C14.swap

func negStr(s string) string {
	switch {
	case s == "0":
		return "0"
	case strings.HasPrefix(s, "-"):
		return s[1:]
	}
	return "-" + s
}

func swapAB(s string) string {
	s = strings.ReplaceAll(s, "(a,b)", "(\x00)")
	s = strings.ReplaceAll(s, "(b,a)", "(a,b)")
	return strings.ReplaceAll(s, "(\x00)", "(b,a)")
}

func ruleC14Swap(e *Env) {
	const rule = "C14.swap"
	t := preReleaseTable(e, rule)
	if t == nil {
		return
	}
	site := "sem.DefaultComparePreRelease"
	mirror := func(key string) string {
		var la0, lb0, lalb int
		fmt.Sscanf(key, "%d,%d,%d", &la0, &lb0, &lalb)
		return fmt.Sprintf("%d,%d,%d", lb0, la0, -lalb)
	}
	var keys []string
	for k := range t {
		keys = append(keys, k)
	}
	sort.Strings(keys)
	for _, k := range keys {
		out := t[k]                 // out(a,b) in scenario k
		rev := swapAB(t[mirror(k)]) // out(b,a): scenario mirror(k) with the operand names exchanged
		construct := "lengths " + k
		switch {
		case out == negStr(rev):
			e.S.Ok(rule, site, construct, fmt.Sprintf("out(a,b) = %s = −out(b,a)", out), "")
		case k == "1,1,0" && (out == "-cPR(a,b)" && rev == "-cPR(b,a)" || out == "-cPR(b,a)" && rev == "-cPR(a,b)" || out == "cPR(b,a)" && rev == "cPR(a,b)" || out == "cPR(a,b)" && rev == "cPR(b,a)"):
			e.S.Ok(rule, site, construct, fmt.Sprintf("equal lengths: out(a,b) = %s, out(b,a) = %s; antisymmetry reduces to the residual cPR(a,b) = −cPR(b,a) (not decided, listed)", out, rev), "")
		default:
			e.S.Bad(rule, site, construct, fmt.Sprintf("out(a,b) = %s but out(b,a) = %s: the sign is not consistent under exchanging the operands", out, rev), "", "two pre-releases of different length")
		}
	}
}

// ---- C14.suffix: decision table of the remainder comparison

func ruleSuffix(e *Env, rule string) {
	cpr := scanFunc(e, rule)
	if cpr == nil {
		return
	}
	// the remainder function(s): every two-argument callee of the module whose result the scan returns at a difference
	// (a helper called elsewhere — a digit predicate in the loop condition — is not one; each one that is gets the table)
	type remainder struct {
		fn   *ssa.Function
		call *ssa.Call
	}
	var rems []remainder
	seenRem := map[*ssa.Function]bool{}
	for _, c := range e.C.Calls(cpr, flow.InRepo) {
		g := e.C.StaticCallee(&c.Call)
		if g == nil || len(g.Params) != 2 || len(c.Call.Args) != 2 {
			continue
		}
		returned := false
		for _, r := range *c.Referrers() {
			switch x := r.(type) {
			case *ssa.Return:
				returned = true
			case *ssa.UnOp: // −cmp(…)
				for _, r2 := range *x.Referrers() {
					if _, ok := r2.(*ssa.Return); ok {
						returned = true
					}
				}
			case *ssa.Phi:
				returned = true
			}
		}
		if returned && !seenRem[g] {
			seenRem[g] = true
			rems = append(rems, remainder{g, c})
		} else if returned && rule == "C14.suffix" {
			// a further call of a remainder function already tabulated: the same cut, the same operand order
			var first *ssa.Call
			for _, r := range rems {
				if r.fn == g {
					first = r.call
				}
			}
			if first != nil && shorterArgIndex(cpr, c) != shorterArgIndex(cpr, first) {
				e.S.Bad(rule, flow.FnName(cpr), "operand order", "the remainder function is called with its two operands exchanged at one of its call sites: the comparison there is the mirror of the other one", e.posOf(c), "1.0.0-x- vs 1.0.0-xa")
			}
			ruleDigitRunStart(e, rule, cpr, c, true)
		}
	}
	if len(rems) == 0 {
		e.S.Ok(rule, flow.FnName(cpr), "remainder function", "no separate remainder comparison (nothing to tabulate)", e.Pos(cpr))
		return
	}
	for _, rem := range rems {
		ruleSuffixOf(e, rule, cpr, rem.fn, rem.call)
	}
}

// ruleSuffixOf: the decision table of one remainder function.
func ruleSuffixOf(e *Env, rule string, cpr, suf *ssa.Function, sufCall *ssa.Call) {
	site := flow.FnName(suf)
	keyOf := func(a, b pred.Val) (string, bool) {
		as, bs := a.String(), b.String()
		if (strings.HasPrefix(as, "(*regexp.Regexp).MatchString(") || strings.HasPrefix(as, "(*regexp.Regexp).Match(")) && bs == "true" {
			return strings.Replace(as, "(*regexp.Regexp).Match(", "(*regexp.Regexp).MatchString(", 1), true // bytes or string: the same automaton
		}
		if strings.HasPrefix(as, "len(") && strings.HasPrefix(bs, "len(") {
			if as > bs {
				return "~" + bs + "|" + as, true
			}
			return as + "|" + bs, true
		}
		return "", false
	}
	domain := func(k string) []int {
		if strings.HasPrefix(k, "len(") {
			return []int{-1, 0, 1}
		}
		return []int{0, 1}
	}
	mk := func() []pred.Val { return []pred.Val{pred.Sym{Name: "s"}, pred.Sym{Name: "l"}} }
	mkArgs := e.Permuted("sem", "comparePreReleaseSuffix", suf, mk)
	// which parameter is the remainder of the shorter operand is read off the call site: the scan that leads to the
	// call runs while i < len(X); the argument sliced from X is the shorter one's remainder
	if si := shorterArgIndex(cpr, sufCall); si >= 0 {
		mkArgs = func() []pred.Val {
			a := []pred.Val{pred.Sym{Name: "l"}, pred.Sym{Name: "l"}}
			a[si] = pred.Sym{Name: "s"}
			return a
		}
	}
	leaves, err := extractTree(e.P.SSA, suf, mkArgs, nil, nil, keyOf, domain)
	if err != nil {
		e.S.Unk(rule, site, "table", err.Error(), e.Pos(suf))
		return
	}
	lex := func(x, y string) []string {
		return []string{"-strings.Compare(" + x + "," + y + ")", "strings.Compare(" + y + "," + x + ")",
			"-bytes.Compare(" + x + "," + y + ")", "bytes.Compare(" + y + "," + x + ")"}
	}
	in := func(s string, set []string) bool {
		for _, x := range set {
			if s == x {
				return true
			}
		}
		return false
	}
	ts, tl := `strings.TrimLeft(s,"0")`, `strings.TrimLeft(l,"0")`
	if len(suf.Params) == 2 {
		if _, isSlice := suf.Params[0].Type().Underlying().(*types.Slice); isSlice { // the remainders as byte slices
			ts, tl = `bytes.TrimLeft(s,"0")`, `bytes.TrimLeft(l,"0")`
		}
	}
	numericByLength := false
	// the "all-digit" atom is a match against a regexp global: its language must be the digit strings (empty included)
	digitGlobals := map[string]bool{}
	defer func() {
		var names []string
		for g := range digitGlobals {
			names = append(names, g)
		}
		sort.Strings(names)
		for _, g := range names {
			if !strings.HasPrefix(g, "*sem.") {
				e.S.Unk(rule, site, "digit test "+g, "the all-digit test does not match against a regexp global of the package", e.Pos(suf))
				continue
			}
			pat, ok := e.pattern(rule, "sem", strings.TrimPrefix(g, "*sem."))
			if !ok {
				continue
			}
			sp, ds, err := lang.Build(pat, `^[0-9]*$`)
			if err != nil {
				e.S.Unk(rule, "sem."+strings.TrimPrefix(g, "*sem."), "language", err.Error(), "")
				continue
			}
			e.langEqual(rule, "sem."+strings.TrimPrefix(g, "*sem."), "language", sp, ds[0], ds[1], g[1:], "digit strings [0-9]*")
		}
	}()
	defer func() {
		// digit counts of the remainders order the numbers only if the remainders are whole digit runs
		if numericByLength && rule == "C06.numorder" {
			ruleDigitRunStart(e, rule, cpr, sufCall, false)
		}
		// antisymmetry: where the remainders are cut is decided by what the two operands share (C14.suffix)
		if rule == "C14.suffix" {
			ruleDigitRunStart(e, rule, cpr, sufCall, true)
		}
	}()
	for _, lf := range leaves {
		construct := lf.String()
		if lf.Err != nil {
			e.S.Unk(rule, site, construct, lf.Err.Error(), e.Pos(suf))
			continue
		}
		bothDigits := true
		nm := 0
		lenOrd, hasLen := 0, false
		for k, v := range lf.Assign {
			if strings.HasPrefix(k, "(*regexp.Regexp).MatchString(") {
				if i := strings.Index(k, ","); i > 0 {
					digitGlobals[k[len("(*regexp.Regexp).MatchString("):i]] = true
				}
				nm++
				if v != 0 {
					bothDigits = false
				}
			}
			if strings.HasPrefix(k, "len(") {
				hasLen = true
				lenOrd = v
				if !strings.HasPrefix(k, "len("+ts+")") {
					lenOrd = -v
				}
			}
		}
		got := lf.Out.Ret.String()
		switch {
		case !bothDigits || nm < 2:
			if in(got, lex("s", "l")) {
				e.S.Ok(rule, site, construct, "not both all-digit ⇒ lexical order of the remainders (sign: longer operand vs shorter)", e.Pos(suf))
			} else {
				e.S.Bad(rule, site, construct, "not both all-digit: returns "+got+", expected the lexical comparison of the two remainders with the caller's sign convention", e.Pos(suf), "")
			}
		case hasLen && lenOrd != 0:
			numericByLength = true
			// result is cmp(longer operand, shorter operand): more digits in l ⇒ +1
			want := "1"
			if lenOrd > 0 {
				want = "-1"
			}
			if got == want {
				e.S.Ok(rule, site, construct, "both all-digit, different number of significant digits ⇒ "+want+" (the longer number is greater)", e.Pos(suf))
			} else {
				e.S.Bad(rule, site, construct, "both all-digit with different digit counts: returns "+got+", numeric order demands "+want, e.Pos(suf), "1.0.0-2 vs 1.0.0-11")
			}
		case hasLen:
			if in(got, lex(ts, tl)) {
				e.S.Ok(rule, site, construct, "both all-digit, same digit count ⇒ lexical order of the zero-trimmed digits", e.Pos(suf))
			} else {
				e.S.Bad(rule, site, construct, "both all-digit with equal digit counts: returns "+got+", expected the lexical comparison of the zero-trimmed remainders", e.Pos(suf), "")
			}
		default:
			e.S.Bad(rule, site, construct, "both remainders all-digit but no comparison of their digit counts decides the result ("+got+"): numeric identifiers compared lexically", e.Pos(suf), "1.0.0-2 vs 1.0.0-11")
		}
	}
}

// ruleDigitRunStart: the remainder function orders all-digit remainders by their digit count. That is the numeric
// order of the identifiers only if no digit common to both precedes the remainders: the index J at which both
// operands are cut satisfies J == 0 or s[J-1] is not a digit on every path to the call. Recognised: J is the variable
// of a rewind loop entered from the scan index, stepping J-1, every exit of which is the failing edge of `J > 0` or
// of one half of the digit test on s[J-1] ('0' <= c, c <= '9').
//
// symOnly (C14): the weaker, order-free reading — the cut index is the first differing position, possibly moved back
// by a loop that looks at nothing but the index and the byte in front of it (the common prefix): a cut that depends on
// a byte at or behind the difference differs between Compare(a,b) and Compare(b,a).
func ruleDigitRunStart(e *Env, rule string, scan *ssa.Function, call *ssa.Call, symOnly bool) {
	site := flow.FnName(scan)
	construct := "digit run start"
	witness := "1.0.0-11 vs 1.0.0-101"
	if symOnly {
		construct, witness = "cut", "1.0.0-x0 vs 1.0.0-x1"
	}
	bad := func(msg string) { e.S.Bad(rule, site, construct, msg, e.posOf(call), witness) }
	if call == nil || len(call.Call.Args) != 2 {
		return
	}
	var cut ssa.Value
	var subject ssa.Value
	for _, a := range call.Call.Args {
		sl, ok := a.(*ssa.Slice)
		if !ok || sl.Low == nil || sl.High != nil {
			e.S.Unk(rule, site, construct, "the remainders are not of the form x[J:]", e.posOf(call))
			return
		}
		if cut != nil && cut != sl.Low {
			e.S.Unk(rule, site, construct, "the two remainders are cut at different indices", e.posOf(call))
			return
		}
		cut = sl.Low
		if subject == nil {
			subject = sl.X
		}
	}
	subjects := map[ssa.Value]bool{}
	for _, a := range call.Call.Args {
		subjects[a.(*ssa.Slice).X] = true
	}
	// the scan index: the position at which the two operands are compared byte by byte
	isScanIndex := func(v ssa.Value) bool {
		for _, b := range scan.Blocks {
			iff, ok := b.Instrs[len(b.Instrs)-1].(*ssa.If)
			if !ok {
				continue
			}
			cmp, ok := iff.Cond.(*ssa.BinOp)
			if !ok || (cmp.Op != token.NEQ && cmp.Op != token.EQL) {
				continue
			}
			n := 0
			for _, side := range []ssa.Value{cmp.X, cmp.Y} {
				switch x := side.(type) {
				case *ssa.Index:
					if subjects[x.X] && x.Index == v {
						n++
					}
				case *ssa.UnOp:
					if ia, ok := x.X.(*ssa.IndexAddr); ok && x.Op == token.MUL && subjects[ia.X] && ia.Index == v {
						n++
					}
				}
			}
			if n == 2 {
				return true
			}
		}
		return false
	}
	// the cut computed by a helper of the module from (operand, first differing position): read the helper's loop
	entry := isScanIndex
	loopFn := scan
	if hc, ok := cut.(*ssa.Call); ok {
		if g := e.C.StaticCallee(&hc.Call); g != nil && flow.InRepo(g) && len(hc.Call.Args) == len(g.Params) {
			var subjP, idxP *ssa.Parameter
			for i, a := range hc.Call.Args {
				switch {
				case subjects[a]:
					subjP = g.Params[i]
				case isScanIndex(a):
					idxP = g.Params[i]
				}
			}
			var res ssa.Value
			nres := 0
			for _, r := range flow.Returns(g) {
				if len(r.Results) == 1 && (res == nil || res == r.Results[0]) {
					res = r.Results[0]
				} else {
					nres = 2
				}
			}
			if subjP != nil && idxP != nil && res != nil && nres == 0 {
				cut, loopFn = res, g
				subjects = map[ssa.Value]bool{subjP: true}
				entry = func(v ssa.Value) bool { return v == ssa.Value(idxP) }
			}
		}
	}
	// the cut as len(strings.TrimRight(x[:i], digits)): the common prefix without its trailing digit run
	if inner, isLen := flow.IsLenOf(cut); isLen {
		if tc, ok := inner.(*ssa.Call); ok && len(tc.Call.Args) == 2 {
			name := calleeName(&tc.Call)
			sl, isSl := tc.Call.Args[0].(*ssa.Slice)
			set, isSet := flow.ConstString(tc.Call.Args[1])
			if (name == "strings.TrimRight" || name == "bytes.TrimRight") && isSl && isSet && subjects[sl.X] && sl.Low == nil && sl.High != nil && entry(sl.High) {
				digits := map[byte]bool{}
				only := true
				for i := 0; i < len(set); i++ {
					digits[set[i]] = true
					if set[i] < '0' || set[i] > '9' {
						only = false
					}
				}
				switch {
				case symOnly:
					e.S.Ok(rule, site, construct, "the remainders are cut where the common prefix's trailing run of "+strconv.Quote(set)+" starts: the same cut for both argument orders", e.posOf(call))
				case only && len(digits) == 10:
					e.S.Ok(rule, site, construct, "the remainders are cut at len(TrimRight(common prefix, digits)): the compared digit counts are those of whole digit runs", e.posOf(call))
				default:
					bad("the common prefix is trimmed of " + strconv.Quote(set) + ", not of exactly the ten digits: the remainders do not start at the digit run's first digit")
				}
				return
			}
		}
	}
	ph, ok := cut.(*ssa.Phi)
	var back *ssa.BinOp
	if ok {
		for _, ed := range ph.Edges {
			if bo, isB := ed.(*ssa.BinOp); isB && bo.Op == token.SUB && bo.X == ssa.Value(ph) {
				if k, isC := flow.ConstInt(bo.Y); isC && k == 1 {
					back = bo
				}
			}
		}
	}
	if symOnly && back == nil {
		if entry(cut) {
			e.S.Ok(rule, site, construct, "the remainders are cut at the first differing position", e.posOf(call))
		} else if cutFromCall(cut, 0) {
			// computed by a function this rule has no summary for (strings.LastIndexFunc(s[:i], …)+1): not read
			e.S.Unk(rule, site, construct, "the index at which the remainders are cut is computed by a call this rule does not read: whether it depends only on what the two operands share is not decided", e.posOf(call))
		} else {
			bad("the index at which the remainders are cut is neither the first differing position nor that position moved back over the common prefix: a cut that depends on a byte of one operand at or behind the difference is not the same for Compare(a,b) and Compare(b,a)")
		}
		return
	}
	if back != nil {
		// every way into the loop starts it at the first differing position (one of them is not enough: `if s[i] ==
		// '-' { i++ }` in front of the loop joins in its header)
		entryOK, nEntry := true, 0
		for _, ed := range ph.Edges {
			if ed == ssa.Value(back) {
				continue
			}
			nEntry++
			if !entry(ed) {
				entryOK = false
			}
		}
		entryOK = entryOK && nEntry > 0
		if !entryOK {
			bad("the loop that moves the cut back does not start at the first differing position")
			return
		}
	}
	if back == nil {
		bad("the remainders start at the first differing byte, which may lie inside a digit run: digits common to both numbers are dropped before the digit counts are compared, so 11 and 101 (remainders 1 and 01) compare equal")
		return
	}
	head := ph.Block()
	// the rewind loop: blocks dominated by the header from which the back-edge source is reachable
	inLoop := map[*ssa.BasicBlock]bool{head: true}
	var reach func(b *ssa.BasicBlock, seen map[*ssa.BasicBlock]bool) bool
	reach = func(b *ssa.BasicBlock, seen map[*ssa.BasicBlock]bool) bool {
		if b == back.Block() {
			return true
		}
		if seen[b] || b == head {
			return false
		}
		seen[b] = true
		for _, s := range b.Succs {
			if reach(s, seen) {
				return true
			}
		}
		return false
	}
	for _, b := range loopFn.Blocks {
		if b != head && head.Dominates(b) && reach(b, map[*ssa.BasicBlock]bool{}) {
			inLoop[b] = true
		}
	}
	isPrev := func(v ssa.Value) bool { // J - 1
		bo, ok := v.(*ssa.BinOp)
		if !ok || bo.Op != token.SUB || bo.X != ssa.Value(ph) {
			return false
		}
		k, isC := flow.ConstInt(bo.Y)
		return isC && k == 1
	}
	prevByte := func(v ssa.Value) bool { // s[J-1] of one of the two operands
		switch x := v.(type) {
		case *ssa.Index:
			return subjects[x.X] && isPrev(x.Index)
		case *ssa.UnOp:
			if ia, ok := x.X.(*ssa.IndexAddr); ok && x.Op == token.MUL {
				return subjects[ia.X] && isPrev(ia.Index)
			}
		}
		return false
	}
	// exitOK: leaving the loop on this edge implies J == 0 or s[J-1] is not a digit
	var exitOK func(cond ssa.Value, onTrue bool) bool
	exitOK = func(cond ssa.Value, onTrue bool) bool {
		if un, ok := cond.(*ssa.UnOp); ok && un.Op == token.NOT {
			return exitOK(un.X, !onTrue)
		}
		// a predicate of the module on the byte in front of the cut: leaving on its false edge is fine if it holds for
		// every digit (evaluated on '0'..'9')
		if pc, ok := cond.(*ssa.Call); ok && len(pc.Call.Args) == 1 && prevByte(pc.Call.Args[0]) {
			g := e.C.StaticCallee(&pc.Call)
			if g == nil || !flow.InRepo(g) {
				return false
			}
			if symOnly {
				return true
			}
			if onTrue {
				return false
			}
			for c := int64('0'); c <= '9'; c++ {
				ev := &pred.Evaluator{Prog: e.P.SSA, GlobalInit: e.globalTables(), Oracle: noOracle{}}
				out, err := ev.Eval(g, []pred.Val{pred.Const{V: constantInt(c)}})
				if err != nil {
					return false
				}
				if v, ok := boolOf(out.Ret); !ok || !v {
					return false
				}
			}
			return true
		}
		bo, ok := cond.(*ssa.BinOp)
		if !ok {
			return false
		}
		op, x, y := bo.Op, bo.X, bo.Y
		if _, isC := flow.ConstInt(x); isC { // constant on the left: mirror
			x, y = y, x
			switch op {
			case token.LSS:
				op = token.GTR
			case token.GTR:
				op = token.LSS
			case token.LEQ:
				op = token.GEQ
			case token.GEQ:
				op = token.LEQ
			}
		}
		k, isC := flow.ConstInt(y)
		if !isC {
			return false
		}
		if onTrue { // express the edge as the failing edge of the negated test
			switch op {
			case token.LSS:
				op = token.GEQ
			case token.GEQ:
				op = token.LSS
			case token.GTR:
				op = token.LEQ
			case token.LEQ:
				op = token.GTR
			case token.EQL:
				op = token.NEQ
			case token.NEQ:
				op = token.EQL
			}
		}
		// now: the edge is taken when `x op k` is false
		if symOnly && (x == ssa.Value(ph) || prevByte(x)) {
			return true
		}
		switch {
		case x == ssa.Value(ph): // J > 0, J >= 1, J != 0 fail ⇒ J <= 0
			return op == token.GTR && k == 0 || op == token.GEQ && k == 1 || op == token.NEQ && k == 0
		case prevByte(x): // '0' <= c fails ⇒ c < '0';  c <= '9' fails ⇒ c > '9'
			return op == token.GEQ && k == '0' || op == token.GTR && k == '0'-1 || op == token.LEQ && k == '9' || op == token.LSS && k == '9'+1
		}
		return false
	}
	exits := 0
	for b := range inLoop {
		iff, ok := b.Instrs[len(b.Instrs)-1].(*ssa.If)
		if !ok {
			continue
		}
		for k, s := range b.Succs {
			if inLoop[s] {
				continue
			}
			exits++
			if !exitOK(iff.Cond, k == 0) {
				if symOnly {
					bad("the loop that moves the cut back is left on a test (" + iff.Cond.String() + ") of something other than the index and the byte in front of it: the cut is not the same for both argument orders")
					return
				}
				bad("the rewind loop in front of the remainder comparison can be left while the byte in front of the cut is still a digit (exit on " + iff.Cond.String() + "): digits common to both numbers are dropped before the digit counts are compared")
				return
			}
		}
	}
	if exits == 0 {
		e.S.Unk(rule, site, construct, "rewind loop without a recognisable exit", e.posOf(call))
		return
	}
	if symOnly {
		e.S.Ok(rule, site, construct, fmt.Sprintf("the remainders are cut at the first differing position moved back by a loop that reads only the index and the byte in front of it (%d exits): the same cut for both argument orders", exits), e.posOf(call))
		return
	}
	// the loop is entered with the scan index (the first differing byte)
	e.S.Ok(rule, site, construct, fmt.Sprintf("the remainders are cut at J with J == 0 or a non-digit in front of it (rewind loop with %d exits, each the failing edge of J > 0 or of a half of the digit test on s[J-1]): the compared digit counts are those of whole digit runs", exits), e.posOf(call))
}

// shorterArgIndex: in the scanning function, the call's argument that is a re-slice of the value whose length bounds
// the scan loop (i < len(X)); -1 if that is not recognisable or not unique.
func shorterArgIndex(scan *ssa.Function, call *ssa.Call) int {
	if scan == nil || call == nil || len(call.Call.Args) != 2 {
		return -1
	}
	var bound ssa.Value
	for _, b := range scan.Blocks {
		iff, ok := b.Instrs[len(b.Instrs)-1].(*ssa.If)
		if !ok {
			continue
		}
		cmp, ok := iff.Cond.(*ssa.BinOp)
		if !ok || cmp.Op != token.LSS {
			continue
		}
		if x, ok := flow.IsLenOf(cmp.Y); ok {
			if bound != nil && bound != flow.StripConv(x) {
				return -1
			}
			bound = flow.StripConv(x)
		}
	}
	if bound == nil {
		return -1
	}
	idx := -1
	for i, a := range call.Call.Args {
		sl, ok := a.(*ssa.Slice)
		if !ok {
			continue
		}
		if flow.StripConv(sl.X) == bound {
			if idx >= 0 {
				return -1
			}
			idx = i
		}
	}
	return idx
}

// ---- C14.latest

func ruleC14Latest(e *Env) { ruleLatest(e, "C14.latest") }

// ruleLatest: Ver.Latest returns one of its two operands unchanged, the argument exactly when Compare = −1.
func ruleLatest(e *Env, rule string) {
	fn := e.Method(rule, "sem", "Ver", "Latest")
	cmp := e.P.Method("sem", "Ver", "Compare")
	sp := e.P.ByName["sem"]
	if fn == nil || cmp == nil || sp == nil {
		return
	}
	site := flow.FnName(fn)
	verT := sp.Type("Ver").Type()
	for c := -1; c <= 1; c++ {
		construct := fmt.Sprintf("Compare=%d", c)
		v, w := symStruct(verT, "v"), symStruct(verT, "ver")
		sums := map[string]pred.Summary{cmp.String(): func(ev *pred.Evaluator, args []pred.Val) (pred.Val, error) {
			if args[0] == pred.Val(w) && args[1] == pred.Val(v) {
				// the mirrored comparison: its sign is the opposite one (the antisymmetry this property asserts of
				// Compare, decided by the other C14 rules)
				return pred.Const{V: constantInt(int64(-c))}, nil
			}
			if args[0] != pred.Val(v) || args[1] != pred.Val(w) {
				return nil, &pred.Undecided{Reason: "Latest compares something other than receiver.Compare(argument)"}
			}
			return pred.Const{V: constantInt(int64(c))}, nil
		}}
		ev := &pred.Evaluator{Prog: e.P.SSA, GlobalInit: e.globalTables(), Oracle: noOracle{}, Summaries: sums}
		out, err := ev.Eval(fn, []pred.Val{v, w})
		if err != nil {
			e.S.Unk(rule, site, construct, err.Error(), e.Pos(fn))
			continue
		}
		want := v.String()
		if c == -1 {
			want = w.String()
		}
		if out.Ret.String() == want {
			e.S.Ok(rule, site, construct, map[bool]string{true: "returns the argument unchanged", false: "returns the receiver unchanged"}[c == -1], e.Pos(fn))
		} else {
			e.S.Bad(rule, site, construct, fmt.Sprintf("when receiver.Compare(argument) = %d Latest returns %v, not %s", c, out.Ret, map[bool]string{true: "the argument", false: "the receiver"}[c == -1]), e.Pos(fn), "")
		}
	}
}

// ---- C14.next

func ruleC14Next(e *Env) {
	const rule = "C14.next"
	sp := e.P.ByName["sem"]
	if sp == nil || sp.Type("Ver") == nil {
		return
	}
	verT := sp.Type("Ver").Type()
	for i, name := range []string{"NextMajor", "NextMinor", "NextPatch"} {
		fn := e.Method(rule, "sem", "Ver", name)
		if fn == nil {
			continue
		}
		site := flow.FnName(fn)
		field := []string{"Major", "Minor", "Patch"}[i]
		inc := "math/bits.Add64#0(v." + field + ",1,0)"
		carry := "math/bits.Add64#1(v." + field + ",1,0)"
		for _, ovf := range []bool{false, true} {
			construct := map[bool]string{false: "no carry", true: "carry"}[ovf]
			o := &ordOracle{ord: map[string]int{carry + "|0": map[bool]int{false: 0, true: 1}[ovf]}}
			ev := &pred.Evaluator{Prog: e.P.SSA, GlobalInit: e.globalTables(), Oracle: o}
			out, err := ev.Eval(fn, []pred.Val{symStruct(verT, "v")})
			if err != nil {
				e.S.Unk(rule, site, construct, err.Error(), e.Pos(fn))
				continue
			}
			if ovf {
				if out.Panic {
					e.S.Ok(rule, site, construct, "panics exactly when incrementing "+field+" carries out of 64 bits", e.Pos(fn))
				} else {
					e.S.Bad(rule, site, construct, fmt.Sprintf("when %s is already 2^64-1 %s returns %v instead of panicking (silent wrap to 0)", field, name, out.Ret), e.Pos(fn), field+" = 2^64-1")
				}
				continue
			}
			if out.Panic {
				e.S.Bad(rule, site, construct, name+" panics although the increment does not overflow", e.Pos(fn), "")
				continue
			}
			sv, ok := out.Ret.(*pred.StructV)
			if !ok || len(sv.Fields) != 5 {
				e.S.Unk(rule, site, construct, fmt.Sprintf("result %v is not a Ver value", out.Ret), e.Pos(fn))
				continue
			}
			want := []string{"v.Major", "v.Minor", "v.Patch", `""`, `""`}
			want[i] = inc
			for j := i + 1; j < 3; j++ {
				want[j] = "0"
			}
			var got []string
			for _, f := range sv.Fields {
				got = append(got, f.String())
			}
			if strings.Join(got, ";") == strings.Join(want, ";") {
				e.S.Ok(rule, site, construct, fmt.Sprintf("(Major,Minor,Patch,PreRelease,Build) = %v", want), e.Pos(fn))
			} else {
				e.S.Bad(rule, site, construct, fmt.Sprintf("result fields %v, documented %v (a plain release strictly above the receiver)", got, want), e.Pos(fn), "")
			}
		}
	}
}

// cutFromCall: v is the result of a call, or arithmetic with constants on one.
func cutFromCall(v ssa.Value, depth int) bool {
	if depth > 4 {
		return false
	}
	switch x := v.(type) {
	case *ssa.Call:
		return true
	case *ssa.BinOp:
		return cutFromCall(x.X, depth+1) || cutFromCall(x.Y, depth+1)
	case *ssa.Convert:
		return cutFromCall(x.X, depth+1)
	}
	return false
}
