package props

import (
	"fmt"
	"go/constant"
	"go/token"
	"go/types"
	"strings"

	"golang.org/x/tools/go/ssa"

	"utilcheck/flow"
	"utilcheck/pred"
)

func init() {
	register(&Prop{
		ID:    "C20",
		Title: "Marshal-test helpers report exactly the failing cases",
		Run:   runC20,
		Explanation: "One rule set applied uniformly to the six sibling helpers of package test (cross-check by uniform obligations over SSA, not by text equality): " +
			"C20.iface: the value is tested against the interface whose method carries the helper's name, behind the direction filter (other-direction cases are ignored) and for every applicable case (T may be an interface type: each case has its own dynamic type); failure calls assert.FailNow(f) with the helper's t and returns. " +
			"C20.dir: the helper filters with the direction predicate of its own direction, applied to the case's Constraint, the false edge skipping the case; isForMarshal/isForUnmarshal are c==0 ∨ c==Only<own> (table over the constraint values). " +
			"C20.hooks: Before precedes and After follows the marshal call, both through callForCase, both results asserted with NoError, a failure skips the case; no path from the marshal call to the next case avoids the After hook; the Before hook sits behind the direction filter; both hooks receive the address of the variable the case's Data/Value/Error are read from, and what the tested call is given (data, or the target built from Value) is read after the Before hook. C20.support: helperNew allocates a fresh target exactly when helper == nil and T is a pointer type (decision by the type only), otherwise helper.New(value); helperAssertEmpty/Equal assert on t with the values in order, or delegate to the TypeHelper; castToFunc makes both interface probes on its parameter (any(value), any(&value)), not on a zero T, and each accessor it returns converts the target it is given, not a value captured at the probe. " +
			"C20.safe: the user's Marshal*/Unmarshal* method is invoked only inside a function with a deferred recover whose result is turned into the returned error; callForCase protects the hooks the same way. " +
			"C20.verdict: with an error predicate: the predicate is invoked with (t, the obtained error, info) and, on true, an emptiness assertion (assert.Empty / the TypeHelper; not assert.Nil, which also fails on an empty non-nil result) on the produced data/value follows; without: NoError on the obtained error and, on true, an equality assertion between the case's expectation and the produced data/value; every assertion receives the helper's t; the expectation reaches the assertion as loaded from the case, unconverted, and two byte slices are not compared raw with assert.Equal (nil ≠ empty there) but as text or after the both-empty case is merged. " +
			"C20.pred: each error predicate calls the assertion its name promises (assertion), and can answer false only where an assertion on t is known to have failed — the returned value is an assertion's own result, or the return lies behind the false edge of one, or behind assert.Fail (reports). panicError(err, r) is err for r == nil and a freshly constructed error otherwise, and the deferred closures store exactly its result (or an error constructed on the spot); the emptiness and equality assertions lie on every path after the satisfied condition; helperNew returns the zero value of T on every return other than the fresh allocation and helper.New." +
			" C20.verdict 'nothing else': every call that can fail t is the missing-interface report, the report of a failed hook, or lies behind the protected call; 'input': the protected unmarshal call is handed the case's Data itself. Since audit round 3: every FailNow on t lies behind the direction filter and reports the lack of the interface that declares the helper's method; calls on t behind the protected call must take part in the verdict; the wrapper invokes the user's method on its own parameters unchanged; callForCase returns the hook's own result; the deferred closure holds exactly one recover() and is the only deferred function that recovers; the probed interface declares the helper's method and no other.",
		NotDecided:  []string{"testify's assertion semantics", "behaviour when T is itself an interface type, beyond castToFunc probing the case value itself (C20.support probe)", "panic(nil) in a marshaler: recover() returns nil under the module's go 1.18 semantics, the panic passes as success (DESIGN §16)"},
		Assumptions: []string{"\"restricted to the other direction\" is read as: a constraint that is neither 0 nor this direction's constant (an undeclared constraint value applies to neither direction)", "assert.NoError/Equal/Nil/Empty/Error report a failure on t exactly when their condition does not hold and return false then"},
		Technique:   "must-call / dominance / argument-dataflow obligations over go/ssa, applied uniformly to sibling implementations",
	})
}

type helperSpec struct {
	name    string
	marshal bool
}

var testHelpers = []helperSpec{
	{"MarshalText", true}, {"UnmarshalText", false}, {"MarshalBinary", true}, {"UnmarshalBinary", false}, {"MarshalJSON", true}, {"UnmarshalJSON", false},
}

func runC20(e *Env) {
	for _, h := range testHelpers {
		ruleC20Helper(e, h)
	}
	ruleC20Dir(e)
	ruleC20Pred(e)
	ruleC20Support(e)
	ruleC20PanicError(e)
	e.S.Floor("C20.support", 6)
	for _, r := range []string{"C20.iface", "C20.dir", "C20.hooks", "C20.safe", "C20.verdict"} {
		e.S.Floor(r, 6)
	}
	e.S.Floor("C20.safe", 14)
	e.S.Floor("C20.pred", 10)
}

func calleeName(c *ssa.CallCommon) string {
	if f := c.StaticCallee(); f != nil {
		return flow.Origin(f).String()
	}
	return ""
}

// fieldLoad reports whether v is a load of field `name` of the range-variable cell of a helper.
func fieldLoad(v ssa.Value, name string) bool {
	v = flow.Strip(v)
	u, ok := v.(*ssa.UnOp)
	if !ok || u.Op != token.MUL {
		return false
	}
	fa, ok := u.X.(*ssa.FieldAddr)
	if !ok {
		return false
	}
	st := structOf(fa.X.Type())
	return st != nil && st.Field(fa.Field).Name() == name
}

// probeCall: call is a call of a module function of one parameter that answers whether its argument's dynamic type
// has a given type (`func implements[I any](v any) bool { _, ok := v.(I); return ok }`): the value probed at the
// call site and the type asked for (the call's type argument where the helper asserts its own type parameter).
func probeCall(e *Env, call *ssa.Call) (subject ssa.Value, asserted types.Type, ok bool) {
	callee := e.C.StaticCallee(&call.Call)
	if callee == nil || !flow.InRepo(callee) || len(call.Call.Args) != 1 {
		return nil, nil, false
	}
	o := flow.Origin(callee)

	if len(o.Params) != 1 || len(o.Blocks) == 0 {
		return nil, nil, false
	}
	res := o.Signature.Results()
	if res.Len() != 1 {
		return nil, nil, false
	}
	if b, isB := res.At(0).Type().Underlying().(*types.Basic); !isB || b.Kind() != types.Bool {
		return nil, nil, false
	}
	var ta *ssa.TypeAssert
	for _, b := range o.Blocks {
		for _, in := range b.Instrs {
			switch x := in.(type) {
			case *ssa.TypeAssert:
				if ta != nil || !x.CommaOk || flow.Strip(x.X) != ssa.Value(o.Params[0]) {
					return nil, nil, false
				}
				ta = x
			case *ssa.Call, *ssa.Store, *ssa.Go, *ssa.Defer:
				return nil, nil, false
			case *ssa.Return:
				ex, isEx := x.Results[0].(*ssa.Extract)
				if !isEx || ta == nil || ex.Tuple != ssa.Value(ta) || ex.Index != 1 {
					return nil, nil, false
				}
			}
		}
	}
	if ta == nil {
		return nil, nil, false
	}
	asserted = ta.AssertedType
	if tp, isTP := asserted.(*types.TypeParam); isTP {
		tps := o.TypeParams()
		targs := callee.TypeArgs()
		if raw := call.Call.StaticCallee(); raw != nil && len(raw.TypeArgs()) > 0 {
			targs = raw.TypeArgs() // the instance as called (the resolved callee is its generic origin)
		}
		for i := 0; tps != nil && i < tps.Len() && i < len(targs); i++ {
			if tps.At(i) == tp {
				asserted = targs[i]
			}
		}
	}
	return call.Call.Args[0], asserted, true
}

// failNowBlock: block b reports the missing interface: it holds a testify FailNow on t (directly or through a
// one-call helper of the module), ends in a return and is entered from the probe's answer alone.
func failNowBlock(e *Env, b *ssa.BasicBlock) bool {
	if _, isRet := b.Instrs[len(b.Instrs)-1].(*ssa.Return); !isRet || len(b.Preds) != 1 {
		return false
	}
	piff, isIf := b.Preds[0].Instrs[len(b.Preds[0].Instrs)-1].(*ssa.If)
	if !isIf || !probeAnswer(e, piff.Cond) {
		return false
	}
	for _, in := range b.Instrs {
		call, ok := in.(*ssa.Call)
		if !ok {
			continue
		}
		if strings.HasPrefix(calleeName(&call.Call), "github.com/stretchr/testify/assert.FailNow") {
			return true
		}
		if g := e.C.StaticCallee(&call.Call); g != nil && flow.InRepo(g) && len(g.Blocks) == 1 {
			for _, gin := range g.Blocks[0].Instrs {
				if gc, ok := gin.(*ssa.Call); ok && strings.HasPrefix(calleeName(&gc.Call), "github.com/stretchr/testify/assert.FailNow") {
					return true
				}
			}
		}
	}
	return false
}

// probeAnswer: cond is the answer of an interface probe and nothing else: the ok of a comma-ok assertion, a probing
// helper's result, or castToFunc's result compared with nil — possibly negated.
func probeAnswer(e *Env, cond ssa.Value) bool {
	for i := 0; i < 3; i++ {
		if u, ok := cond.(*ssa.UnOp); ok && u.Op == token.NOT {
			cond = u.X
			continue
		}
		break
	}
	switch x := cond.(type) {
	case *ssa.Extract:
		ta, ok := x.Tuple.(*ssa.TypeAssert)
		return ok && ta.CommaOk && x.Index == 1
	case *ssa.Call:
		_, _, ok := probeCall(e, x)
		return ok
	case *ssa.BinOp:
		if (x.Op == token.EQL || x.Op == token.NEQ) && flow.IsNilConst(x.Y) {
			if c, ok := x.X.(*ssa.Call); ok {
				if f := c.Call.StaticCallee(); f != nil && flow.Origin(f).Name() == "castToFunc" {
					return true
				}
			}
			if ph, ok := x.X.(*ssa.Phi); ok { // f assigned in the condition: `if f = castToFunc(…); f == nil`
				for _, ed := range ph.Edges {
					if c, ok := ed.(*ssa.Call); ok {
						if f := c.Call.StaticCallee(); f != nil && flow.Origin(f).Name() == "castToFunc" {
							return true
						}
					}
				}
			}
		}
	}
	return false
}

// fieldLoadUnconverted: v is the field itself (boxed into an interface at most), not a conversion of it. The
// expectation must enter the comparison in its own type: converting it (string → []byte) instead of the produced
// data changes what testify calls equal (an empty expectation no longer equals a nil result).
func fieldLoadUnconverted(v ssa.Value, name string) bool {
	for i := 0; i < 4; i++ {
		switch x := v.(type) {
		case *ssa.MakeInterface:
			v = x.X
		case *ssa.ChangeInterface:
			v = x.X
		default:
			i = 4
		}
	}
	u, ok := v.(*ssa.UnOp)
	if !ok || u.Op != token.MUL {
		return false
	}
	fa, ok := u.X.(*ssa.FieldAddr)
	if !ok {
		return false
	}
	st := structOf(fa.X.Type())
	return st != nil && st.Field(fa.Field).Name() == name
}

// derivesFrom: v is x or a conversion/boxing of x.
func derivesFrom(v, x ssa.Value) bool {
	for i := 0; i < 8; i++ {
		if v == x {
			return true
		}
		switch y := v.(type) {
		case *ssa.MakeInterface:
			v = y.X
		case *ssa.ChangeInterface:
			v = y.X
		case *ssa.ChangeType:
			v = y.X
		case *ssa.Convert:
			v = y.X
		default:
			return false
		}
	}
	return false
}

// hasRecoverDefer: fn defers a closure that calls recover() and routes its value into the named error result.
// recoveredError: the value stored into the error result by the deferred closure is non-nil whenever a panic was
// recovered: the result of a function of the module that is handed the value of recover() (panicError, whose body
// C20.safe decides: a non-nil recovered value gives a non-nil error), or an error constructed on the spot.
func recoveredError(v ssa.Value) bool {
	call, ok := v.(*ssa.Call)
	if !ok {
		return false
	}
	f := call.Call.StaticCallee()
	if f == nil {
		return false
	}
	switch f.String() {
	case "fmt.Errorf", "errors.New":
		return true
	}
	if !flow.InRepo(f) || f.Name() != "panicError" {
		return false
	}
	for _, a := range call.Call.Args {
		if rc, ok := a.(*ssa.Call); ok {
			if bi, ok := rc.Call.Value.(*ssa.Builtin); ok && bi.Name() == "recover" {
				return true
			}
		}
	}
	return false
}

// ruleC20PanicError: panicError(err, r) is err itself for r == nil and a non-nil error otherwise.
func ruleC20PanicError(e *Env) {
	const rule = "C20.safe"
	fn := e.Fn(rule, "test", "panicError")
	if fn == nil {
		return
	}
	site := flow.FnName(fn)
	for _, isNil := range []bool{true, false} {
		construct := map[bool]string{true: "no panic", false: "panic"}[isNil]
		o := &ordOracle{ord: map[string]int{"r|nil": map[bool]int{true: 0, false: 1}[isNil]}}
		ev := &pred.Evaluator{Prog: e.P.SSA, GlobalInit: e.globalTables(), Oracle: o}
		out, err := ev.Eval(fn, e.Permuted("test", "panicError", fn, func() []pred.Val { return []pred.Val{pred.Sym{Name: "err"}, pred.Sym{Name: "r"}} })())
		switch {
		case err != nil:
			e.S.Unk(rule, site, construct, err.Error(), e.Pos(fn))
		case isNil && out.Ret.String() == "err":
			e.S.Ok(rule, site, construct, "nothing recovered ⇒ the error passed in is returned unchanged", e.Pos(fn))
		case isNil:
			e.S.Bad(rule, site, construct, "with nothing recovered the result is "+out.Ret.String()+", not the error passed in", e.Pos(fn), "")
		case strings.HasPrefix(out.Ret.String(), "fmt.Errorf(") || strings.HasPrefix(out.Ret.String(), "errors.New("):
			e.S.Ok(rule, site, construct, "a recovered value ⇒ a freshly constructed (non-nil) error", e.Pos(fn))
		default:
			e.S.Bad(rule, site, construct, "with a recovered value the result is "+out.Ret.String()+", which may be nil: the panic is swallowed", e.Pos(fn), "")
		}
	}
}

func hasRecoverDefer(fn *ssa.Function) bool {
	// one deferred closure recovers: a second one (registered later, run first) takes the panic away from the one
	// that turns it into the error
	nrecDefers := 0
	for _, b := range fn.Blocks {
		for _, in := range b.Instrs {
			if d, ok := in.(*ssa.Defer); ok {
				if mc, ok := d.Call.Value.(*ssa.MakeClosure); ok {
					for _, cb := range mc.Fn.(*ssa.Function).Blocks {
						for _, cin := range cb.Instrs {
							if call, ok := cin.(*ssa.Call); ok {
								if bi, ok := call.Call.Value.(*ssa.Builtin); ok && bi.Name() == "recover" {
									nrecDefers++
								}
							}
						}
					}
				} else if d.Call.StaticCallee() != nil || d.Call.IsInvoke() {
					// a deferred named function may recover as well: not read
					if f := d.Call.StaticCallee(); f != nil && flow.InRepo(f) {
						for _, cb := range f.Blocks {
							for _, cin := range cb.Instrs {
								if call, ok := cin.(*ssa.Call); ok {
									if bi, ok := call.Call.Value.(*ssa.Builtin); ok && bi.Name() == "recover" {
										nrecDefers++
									}
								}
							}
						}
					}
				}
			}
		}
	}
	if nrecDefers != 1 {
		return false
	}
	for _, b := range fn.Blocks {
		for _, in := range b.Instrs {
			d, ok := in.(*ssa.Defer)
			if !ok {
				continue
			}
			mc, ok := d.Call.Value.(*ssa.MakeClosure)
			if !ok {
				continue
			}
			cl := mc.Fn.(*ssa.Function)
			rec := 0 // recover() calls: exactly one (a second one, behind the first, yields nil: the panic is lost)
			repanics := false
			var target ssa.Value // the captured variable the recovered error is stored into
			for _, cb := range cl.Blocks {
				for _, cin := range cb.Instrs {
					// the closure must not raise what it has just recovered (`if re, ok := r.(runtime.Error); ok { panic(re) }`),
					// and the store of the recovered error must not be conditional
					if _, isPanic := cin.(*ssa.Panic); isPanic {
						repanics = true
					}
					if call, ok := cin.(*ssa.Call); ok {
						if bi, ok := call.Call.Value.(*ssa.Builtin); ok && bi.Name() == "recover" {
							rec++
						}
					}
					if st, ok := cin.(*ssa.Store); ok {
						if fv, isFree := st.Addr.(*ssa.FreeVar); isFree && types.Identical(st.Val.Type(), types.Universe.Lookup("error").Type()) && recoveredError(st.Val) {
							for i, f := range cl.FreeVars {
								if f == fv && i < len(mc.Bindings) {
									target = mc.Bindings[i]
								}
							}
						}
					}
				}
			}
			// a branch inside the closure may only ask whether there was a panic at all (`r != nil`)
			for _, cb := range cl.Blocks {
				if iff, ok := cb.Instrs[len(cb.Instrs)-1].(*ssa.If); ok {
					okCond := false
					if bo, ok := iff.Cond.(*ssa.BinOp); ok && (bo.Op == token.EQL || bo.Op == token.NEQ) && flow.IsNilConst(bo.Y) {
						if rc, ok := bo.X.(*ssa.Call); ok {
							if bi, ok := rc.Call.Value.(*ssa.Builtin); ok && bi.Name() == "recover" {
								okCond = true
							}
						}
					}
					if !okCond {
						repanics = true
					}
				}
			}
			if rec != 1 || target == nil || repanics {
				continue
			}
			// the variable must be the function's named error result: after a recovered panic the function returns
			// through its recover block, which loads the named results
			if fn.Recover == nil {
				continue
			}
			if ret, ok := fn.Recover.Instrs[len(fn.Recover.Instrs)-1].(*ssa.Return); ok {
				for _, r := range ret.Results {
					if ld, ok := r.(*ssa.UnOp); ok && ld.X == target {
						return true
					}
				}
			}
		}
	}
	return false
}

func ruleC20Helper(e *Env, h helperSpec) {
	fn := e.Fn("C20.verdict", "test", h.name)
	if fn == nil {
		return
	}
	site := flow.FnName(fn)
	pos := e.Pos(fn)
	tParam := ssa.Value(fn.Params[0])
	isT := func(v ssa.Value) bool { return derivesFrom(v, tParam) }
	// ---- the protected call into user code
	var safe, userCall *ssa.Call
	var safeFn *ssa.Function
	directUser := false
	for _, b := range fn.Blocks {
		for _, in := range b.Instrs {
			call, ok := in.(*ssa.Call)
			if !ok {
				continue
			}
			if call.Call.IsInvoke() && strings.HasPrefix(call.Call.Method.Name(), strings.TrimSuffix(strings.TrimSuffix(strings.TrimSuffix(h.name, "Text"), "Binary"), "JSON")) {
				directUser = true
			}
			callee := e.C.StaticCallee(&call.Call)
			if callee == nil || !flow.InRepo(callee) {
				continue
			}
			for _, cb := range callee.Blocks {
				for _, cin := range cb.Instrs {
					if c2, ok := cin.(*ssa.Call); ok && c2.Call.IsInvoke() && c2.Call.Method.Name() == h.name {
						userCall = c2
						safe, safeFn = call, callee
					}
				}
			}
		}
	}
	switch {
	case directUser:
		e.S.Bad("C20.safe", site, "user call", "the helper invokes the user's "+h.name+" directly, outside a function with a deferred recover: a panicking marshaler escapes", pos, "")
	case safe == nil:
		e.S.Unk("C20.safe", site, "user call", "no in-repo wrapper invoking the interface method "+h.name+" found", pos)
		return
	case !hasRecoverDefer(safeFn):
		e.S.Bad("C20.safe", flow.FnName(safeFn), "recover", "the wrapper around the user's "+h.name+" has no deferred recover that turns a panic into the returned error", e.Pos(safeFn), "")
	default:
		e.S.Ok("C20.safe", flow.FnName(safeFn), "recover", "user's "+h.name+" invoked under a deferred recover whose value becomes the returned error", e.Pos(safeFn))
	}
	// what the wrapper hands to the verdict is what the user's method returned, result for result: data that came
	// together with an error must still be there for the emptiness assertion to see
	if safeFn != nil && userCall != nil {
		// … and what the user's method is handed is what the wrapper was handed: its parameters as they came
		argBad := ""
		for _, a := range userCall.Call.Args {
			if _, isParam := a.(*ssa.Parameter); !isParam {
				argBad = "the wrapper hands the user's " + h.name + " " + a.String() + ", not its own parameter: the case is judged on another input than its own"
			}
		}
		if _, isParam := userCall.Call.Value.(*ssa.Parameter); !isParam {
			argBad = "the wrapper invokes " + h.name + " on something other than the value it was handed"
		}
		if argBad != "" {
			e.S.Bad("C20.safe", flow.FnName(safeFn), "arguments", argBad, e.posOf(userCall), `{Data: " 1", Error: AnyError} with an unmarshaler that refuses a leading space`)
		} else {
			e.S.Ok("C20.safe", flow.FnName(safeFn), "arguments", "the user's "+h.name+" is invoked on the wrapper's own parameters, unchanged", e.posOf(userCall))
		}
		passBad := ""
		n := 0
		for _, b := range safeFn.Blocks {
			ret, ok := b.Instrs[len(b.Instrs)-1].(*ssa.Return)
			if !ok || b == safeFn.Recover {
				continue
			}
			n++
			vals := flow.ReturnValues(ret)
			for i, v := range vals {
				v = flow.Strip(v)
				// a named result shared with the deferred closure: a load of the cell; what the function itself
				// stores there (once) is the value in question — the closure's store is panicError's, decided above
				if ld, ok := v.(*ssa.UnOp); ok && ld.Op == token.MUL {
					if al, ok := ld.X.(*ssa.Alloc); ok {
						var stored []ssa.Value
						for _, r := range *al.Referrers() {
							if st, ok := r.(*ssa.Store); ok && st.Addr == ssa.Value(al) {
								// `return data, err` with named results copies each cell onto itself: not a new value
								if self, ok := st.Val.(*ssa.UnOp); ok && self.Op == token.MUL && self.X == ssa.Value(al) {
									continue
								}
								stored = append(stored, st.Val)
							}
						}
						if len(stored) == 1 {
							v = flow.Strip(stored[0])
						}
					}
				}
				if len(vals) == 1 && v == ssa.Value(userCall) {
					continue
				}
				if ex, ok := v.(*ssa.Extract); ok && ex.Tuple == ssa.Value(userCall) && ex.Index == i {
					continue
				}
				passBad = fmt.Sprintf("result #%d of the wrapper is not result #%d of the user's %s (it is %s)", i, i, h.name, v)
			}
		}
		switch {
		case passBad != "":
			e.S.Bad("C20.safe", flow.FnName(safeFn), "results", passBad+": what the helper judges is not what the method returned", e.Pos(safeFn), "a marshaler returning data together with an error")
		case n == 0:
			e.S.Unk("C20.safe", flow.FnName(safeFn), "results", "no normal return found in the wrapper", e.Pos(safeFn))
		default:
			e.S.Ok("C20.safe", flow.FnName(safeFn), "results", "the wrapper returns the results of the user's "+h.name+" unchanged, each in its place", e.Pos(safeFn))
		}
	}
	if safe == nil {
		return
	}
	// produced error / data
	var errV, dataV ssa.Value
	if h.marshal {
		for _, r := range *safe.Referrers() {
			if ex, ok := r.(*ssa.Extract); ok {
				if ex.Index == 0 {
					dataV = ex
				} else {
					errV = ex
				}
			}
		}
	} else {
		errV = safe
		// the value cell: an Alloc whose address reaches the wrapper's receiver argument through the cast function
		for _, b := range fn.Blocks {
			for _, in := range b.Instrs {
				if al, ok := in.(*ssa.Alloc); ok && al.Comment == "v" {
					dataV = al
				}
			}
		}
	}
	if errV == nil || dataV == nil {
		e.S.Unk("C20.verdict", site, "results", "could not identify the produced error and data/value of the protected call", pos)
		return
	}
	expectName := map[bool]string{true: "Data", false: "Value"}[h.marshal]
	isData := func(v ssa.Value) bool {
		v = flow.Strip(v)
		if h.marshal {
			// the produced bytes, or the produced bytes with "both empty" normalised: a merge that takes the case's own
			// Data only on the path where len(c.Data) == 0 and len(produced) == 0 both hold (nil and empty are one datum)
			if ph, ok := v.(*ssa.Phi); ok {
				nData := 0
				for i, ed := range ph.Edges {
					if derivesFrom(ed, dataV) {
						nData++
						continue
					}
					if !fieldLoad(ed, expectName) {
						return false
					}
					sawE, sawD := false, false
					for _, cc := range controlConds(ph.Block().Preds[i]) {
						bo, ok := cc.cond.(*ssa.BinOp)
						if !ok || bo.Op != token.EQL || !cc.pos {
							continue
						}
						if k, isC := flow.ConstInt(bo.Y); !isC || k != 0 {
							continue
						}
						if x, ok := flow.IsLenOf(bo.X); ok {
							switch {
							case fieldLoad(x, expectName):
								sawE = true
							case derivesFrom(x, dataV):
								sawD = true
							}
						}
					}
					if !sawE || !sawD {
						return false
					}
				}
				return nData > 0
			}
			return derivesFrom(v, dataV)
		}
		u, ok := v.(*ssa.UnOp)
		return ok && u.X == dataV
	}
	// ---- C20.iface
	{
		okIface := false
		why := "no assert.FailNow(f) on the helper's t followed by return for a value lacking the interface"
		// failNowT: the TestingT a call fails now on — assert.FailNow(f) directly, or a function of the package whose whole
		// body is such a call on the TestingT it is given
		failNowT := func(call *ssa.Call) ssa.Value {
			if strings.HasPrefix(calleeName(&call.Call), "github.com/stretchr/testify/assert.FailNow") {
				return call.Call.Args[0]
			}
			if g := e.C.StaticCallee(&call.Call); g != nil && flow.InRepo(g) && len(g.Blocks) == 1 {
				for _, gin := range g.Blocks[0].Instrs {
					if gc, ok := gin.(*ssa.Call); ok && strings.HasPrefix(calleeName(&gc.Call), "github.com/stretchr/testify/assert.FailNow") {
						for pi, gp := range g.Params {
							if derivesFrom(gc.Call.Args[0], gp) && pi < len(call.Call.Args) {
								return call.Call.Args[pi]
							}
						}
					}
				}
			}
			return nil
		}
		for _, b := range fn.Blocks {
			for _, in := range b.Instrs {
				call, ok := in.(*ssa.Call)
				if !ok || failNowT(call) == nil {
					continue
				}
				if _, isRet := b.Instrs[len(b.Instrs)-1].(*ssa.Return); !isRet {
					why = "after reporting the missing interface the helper does not return"
					continue
				}
				if !isT(failNowT(call)) {
					why = "the missing-interface failure is not reported on the helper's t"
					continue
				}
				// the failure is decided by the probe alone: the failing block is entered from one test, and that test is
				// the probe's answer (`!ok`, `f == nil`) — `!ok && i == 0` lets every later case through untested
				if len(b.Preds) != 1 {
					why = "the missing-interface failure is entered from more than one place"
					continue
				}
				piff, isIf := b.Preds[0].Instrs[len(b.Preds[0].Instrs)-1].(*ssa.If)
				if !isIf || !probeAnswer(e, piff.Cond) {
					why = "whether the missing interface is reported depends on something other than the interface test (a case index, a flag): an applicable case whose value lacks the interface reaches the unchecked conversion"
					continue
				}
				okIface = true
			}
		}
		// the interface tested carries the helper's method
		ifaceOK, viaCast := false, false
		var ifaceTest ssa.Instruction
		for _, b := range fn.Blocks {
			for _, in := range b.Instrs {
				switch x := in.(type) {
				case *ssa.TypeAssert:
					if x.CommaOk {
						if it, ok := x.AssertedType.Underlying().(*types.Interface); ok && ifaceHasMethod(it, h.name) {
							ifaceOK = true
							ifaceTest = x
						}
					}
				case *ssa.Call:
					// the same test made by a probing helper of the module
					if _, at, isProbe := probeCall(e, x); isProbe {
						if it, ok := at.Underlying().(*types.Interface); ok && ifaceHasMethod(it, h.name) {
							ifaceOK = true
							ifaceTest = x
						}
					}
					// castToFunc also accepts the interface on *T: right for a target to unmarshal into, which is
					// addressable; for the marshal direction "a type lacking the interface" is T itself lacking it (a
					// value of T handed to encoding/json does not get a pointer method either)
					if f := x.Call.StaticCallee(); f != nil && flow.Origin(f).Name() == "castToFunc" && h.marshal {
						viaCast = true
					}
					if f := x.Call.StaticCallee(); f != nil && flow.Origin(f).Name() == "castToFunc" && !h.marshal {
						for _, ta := range f.TypeArgs() {
							if it, ok := ta.Underlying().(*types.Interface); ok && ifaceHasMethod(it, h.name) {
								ifaceOK = true
								ifaceTest = x
							}
						}
					}
				}
			}
		}
		// T may itself be an interface type (a case table of any, of encoding.TextMarshaler): then every case has its
		// own dynamic type, and the unchecked conversion in front of the protected call panics — outside the recover —
		// for a later case whose value lacks the interface, unless the test is made for every case
		if ifaceTest != nil {
			firstOnly := false
			for _, cc := range controlConds(ifaceTest.Block()) {
				if bo, ok := cc.cond.(*ssa.BinOp); ok && bo.Op == token.EQL && cc.pos {
					if k, isC := flow.ConstInt(bo.Y); isC && k == 0 {
						if _, isInt := bo.X.Type().Underlying().(*types.Basic); isInt {
							firstOnly = true
						}
					}
				}
			}
			if firstOnly {
				e.S.Bad("C20.iface", site, "every case", "the value is tested for the interface on the first case only; with an interface-typed T a later case whose value lacks it reaches the unchecked conversion in front of the protected call and the panic escapes the helper", e.posOf(ifaceTest), "[]Case[any]{{Value: marshaler}, {Value: 42}}")
			} else {
				e.S.Ok("C20.iface", site, "every case", "the interface test is made for every case", e.posOf(ifaceTest))
			}
		}
		// "a type lacking the interface" is a reason why an APPLICABLE case is not satisfied; cases restricted to the
		// other direction are ignored: the test follows the direction filter (and, see "every case", is made for
		// each applicable case, so no applicable case reaches the conversion untested)
		// every FailNow on t — not just one of them — lies behind the filter, and reports the lack of the interface
		// that carries the helper's method (a second report, in front of the loop or for another interface, fails
		// tables the property wants passed)
		behind := false
		stray := ""
		var passes []*ssa.BasicBlock
		for _, call := range e.C.Calls(fn, flow.InRepo) {
			if n := e.C.StaticCallee(&call.Call).Name(); n == "isForMarshal" || n == "isForUnmarshal" {
				for _, r := range *call.Referrers() {
					if iff, ok := r.(*ssa.If); ok {
						passes = append(passes, iff.Block().Succs[0])
					}
				}
			}
		}
		for _, b := range fn.Blocks {
			for _, in := range b.Instrs {
				c2, ok := in.(*ssa.Call)
				if !ok || failNowT(c2) == nil {
					continue
				}
				in1 := false
				for _, pass := range passes {
					if pass == b || pass.Dominates(b) {
						in1 = true
					}
				}
				if in1 {
					behind = true
				} else {
					stray = "a FailNow on t at " + e.posOf(c2) + " lies in front of the direction filter"
				}
				if len(b.Preds) == 1 {
					if piff, isIf := b.Preds[0].Instrs[len(b.Preds[0].Instrs)-1].(*ssa.If); isIf && probeAnswer(e, piff.Cond) && !probeIfaceHas(e, piff.Cond, h.name) {
						stray = "the FailNow on t at " + e.posOf(c2) + " reports the lack of an interface that does not declare " + h.name + ": a type that has the helper's interface is failed for lacking another"
					}
				}
			}
		}
		if stray != "" {
			behind = false
		}
		switch {
		case !okIface:
			e.S.Bad("C20.iface", site, "missing interface", why, pos, "")
		case !behind && stray != "":
			e.S.Bad("C20.iface", site, "missing interface", stray+" (every report of a missing interface is to follow the direction filter and concern the interface of "+h.name+")", pos, "every case OnlyUnmarshal, type without MarshalText")
		case !behind:
			e.S.Bad("C20.iface", site, "missing interface", "the interface test runs in front of the direction filter: a case restricted to the other direction is tested too, so a table without any applicable case is reported, and a satisfied one is cut short by an other-direction case", pos, "every case OnlyUnmarshal, type without MarshalText")
		case !ifaceOK:
			if viaCast {
				e.S.Bad("C20.iface", site, "missing interface", "the value's interface is probed with castToFunc, which also accepts "+h.name+" declared on *T: a type that itself lacks the interface is not reported in the marshal direction", pos, "a case table of values whose "+h.name+" has a pointer receiver")
			} else {
				e.S.Bad("C20.iface", site, "missing interface", "the interface tested does not declare "+h.name, pos, "")
			}
		default:
			e.S.Ok("C20.iface", site, "missing interface", "applicable cases: value tested for the interface declaring "+h.name+"; on failure FailNow on t and return", pos)
		}
	}
	// ---- C20.verdict "nothing else": the only-if half. A call that can fail t is the missing-interface report, the
	// report of a failed hook, or part of the verdict on the protected call's results — a failure recorded anywhere
	// else (an empty table, a case whose Custom is set without a hook) fails t for a reason the property does not list
	{
		var strays []string
		n := 0
		for _, b := range fn.Blocks {
			for _, in := range b.Instrs {
				var cc *ssa.CallCommon
				switch x := in.(type) {
				case *ssa.Call:
					cc = &x.Call
				case *ssa.Defer:
					cc = &x.Call
				case *ssa.Go:
					cc = &x.Call
				}
				if cc == nil {
					continue
				}
				onT := false
				for _, a := range cc.Args {
					if isT(a) {
						onT = true
					}
				}
				if cc.IsInvoke() && isT(cc.Value) {
					switch cc.Method.Name() {
					case "Helper", "Name", "Log", "Logf", "Cleanup", "TempDir", "Setenv":
						continue
					}
					onT = true
				}
				if !onT {
					continue
				}
				n++
				call, isCall := in.(*ssa.Call)
				okPlace := false
				switch {
				case isCall && failNowBlock(e, b): // the missing-interface report
					okPlace = true
				case safe.Block() != b && safe.Block().Dominates(b): // the verdict on what the protected call produced
					okPlace = true
				case safe.Block() == b:
					for _, x := range b.Instrs {
						if x == ssa.Instruction(safe) {
							okPlace = true
							break
						}
						if x == in {
							break
						}
					}
				}
				// … and it is part of that verdict: it is handed the obtained error, the produced data or the case's
				// expectation, or it is the case's own predicate (a report placed behind the protected call for any other
				// reason — a Custom field without a hook — fails a satisfied case)
				if okPlace && !(isCall && failNowBlock(e, b)) {
					part := fieldLoad(cc.Value, "Error")
					for _, a := range cc.Args {
						if a == errV || derivesFrom(a, errV) || isData(a) || fieldLoad(a, expectName) || fieldLoadUnconverted(a, expectName) {
							part = true
						}
					}
					if !part {
						okPlace = false
					}
				}
				// the report of a failed hook: assert.NoError(t, <the hook runner's error>)
				if !okPlace && isCall && strings.HasPrefix(calleeName(cc), "github.com/stretchr/testify/assert.NoError") && len(cc.Args) >= 2 {
					if hc, ok := flow.Strip(cc.Args[1]).(*ssa.Call); ok {
						if g := e.C.StaticCallee(&hc.Call); g != nil && flow.InRepo(g) && hasRecoverDefer(flow.Origin(g)) {
							okPlace = true
						}
					}
				}
				_ = call
				if !okPlace {
					strays = append(strays, e.posOf(in))
				}
			}
		}
		switch {
		case n == 0:
			e.S.Unk("C20.verdict", site, "nothing else", "no call on the helper's t found", pos)
		case len(strays) > 0:
			e.S.Bad("C20.verdict", site, "nothing else", "t can be failed at "+strings.Join(strays, ", ")+", which is neither the missing-interface report, nor the report of a failed hook, nor part of the verdict on the protected call's results: a table is reported for a reason the property does not list", pos, "an empty case table")
		default:
			e.S.Ok("C20.verdict", site, "nothing else", fmt.Sprintf("%d call(s) on t: the missing-interface report, the hook reports and the verdict behind the protected call — nothing else can fail t", n), pos)
		}
	}
	// ---- C20.verdict "input": what is judged is the case run on its own input — the unmarshaler is handed the case's
	// Data itself (converted to bytes at most), not something computed from it
	if !h.marshal {
		nData, bad := 0, false
		for _, a := range safe.Call.Args {
			isText := false
			switch u := a.Type().Underlying().(type) {
			case *types.Basic:
				isText = u.Info()&types.IsString != 0
			case *types.Slice:
				if bt, ok := u.Elem().Underlying().(*types.Basic); ok && bt.Kind() == types.Uint8 {
					isText = true
				}
			}
			if !isText {
				continue
			}
			nData++
			if !fieldLoad(a, "Data") {
				bad = true
			}
		}
		switch {
		case nData == 0:
			e.S.Unk("C20.verdict", site, "input", "no text argument of the protected call found", e.posOf(safe))
		case bad:
			e.S.Bad("C20.verdict", site, "input", "the protected call is handed something other than the case's Data (a trimmed, rebuilt or otherwise computed text): the case is judged on another input than its own", e.posOf(safe), `{Data: " 1", Error: AnyError} with an unmarshaler that refuses a leading space`)
		default:
			e.S.Ok("C20.verdict", site, "input", "the protected call is handed the case's Data itself", e.posOf(safe))
		}
	}
	// ---- C20.dir
	var dirCall *ssa.Call
	{
		want := map[bool]string{true: "isForMarshal", false: "isForUnmarshal"}[h.marshal]
		for _, call := range e.C.Calls(fn, flow.InRepo) {
			if n := e.C.StaticCallee(&call.Call).Name(); n == "isForMarshal" || n == "isForUnmarshal" {
				dirCall = call
			}
		}
		switch {
		case dirCall == nil:
			e.S.Bad("C20.dir", site, "direction filter", "cases are not filtered by a direction predicate: cases restricted to the other direction are run", pos, "")
		case e.C.StaticCallee(&dirCall.Call).Name() != want:
			e.S.Bad("C20.dir", site, "direction filter", "the helper filters with "+e.C.StaticCallee(&dirCall.Call).Name()+", its own direction is "+want, e.posOf(dirCall), "")
		case !fieldLoad(dirCall.Call.Args[0], "Constraint"):
			e.S.Bad("C20.dir", site, "direction filter", "the direction predicate is not applied to the case's Constraint", e.posOf(dirCall), "")
		case !(dirCall.Block() == safe.Block() || dirCall.Block().Dominates(safe.Block())) || !skipsOnFalse(dirCall):
			e.S.Bad("C20.dir", site, "direction filter", "a false direction predicate does not skip the case before the marshal call", e.posOf(dirCall), "")
		default:
			e.S.Ok("C20.dir", site, "direction filter", want+"(c.Constraint) false ⇒ the case is skipped", e.posOf(dirCall))
		}
	}
	// ---- C20.hooks
	{
		var before, after *ssa.Call
		for _, call := range e.C.Calls(fn, flow.InRepo) {
			if e.C.StaticCallee(&call.Call).Name() != "callForCase" || len(call.Call.Args) != 3 {
				continue
			}
			for _, a := range call.Call.Args { // the hook, at whatever position the parameter list has it
				switch {
				case fieldLoad(a, "Before"):
					before = call
				case fieldLoad(a, "After"):
					after = call
				}
			}
		}
		cfc := e.F("test", "callForCase")
		checked := func(c *ssa.Call) bool {
			for _, r := range *c.Referrers() {
				if a, ok := r.(*ssa.Call); ok && calleeName(&a.Call) == "github.com/stretchr/testify/assert.NoError" && a.Call.Args[1] == ssa.Value(c) && isT(a.Call.Args[0]) && skipsOnFalse(a) {
					return true
				}
			}
			return false
		}
		precedes := func(a, b ssa.Instruction) bool {
			if a.Block() == b.Block() {
				for _, in := range a.Block().Instrs {
					if in == a {
						return true
					}
					if in == b {
						return false
					}
				}
			}
			return a.Block().Dominates(b.Block())
		}
		// what the tested call is given (its data, or the target built from the case's Value) is read from the case after
		// the Before hook has run: the hook receives the case to change it. The interface probe (castToFunc, a type
		// test) is not such a read.
		var stale ssa.Instruction
		if before != nil {
			seen := map[ssa.Value]bool{}
			var walk func(v ssa.Value, depth int)
			walk = func(v ssa.Value, depth int) {
				if v == nil || seen[v] || depth > 8 {
					return
				}
				seen[v] = true
				in, ok := v.(ssa.Instruction)
				if !ok {
					return
				}
				if c, ok := v.(*ssa.Call); ok {
					if f := c.Call.StaticCallee(); f != nil && flow.Origin(f).Name() == "castToFunc" {
						return
					}
				}
				if _, isPhi := v.(*ssa.Phi); isPhi {
					return
				}
				if fieldLoad(v, "Data") || fieldLoad(v, "Value") {
					if u, ok := v.(*ssa.UnOp); ok && !precedes(before, u) && in.Block() != nil {
						stale = u
					}
					return
				}
				if a, ok := v.(*ssa.Alloc); ok {
					// a local (the target `v`): what is stored into it
					for _, r := range *a.Referrers() {
						if st, ok := r.(*ssa.Store); ok && st.Addr == ssa.Value(a) {
							walk(st.Val, depth+1)
						}
					}
					return
				}
				for _, op := range in.Operands(nil) {
					if *op != nil {
						walk(*op, depth+1)
					}
				}
			}
			for _, a := range safe.Call.Args {
				walk(a, 0)
			}
			// … and so is what the verdict compares with: every read of the case's Data, Value or Error other than the
			// interface probe happens after the Before hook (a copy taken in front of it is the case before the hook)
			for _, b := range fn.Blocks {
				for _, in := range b.Instrs {
					u, ok := in.(*ssa.UnOp)
					if !ok || stale != nil || !(fieldLoad(u, "Data") || fieldLoad(u, "Value") || fieldLoad(u, "Error")) {
						continue
					}
					probeOnly := true
					for _, r := range *u.Referrers() {
						switch x := r.(type) {
						case *ssa.DebugRef:
						case *ssa.MakeInterface, *ssa.ChangeType, *ssa.ChangeInterface:
							for _, r2 := range *x.(ssa.Value).Referrers() {
								switch y := r2.(type) {
								case *ssa.TypeAssert:
									if !y.CommaOk {
										probeOnly = false
									}
								case *ssa.Call:
									if _, _, isProbe := probeCall(e, y); !isProbe {
										probeOnly = false
									}
								case *ssa.DebugRef:
								default:
									probeOnly = false
								}
							}
						case *ssa.Call:
							if f := x.Call.StaticCallee(); f == nil || flow.Origin(f).Name() != "castToFunc" {
								probeOnly = false
							}
						default:
							probeOnly = false
						}
					}
					// the value named in the missing-interface message belongs to the probe
					for _, bin := range b.Instrs {
						if fc, ok := bin.(*ssa.Call); ok && strings.HasPrefix(calleeName(&fc.Call), "github.com/stretchr/testify/assert.FailNow") {
							probeOnly = true
						}
					}
					if !probeOnly && !precedes(before, u) {
						stale = u
					}
				}
			}
		}
		switch {
		case before == nil || after == nil:
			e.S.Bad("C20.hooks", site, "hooks", "the Before and After hooks are not both run through callForCase", pos, "")
		case stale != nil:
			e.S.Bad("C20.hooks", site, "hooks", "what the tested call is given is read from the case in front of the Before hook: a hook that prepares the case (sets Value or Data) is ignored for that read, so a satisfied case can be reported and an unsatisfied one missed", e.posOf(stale), "a Before hook that sets c.Value, with a TypeHelper whose New builds the target from its argument")
		case !precedes(before, safe) || !precedes(safe, after):
			e.S.Bad("C20.hooks", site, "hooks", "Before must precede and After must follow the marshal call", pos, "")
		case dirCall != nil && !(dirCall.Block() != before.Block() && dirCall.Block().Dominates(before.Block())):
			e.S.Bad("C20.hooks", site, "hooks", "the Before hook runs in front of the direction filter: a case restricted to the other direction still has its hook run, and a failing hook there is reported although the case does not apply", e.posOf(before), "a case for the other direction whose Before hook fails")
		case bypasses(safe.Block(), after.Block()):
			e.S.Bad("C20.hooks", site, "hooks", "some path from the marshal call to the next case does not run the After hook: a failing After hook goes unreported on that path", e.posOf(after), "")
		case !sameCase(before, before.Block()) || !sameCase(after, before.Block()):
			e.S.Bad("C20.hooks", site, "hooks", "a hook is not given the address of the case value the helper itself reads (the loop's own copy): what the hook writes into the case is lost, or what the helper reads is stale", pos, "a Before hook that sets Data")
		case !checked(before) || !checked(after):
			e.S.Bad("C20.hooks", site, "hooks", "a hook's error is not asserted with NoError on t, or its failure does not skip the case", pos, "")
		case cfc == nil || !hasRecoverDefer(cfc):
			e.S.Bad("C20.hooks", "test.callForCase", "recover", "callForCase does not protect the hook with a deferred recover", "", "")
		case c20HookResult(cfc) != "":
			e.S.Unk("C20.hooks", "test.callForCase", "result", "callForCase's result is not read as the hook's own error: "+c20HookResult(cfc)+" — a failing hook may go unreported", e.Pos(cfc))
		default:
			e.S.Ok("C20.hooks", site, "hooks", "Before → marshal call → After, each via callForCase (deferred recover), each asserted with NoError, failure skips the case", pos)
		}
	}
	// ---- C20.verdict
	expectField := map[bool]string{true: "Data", false: "Value"}[h.marshal]
	roles := verdictRoles{
		isT:      isT,
		isErr:    func(v ssa.Value) bool { return v == errV },
		isData:   isData,
		isExpect: func(v ssa.Value) bool { return fieldLoadUnconverted(v, expectField) },
		isPred:   func(v ssa.Value) bool { return fieldLoad(v, "Error") },
	}
	vf, vroles := fn, roles
	if !hasVerdict(fn, roles) {
		// the verdict may live in a shared function of the package that receives t, the predicate, the obtained error,
		// the expectation and the produced result: follow the one call that takes the obtained error
		for _, call := range e.C.Calls(fn, flow.InRepo) {
			g := flow.Origin(e.C.StaticCallee(&call.Call))
			if !anyArg(call, roles.isErr) || len(g.Params) != len(call.Call.Args) {
				continue
			}
			cr := calleeRoles(g, call, roles, dataV, expectField)
			if hasVerdict(g, cr) {
				vf, vroles = g, cr
			}
		}
	}
	verdictIn(e, site, pos, h, vf, vroles, expectField)
}

// verdictRoles tell the verdict rule which values of a function play which part.
type verdictRoles struct {
	isT, isErr, isData, isExpect, isPred func(ssa.Value) bool
}

// calleeRoles maps the roles of the caller's arguments onto the parameters of g: a parameter plays the role of the
// argument it receives; a parameter receiving the address of the produced value / of the case's expectation plays
// that role through its loads.
func calleeRoles(g *ssa.Function, call *ssa.Call, r verdictRoles, dataV ssa.Value, expectField string) verdictRoles {
	type role int
	const (
		none role = iota
		rT
		rErr
		rData
		rDataPtr
		rExpect
		rExpectPtr
		rPred
	)
	pr := map[*ssa.Parameter]role{}
	for i, a := range call.Call.Args {
		p := g.Params[i]
		switch {
		case r.isT(a):
			pr[p] = rT
		case r.isErr(a):
			pr[p] = rErr
		case r.isPred(a):
			pr[p] = rPred
		case r.isData(a):
			pr[p] = rData
		case a == dataV:
			pr[p] = rDataPtr
		case r.isExpect(a):
			pr[p] = rExpect
		default:
			if fa, ok := a.(*ssa.FieldAddr); ok {
				if st := structOf(fa.X.Type()); st != nil && st.Field(fa.Field).Name() == expectField {
					pr[p] = rExpectPtr
				}
			}
		}
	}
	via := func(v ssa.Value, direct, ptr role) bool {
		v = flow.Strip(v)
		for k := 0; k < 6; k++ {
			if p, ok := v.(*ssa.Parameter); ok {
				return pr[p] == direct
			}
			if u, ok := v.(*ssa.UnOp); ok && u.Op == token.MUL {
				if p, ok := u.X.(*ssa.Parameter); ok {
					return pr[p] == ptr
				}
				return false
			}
			switch y := v.(type) {
			case *ssa.MakeInterface:
				v = y.X
			case *ssa.ChangeInterface:
				v = y.X
			case *ssa.ChangeType:
				v = y.X
			case *ssa.Convert:
				v = y.X
			case *ssa.MultiConvert:
				v = y.X
			default:
				return false
			}
		}
		return false
	}
	return verdictRoles{
		isT:      func(v ssa.Value) bool { return via(v, rT, none) },
		isErr:    func(v ssa.Value) bool { p, ok := v.(*ssa.Parameter); return ok && pr[p] == rErr },
		isData:   func(v ssa.Value) bool { return via(v, rData, rDataPtr) },
		isExpect: func(v ssa.Value) bool { return via(v, rExpect, rExpectPtr) },
		isPred:   func(v ssa.Value) bool { p, ok := flow.Strip(v).(*ssa.Parameter); return ok && pr[p] == rPred },
	}
}

func findPredCall(fn *ssa.Function, r verdictRoles) *ssa.Call {
	for _, b := range fn.Blocks {
		for _, in := range b.Instrs {
			if call, ok := in.(*ssa.Call); ok && !call.Call.IsInvoke() && call.Call.StaticCallee() == nil {
				if _, isBuiltin := call.Call.Value.(*ssa.Builtin); !isBuiltin && r.isPred(call.Call.Value) {
					return call
				}
			}
		}
	}
	return nil
}

func findNoError(fn *ssa.Function, r verdictRoles) *ssa.Call {
	var noErr *ssa.Call
	for _, b := range fn.Blocks {
		for _, in := range b.Instrs {
			if c, ok := in.(*ssa.Call); ok && calleeName(&c.Call) == "github.com/stretchr/testify/assert.NoError" && len(c.Call.Args) >= 2 && r.isErr(c.Call.Args[1]) {
				noErr = c
			}
		}
	}
	return noErr
}

func hasVerdict(fn *ssa.Function, r verdictRoles) bool {
	return findPredCall(fn, r) != nil || findNoError(fn, r) != nil
}

// verdictIn: the predicate / plain verdict branches inside vf (the helper itself or the shared function it calls).
func verdictIn(e *Env, site, pos string, h helperSpec, fn *ssa.Function, r verdictRoles, expectField string) {
	where := ""
	if flow.FnName(fn) != site {
		where = " (in " + flow.FnName(fn) + ")"
	}
	{
		predCall := findPredCall(fn, r)
		emptyNames := map[string]bool{"github.com/stretchr/testify/assert.Nil": true, "github.com/stretchr/testify/assert.Empty": true, "go.lstv.dev/util/test.helperAssertEmpty": true}
		equalNames := map[string]bool{"github.com/stretchr/testify/assert.Equal": true, "go.lstv.dev/util/test.helperAssertEqual": true, "github.com/stretchr/testify/assert.EqualValues": true}
		conditional := map[*ssa.Call]bool{} // assertions some path from the satisfied condition goes around
		findAfterTrue := func(cond *ssa.Call, names map[string]bool) *ssa.Call {
			var tb *ssa.BasicBlock
			for _, rr := range *cond.Referrers() {
				if iff, ok := rr.(*ssa.If); ok {
					tb = iff.Block().Succs[0]
				}
			}
			if tb == nil {
				return nil
			}
			for _, b := range fn.Blocks {
				if !(b == tb || tb.Dominates(b)) {
					continue
				}
				for _, in := range b.Instrs {
					if c, ok := in.(*ssa.Call); ok && names[calleeName(&c.Call)] {
						// on every path: leaving the region the condition's true edge dominates (towards the next
						// case or the return) is impossible without passing the assertion's block
						seen := map[*ssa.BasicBlock]bool{}
						var escapes func(x *ssa.BasicBlock) bool
						escapes = func(x *ssa.BasicBlock) bool {
							if x == b {
								return false
							}
							if !(x == tb || tb.Dominates(x)) {
								return true
							}
							if seen[x] {
								return false
							}
							seen[x] = true
							if len(x.Succs) == 0 {
								_, isRet := x.Instrs[len(x.Instrs)-1].(*ssa.Return)
								return isRet
							}
							for _, s := range x.Succs {
								if escapes(s) {
									return true
								}
							}
							return false
						}
						if escapes(tb) {
							conditional[c] = true
						}
						return c
					}
				}
			}
			return nil
		}
		argsWithT := func(c *ssa.Call) bool { return anyArg(c, r.isT) }
		// predicate branch
		switch {
		case predCall == nil:
			e.S.Bad("C20.verdict", site, "predicate branch", "the case's error predicate is never invoked: an unmet predicate is not reported", pos, "")
		case len(predCall.Call.Args) != 3 || !r.isT(predCall.Call.Args[0]) || !r.isErr(predCall.Call.Args[1]):
			e.S.Bad("C20.verdict", site, "predicate branch", "the error predicate is not invoked with (t, the error obtained from "+h.name+", info)"+where, e.posOf(predCall), "")
		default:
			emp := findAfterTrue(predCall, emptyNames)
			switch {
			case emp == nil:
				e.S.Bad("C20.verdict", site, "predicate branch", "when the predicate is satisfied the produced data/value is not asserted empty: a result alongside an expected error goes unreported"+where, e.posOf(predCall), "")
			case conditional[emp]:
				e.S.Bad("C20.verdict", site, "predicate branch", "the emptiness assertion on the produced data/value is skipped on some path after a satisfied predicate: a result alongside an expected error can go unreported"+where, e.posOf(emp), "")
			case !argsWithT(emp) || !anyArg(emp, r.isData):
				e.S.Bad("C20.verdict", site, "predicate branch", "the emptiness assertion is not applied to the produced data/value with the helper's t"+where, e.posOf(emp), "")
			case calleeName(&emp.Call) == "github.com/stretchr/testify/assert.Nil":
				// "a non-empty result alongside an expected error": assert.Nil also fails on an empty, non-nil result
				e.S.Bad("C20.verdict", site, "predicate branch", "the result alongside an expected error is asserted with assert.Nil, which reports an empty but non-nil result too: a case whose marshaler returns ([]byte{}, err) is reported although it produced no data"+where, e.posOf(emp), "a marshaler returning ([]byte{}, errors.New(\"boom\")) with Error: AnyError")
			default:
				e.S.Ok("C20.verdict", site, "predicate branch", "predicate(t, err, info) and, on true, emptiness assertion on the produced data/value"+where, e.posOf(predCall))
			}
		}
		// no-predicate branch
		noErr := findNoError(fn, r)
		switch {
		case noErr == nil || !r.isT(noErr.Call.Args[0]):
			e.S.Bad("C20.verdict", site, "plain branch", "without a predicate the obtained error is not asserted with NoError on t: an unexpected error is not reported", pos, "")
		default:
			eq := findAfterTrue(noErr, equalNames)
			switch {
			case eq == nil:
				e.S.Bad("C20.verdict", site, "plain branch", "after NoError there is no equality assertion between the case's "+expectField+" and the produced "+map[bool]string{true: "data", false: "value"}[h.marshal]+": differing results pass silently"+where, e.posOf(noErr), "")
			case conditional[eq]:
				e.S.Bad("C20.verdict", site, "plain branch", "the equality assertion is skipped on some path after NoError held: differing results can pass silently"+where, e.posOf(eq), "")
			case !argsWithT(eq) || !anyArg(eq, r.isData) || !anyArg(eq, r.isExpect):
				e.S.Bad("C20.verdict", site, "plain branch", "the equality assertion does not compare the case's "+expectField+" with the produced result on the helper's t"+where, e.posOf(eq), "")
			case argIndex(eq, r.isExpect) > argIndex(eq, r.isData):
				// expected first, actual second — testify's and TypeHelper.AssertEqual's order: a helper that treats the two
				// differently (ignores zero fields of the expectation) judges the wrong way round
				e.S.Bad("C20.verdict", site, "plain branch", "the equality assertion is given the produced result as the expectation and the case's "+expectField+" as the actual value (expected, actual exchanged): a TypeHelper whose AssertEqual is not symmetric misses differing values and reports equal ones"+where, e.posOf(eq), "a TypeHelper that ignores zero fields of the expected value")
			case h.marshal && rawByteSlices(eq, r):
				// testify's Equal tells a nil []byte from an empty one: as data they are the same
				e.S.Bad("C20.verdict", site, "plain branch", "the expected and the produced bytes are compared as []byte values with assert.Equal, which tells nil from empty: a marshaler returning an empty non-nil slice for a case without Data (or nil for Data: []byte{}) is reported as differing"+where, e.posOf(eq), "Data omitted, marshaler returns ([]byte{}, nil)")
			default:
				e.S.Ok("C20.verdict", site, "plain branch", "NoError(t, err) and, on true, equality of c."+expectField+" and the produced result"+where, e.posOf(noErr))
			}
		}
		// selection between the branches: `pred != nil` (or `pred == nil` with the arms exchanged)
		sel := false
		for _, b := range fn.Blocks {
			if iff, ok := b.Instrs[len(b.Instrs)-1].(*ssa.If); ok {
				if cmp, ok := iff.Cond.(*ssa.BinOp); ok && (cmp.Op == token.NEQ || cmp.Op == token.EQL) && flow.IsNilConst(cmp.Y) && r.isPred(cmp.X) {
					predEdge, plainEdge := b.Succs[0], b.Succs[1]
					if cmp.Op == token.EQL {
						predEdge, plainEdge = plainEdge, predEdge
					}
					// each arm is entered from this test alone (`c.Error != nil && err != nil` sends a case with an expected
					// but missing error into the plain arm through a second door)
					if predCall != nil && noErr != nil && len(predEdge.Preds) == 1 && len(plainEdge.Preds) == 1 && (predEdge == predCall.Block() || predEdge.Dominates(predCall.Block())) && (plainEdge == noErr.Block() || plainEdge.Dominates(noErr.Block())) &&
						!(plainEdge == predCall.Block() || plainEdge.Dominates(predCall.Block())) && !(predEdge == noErr.Block() || predEdge.Dominates(noErr.Block())) {
						sel = true
					}
				}
			}
		}
		if sel {
			e.S.Ok("C20.verdict", site, "branch selection", "a non-nil c.Error selects the predicate branch, nil the plain branch"+where, pos)
		} else if predCall != nil && noErr != nil {
			e.S.Bad("C20.verdict", site, "branch selection", "the two verdict branches are not selected by c.Error != nil"+where, pos, "")
		}
	}
}

// rawByteSlices: the equality assertion receives the produced data as a []byte value that is the call's own result,
// not text (string conversion) and not the both-empty-normalised merge.
func rawByteSlices(eq *ssa.Call, r verdictRoles) bool {
	for _, a := range eq.Call.Args {
		if !r.isData(a) {
			continue
		}
		v := a
		if mi, ok := v.(*ssa.MakeInterface); ok { // what is compared: the boxed operand, conversions included
			v = mi.X
		}
		sl, ok := v.Type().Underlying().(*types.Slice)
		if !ok {
			continue
		}
		if b, ok := sl.Elem().Underlying().(*types.Basic); !ok || b.Kind() != types.Uint8 {
			continue
		}
		if _, merged := v.(*ssa.Phi); !merged {
			return true
		}
	}
	return false
}

// argIndex: the position of the first argument of c that satisfies p (−1 if none).
func argIndex(c *ssa.Call, p func(ssa.Value) bool) int {
	for i, a := range c.Call.Args {
		if p(a) {
			return i
		}
	}
	return -1
}

func anyArg(c *ssa.Call, p func(ssa.Value) bool) bool {
	for _, a := range c.Call.Args {
		if p(a) {
			return true
		}
	}
	return false
}

func ifaceHasMethod(it *types.Interface, name string) bool {
	for i := 0; i < it.NumMethods(); i++ {
		if it.Method(i).Name() == name {
			return true
		}
	}
	return false
}

// skipsOnFalse: the boolean result of call feeds an If whose false edge goes to the loop head (next case).
func skipsOnFalse(call *ssa.Call) bool {
	for _, r := range *call.Referrers() {
		iff, ok := r.(*ssa.If)
		if !ok {
			continue
		}
		f := iff.Block().Succs[1]
		for blockOnlyJumps(f) && len(f.Succs) == 1 {
			f = f.Succs[0]
		}
		if f.Dominates(iff.Block()) { // back edge to the loop head
			return true
		}
	}
	return false
}

// ruleC20Dir: isForMarshal / isForUnmarshal as tables over the constraint values.
func ruleC20Dir(e *Env) {
	const rule = "C20.dir"
	om, ok1 := tabConstInt(e, "test", "OnlyMarshal")
	ou, ok2 := tabConstInt(e, "test", "OnlyUnmarshal")
	if !ok1 || !ok2 || om == 0 || ou == 0 || om == ou {
		e.S.Unk(rule, "test.Constraint", "constants", "OnlyMarshal / OnlyUnmarshal are not two distinct non-zero constants", "")
		return
	}
	for _, d := range []struct {
		fn  string
		own int64
	}{{"isForMarshal", om}, {"isForUnmarshal", ou}} {
		fn := e.Fn(rule, "test", d.fn)
		if fn == nil {
			continue
		}
		for _, k := range []int64{0, om, ou, om + ou + 1} {
			ev := &pred.Evaluator{Prog: e.P.SSA, GlobalInit: e.globalTables(), Oracle: noOracle{}}
			out, err := ev.Eval(fn, []pred.Val{pred.Const{V: constant.MakeInt64(k)}})
			construct := fmt.Sprintf("constraint=%d", k)
			if err != nil {
				e.S.Unk(rule, flow.FnName(fn), construct, err.Error(), e.Pos(fn))
				continue
			}
			got, _ := boolOf(out.Ret)
			want := k == 0 || k == d.own
			if got == want {
				e.S.Ok(rule, flow.FnName(fn), construct, fmt.Sprintf("%s(%d) = %v", d.fn, k, want), e.Pos(fn))
			} else {
				e.S.Bad(rule, flow.FnName(fn), construct, fmt.Sprintf("%s(%d) = %v; a case applies to a direction iff it is unrestricted (0) or restricted to that direction", d.fn, k, got), e.Pos(fn), "")
			}
		}
	}
}

// ruleC20Pred: the error predicates.
func ruleC20Pred(e *Env) {
	const rule = "C20.pred"
	closureOf := func(fn *ssa.Function) *ssa.Function {
		if fn == nil {
			return nil
		}
		for _, a := range fn.AnonFuncs {
			return a
		}
		return nil
	}
	hasCall := func(fn *ssa.Function, name string) *ssa.Call {
		for _, b := range fn.Blocks {
			for _, in := range b.Instrs {
				if c, ok := in.(*ssa.Call); ok && calleeName(&c.Call) == name {
					return c
				}
			}
		}
		return nil
	}
	usesFree := func(c *ssa.Call) bool {
		for _, a := range c.Call.Args {
			if u, ok := flow.Strip(a).(*ssa.UnOp); ok {
				if _, isFree := u.X.(*ssa.FreeVar); isFree {
					return true
				}
			}
			if _, isFree := flow.Strip(a).(*ssa.FreeVar); isFree {
				return true
			}
		}
		return false
	}
	for _, p := range []struct{ fn, must, what string }{
		{"Error", "github.com/stretchr/testify/assert.EqualError", "assert.EqualError(t, err, text)"},
		{"ErrorHasPrefix", "strings.HasPrefix", "strings.HasPrefix(err.Error(), prefix)"},
		{"ErrorHasSuffix", "strings.HasSuffix", "strings.HasSuffix(err.Error(), suffix)"},
		{"ErrorMatch", "regexp.MatchString", "regexp.MatchString(pattern, err.Error())"},
	} {
		fn := e.Fn(rule, "test", p.fn)
		cl := closureOf(fn)
		if cl == nil {
			if fn != nil {
				e.S.Unk(rule, "test."+p.fn, "closure", "the predicate constructor returns no closure", e.Pos(fn))
			}
			continue
		}
		c := hasCall(cl, p.must)
		if c == nil && p.fn == "ErrorMatch" {
			// the two-step spelling of regexp.MatchString: regexp.Compile(pattern) and re.MatchString(err.Error())
			if m := hasCall(cl, "(*regexp.Regexp).MatchString"); m != nil {
				c = hasCall(cl, "regexp.Compile")
				if c == nil && hasCall(fn, "regexp.Compile") != nil {
					c = m // compiled once by the constructor, the closure matches with the captured regexp
				}
			}
		}
		// which operand is which: the error's text is what is examined, the constructor's text what it is examined for
		// (HasPrefix(s, prefix), HasSuffix(s, suffix), MatchString(pattern, s))
		isErrText := func(v ssa.Value) bool {
			ec, ok := flow.Strip(v).(*ssa.Call)
			return ok && ec.Call.IsInvoke() && ec.Call.Method.Name() == "Error"
		}
		isFreeArg := func(v ssa.Value) bool {
			if u, ok := flow.Strip(v).(*ssa.UnOp); ok {
				_, isFree := u.X.(*ssa.FreeVar)
				return isFree
			}
			_, isFree := flow.Strip(v).(*ssa.FreeVar)
			return isFree
		}
		swapped := false
		if c != nil && len(c.Call.Args) == 2 {
			switch calleeName(&c.Call) {
			case "strings.HasPrefix", "strings.HasSuffix":
				swapped = isFreeArg(c.Call.Args[0]) && isErrText(c.Call.Args[1])
			case "regexp.MatchString":
				swapped = isErrText(c.Call.Args[0]) && isFreeArg(c.Call.Args[1])
			}
		}
		switch {
		case c == nil:
			e.S.Bad(rule, "test."+p.fn, "assertion", p.fn+" does not evaluate "+p.what, e.Pos(fn), "")
		case swapped:
			e.S.Bad(rule, "test."+p.fn, "assertion", "the operands of "+calleeName(&c.Call)+" are exchanged: the text given to "+p.fn+" is examined for the error's text, not the error's text for it ("+p.what+")", e.posOf(c), "an error text that properly extends the given text")
		case !usesFree(c):
			e.S.Bad(rule, "test."+p.fn, "assertion", p.what+" is not applied to the text given to "+p.fn, e.posOf(c), "")
		default:
			ok := true
			if p.fn != "Error" {
				// the boolean must decide the predicate: assert.True on it (prefix/suffix) or the match result returned
				if hasCall(cl, "github.com/stretchr/testify/assert.Error") == nil {
					ok = false
				}
			}
			if ok {
				e.S.Ok(rule, "test."+p.fn, "assertion", "evaluates "+p.what+" after asserting that an error is present", e.Pos(fn))
			} else {
				e.S.Bad(rule, "test."+p.fn, "assertion", p.fn+" does not first assert that an error is present", e.Pos(fn), "")
			}
		}
	}
	// reports: a predicate may answer false only where an assertion on t is known to have failed (and so reported)
	for _, name := range []string{"Error", "ErrorHasPrefix", "ErrorHasSuffix", "ErrorMatch"} {
		if fn := e.Fn(rule, "test", name); fn != nil {
			if cl := closureOf(fn); cl != nil {
				predReports(e, rule, "test."+name, cl)
			}
		}
	}
	// AnyError: package-level variable initialised with a closure calling assert.Error
	if g := e.Var(rule, "test", "AnyError"); g != nil {
		var init *ssa.Function
		for fn := range e.C.AllRepoFuncs() {
			if fn.Name() != "init" {
				continue
			}
			for _, b := range fn.Blocks {
				for _, in := range b.Instrs {
					if st, ok := in.(*ssa.Store); ok && st.Addr == ssa.Value(g) {
						switch v := flow.Strip(st.Val).(type) {
						case *ssa.Function:
							init = v
						case *ssa.MakeClosure:
							init = v.Fn.(*ssa.Function)
						}
					}
				}
			}
		}
		if init != nil && hasCall(init, "github.com/stretchr/testify/assert.Error") != nil {
			e.S.Ok(rule, "test.AnyError", "assertion", "AnyError asserts that an error is present", "")
			predReports(e, rule, "test.AnyError", init)
		} else {
			e.S.Bad(rule, "test.AnyError", "assertion", "AnyError does not call assert.Error", "", "")
		}
	}
}

// isAssertOnT: v is the result of a testify assert.* call whose first argument is the closure's t parameter.
func isAssertOnT(cl *ssa.Function, v ssa.Value) *ssa.Call {
	c, ok := flow.Strip(v).(*ssa.Call)
	if !ok || len(cl.Params) == 0 || len(c.Call.Args) == 0 {
		return nil
	}
	if !strings.HasPrefix(calleeName(&c.Call), "github.com/stretchr/testify/assert.") {
		return nil
	}
	if !derivesFrom(c.Call.Args[0], cl.Params[0]) {
		return nil
	}
	return c
}

// failedAssertDominates: block b is only reachable after an assertion on t returned false, or after assert.Fail/FailNow.
func failedAssertDominates(cl *ssa.Function, b *ssa.BasicBlock) bool {
	for _, d := range cl.Blocks {
		if !d.Dominates(b) {
			continue
		}
		for _, in := range d.Instrs {
			if c, ok := in.(*ssa.Call); ok {
				n := calleeName(&c.Call)
				if (n == "github.com/stretchr/testify/assert.Fail" || n == "github.com/stretchr/testify/assert.FailNow") && isAssertOnT(cl, c) != nil {
					return true
				}
			}
		}
		iff, ok := d.Instrs[len(d.Instrs)-1].(*ssa.If)
		if !ok || isAssertOnT(cl, iff.Cond) == nil {
			continue
		}
		els := d.Succs[1]
		if len(els.Preds) == 1 && els.Dominates(b) && d.Succs[0] != els {
			return true
		}
	}
	return false
}

// passedAssertDominates: block b is only reachable through the true edge of an assertion on t.
func passedAssertDominates(cl *ssa.Function, b *ssa.BasicBlock) bool {
	for _, d := range cl.Blocks {
		if !d.Dominates(b) {
			continue
		}
		iff, ok := d.Instrs[len(d.Instrs)-1].(*ssa.If)
		if !ok || isAssertOnT(cl, iff.Cond) == nil {
			continue
		}
		if then := d.Succs[0]; len(then.Preds) == 1 && (then == b || then.Dominates(b)) && d.Succs[1] != then {
			return true
		}
	}
	return false
}

// predReports: every return of the predicate closure that may be false is either the result of an assertion on t
// (which reports exactly when it is false) or lies behind a failed assertion.
func predReports(e *Env, rule, site string, cl *ssa.Function) {
	var bad, unmet []string
	n := 0
	var check func(v ssa.Value, at *ssa.BasicBlock, pos string, depth int)
	check = func(v ssa.Value, at *ssa.BasicBlock, pos string, depth int) {
		switch x := v.(type) {
		case *ssa.Const:
			if x.Value != nil && x.Value.String() == "true" {
				// "met" may be answered outright only where an assertion on t has held (the error is there and is the
				// expected one): a bare `return true` in front of every examination accepts a missing error
				if !passedAssertDominates(cl, at) {
					unmet = append(unmet, pos)
				}
				return
			}
			if !failedAssertDominates(cl, at) {
				bad = append(bad, pos)
			}
		case *ssa.Phi:
			if depth > 4 {
				bad = append(bad, pos+" (phi too deep)")
				return
			}
			for i, ed := range x.Edges {
				// `assert.A(…) && assert.B(…)` kept as a value: the false of the phi arrives along the false edge of the
				// branch on A's result — A failed, and reported
				p := x.Block().Preds[i]
				if c, isC := ed.(*ssa.Const); isC && c.Value != nil && c.Value.String() == "false" {
					if iff, ok := p.Instrs[len(p.Instrs)-1].(*ssa.If); ok && isAssertOnT(cl, iff.Cond) != nil && p.Succs[1] == x.Block() && p.Succs[0] != x.Block() {
						continue
					}
				}
				check(ed, p, pos, depth+1)
			}
		default:
			if isAssertOnT(cl, v) != nil {
				return
			}
			bad = append(bad, pos+" (value not an assertion result)")
		}
	}
	for _, b := range cl.Blocks {
		if len(b.Instrs) == 0 {
			continue
		}
		r, ok := b.Instrs[len(b.Instrs)-1].(*ssa.Return)
		if !ok || len(r.Results) != 1 {
			continue
		}
		n++
		check(r.Results[0], b, e.posOf(r), 0)
	}
	switch {
	case n == 0:
		e.S.Unk(rule, site, "reports", "no return found in the predicate closure", e.Pos(cl))
	case len(bad) > 0:
		e.S.Bad(rule, site, "reports", "the predicate can answer false without any assertion on t having failed, so an unmet predicate is not reported: return at "+strings.Join(bad, ", "), e.Pos(cl), "")
	default:
		e.S.Ok(rule, site, "reports", fmt.Sprintf("%d returns: each is an assertion's own result, a constant true, or lies behind a failed assertion on t", n), e.Pos(cl))
	}
	if len(unmet) > 0 {
		e.S.Bad(rule, site, "met", "the predicate can answer true without any assertion on t having held: an error that is missing, or not the expected one, is accepted: return at "+strings.Join(unmet, ", "), e.Pos(cl), "a marshaler returning no error")
	} else if n > 0 {
		e.S.Ok(rule, site, "met", "true is answered only by an assertion's own result or behind an assertion that held", e.Pos(cl))
	}
}

// bypasses: some path leaves `from` and reaches the enclosing loop's header (or a return) without entering `via`.
func bypasses(from, via *ssa.BasicBlock) bool {
	if from == via {
		return false
	}
	seen := map[*ssa.BasicBlock]bool{from: true, via: true}
	work := append([]*ssa.BasicBlock(nil), from.Succs...)
	for len(work) > 0 {
		b := work[len(work)-1]
		work = work[:len(work)-1]
		if b == from {
			return true
		}
		if seen[b] {
			continue
		}
		seen[b] = true
		if b.Dominates(from) {
			return true // back at the loop header
		}
		if _, ret := b.Instrs[len(b.Instrs)-1].(*ssa.Return); ret {
			return true
		}
		work = append(work, b.Succs...)
	}
	return false
}

// controlConds: the branch conditions that decide whether block b runs (ifs on the dominator chain with exactly one
// successor leading to b), with the polarity taken.
type ctlCond struct {
	cond ssa.Value
	pos  bool
}

func controlConds(b *ssa.BasicBlock) []ctlCond {
	var out []ctlCond
	for d := b.Idom(); d != nil; d = d.Idom() {
		iff, ok := d.Instrs[len(d.Instrs)-1].(*ssa.If)
		if !ok {
			continue
		}
		t, f := d.Succs[0], d.Succs[1]
		tl := (t == b || t.Dominates(b)) && len(t.Preds) == 1
		fl := (f == b || f.Dominates(b)) && len(f.Preds) == 1
		if tl != fl {
			out = append(out, ctlCond{iff.Cond, tl})
		}
	}
	return out
}

// ruleC20Support: helperNew / helperAssertEmpty / helperAssertEqual / castToFunc.
func ruleC20Support(e *Env) {
	const rule = "C20.support"
	isNilTest := func(v ssa.Value, p *ssa.Parameter) bool {
		bo, ok := v.(*ssa.BinOp)
		return ok && (bo.Op == token.EQL || bo.Op == token.NEQ) && derivesFrom(bo.X, p) && flow.IsNilConst(bo.Y)
	}
	// ---- helperNew
	if fn := e.Fn(rule, "test", "helperNew"); fn != nil && len(fn.Params) == 2 {
		site := flow.FnName(fn)
		helper, value := fn.Params[0], fn.Params[1]
		// the branch without a TypeHelper extracted into a function of its own (`return newEmpty(value)`): the allocation
		// and the zero value are then looked for there, under the conditions of the call site
		scope, scopeValue := fn, ssa.Value(value)
		var delegCall *ssa.Call
		for _, r := range flow.Returns(fn) {
			if len(r.Results) != 1 {
				continue
			}
			if c, ok := r.Results[0].(*ssa.Call); ok && !c.Call.IsInvoke() && len(c.Call.Args) == 1 && derivesFrom(c.Call.Args[0], value) {
				if g := e.C.StaticCallee(&c.Call); g != nil && flow.InRepo(g) && len(flow.Origin(g).Params) == 1 && len(flow.Origin(g).Blocks) > 0 {
					scope, scopeValue, delegCall = flow.Origin(g), flow.Origin(g).Params[0], c
				}
			}
		}
		var newCall *ssa.Call
		for _, b := range scope.Blocks {
			for _, in := range b.Instrs {
				if c, ok := in.(*ssa.Call); ok && calleeName(&c.Call) == "reflect.New" {
					newCall = c
				}
			}
		}
		valueOfValue := func(v ssa.Value) bool {
			c, ok := v.(*ssa.Call)
			return ok && calleeName(&c.Call) == "reflect.ValueOf" && len(c.Call.Args) == 1 && derivesFrom(c.Call.Args[0], scopeValue)
		}
		typeOfValue := func(v ssa.Value) bool { // reflect.TypeOf(value) or reflect.ValueOf(value).Type()
			c, ok := v.(*ssa.Call)
			if !ok || len(c.Call.Args) != 1 {
				return false
			}
			switch calleeName(&c.Call) {
			case "reflect.TypeOf":
				return derivesFrom(c.Call.Args[0], scopeValue)
			case "(reflect.Value).Type":
				return valueOfValue(c.Call.Args[0])
			}
			return false
		}
		kindIsPtr := func(v ssa.Value) bool {
			bo, ok := v.(*ssa.BinOp)
			if !ok || bo.Op != token.EQL {
				return false
			}
			k, ok := bo.X.(*ssa.Call)
			if !ok {
				return false
			}
			byType := k.Call.IsInvoke() && k.Call.Method.Name() == "Kind" && typeOfValue(k.Call.Value)
			byValue := calleeName(&k.Call) == "(reflect.Value).Kind" && len(k.Call.Args) == 1 && valueOfValue(k.Call.Args[0])
			if !byType && !byValue {
				return false
			}
			n, ok := flow.ConstInt(bo.Y)
			return ok && n == 22 // reflect.Pointer
		}
		switch {
		case newCall == nil:
			e.S.Bad(rule, site, "fresh target", "no reflect.New: a pointer-typed T gets no fresh target to unmarshal into", e.Pos(fn), "")
		default:
			// argument: TypeOf(value).Elem()
			argOK := false
			if el, ok := newCall.Call.Args[0].(*ssa.Call); ok && el.Call.IsInvoke() && el.Call.Method.Name() == "Elem" && typeOfValue(el.Call.Value) {
				argOK = true
			}
			extra := ""
			sawKind, sawNil := false, false
			conds := controlConds(newCall.Block())
			if delegCall != nil {
				conds = append(conds, controlConds(delegCall.Block())...)
			}
			for _, cc := range conds {
				switch {
				case kindIsPtr(cc.cond) && cc.pos:
					sawKind = true
				case isNilTest(cc.cond, helper):
					sawNil = true
				default:
					extra = cc.cond.String()
				}
			}
			switch {
			case !argOK:
				e.S.Bad(rule, site, "fresh target", "reflect.New is not applied to the element type of T (reflect.TypeOf(value).Elem())", e.posOf(newCall), "")
			case extra != "" || !sawKind || !sawNil:
				e.S.Bad(rule, site, "fresh target", "whether a fresh target is allocated depends on something other than `helper == nil` and the static kind of T ("+extra+"): for some case values a pointer-typed T is unmarshalled into nil", e.posOf(newCall), "nil pointer Value")
			default:
				// the allocation is what is returned
				ret := false
				for _, r := range flow.Returns(scope) {
					if len(r.Results) == 1 {
						if ta, ok := r.Results[0].(*ssa.TypeAssert); ok {
							if ic, ok := ta.X.(*ssa.Call); ok && calleeName(&ic.Call) == "(reflect.Value).Interface" && len(ic.Call.Args) == 1 && ic.Call.Args[0] == ssa.Value(newCall) {
								ret = true
							}
						}
					}
				}
				if ret {
					e.S.Ok(rule, site, "fresh target", "helper == nil ∧ kind(T) = pointer ⇒ returns reflect.New(elem(T)).Interface().(T); decided by the type only", e.posOf(newCall))
				} else {
					e.S.Bad(rule, site, "fresh target", "the freshly allocated target is not what is returned", e.posOf(newCall), "")
				}
			}
		}
		// helper != nil ⇒ helper.New(value)
		okNew := false
		for _, r := range flow.Returns(fn) {
			if len(r.Results) == 1 {
				if c, ok := r.Results[0].(*ssa.Call); ok && c.Call.IsInvoke() && c.Call.Method.Name() == "New" && c.Call.Value == ssa.Value(helper) && len(c.Call.Args) == 1 && c.Call.Args[0] == ssa.Value(value) {
					okNew = true
				}
			}
		}
		if okNew {
			e.S.Ok(rule, site, "helper.New", "with a TypeHelper returns helper.New(value)", e.Pos(fn))
		} else {
			e.S.Bad(rule, site, "helper.New", "with a TypeHelper the target is not helper.New(value)", e.Pos(fn), "")
		}
		// every other return is the zero value of T: a target that starts out as the case's expected value would
		// make an unmarshaler that does nothing pass the equality assertion
		badRet, nZero := "", 0
		allReturns := flow.Returns(fn)
		if scope != fn {
			allReturns = append(allReturns, flow.Returns(scope)...)
		}
		for _, r := range allReturns {
			vals := flow.ReturnValues(r)
			if len(vals) != 1 {
				continue
			}
			switch x := vals[0].(type) {
			case *ssa.TypeAssert:
				if ic, ok := x.X.(*ssa.Call); ok && newCall != nil && calleeName(&ic.Call) == "(reflect.Value).Interface" && len(ic.Call.Args) == 1 && ic.Call.Args[0] == ssa.Value(newCall) {
					continue
				}
				badRet = "a type assertion on something other than the fresh allocation"
			case *ssa.Call:
				if x.Call.IsInvoke() && x.Call.Method.Name() == "New" && x.Call.Value == ssa.Value(helper) {
					continue
				}
				if x == delegCall {
					continue // what that function returns is examined with it
				}
				badRet = "the result of " + x.Call.String()
			case *ssa.Const:
				nZero++ // the zero constant of T
			case *ssa.UnOp:
				al, ok := x.X.(*ssa.Alloc)
				stored := !ok
				if ok {
					for _, rr := range *al.Referrers() {
						if st, isSt := rr.(*ssa.Store); isSt && st.Addr == ssa.Value(al) {
							stored = true
						}
					}
				}
				if x.Op == token.MUL && !stored {
					nZero++
				} else {
					badRet = "a variable that has been assigned to"
				}
			default:
				badRet = x.String()
				if derivesFrom(vals[0], value) {
					badRet = "the case's own value"
				}
			}
		}
		switch {
		case badRet != "":
			e.S.Bad(rule, site, "zero target", "without a TypeHelper and for a non-pointer T the target returned is "+badRet+", not the zero value: an unmarshaler that leaves its receiver alone is measured against the expected value it was handed", e.Pos(fn), "")
		case nZero == 0:
			e.S.Unk(rule, site, "zero target", "no return of the zero value of T found", e.Pos(fn))
		default:
			e.S.Ok(rule, site, "zero target", "every other return is the zero value of T (a declared, never assigned variable)", e.Pos(fn))
		}
	}
	// ---- castToFunc: which form (T or *T) provides the interface is probed on the case value itself — for an
	// interface-typed T the dynamic type of the value decides, a zero T has none.
	if fn := e.Fn(rule, "test", "castToFunc"); fn != nil && len(fn.Params) == 1 {
		site := flow.FnName(fn)
		value := fn.Params[0]
		spill := func(v ssa.Value) bool { // the local the parameter is spilled into (and nothing else is stored there)
			a, ok := v.(*ssa.Alloc)
			if !ok {
				return false
			}
			n := 0
			for _, r := range *a.Referrers() {
				if st, ok := r.(*ssa.Store); ok && st.Addr == ssa.Value(a) {
					if st.Val != ssa.Value(value) {
						return false
					}
					n++
				}
			}
			return n == 1
		}
		ofParam := func(v ssa.Value) bool {
			for i := 0; i < 4; i++ {
				switch y := v.(type) {
				case *ssa.MakeInterface:
					v = y.X
					continue
				case *ssa.ChangeType:
					v = y.X
					continue
				case *ssa.ChangeInterface:
					v = y.X
					continue
				}
				break
			}
			if v == ssa.Value(value) || spill(v) {
				return true
			}
			if ld, ok := v.(*ssa.UnOp); ok && ld.Op == token.MUL {
				return spill(ld.X)
			}
			return false
		}
		probes, bad := 0, ""
		var badAt ssa.Instruction
		for _, b := range fn.Blocks {
			for _, in := range b.Instrs {
				if call, isCall := in.(*ssa.Call); isCall {
					if subj, _, isProbe := probeCall(e, call); isProbe {
						probes++
						if !ofParam(subj) {
							bad, badAt = subj.String(), in
						}
					}
					continue
				}
				ta, ok := in.(*ssa.TypeAssert)
				if !ok {
					continue
				}
				probes++
				if !ofParam(ta.X) {
					bad, badAt = ta.X.String(), in
				}
			}
		}
		switch {
		case bad != "":
			e.S.Bad(rule, site, "probe", "the interface is probed on "+bad+", not on the case value or its address: for an interface-typed T (dynamic type decides) the answer differs from what the returned accessor will meet", e.posOf(badAt), "T an interface type holding a value that implements I")
		case probes < 2:
			e.S.Unk(rule, site, "probe", "the two probes (value form, pointer form) were not recognised", e.Pos(fn))
		default:
			e.S.Ok(rule, site, "probe", "both forms are probed on the parameter itself: any(value).(I), any(&value).(I)", e.Pos(fn))
		}
	}
	// ---- castToFunc's accessors: the function handed out converts the target it is given (*T or T behind it), not a
	// value captured when the probe was made — the unmarshal helpers decode into what the accessor returns
	if fn := e.Fn(rule, "test", "castToFunc"); fn != nil && len(fn.Params) == 1 {
		site := flow.FnName(fn)
		n, bad, und := 0, "", ""
		var at ssa.Instruction
		for _, b := range fn.Blocks {
			ret, ok := b.Instrs[len(b.Instrs)-1].(*ssa.Return)
			if !ok || len(ret.Results) != 1 {
				continue
			}
			if c, ok := ret.Results[0].(*ssa.Const); ok && c.IsNil() {
				continue
			}
			var acc *ssa.Function
			switch x := ret.Results[0].(type) {
			case *ssa.MakeClosure:
				acc, _ = x.Fn.(*ssa.Function)
			case *ssa.Function:
				acc = x
			}
			if acc != nil {
				if o := flow.Origin(acc); o != nil && len(o.Blocks) > 0 {
					acc = o // a named generic function: the body, not the instantiation wrapper
				}
			}
			if acc == nil || len(acc.Params) != 1 || len(acc.Blocks) == 0 {
				und, at = "the returned accessor is not a function literal or function of one parameter", ret
				continue
			}
			n++
			for _, ab := range acc.Blocks {
				ar, ok := ab.Instrs[len(ab.Instrs)-1].(*ssa.Return)
				if !ok || len(ar.Results) != 1 {
					continue
				}
				v := ar.Results[0]
				for i := 0; i < 6; i++ {
					switch y := v.(type) {
					case *ssa.TypeAssert:
						v = y.X
						continue
					case *ssa.MakeInterface:
						v = y.X
						continue
					case *ssa.ChangeInterface:
						v = y.X
						continue
					case *ssa.ChangeType:
						v = y.X
						continue
					case *ssa.UnOp:
						if y.Op == token.MUL {
							v = y.X
							continue
						}
					}
					break
				}
				if v != ssa.Value(acc.Params[0]) {
					bad, at = "accessor "+acc.Name()+" returns "+ar.Results[0].String()+", which is not a conversion of the target it is given", ar
				}
			}
		}
		switch {
		case bad != "":
			e.S.Bad(rule, site, "accessor", bad+": the helpers decode into something else than the fresh target they compare afterwards", e.posOf(at), "a table of pointer-typed cases (CaseText[*X]): the target stays zero, the case's own Value is overwritten")
		case und != "" || n < 2:
			e.S.Unk(rule, site, "accessor", "the two accessors (value form, pointer form) were not recognised: "+und, e.Pos(fn))
		default:
			e.S.Ok(rule, site, "accessor", fmt.Sprintf("%d accessors, each returns a conversion of the target it is given (any(*t).(I), any(t).(I))", n), e.Pos(fn))
		}
	}
	// ---- helperAssertEmpty / helperAssertEqual
	for _, h := range []struct {
		name, assert, method string
		nvals                int
	}{{"helperAssertEmpty", "github.com/stretchr/testify/assert.Empty", "AssertEmpty", 1}, {"helperAssertEqual", "github.com/stretchr/testify/assert.Equal", "AssertEqual", 2}} {
		fn := e.Fn(rule, "test", h.name)
		if fn == nil || len(fn.Params) != 3+h.nvals {
			if fn != nil {
				e.S.Unk(rule, "test."+h.name, "assertion", "unexpected signature", e.Pos(fn))
			}
			continue
		}
		site := flow.FnName(fn)
		helper, t := fn.Params[0], fn.Params[1]
		vals := fn.Params[2 : 2+h.nvals]
		var direct, via *ssa.Call
		for _, b := range fn.Blocks {
			for _, in := range b.Instrs {
				c, ok := in.(*ssa.Call)
				if !ok {
					continue
				}
				if calleeName(&c.Call) == h.assert {
					direct = c
				}
				if c.Call.IsInvoke() && c.Call.Method.Name() == h.method && c.Call.Value == ssa.Value(helper) {
					via = c
				}
			}
		}
		argsOK := func(c *ssa.Call, off int) bool {
			if c == nil || len(c.Call.Args) < off+1+h.nvals || !derivesFrom(c.Call.Args[off], t) {
				return false
			}
			for i, v := range vals {
				if !derivesFrom(c.Call.Args[off+1+i], v) {
					return false
				}
			}
			return true
		}
		branchOK := func(c *ssa.Call, wantNil bool) bool {
			for _, cc := range controlConds(c.Block()) {
				if isNilTest(cc.cond, helper) {
					bo := cc.cond.(*ssa.BinOp)
					isNil := (bo.Op == token.EQL) == cc.pos
					return isNil == wantNil
				}
			}
			return false
		}
		switch {
		case direct == nil || !argsOK(direct, 0) || !branchOK(direct, true):
			e.S.Bad(rule, site, "assertion", "without a TypeHelper the values are not asserted with "+h.assert[strings.LastIndex(h.assert, "/")+1:]+"(t, values…) in order", e.Pos(fn), "")
		case via == nil || !argsOK(via, 0) || !branchOK(via, false):
			e.S.Bad(rule, site, "assertion", "with a TypeHelper the values are not handed to helper."+h.method+"(t, values…) in order", e.Pos(fn), "")
		default:
			e.S.Ok(rule, site, "assertion", "helper == nil ⇒ "+h.assert[strings.LastIndex(h.assert, "/")+1:]+"(t, values…); otherwise helper."+h.method+"(t, values…)", e.Pos(fn))
		}
	}
}

// sameCase: the hook call receives the address of the variable from which the helper, from the Before hook on, loads
// the case's Data / Value / Error (every such FieldAddr dominated by the Before hook uses that same variable).
func sameCase(hook *ssa.Call, from *ssa.BasicBlock) bool {
	if len(hook.Call.Args) < 2 {
		return false
	}
	// the case pointer: the argument whose type is a pointer to the case struct (at whatever position)
	var base ssa.Value
	for _, a := range hook.Call.Args {
		if _, isPtr := a.Type().Underlying().(*types.Pointer); isPtr && structOf(a.Type()) != nil {
			base = a
		}
	}
	if base == nil {
		return false
	}
	fn := hook.Parent()
	caseT := structOf(base.Type())
	if caseT == nil {
		return false
	}
	for _, b := range fn.Blocks {
		if !(b == from || from.Dominates(b)) {
			continue
		}
		for _, in := range b.Instrs {
			fa, ok := in.(*ssa.FieldAddr)
			if !ok {
				continue
			}
			st := structOf(fa.X.Type())
			if st == nil || !types.Identical(st, caseT) {
				continue
			}
			switch st.Field(fa.Field).Name() {
			case "Data", "Value", "Error", "After":
				if fa.X != base {
					return false
				}
			}
		}
	}
	return true
}

// c20HookResult: callForCase returns what the hook returned — one call of the function parameter, whose value is
// the only thing stored into the error result or returned (nil only where the hook is nil), and no branch other
// than the hook's nil test. Returns the reason why not ("" if it does).
func c20HookResult(cfc *ssa.Function) string {
	var hook *ssa.Parameter
	for _, p := range cfc.Params {
		if _, ok := p.Type().Underlying().(*types.Signature); ok {
			hook = p
		}
	}
	if hook == nil {
		return "no function-typed parameter"
	}
	var call *ssa.Call
	var nilEdge *ssa.BasicBlock // entered when the hook is nil
	for _, b := range cfc.Blocks {
		if b == cfc.Recover {
			continue
		}
		for _, in := range b.Instrs {
			switch x := in.(type) {
			case *ssa.Call:
				if x.Call.Value == ssa.Value(hook) {
					if call != nil {
						return "the hook is called more than once"
					}
					call = x
				}
			case *ssa.If:
				bo, ok := x.Cond.(*ssa.BinOp)
				if !ok || bo.X != ssa.Value(hook) || !flow.IsNilConst(bo.Y) || (bo.Op != token.EQL && bo.Op != token.NEQ) {
					return "a branch on something other than the hook being nil"
				}
				nilEdge = b.Succs[map[token.Token]int{token.EQL: 0, token.NEQ: 1}[bo.Op]]
			}
		}
	}
	if call == nil {
		return "the hook is not called"
	}
	underNil := func(b *ssa.BasicBlock) bool { return nilEdge != nil && len(nilEdge.Preds) == 1 && nilEdge.Dominates(b) }
	for _, b := range cfc.Blocks {
		if b == cfc.Recover {
			continue
		}
		for _, in := range b.Instrs {
			switch x := in.(type) {
			case *ssa.Store:
				if !types.Identical(x.Val.Type(), types.Universe.Lookup("error").Type()) {
					continue
				}
				if ld, ok := x.Val.(*ssa.UnOp); ok && ld.Op == token.MUL && ld.X == x.Addr {
					continue // `return err` with a named result: the result stored back into itself
				}
				if x.Val != ssa.Value(call) && !(flow.IsNilConst(x.Val) && (underNil(b) || b == cfc.Blocks[0])) {
					return "something other than the hook's result is stored into the error result"
				}
			case *ssa.Return:
				for _, r := range x.Results {
					if r == ssa.Value(call) {
						continue
					}
					if ld, ok := r.(*ssa.UnOp); ok && ld.Op == token.MUL {
						if _, isAlloc := ld.X.(*ssa.Alloc); isAlloc {
							continue
						}
					}
					if flow.IsNilConst(r) && underNil(b) {
						continue
					}
					return "a return of something other than the hook's result"
				}
			}
		}
	}
	return ""
}

// probeIfaceHas: the interface probed by cond (see probeAnswer) declares the method.
func probeIfaceHas(e *Env, cond ssa.Value, method string) bool {
	for i := 0; i < 3; i++ {
		if u, ok := cond.(*ssa.UnOp); ok && u.Op == token.NOT {
			cond = u.X
			continue
		}
		break
	}
	has := func(t types.Type) bool {
		// the helper's method and nothing else: an interface that embeds it and demands a second method fails types
		// that have the helper's interface
		it, ok := t.Underlying().(*types.Interface)
		return ok && ifaceHasMethod(it, method) && it.NumMethods() == 1
	}
	castHas := func(v ssa.Value) bool {
		c, ok := v.(*ssa.Call)
		if !ok {
			return false
		}
		f := c.Call.StaticCallee()
		if f == nil || flow.Origin(f).Name() != "castToFunc" {
			return false
		}
		for _, ta := range f.TypeArgs() {
			if has(ta) {
				return true
			}
		}
		return false
	}
	switch x := cond.(type) {
	case *ssa.Extract:
		ta, ok := x.Tuple.(*ssa.TypeAssert)
		return ok && has(ta.AssertedType)
	case *ssa.Call:
		_, at, ok := probeCall(e, x)
		return ok && at != nil && has(at)
	case *ssa.BinOp:
		if castHas(x.X) {
			return true
		}
		if ph, ok := x.X.(*ssa.Phi); ok {
			for _, ed := range ph.Edges {
				if castHas(ed) {
					return true
				}
			}
		}
	}
	return false
}
