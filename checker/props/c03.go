package props

import (
	"fmt"
	"strings"

	"utilcheck/lang"
)

func init() {
	register(&Prop{
		ID:    "C03",
		Title: "SemVer text is accepted exactly per the 2.0.0 grammar and round-trips",
		Run:   runC03,
		Explanation: "C03.lang: L(sem.pattern) is proved equal (DFA product, shortest witness on difference) to two independent oracles that are first proved equal to each other: the SemVer 2.0.0 BNF written with the checker's combinators and the regular expression published on semver.org; no word of the grammar starts with 'v'. " +
			"C03.gate: unmarshalText as a decision table over (first byte is 'v', formTag, formVersion) with the documented sentinels, and the four entry points pass the documented form sets. " +
			"C03.num: captures 1,2,3 flow through strconv.ParseUint(·,10,64), the error is tested, the failing edge returns the matching sentinel, the value reaches the field of the same name; captures 4,5 reach PreRelease/Build through copying conversions; L(capture k) = 0|[1-9][0-9]* for k ≤ 3. " +
			"C03.skel: the formatter's append sequence read off SSA is the regexp's concatenation skeleton with the same literals in the same order. " +
			"C03.valid: L(sem.preRelease) / L(sem.build) equal the projections of captures 4 / 5; Valid skips the test exactly when the field is empty, the formatter omits exactly when empty. S-ERRZERO, S-WRAP, C18.L for package sem.",
		NotDecided:  []string{"stdlib summaries (ParseUint exact or error, AppendUint canonical decimal)", "texts longer than MaxInputLength (1024) are rejected by the limit, outside the statement"},
		Assumptions: []string{"regexp executes the automaton regexp/syntax compiles", "strconv.ParseUint(s,10,64) is exact or fails; AppendUint prints canonical decimal"},
		Technique:   "regular-language equality on DFAs (two independent oracles) + decision-table extraction + dataflow over go/ssa",
	})
}

// semverBNF builds the SemVer 2.0.0 grammar from its BNF productions (semver.org, "Backus–Naur Form Grammar").
func semverBNF() (full, preRelease, build, numeric string) {
	letter := `[A-Za-z]`
	positiveDigit := `[1-9]`
	digit := `(?:0|` + positiveDigit + `)`
	nonDigit := `(?:` + letter + `|-)`
	identChar := `(?:` + digit + `|` + nonDigit + `)`
	identChars := identChar + `+`
	digits := digit + `+`
	numericIdent := `(?:0|` + positiveDigit + `|` + positiveDigit + digits + `)`
	alnumIdent := `(?:` + nonDigit + `|` + nonDigit + identChars + `|` + identChars + nonDigit + `|` + identChars + nonDigit + identChars + `)`
	buildIdent := `(?:` + alnumIdent + `|` + digits + `)`
	preIdent := `(?:` + alnumIdent + `|` + numericIdent + `)`
	dotBuild := buildIdent + `(?:\.` + buildIdent + `)*`
	dotPre := preIdent + `(?:\.` + preIdent + `)*`
	core := numericIdent + `\.` + numericIdent + `\.` + numericIdent
	full = `^(?:` + core + `|` + core + `-` + dotPre + `|` + core + `\+` + dotBuild + `|` + core + `-` + dotPre + `\+` + dotBuild + `)$`
	return full, `^` + dotPre + `$`, `^` + dotBuild + `$`, `^` + numericIdent + `$`
}

const semverOrgRegexp = `^(0|[1-9]\d*)\.(0|[1-9]\d*)\.(0|[1-9]\d*)(?:-((?:0|[1-9]\d*|\d*[a-zA-Z-][0-9a-zA-Z-]*)(?:\.(?:0|[1-9]\d*|\d*[a-zA-Z-][0-9a-zA-Z-]*))*))?(?:\+([0-9a-zA-Z-]+(?:\.[0-9a-zA-Z-]+)*))?$`

func runC03(e *Env) {
	ruleC03Lang(e)
	ruleErrZero(e, "C03.errzero", "sem")
	ruleWrap(e, "C03.wrap", "sem")
	ruleLimit(e, "C03.limit", "sem")
	ruleTyped(e, "C03.typed", "sem")
	ruleDeleg(e, "C03.deleg", "sem")
	e.S.Floor("C03.deleg", 12)
	e.S.Floor("C03.typed", 1)
	e.S.Floor("C03.errzero", 10)
	e.S.Floor("C03.wrap", 10)
	e.S.Floor("C03.limit", 6)
}

func ruleC03Lang(e *Env) {
	const rule = "C03.lang"
	pat, ok := e.pattern(rule, "sem", "pattern")
	if !ok {
		return
	}
	pre, ok1 := e.pattern("C03.valid", "sem", "preRelease")
	bld, ok2 := e.pattern("C03.valid", "sem", "build")
	bnf, bnfPre, bnfBuild, bnfNum := semverBNF()
	pats := []string{pat, bnf, semverOrgRegexp, `^v`, bnfPre, bnfBuild, bnfNum}
	var caps [6]string
	if n, err := lang.NumCap(pat); err != nil || n != 5 {
		e.S.Bad(rule, "sem.pattern", "captures", fmt.Sprintf("pattern must have exactly 5 capture groups (major, minor, patch, pre-release, build), has %d", n), "", "")
		return
	}
	for k := 1; k <= 5; k++ {
		sub, err := lang.CaptureSub(pat, k)
		if err != nil {
			e.S.Unk(rule, "sem.pattern", fmt.Sprintf("capture %d", k), err.Error(), "")
			return
		}
		caps[k] = `^(?:` + sub + `)$`
		pats = append(pats, caps[k])
	}
	if ok1 {
		pats = append(pats, pre)
	}
	if ok2 {
		pats = append(pats, bld)
	}
	sp, ds, err := lang.Build(pats...)
	if err != nil {
		e.S.Unk(rule, "sem.pattern", "automaton", "language not decidable by the supported subset: "+err.Error(), "")
		return
	}
	P, BNF, ORG, V, BPre, BBuild, BNum := ds[0], ds[1], ds[2], ds[3], ds[4], ds[5], ds[6]
	capD := ds[7:12]
	// oracle self-check
	if eq, w, _ := sp.Equal(BNF, ORG); !eq {
		e.S.Unk(rule, "(oracle)", "self-check", fmt.Sprintf("the two SemVer oracles disagree on %q: checker defect", w), "")
		return
	}
	e.S.Ok(rule, "(oracle)", "self-check", fmt.Sprintf("BNF-built reference and semver.org regexp are language-equal (%d / %d states)", BNF.States(), ORG.States()), "")
	e.langEqual(rule, "sem.pattern", "language", sp, P, BNF, "sem.pattern", "SemVer 2.0.0 BNF")
	if w, some := sp.Witness(sp.And(P, V)); some {
		e.S.Bad(rule, "sem.pattern", "v-prefix", fmt.Sprintf("the version pattern matches a text starting with 'v' (%q): the tag gate can no longer tell tag and version apart", w), "", w)
	} else {
		e.S.Ok(rule, "sem.pattern", "v-prefix", "no word of the pattern starts with 'v' (the tag gate decides on the first byte)", "")
	}
	for k := 1; k <= 3; k++ {
		e.langEqual("C03.num", "sem.pattern", fmt.Sprintf("capture %d language", k), sp, capD[k-1], BNum, fmt.Sprintf("capture %d", k), "numeric identifier 0|[1-9][0-9]*")
	}
	e.langEqual("C03.valid", "sem.pattern", "capture 4 vs BNF pre-release", sp, capD[3], BPre, "capture 4", "BNF pre-release")
	e.langEqual("C03.valid", "sem.pattern", "capture 5 vs BNF build", sp, capD[4], BBuild, "capture 5", "BNF build")
	i := 12
	if ok1 {
		e.langEqual("C03.valid", "sem.preRelease", "language", sp, ds[i], capD[3], "sem.preRelease", "capture 4 of sem.pattern")
		i++
	}
	if ok2 {
		e.langEqual("C03.valid", "sem.build", "language", sp, ds[i], capD[4], "sem.build", "capture 5 of sem.pattern")
	}
	_ = strings.Join
}
