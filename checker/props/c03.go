package props

import (
	"fmt"
	"go/constant"
	"go/types"
	"math/big"
	"strings"

	"utilcheck/flow"
	"utilcheck/lang"
	"utilcheck/pred"
)

func init() {
	register(&Prop{
		ID:    "C03",
		Title: "SemVer text is accepted exactly per the 2.0.0 grammar and round-trips",
		Run:   runC03,
		Explanation: "C03.lang: L(sem.pattern) is proved equal (DFA product, shortest witness on difference) to two independent oracles that are first proved equal to each other: the SemVer 2.0.0 BNF written with the checker's combinators and the regular expression published on semver.org; no word of the grammar starts with 'v'. " +
			"C03.gate: unmarshalText as a decision table over (first byte is 'v', formTag, formVersion) with the documented sentinels, and the four entry points pass the documented form sets. " +
			"C03.num: captures 1,2,3 flow through strconv.ParseUint(·,10,64), the error is tested, the failing edge returns the matching sentinel, the value reaches the field of the same name; captures 4,5 reach PreRelease/Build through copying conversions; L(capture k) = 0|[1-9][0-9]* for k ≤ 3. " +
			"C03.skel: the formatter's append sequence read off SSA is the regexp's concatenation skeleton with the same literals in the same order. " +
			"C03.valid: L(sem.preRelease) / L(sem.build) equal the projections of captures 4 / 5; Valid skips the test exactly when the field is empty, the formatter omits exactly when empty. S-ERRZERO, S-WRAP, C18.L for package sem. C03.alias: the strings stored into Ver are copies or immutable string values and package sem (and internal) do not import unsafe — the yielded pre-release and build texts cannot be views of the caller's bytes (sem part of C17.alias). The skeleton of sem.pattern (content of captures abstracted) is ^<1>.<2>.<3>[-<4>][+<5>]$: the matched text is the concatenation of its captures and the literals the formatter writes between them." +
			" Added after the second rule audit: the gate table is extracted in three worlds — limit off, limit set with the text within it (same table demanded), and the empty text (refused with the typed error and a zero value); Ver's fields are looked up by name; len(parts) against 1+NumCap is an admissible match test; C03.limit reads the default: 0 or at least the 63 bytes of the longest version without pre-release and build. Since audit round 3 the gate table is extracted in five worlds: limit off, limit on (text shorter), text exactly at the limit, empty text, empty text with the limit on.",
		NotDecided:  []string{"stdlib summaries (ParseUint exact or error, AppendUint canonical decimal)", "texts longer than MaxInputLength are rejected by the limit, outside the statement (the default is only required to admit every version without pre-release and build, 63 bytes)"},
		Assumptions: []string{"'formatting the result reproduces the input' is read per form: a Ver does not record the form it was parsed from, so the version-form text is reproduced by the version-form formatters (String, MarshalText, %v) and the tag-form text by the tag-form ones (StringTag, %t); C03.skel decides both forms separately", "regexp executes the automaton regexp/syntax compiles", "strconv.ParseUint(s,10,64) is exact or fails; AppendUint prints canonical decimal"},
		Technique:   "regular-language equality on DFAs (two independent oracles) + decision-table extraction + dataflow over go/ssa",
	})
}

// semverBNF builds the SemVer 2.0.0 grammar from its BNF productions (semver.org, "Backus–Naur Form Grammar").
func semverBNF() (full, preRelease, build, numeric string) {
	letter := `[A-Za-z]`
	positiveDigit := `[1-9]`
	digit := `(?:0|` + positiveDigit + `)`
	nonDigit := `(?:` + letter + `|-)`
	identChar := `(?:` + digit + `|` + nonDigit + `)`
	identChars := identChar + `+`
	digits := digit + `+`
	numericIdent := `(?:0|` + positiveDigit + `|` + positiveDigit + digits + `)`
	alnumIdent := `(?:` + nonDigit + `|` + nonDigit + identChars + `|` + identChars + nonDigit + `|` + identChars + nonDigit + identChars + `)`
	buildIdent := `(?:` + alnumIdent + `|` + digits + `)`
	preIdent := `(?:` + alnumIdent + `|` + numericIdent + `)`
	dotBuild := buildIdent + `(?:\.` + buildIdent + `)*`
	dotPre := preIdent + `(?:\.` + preIdent + `)*`
	core := numericIdent + `\.` + numericIdent + `\.` + numericIdent
	full = `^(?:` + core + `|` + core + `-` + dotPre + `|` + core + `\+` + dotBuild + `|` + core + `-` + dotPre + `\+` + dotBuild + `)$`
	return full, `^` + dotPre + `$`, `^` + dotBuild + `$`, `^` + numericIdent + `$`
}

const semverOrgRegexp = `^(0|[1-9]\d*)\.(0|[1-9]\d*)\.(0|[1-9]\d*)(?:-((?:0|[1-9]\d*|\d*[a-zA-Z-][0-9a-zA-Z-]*)(?:\.(?:0|[1-9]\d*|\d*[a-zA-Z-][0-9a-zA-Z-]*))*))?(?:\+([0-9a-zA-Z-]+(?:\.[0-9a-zA-Z-]+)*))?$`

func runC03(e *Env) {
	ruleC03Lang(e)
	ruleC03Gate(e)
	ruleC03Skel(e)
	ruleC03ValidTable(e)
	e.S.Floor("C03.gate", 10)
	e.S.Floor("C03.num", 8)
	e.S.Floor("C03.skel", 8)
	e.S.Floor("C03.valid", 8)
	ruleErrZero(e, "C03.errzero", "sem")
	ruleWrap(e, "C03.wrap", "sem")
	ruleLimitAccept(e, "C03.limit", "sem")
	// the default limit: a version without pre-release and build is valid whatever its numbers, so its text — at most
	// 'v' + three 20-digit numbers + two dots = 63 bytes — parses back only if the limit is off or at least that
	if g := e.Var("C03.limit", "sem", "MaxInputLength"); g != nil {
		const longestCore = 1 + 3*20 + 2
		if v, ok := e.globalIntInit(g); !ok {
			e.S.Unk("C03.limit", "sem.MaxInputLength", "default", "initial value is not a constant", "")
		} else if v != 0 && v < longestCore {
			e.S.Bad("C03.limit", "sem.MaxInputLength", "default", fmt.Sprintf("the default limit %d is below the %d bytes of the longest version without pre-release and build: a value that reports itself valid does not parse back from its own text", v, longestCore), "", "New(math.MaxUint64, math.MaxUint64, math.MaxUint64)")
		} else {
			e.S.Ok("C03.limit", "sem.MaxInputLength", "default", fmt.Sprintf("default limit %d admits every version without pre-release and build (at most %d bytes)", v, longestCore), "")
		}
	}
	ruleTyped(e, "C03.typed", "sem")
	ruleDeleg(e, "C03.deleg", "sem")
	e.S.Floor("C03.deleg", 12)
	e.S.Floor("C03.typed", 1)
	e.S.Floor("C03.errzero", 10)
	e.S.Floor("C03.wrap", 10)
	e.S.Floor("C03.limit", 3)
	// "the literal pre-release and build texts": the Ver's strings are the parser's own copies, not views of the
	// caller's bytes (C17.alias, sem part)
	// "reject everything else": a failed match ends in an error
	ruleNoMatchRejects(e, "C03.reject", e.Fn("C03.reject", "sem", "unmarshalText"))
	e.S.Floor("C03.reject", 1)
	ruleAliasFree(e, "C03.alias", true)
	e.S.Floor("C03.alias", 4)
}

func ruleC03Lang(e *Env) {
	const rule = "C03.lang"
	pat, ok := e.pattern(rule, "sem", "pattern")
	if !ok {
		return
	}
	pre, ok1 := e.pattern("C03.valid", "sem", "preRelease")
	bld, ok2 := e.pattern("C03.valid", "sem", "build")
	bnf, bnfPre, bnfBuild, bnfNum := semverBNF()
	pats := []string{pat, bnf, semverOrgRegexp, `^v`, bnfPre, bnfBuild, bnfNum}
	var caps [6]string
	if n, err := lang.NumCap(pat); err != nil || n != 5 {
		e.S.Bad(rule, "sem.pattern", "captures", fmt.Sprintf("pattern must have exactly 5 capture groups (major, minor, patch, pre-release, build), has %d", n), "", "")
		return
	}
	for k := 1; k <= 5; k++ {
		sub, err := lang.CaptureSub(pat, k)
		if err != nil {
			e.S.Unk(rule, "sem.pattern", fmt.Sprintf("capture %d", k), err.Error(), "")
			return
		}
		caps[k] = `^(?:` + sub + `)$`
		pats = append(pats, caps[k])
	}
	if ok1 {
		pats = append(pats, pre)
	}
	if ok2 {
		pats = append(pats, bld)
	}
	sp, ds, err := lang.Build(pats...)
	if err != nil {
		e.S.Unk(rule, "sem.pattern", "automaton", "language not decidable by the supported subset: "+err.Error(), "")
		return
	}
	P, BNF, ORG, V, BPre, BBuild, BNum := ds[0], ds[1], ds[2], ds[3], ds[4], ds[5], ds[6]
	capD := ds[7:12]
	// oracle self-check
	if eq, w, _ := sp.Equal(BNF, ORG); !eq {
		e.S.Unk(rule, "(oracle)", "self-check", fmt.Sprintf("the two SemVer oracles disagree on %q: checker defect", w), "")
		return
	}
	e.S.Ok(rule, "(oracle)", "self-check", fmt.Sprintf("BNF-built reference and semver.org regexp are language-equal (%d / %d states)", BNF.States(), ORG.States()), "")
	e.langEqual(rule, "sem.pattern", "language", sp, P, BNF, "sem.pattern", "SemVer 2.0.0 BNF")
	if w, some := sp.Witness(sp.And(P, V)); some {
		e.S.Bad(rule, "sem.pattern", "v-prefix", fmt.Sprintf("the version pattern matches a text starting with 'v' (%q): the tag gate can no longer tell tag and version apart", w), "", w)
	} else {
		e.S.Ok(rule, "sem.pattern", "v-prefix", "no word of the pattern starts with 'v' (the tag gate decides on the first byte)", "")
	}
	for k := 1; k <= 3; k++ {
		e.langEqual("C03.num", "sem.pattern", fmt.Sprintf("capture %d language", k), sp, capD[k-1], BNum, fmt.Sprintf("capture %d", k), "numeric identifier 0|[1-9][0-9]*")
	}
	e.langEqual("C03.valid", "sem.pattern", "capture 4 vs BNF pre-release", sp, capD[3], BPre, "capture 4", "BNF pre-release")
	e.langEqual("C03.valid", "sem.pattern", "capture 5 vs BNF build", sp, capD[4], BBuild, "capture 5", "BNF build")
	i := 12
	if ok1 {
		e.langEqual("C03.valid", "sem.preRelease", "language", sp, ds[i], capD[3], "sem.preRelease", "capture 4 of sem.pattern")
		i++
	}
	if ok2 {
		e.langEqual("C03.valid", "sem.build", "language", sp, ds[i], capD[4], "sem.build", "capture 5 of sem.pattern")
	}
	_ = strings.Join
}

// semErrKind classifies the error of a sem parser function.
func semErrKind(v pred.Val) string {
	switch x := v.(type) {
	case pred.Const:
		if x.V == nil {
			return "nil"
		}
	case pred.Sym:
		return strings.TrimPrefix(x.Name, "*sem.")
	case pred.Iface:
		if p, ok := x.V.(pred.Ptr); ok && p.Cell != nil {
			if s, ok := p.Cell.V.(*pred.StructV); ok && len(s.Fields) == 3 {
				in := "input"
				if s.Fields[1].String() != "input" && !strings.HasPrefix(s.Fields[1].String(), "slice[1:](input") {
					in = s.Fields[1].String()
				}
				_ = in
				return "ParseError(" + semErrKind(s.Fields[2]) + ")"
			}
		}
	case pred.Term:
		if w := errorfWrapped(x); w != nil { // what errors.Is sees: the operand of %w, not whatever is printed first
			return "wrap(" + semErrKind(w) + ")"
		}
	}
	return v.String()
}

func ruleBitsKey(sym string) func(a, b pred.Val) (string, bool) {
	return func(a, b pred.Val) (string, bool) {
		c, ok := b.(pred.Const)
		if !ok || c.V == nil {
			return "", false
		}
		bits, ok := a.(pred.Bits)
		if !ok {
			return "", false
		}
		if c.V.ExactString() != "0" {
			// `x&m == m` for a single-bit mask m: the same atom as `x&m != 0`, complemented
			one := -1
			for i, bit := range bits.B {
				switch bit.K {
				case 's':
					if bit.Sym != sym || bit.Idx != i || one >= 0 {
						return "", false
					}
					one = i
				case '0':
				default:
					return "", false
				}
			}
			if one < 0 || c.V.ExactString() != new(big.Int).Lsh(big.NewInt(1), uint(one)).String() {
				return "", false
			}
			return fmt.Sprintf("!%s&bits(%d)", sym, one), true
		}
		var idx []string
		for i, bit := range bits.B {
			switch bit.K {
			case 's':
				if bit.Sym != sym || bit.Idx != i {
					return "", false
				}
				idx = append(idx, fmt.Sprint(i))
			case '0':
			default:
				return "", false
			}
		}
		return sym + "&bits(" + strings.Join(idx, ",") + ")", true
	}
}

// ruleC03Gate: decision table of sem.unmarshalText (tag gate, numeric components, captures) and the entry points.
func ruleC03Gate(e *Env) { ruleSemGate(e, "C03.gate", "C03.num") }

// ruleSemGate: the decision table of sem.unmarshalText and the field ← capture mapping, filed under the given rule names.
func ruleSemGate(e *Env, rule, numRule string) {
	ut := e.Fn(rule, "sem", "unmarshalText")
	if ut == nil {
		return
	}
	site := flow.FnName(ut)
	fTag, ok1 := tabConstInt(e, "sem", "formTag")
	fVer, ok2 := tabConstInt(e, "sem", "formVersion")
	if !ok1 || !ok2 || bitIndex(fTag) < 0 || bitIndex(fVer) < 0 || fTag == fVer {
		e.S.Unk(rule, site, "forms", "formTag/formVersion are not two distinct single-bit constants", e.Pos(ut))
		return
	}
	kTag, kVer := fmt.Sprintf("f&bits(%d)", bitIndex(fTag)), fmt.Sprintf("f&bits(%d)", bitIndex(fVer))
	bitsKey := ruleBitsKey("f")
	keyOf := func(a, b pred.Val) (string, bool) {
		if k, ok := bitsKey(a, b); ok {
			return k, true
		}
		if c, ok := b.(pred.Const); ok && c.V != nil {
			if el, ok := a.(pred.Elem); ok && el.Base.String() == "input" && el.Index.String() == "0" {
				return "input[0]==" + c.V.ExactString(), true
			}
		}
		if as := a.String(); as == "len(input)" || as == "len(slice[1:](input))" {
			if c, ok := b.(pred.Const); ok && c.V != nil && c.V.Kind() == constant.Int {
				return as + "?" + c.V.ExactString(), true
			}
		}
		return errKeyOf(a, b)
	}
	// shortest word of the pattern: under the table's standing assumption "the pattern matched" the subject is at least
	// that long, so a length pre-filter below it never fires
	minSubject := int64(0)
	numCap := 0
	if g := e.V("sem", "pattern"); g != nil {
		if re := e.C.RegexpOfGlobal(g); re != nil {
			minSubject = int64(flow.MinLen(re))
			numCap = re.MaxCap()
		}
	}
	// three worlds: the limit switched off (0), the limit set and the text within it (what the shipped default is), and
	// the empty text; the decision table must be the same in the first two, the empty text is refused in the third
	world := "limit off"
	fixed := func(a, b pred.Val) (int, bool, bool) {
		as, bs := a.String(), b.String()
		empty := strings.HasPrefix(world, "empty")
		if empty && as == "len(input)" {
			// the empty text against a constant length
			if c, ok := b.(pred.Const); ok && c.V != nil && c.V.Kind() == constant.Int {
				return -constant.Sign(c.V), true, true
			}
		}
		if strings.Contains(world, "limit on") || world == "at the limit" {
			rel := -1 // the text is shorter than the limit …
			if world == "at the limit" {
				rel = 0 // … or exactly as long: still within it
			}
			switch {
			case as == "*sem.MaxInputLength" && bs == "0":
				return 1, true, true
			case as == "len(input)" && bs == "*sem.MaxInputLength":
				return rel, true, true
			case as == "*sem.MaxInputLength" && bs == "len(input)":
				return -rel, true, true
			}
		}
		if as == "len(input)" || as == "len(slice[1:](input))" {
			if c, ok := b.(pred.Const); ok && c.V != nil && c.V.Kind() == constant.Int {
				if k, exact := constant.Int64Val(c.V); exact && k > 0 && k < minSubject {
					return 1, true, true
				}
			}
		}
		switch {
		case as == "len(input)" && bs == "0":
			return 1, true, true
		case as == "*sem.MaxInputLength" && bs == "0":
			return 0, true, true
		case as == "len(input)" && bs == "*sem.MaxInputLength":
			return 1, true, true // a non-empty text against the disabled limit (0): longer, and not rejected
		case as == "*sem.MaxInputLength" && bs == "len(input)":
			return -1, true, true
		case (strings.HasPrefix(as, "len((*regexp.Regexp).FindSubmatch(") || strings.HasPrefix(as, "len((*regexp.Regexp).FindStringSubmatch(")) && bs == "0":
			return 1, true, true
		case (strings.HasPrefix(as, "len((*regexp.Regexp).FindSubmatch(") || strings.HasPrefix(as, "len((*regexp.Regexp).FindStringSubmatch(")) && numCap > 0 && bs == fmt.Sprint(numCap+1):
			return 0, true, true // a match has one entry per group plus one
		case (strings.HasPrefix(as, "(*regexp.Regexp).FindSubmatch(") || strings.HasPrefix(as, "(*regexp.Regexp).FindStringSubmatch(")) && bs == "nil":
			return 1, true, true // `parts == nil` is the same test as `len(parts) == 0` for a sub-match result
		}
		return 0, false, false
	}
	mk := func() []pred.Val {
		return []pred.Val{pred.Sym{Name: "fn"}, pred.Sym{Name: "input"}, pred.Sym{Name: "f"}}
	}
	lenDomain := func(key string) []int {
		if strings.HasPrefix(key, "len(") {
			var k int64
			fmt.Sscanf(key[strings.LastIndex(key, "?")+1:], "%d", &k)
			if k == minSubject {
				return []int{0, 1} // at least the shortest word: equal or longer
			}
			return []int{-1, 0, 1}
		}
		return []int{0, 1}
	}
	sentinels := []string{"", "ErrInvalidMajor", "ErrInvalidMinor", "ErrInvalidPatch"}
	fieldNames := []string{"Major", "Minor", "Patch", "PreRelease", "Build"}
	fieldIndex := map[string]int{}
	if sp := e.P.ByName["sem"]; sp != nil && sp.Type("Ver") != nil {
		if st, ok := sp.Type("Ver").Type().Underlying().(*types.Struct); ok {
			for i := 0; i < st.NumFields(); i++ {
				fieldIndex[st.Field(i).Name()] = i
			}
		}
	}
	for _, w := range []string{"limit off", "limit on", "at the limit", "empty", "empty, limit on"} {
		world = w
		suffix := ""
		if w != "limit off" {
			suffix = " [" + w + "]"
		}
		leaves, err := extractTree(e.P.SSA, ut, e.Permuted("sem", "unmarshalText", ut, mk), nil, fixed, keyOf, lenDomain)
		if err != nil {
			e.S.Unk(rule, site, "table"+suffix, err.Error(), e.Pos(ut))
			return
		}
		for _, lf := range leaves {
			construct := lf.String() + suffix
			if lf.Err != nil {
				e.S.Unk(rule, site, construct, lf.Err.Error(), e.Pos(ut))
				continue
			}
			t, ok := lf.Out.Ret.(pred.Tuple)
			if !ok || len(t) != 2 {
				e.S.Unk(rule, site, construct, lf.Out.Ret.String(), e.Pos(ut))
				continue
			}
			if strings.HasPrefix(w, "empty") {
				// the empty text is not a word of the grammar: refused with the typed error and a zero value
				sv, isS := t[0].(*pred.StructV)
				if ek := semErrKind(t[1]); strings.HasPrefix(ek, "ParseError(") && isS && allZero(sv) {
					e.S.Ok(rule, site, construct, "the empty text is refused: "+ek+", zero value", e.Pos(ut))
				} else {
					e.S.Bad(rule, site, construct, "for the empty text the outcome is ("+t[0].String()+", "+ek+"); the empty text is not a version: documented a typed parse error and a zero value", e.Pos(ut), `Parse("")`)
				}
				continue
			}
			get := func(k string) int {
				v, ok := lf.Assign[k]
				if !ok {
					return 2
				}
				if v == 0 {
					return 1
				}
				return 0
			}
			isV := get("input[0]==118")
			errk := semErrKind(t[1])
			// which subject the pattern is applied to
			subject := "input"
			if isV == 1 {
				subject = "slice[1:](input)"
			}
			// sibling idioms: the pattern applied to the bytes (FindSubmatch) or to their string form (FindStringSubmatch)
			find := "FindSubmatch"
			for k := range lf.Assign {
				if strings.Contains(k, "(*regexp.Regexp).FindStringSubmatch(") {
					find = "FindStringSubmatch"
				}
			}
			parseErr := func(k int) string {
				return fmt.Sprintf("nil? strconv.ParseUint#1((*regexp.Regexp).%s(*sem.%s,%s)[%d],10,64)", find, e.vname("sem", "pattern"), subject, k)
			}
			want := "?"
			switch {
			case isV == 1 && get(kTag) == 1: // masked == 0 ⇒ tag form not allowed
				want = "ParseError(ErrTagFormNotAllowed)"
			case isV == 0 && get(kVer) == 1:
				want = "ParseError(ErrExpectedTagForm)"
			case isV != 2 && (isV == 1 && get(kTag) == 0 || isV == 0 && get(kVer) == 0):
				want = "nil"
				for k := 1; k <= 3; k++ {
					v := get(parseErr(k))
					if v == 0 { // not nil ⇒ number too large
						want = "ParseError(" + sentinels[k] + ")"
						break
					}
					if v == 2 {
						want = "?"
						break
					}
				}
			}
			switch {
			case want == "?":
				e.S.Bad(rule, site, construct, "outcome "+errk+" is decided without the tests the documented gate needs (first byte 'v', allowed forms, the three numeric conversions)", e.Pos(ut), "")
				continue
			case errk != want:
				e.S.Bad(rule, site, construct, "error "+errk+", documented "+want, e.Pos(ut), "")
				continue
			}
			if want != "nil" {
				if sv, ok := t[0].(*pred.StructV); !ok || !allZero(sv) {
					e.S.Bad(rule, site, construct, "a non-zero value "+t[0].String()+" is returned with the error", e.Pos(ut), "")
				} else {
					e.S.Ok(rule, site, construct, "error "+want+", zero value", e.Pos(ut))
				}
				continue
			}
			e.S.Ok(rule, site, construct, "accepted", e.Pos(ut))
			// C03.num: the success value
			sv, ok := t[0].(*pred.StructV)
			if !ok || len(sv.Fields) != 5 || len(fieldIndex) != 5 {
				e.S.Unk(numRule, site, construct, "success value "+t[0].String()+" is not a Ver", e.Pos(ut))
				continue
			}
			for i := range fieldNames {
				fi, known := fieldIndex[fieldNames[i]]
				if !known {
					e.S.Unk(numRule, site, construct, "Ver has no field "+fieldNames[i], e.Pos(ut))
					continue
				}
				f := sv.Fields[fi] // by name: the order of declaration is free
				cap := fmt.Sprintf("(*regexp.Regexp).%s(*sem.%s,%s)[%d]", find, e.vname("sem", "pattern"), subject, i+1)
				wantF := cap
				if i < 3 {
					wantF = "strconv.ParseUint#0(" + cap + ",10,64)"
				}
				c2 := fmt.Sprintf("%s (%s)%s", fieldNames[i], subject, suffix)
				if f.String() == wantF {
					e.S.Ok(numRule, site, c2, fieldNames[i]+" = "+map[bool]string{true: "ParseUint(capture, 10, 64)", false: "string(capture)"}[i < 3]+fmt.Sprintf(" of capture %d", i+1), e.Pos(ut))
				} else {
					e.S.Bad(numRule, site, c2, fmt.Sprintf("%s = %s, documented %s", fieldNames[i], f, wantF), e.Pos(ut), "")
				}
			}
		}
	}
	// entry points
	sums := map[string]pred.Summary{ut.String(): func(ev *pred.Evaluator, args []pred.Val) (pred.Val, error) {
		return pred.Term{Fn: "unmarshalText", Args: args[1:]}, nil
	}}
	both := fVer | fTag
	for _, en := range []struct {
		name string
		want string
	}{{"Parse", fmt.Sprint(both)}, {"ParseVersion", fmt.Sprint(fVer)}, {"ParseTag", fmt.Sprint(fTag)}} {
		fn := e.Fn(rule, "sem", en.name)
		if fn == nil {
			continue
		}
		ev := &pred.Evaluator{Prog: e.P.SSA, GlobalInit: e.globalTables(), Oracle: noOracle{}, Summaries: sums}
		out, err := ev.Eval(fn, []pred.Val{pred.Sym{Name: "input"}})
		wantS := fmt.Sprintf("(unmarshalText#0(input,%s), unmarshalText#1(input,%s))", en.want, en.want)
		switch {
		case err != nil:
			e.S.Unk(rule, flow.FnName(fn), "forms", err.Error(), e.Pos(fn))
		case out.Ret.String() != wantS:
			e.S.Bad(rule, flow.FnName(fn), "forms", en.name+" returns "+out.Ret.String()+"; documented: unmarshalText(input, forms="+en.want+")", e.Pos(fn), "")
		default:
			e.S.Ok(rule, flow.FnName(fn), "forms", "parses the whole input with form set "+en.want, e.Pos(fn))
		}
	}
	if fn := e.Fn(rule, "sem", "DefaultParser"); fn != nil {
		bit, _ := tabConstInt(e, "sem", "RuleDisableTag")
		rk := ruleBitsKey("r")
		leaves, err := extractTree(e.P.SSA, fn, func() []pred.Val { return []pred.Val{pred.Sym{Name: "input"}, pred.Sym{Name: "r"}} }, sums, nil, rk, binDomain)
		if err != nil {
			e.S.Unk(rule, flow.FnName(fn), "forms", err.Error(), e.Pos(fn))
		}
		for _, lf := range leaves {
			if lf.Err != nil {
				e.S.Unk(rule, flow.FnName(fn), "forms {"+lf.String()+"}", lf.Err.Error(), e.Pos(fn))
				continue
			}
			v, asked := lf.Assign[fmt.Sprintf("r&bits(%d)", bitIndex(bit))]
			want := fmt.Sprint(both)
			if asked && v == 1 { // masked != 0 ⇒ tag disabled
				want = fmt.Sprint(fVer)
			}
			wantS := fmt.Sprintf("(unmarshalText#0(input,%s), unmarshalText#1(input,%s))", want, want)
			if !asked || lf.Out.Ret.String() != wantS {
				e.S.Bad(rule, flow.FnName(fn), "forms {"+lf.String()+"}", "returns "+lf.Out.Ret.String()+"; documented: version and tag forms unless RuleDisableTag, then version only", e.Pos(fn), "")
			} else {
				e.S.Ok(rule, flow.FnName(fn), "forms {"+lf.String()+"}", "form set "+want, e.Pos(fn))
			}
		}
	}
}

func allZero(s *pred.StructV) bool {
	for _, f := range s.Fields {
		switch x := f.(type) {
		case pred.Const:
			if x.V != nil && !(x.V.ExactString() == "0" || x.V.ExactString() == `""`) {
				return false
			}
		default:
			return false
		}
	}
	return true
}

// ruleC03Skel: the formatter's append sequence.
func ruleC03Skel(e *Env) {
	const rule = "C03.skel"
	e.skeleton(rule, "sem", "pattern", "^<1>.<2>.<3>[-<4>][+<5>]$")
	fn := e.Fn(rule, "sem", "DefaultFormatter")
	sp := e.P.ByName["sem"]
	if fn == nil || sp == nil || sp.Type("Ver") == nil {
		return
	}
	site := flow.FnName(fn)
	verT := sp.Type("Ver").Type()
	tag, _ := tabConstInt(e, "sem", "FormatTag")
	bitsKey := ruleBitsKey("f")
	keyOf := func(a, b pred.Val) (string, bool) {
		if k, ok := bitsKey(a, b); ok {
			return k, true
		}
		return strEmptyKey(a, b)
	}
	mk := func() []pred.Val { return []pred.Val{pred.Sym{Name: "buf"}, symStruct(verT, "v"), pred.Sym{Name: "f"}} }
	leaves, err := extractTree(e.P.SSA, fn, mk, nil, nil, keyOf, binDomain)
	if err != nil {
		e.S.Unk(rule, site, "table", err.Error(), e.Pos(fn))
		return
	}
	kTag := fmt.Sprintf("f&bits(%d)", bitIndex(tag))
	for _, lf := range leaves {
		construct := lf.String()
		if lf.Err != nil {
			e.S.Unk(rule, site, construct, lf.Err.Error(), e.Pos(fn))
			continue
		}
		t, ok := lf.Out.Ret.(pred.Tuple)
		if !ok || len(t) != 2 || t[1].String() != "nil" {
			e.S.Bad(rule, site, construct, "the formatter does not return (bytes, nil): "+lf.Out.Ret.String(), e.Pos(fn), "")
			continue
		}
		sg, ok := segs(t[0])
		if !ok {
			e.S.Unk(rule, site, construct, "result "+t[0].String()+" is not an append chain", e.Pos(fn))
			continue
		}
		want := "<buf>"
		if v, asked := lf.Assign[kTag]; asked && v == 1 {
			want += "v"
		}
		want += "<uint v.Major>.<uint v.Minor>.<uint v.Patch>"
		if v, asked := lf.Assign[`v.PreRelease==""`]; asked && v == 1 {
			want += "-<v.PreRelease>"
		}
		if v, asked := lf.Assign[`v.Build==""`]; asked && v == 1 {
			want += "+<v.Build>"
		}
		_, a1 := lf.Assign[kTag]
		_, a2 := lf.Assign[`v.PreRelease==""`]
		_, a3 := lf.Assign[`v.Build==""`]
		got := strings.Join(sg, "")
		switch {
		case !a1 || !a2 || !a3:
			e.S.Bad(rule, site, construct, "the formatter does not consult FormatTag and the emptiness of PreRelease and Build (got "+got+")", e.Pos(fn), "")
		case got != want:
			e.S.Bad(rule, site, construct, "emits "+got+", the grammar's skeleton for this case is "+want, e.Pos(fn), "")
		default:
			e.S.Ok(rule, site, construct, "emits "+want, e.Pos(fn))
		}
	}
}

// ruleC03ValidTable: Ver.Valid as a decision table.
func ruleC03ValidTable(e *Env) {
	const rule = "C03.valid"
	fn := e.Method(rule, "sem", "Ver", "Valid")
	sp := e.P.ByName["sem"]
	if fn == nil || sp == nil {
		return
	}
	site := flow.FnName(fn)
	verT := sp.Type("Ver").Type()
	keyOf := func(a, b pred.Val) (string, bool) {
		if k, ok := strEmptyKey(a, b); ok {
			return k, true
		}
		if c, ok := b.(pred.Const); ok && c.V != nil {
			if t, ok := a.(pred.Term); ok && strings.HasPrefix(t.Fn, "(*regexp.Regexp).Match") && c.V.ExactString() == "true" {
				return t.String(), true
			}
		}
		return "", false
	}
	leaves, err := extractTree(e.P.SSA, fn, func() []pred.Val { return []pred.Val{symStruct(verT, "v")} }, nil, nil, keyOf, binDomain)
	if err != nil {
		e.S.Unk(rule, site, "table", err.Error(), e.Pos(fn))
		return
	}
	mPre := "(*regexp.Regexp).MatchString(*sem." + e.vname("sem", "preRelease") + ",v.PreRelease)"
	mBuild := "(*regexp.Regexp).MatchString(*sem." + e.vname("sem", "build") + ",v.Build)"
	for _, lf := range leaves {
		construct := lf.String()
		if lf.Err != nil {
			e.S.Unk(rule, site, construct, lf.Err.Error(), e.Pos(fn))
			continue
		}
		get := func(k string) int {
			v, ok := lf.Assign[k]
			if !ok {
				return 2
			}
			if v == 0 {
				return 1
			}
			return 0
		}
		preEmpty, preOK := get(`v.PreRelease==""`), get(mPre)
		bEmpty, bOK := get(`v.Build==""`), get(mBuild)
		want := "?"
		switch {
		case preEmpty == 0 && preOK == 0:
			want = "wrap(ErrInvalidPreRelease)"
		case (preEmpty == 1 || preEmpty == 0 && preOK == 1) && bEmpty == 0 && bOK == 0:
			want = "wrap(ErrInvalidBuild)"
		case (preEmpty == 1 || preEmpty == 0 && preOK == 1) && (bEmpty == 1 || bEmpty == 0 && bOK == 1):
			want = "nil"
		}
		got := semErrKind(lf.Out.Ret)
		switch {
		case want == "?":
			e.S.Bad(rule, site, construct, "Valid decides ("+got+") without matching the non-empty field against its own pattern (preRelease for PreRelease, build for Build)", e.Pos(fn), "")
		case got != want:
			e.S.Bad(rule, site, construct, "returns "+got+", documented "+want, e.Pos(fn), "")
		default:
			e.S.Ok(rule, site, construct, "returns "+want, e.Pos(fn))
		}
	}
}
