package props

import (
	"utilcheck/flow"
)

func init() {
	register(&Prop{
		ID:    "C08",
		Title: "Size arithmetic is exact or refused, never wrapped",
		Run:   runC08,
		Explanation: "C08.tab: unitToValues holds B=1, kB..EB = 1000^k, KiB..EiB = 1024^k (exact big-integer comparison of the folded constants); zeroUnits keys = unitToValues keys ∪ {\"\", ZB, YB, ZiB, YiB}. " +
			"C08.ovf: in newSize the success return carries the low word of bits.Mul64(uint64(value), multiplier) and is dominated by a test of the high word against 0 whose non-zero edge returns an error; the multiplication and the unit-less return are dominated by the sign test and the round-trip test N(uint64(value)) != value; unknown unit → InvalidUnitError; zero path consults zeroUnits. " +
			"C08.text: digits go through strconv.ParseUint(·,10,64) with the error returned; RuleDisableUnit gates the unit path; prepareNumber's character classes are the documented ones. " +
			"C08.trim: whitespace around the whole is removed without bound (a TrimSuffix/TrimPrefix with an all-space constant removes at most one). " +
			"C08.max: internal.Max/Min/SmallestNonzero switch tables pair each reflect.Kind with the boxed type and math constant of that kind (re-checked under GOARCH=386 in the thorough tier); Bytes uses Max for the ten integer kinds and the round-trip test for the float kinds.",
		NotDecided:  []string{"exactness of float↔uint64 conversions at the 2^53/2^64 boundaries (platform-defined)", "Bytes[float] results"},
		Assumptions: []string{"bits.Mul64 returns the exact 128-bit product", "strconv.ParseUint(s,10,64) is exact or fails"},
		Technique:   "constant-table reading + must-pass-through dominator rules over go/ssa",
	})
}

func runC08(e *Env) {
	ruleC08Tab(e)
	e.S.Floor("C08.tab", 30)
	ns := e.Fn("C08.ovf", "size", "newSize")
	dp := e.Fn("C08.trim", "size", "DefaultParser")
	e.Flow(func(c *flow.Ctx) {
		if ns != nil {
			c.RuleMulOverflow(ns)
		}
		if dp != nil {
			c.RuleTrim(c.Reachable(dp))
		}
	})
	e.S.Floor("C08.ovf", 1)
	e.S.Floor("C08.trim", 1)
}
