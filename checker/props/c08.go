package props

import (
	"fmt"
	"go/constant"
	"go/token"
	"go/types"
	"regexp"
	"strings"

	"golang.org/x/tools/go/ssa"

	"utilcheck/flow"
	"utilcheck/load"
	"utilcheck/pred"
)

func init() {
	register(&Prop{
		ID:    "C08",
		Title: "Size arithmetic is exact or refused, never wrapped",
		Run:   runC08,
		Explanation: "C08.tab: unitToValues holds B=1, kB..EB = 1000^k, KiB..EiB = 1024^k (exact big-integer comparison of the folded constants); zeroUnits keys = unitToValues keys ∪ {\"\", ZB, YB, ZiB, YiB}. " +
			"C08.ovf: in newSize the success return carries the low word of bits.Mul64(uint64(value), multiplier) and is dominated by a test of the high word against 0 whose non-zero edge returns an error (or: the 64-bit product behind the failing side of `v > math.MaxUint64/n`, strict, same factors, n shown non-zero from its literal table); the multiplication and the unit-less return are dominated by the sign test and the round-trip test N(uint64(value)) != value; unknown unit → InvalidUnitError; zero path consults zeroUnits. " +
			"C08.text: digits go through strconv.ParseUint(·,10,64) with the error returned; RuleDisableUnit gates the unit path; prepareNumber's character classes are the documented ones. " +
			"C08.object: in the JSON object form newOrError receives only nil or the result of decodeValue / decodeUnit and hands exactly (*value, *unit) to newSize; decodeValue is strconv.ParseUint(token.(json.Number).String(), 10, 64), decodeUnit the string token unchanged — no rule bit can substitute the unit; an ignored member is consumed completely whatever its nesting (the skipper's counter as a transfer function per token class), so the pair that reaches newSize is the object's own. C08.trim: whitespace around the whole is removed without bound (a TrimSuffix/TrimPrefix with an all-space constant removes at most one). " +
			"C08.ovf (as built): newSize is extracted as a decision table over (sign of value, integrality round trip, unit empty / in zeroUnits / in unitToValues, high word of bits.Mul64) and compared with the documented outcomes by three-valued logic; C08.text likewise for the text path (digits present, ParseUint error, unit present, RuleDisableUnit, newSize error); C08.bytes: Bytes[N] per reflect.Kind succeeds exactly on `s <= Max(kind)` for the ten integer kinds and exactly on the conversion round trip for the float kinds. " +
			"C08.max: internal.Max/Min/SmallestNonzero switch tables pair each reflect.Kind with the boxed type and math constant of that kind (re-checked under GOARCH=386 in the thorough tier); Bytes uses Max for the ten integer kinds and the round-trip test for the float kinds; internal.Kind evaluates to reflect.TypeOf(value).Kind() (the ~T constraints admit named types, which a test for exact types misses). C08.sep: the scanning loop's transfer table over all runes (as C04.sep): only space, '_' and U+00A0 are skipped. C08.whole: under a JSON rule every success return is preceded by a whole-input check (as C12.whole), so no tail of the text is dropped. C08.json: the JSON forms as a decision table (C12.gate under this property): the number form is the text form of the json.Number token, no detour through floating point. size.New is newSize with its error wrapped (C08.ovf wrapper); the decision table of newSize has a fourth valuation for NaN (unordered with 0 and with its own conversion: must be refused), and the round-trip atom is exactly N(uint64(value)) against value; prepareNumber's returns are (accumulated digits, \"\") at the end and (accumulated digits, input from the stopping rune on) otherwise." +
			" Added after the second rule audit: the float round trip of Bytes is three-valued (a float above the size is as wrong as one below); the division idiom value > MaxUint64/multiplier is its own three-valued atom; C08.object 'number error': every nil-error return of decodeValue lies on the nil side of the test of ParseUint's error." +
			" C08.mint: who may convert — uint64 ↔ Size anywhere; from any other type a number becomes a Size only inside newSize (or an unexported helper called from nowhere else), a Size becomes another number only inside Bytes (likewise): a new Scan/Value pair that converts int64 directly is reported. Since audit round 3 C08.mint follows a uint64 that becomes a Size to its origin (another numeric type squeezed through uint64 is a violation, wrap-capable arithmetic undecided), follows a uint64 taken from a Size to a later narrowing, and names Size arithmetic outside the constructor; C08.tab also forbids delete/clear on, and handing on of, the table references (a helper of the module that only reads them is followed; a second package-level name for a table is undecided). The origin of a uint64 is followed through helpers of the module; a word of math/bits arithmetic taken outside the constructor is undecided; a uint64 a call made out of a Size may not be narrowed outside the accessor.",
		NotDecided:  []string{"whether arithmetic on uint64 or Size values outside the checked constructor can wrap (C08.mint names it as undecided)", "exactness of float↔uint64 conversions at the 2^53/2^64 boundaries (platform-defined): the rule decides that the verdict is the round-trip test, not what the hardware conversion yields", "a fractional number whose product with the unit is integral (1.5 KiB) is refused by the library; the property's second sentence (fractional inputs never produce a truncated value) is taken as the reading"},
		Assumptions: []string{"bits.Mul64 returns the exact 128-bit product", "strconv.ParseUint(s,10,64) is exact or fails"},
		Technique:   "constant-table reading + decision-table extraction (newSize, text path, Bytes per kind, Max/Min tables) over go/ssa",
	})
}

func runC08(e *Env) {
	ruleC08Tab(e)
	e.S.Floor("C08.tab", 30)
	ns := e.Fn("C08.ovf", "size", "newSize")
	dp := e.Fn("C08.trim", "size", "DefaultParser")
	e.Flow(func(c *flow.Ctx) {
		if ns != nil {
			c.RuleMulOverflow(ns)
		}
		if dp != nil {
			c.RuleTrim(c.Reachable(dp))
		}
	})
	ruleC08NewSize(e)
	ruleC08Text(e)
	ruleC08Max(e, e.P, "")
	ruleC08Bytes(e)
	ruleC08Object(e)
	e.S.Floor("C08.object", 7)
	ruleC08Mint(e)
	e.S.Floor("C08.mint", 10)
	ruleC08Kind(e, "C08.max")
	e.S.Floor("C08.bytes", 24)
	e.S.Floor("C08.ovf", 8)
	e.S.Floor("C08.text", 6)
	e.S.Floor("C08.max", 36)
	e.S.Floor("C08.trim", 1)
	// "ignored and never change the value": the scanning loop's rune classes (C04.sep) — nothing but space, '_' and
	// no-break space is skipped; and under a JSON rule no tail of the text is dropped (C12.whole)
	if pn := e.Fn("C08.sep", "size", "prepareNumber"); pn != nil {
		runeLoopTable(e, "C08.sep", pn)
	}
	e.S.Floor("C08.sep", 3)
	if dp := e.Fn("C08.whole", "size", "DefaultParser"); dp != nil {
		e.FlowAs(map[string]string{"C12.whole": "C08.whole"}, func(c *flow.Ctx) { c.RuleWholeInput(dp, 0) })
	}
	e.S.Floor("C08.whole", 1)
	// the JSON number form is the text form of its token (no detour through floating point): C12.gate
	e.As(map[string]string{"C12.gate": "C08.json"}, func() { ruleC12Gate(e) })
	e.S.Floor("C08.json", 10)
}

// sizeErrType classifies newSize's error results by their dynamic type.
func sizeErrType(v pred.Val) string {
	switch x := v.(type) {
	case pred.Const:
		if x.V == nil {
			return "nil"
		}
	case pred.Iface:
		s := types.TypeString(x.Dyn, func(p *types.Package) string { return "" })
		s = strings.TrimPrefix(s, "*")
		if i := strings.Index(s, "["); i > 0 {
			s = s[:i]
		}
		return s
	case pred.Term:
		return x.String()
	}
	return v.String()
}

var roundTripRe = regexp.MustCompile(`^conv\[[A-Za-z0-9_.]+\]\(conv\[uint64\]\(value\)\)$`)

// ruleC08NewSize: decision table of size.newSize.
func ruleC08NewSize(e *Env) {
	const rule = "C08.ovf"
	fn := e.Fn(rule, "size", "newSize")
	if fn == nil {
		return
	}
	// the exported constructor is newSize with its error wrapped
	ruleErrWrapper(e, rule, e.Fn(rule, "size", "New"), fn, []string{"value", "unit"}, "0")
	site := flow.FnName(fn)
	const (
		kZero   = "value?0"
		kEmpty  = `unit==""`
		kRound  = "roundtrip"
		kHi     = "hi!=0"
		kLim    = "value?limit"
		kByte   = `unit=="B"`
		mulTerm = "math/bits.Mul64"
	)
	kZU := "lookup#1(*size." + e.vname("size", "zeroUnits") + ",unit)"
	kUTV := "lookup#1(*size." + e.vname("size", "unitToValues") + ",unit)"
	kZUval := "lookup(*size." + e.vname("size", "zeroUnits") + ",unit)"
	mult := "lookup#0(*size." + e.vname("size", "unitToValues") + ",unit)"
	keyOf := func(a, b pred.Val) (string, bool) {
		as, bs := a.String(), b.String()
		switch {
		case as == "value" && bs == "0":
			return kZero, true
		case as == "unit" && bs == `""`:
			return kEmpty, true
		case as == "unit" && bs == `"B"`:
			return kByte, true // a fast path for the unit whose multiplier is 1 (C08.tab: B = 1)
		case (as == kZU || as == kUTV) && bs == "true":
			return as, true
		case as == kZUval && bs == "true":
			return kZU, true // the set spelled map[string]bool: the looked-up value is the membership (C08.tab reads it so)
		case bs == "value" && roundTripRe.MatchString(as):
			// N(uint64(value)) against value: through uint64 and no other type — int64 loses [2^63, 2^64), a
			// narrower type wraps
			return kRound, true
		case strings.HasPrefix(as, mulTerm+"#0(") && bs == "0":
			return kHi, true
		case as == "conv[uint64](value)" && bs == "/(18446744073709551615,"+mult+")":
			// the other exact overflow test: value > MaxUint64 / multiplier ⇔ the product needs more than 64 bits
			// (multiplier ≥ 1: C08.tab; that the divisor is not zero is C18.T1's obligation); three-valued, so that a
			// test other than `>` (a `!=`, a `>=`) is seen on the side it gets wrong
			return kLim, true
		}
		return "", false
	}
	domain := func(k string) []int {
		// the numeric kinds include the floating-point ones: NaN is neither below, equal to nor above zero, and
		// unequal to (and unordered with) whatever it is converted to
		if k == kZero {
			return []int{-1, 0, 1, pred.Unordered}
		}
		if k == kRound {
			return []int{0, 1, pred.Unordered}
		}
		if k == kLim {
			return []int{-1, 0, 1}
		}
		return []int{0, 1}
	}
	mk := func() []pred.Val { return []pred.Val{pred.Sym{Name: "value"}, pred.Sym{Name: "unit"}} }
	pruneUnit := func(assign map[string]int) bool { // a unit cannot be both "" and "B"
		a, okA := assign[kEmpty]
		b, okB := assign[kByte]
		if okA && okB && a == 0 && b == 0 {
			return false
		}
		z, okZ := assign[kZero]
		r, okR := assign[kRound]
		if okZ && okR && (z == pred.Unordered) != (r == pred.Unordered) { // NaN is unordered in both tests or in neither
			return false
		}
		return true
	}
	leaves, err := extractTree(e.P.SSA, fn, e.Permuted("size", "newSize", fn, mk), nil, nil, keyOf, domain, pruneUnit)
	if err != nil {
		e.S.Unk(rule, site, "table", err.Error(), e.Pos(fn))
		return
	}
	for _, lf := range leaves {
		construct := lf.String()
		if lf.Err != nil {
			e.S.Unk(rule, site, construct, lf.Err.Error(), e.Pos(fn))
			continue
		}
		t, ok := lf.Out.Ret.(pred.Tuple)
		if !ok || len(t) != 2 {
			e.S.Unk(rule, site, construct, lf.Out.Ret.String(), e.Pos(fn))
			continue
		}
		val, asked := lf.Assign[kZero]
		get := func(k string) int { // 1 true(equal), 0 false, 2 unknown
			v, ok := lf.Assign[k]
			if !ok {
				return 2
			}
			if v == 0 {
				return 1
			}
			return 0
		}
		want := "?"
		switch {
		case !asked:
		case val == 0: // value == 0
			switch get(kZU) {
			case 1:
				want = "0 / nil"
			case 0:
				want = "0 / InvalidUnitError"
			}
		case val < 0:
			want = "0 / InvalidValueError"
		case val == pred.Unordered: // NaN
			want = "0 / InvalidValueError"
		default: // value > 0
			rt := get(kRound) // 1: conv(uint64(value)) == value
			switch {
			case rt == 0:
				want = "0 / InvalidValueError"
			case rt == 1 && get(kEmpty) == 1:
				want = "conv(value) / nil"
			case rt == 1 && get(kEmpty) == 0 && get(kUTV) == 0:
				want = "0 / InvalidUnitError"
			case rt == 1 && get(kEmpty) == 0 && get(kUTV) == 1:
				hi := get(kHi)
				if v, ok := lf.Assign[kLim]; ok { // value against MaxUint64/multiplier: the product overflows iff above
					hi = map[bool]int{true: 0, false: 1}[v == 1]
				}
				switch hi {
				case 1: // hi == 0
					want = "lo / nil"
				case 0:
					want = "0 / InvalidValueError"
				}
			}
		}
		gv := t[0].String()
		switch {
		case convOfValueRe.MatchString(gv):
			// the value through uint64 (and the Size type) and nothing narrower: uint32(value) wraps
			gv = "conv(value)"
		case strings.HasPrefix(gv, mulTerm+"#1(conv[uint64](value),lookup#0(*size."+e.vname("size", "unitToValues")+",unit))"):
			gv = "lo"
		case gv == "*(conv[uint64](value),"+mult+")" || gv == "*("+mult+",conv[uint64](value))":
			gv = "lo" // the 64-bit product, exact where the overflow test has passed
		}
		got := gv + " / " + sizeErrType(t[1])
		// the unit "B" multiplies by one: returning the value itself is the exact product (its high word is zero)
		if get(kByte) == 1 && asked && val > 0 && get(kRound) == 1 && got == "conv(value) / nil" {
			e.S.Ok(rule, site, construct, "outcome conv(value) / nil for the unit B (multiplier 1)", e.Pos(fn))
			continue
		}
		switch {
		case want == "?":
			e.S.Bad(rule, site, construct, "outcome "+got+" is reached without the tests exactness needs (sign, integrality round trip, unit table, high word of the 128-bit product)", e.Pos(fn), "")
		case got != want:
			e.S.Bad(rule, site, construct, "outcome "+got+", documented "+want, e.Pos(fn), "")
		default:
			e.S.Ok(rule, site, construct, "outcome "+want, e.Pos(fn))
		}
	}
}

// convOfValueRe: conv[uint64](value), possibly inside the conversion to the named result type.
var convOfValueRe = regexp.MustCompile(`^(conv\[uint64\]\(value\)|conv\[[A-Za-z0-9_./]*Size\]\(value\)|conv\[[A-Za-z0-9_./]*Size\]\(conv\[uint64\]\(value\)\))$`)

// ruleC08Text: decision table of size.unmarshalText.
func ruleC08Text(e *Env) {
	const rule = "C08.text"
	fn := e.Fn(rule, "size", "unmarshalText")
	pn := e.F("size", "prepareNumber")
	ns := e.F("size", "newSize")
	if fn == nil || pn == nil || ns == nil {
		return
	}
	site := flow.FnName(fn)
	bit, _ := tabConstInt(e, "size", "RuleDisableUnit")
	sums := map[string]pred.Summary{
		pn.String(): func(ev *pred.Evaluator, args []pred.Val) (pred.Val, error) {
			if len(args) != 1 || args[0].String() != "input" {
				return nil, &pred.Undecided{Reason: "prepareNumber is not applied to the whole input"}
			}
			return pred.Tuple{pred.Sym{Name: "number"}, pred.Sym{Name: "unit"}}, nil
		},
		ns.String(): func(ev *pred.Evaluator, args []pred.Val) (pred.Val, error) {
			args = e.Unpermuted("size", "newSize", ns, args)
			// without a unit newSize is the identity on a uint64 (C08.ovf: unit "" ⇒ the value itself, 0 needs "" among
			// the zero units: C08.tab), so a text parser that has dropped its own `unit == ""` exit gives the same
			// result; the atom is the one the table splits on anyway
			if len(args) == 2 {
				if ord, known := ev.Oracle.Cmp(args[1], pred.Const{V: constant.MakeString("")}); known && ord == 0 {
					return pred.Tuple{args[0], pred.Const{}}, nil
				}
			}
			return pred.Tuple{pred.Term{Fn: "newSize#0", Args: args}, pred.Term{Fn: "newSize#1", Args: args}}, nil
		},
	}
	rk := ruleBitsKey("r")
	keyOf := func(a, b pred.Val) (string, bool) {
		if k, ok := rk(a, b); ok {
			return k, true
		}
		if k, ok := strEmptyKey(a, b); ok {
			return k, true
		}
		return errKeyOf(a, b)
	}
	mk := func() []pred.Val { return []pred.Val{pred.Sym{Name: "input"}, pred.Sym{Name: "r"}} }
	leaves, err := extractTree(e.P.SSA, fn, e.Permuted("size", "unmarshalText", fn, mk), sums, nil, keyOf, binDomain)
	if err != nil {
		e.S.Unk(rule, site, "table", err.Error(), e.Pos(fn))
		return
	}
	parse := "strconv.ParseUint(number,10,64)"
	kBit := fmt.Sprintf("r&bits(%d)", bitIndex(bit))
	for _, lf := range leaves {
		construct := lf.String()
		if lf.Err != nil {
			e.S.Unk(rule, site, construct, lf.Err.Error(), e.Pos(fn))
			continue
		}
		t, ok := lf.Out.Ret.(pred.Tuple)
		if !ok || len(t) != 2 {
			e.S.Unk(rule, site, construct, lf.Out.Ret.String(), e.Pos(fn))
			continue
		}
		get := func(k string) int {
			v, ok := lf.Assign[k]
			if !ok {
				return 2
			}
			if v == 0 {
				return 1
			}
			return 0
		}
		pv := ext(parse, 0)
		nsCall := "newSize(" + pv + ",unit)"
		want := "?"
		switch {
		case get(`number==""`) == 1:
			want = "0 / ParseError(nil)"
		case get(`number==""`) == 0 && get("nil? "+ext(parse, 1)) == 0:
			want = "0 / ParseError(" + ext(parse, 1) + ")"
		case get(`number==""`) == 0 && get("nil? "+ext(parse, 1)) == 1:
			switch {
			case get(`unit==""`) == 1:
				want = pv + " / nil"
			case get(`unit==""`) == 0 && get(kBit) == 0: // masked != 0: units disabled
				want = "0 / ParseError(ErrUnitDisabled)"
			case get(`unit==""`) == 0 && get(kBit) == 1:
				switch get("nil? " + ext(nsCall, 1)) {
				case 1:
					want = ext(nsCall, 0) + " / nil"
				case 0:
					want = "0 / ParseError(" + ext(nsCall, 1) + ")"
				}
			}
		}
		got := t[0].String() + " / " + sizeErrKind(t[1])
		switch {
		case want == "?":
			e.S.Bad(rule, site, construct, "outcome "+got+" is reached without the documented tests (digits present, ParseUint error, unit present, RuleDisableUnit, newSize error)", e.Pos(fn), "")
		case got != want:
			e.S.Bad(rule, site, construct, "outcome "+got+", documented "+want, e.Pos(fn), "")
		default:
			e.S.Ok(rule, site, construct, "outcome "+want, e.Pos(fn))
		}
	}
}

// ruleC08Max: internal.Max / Min / SmallestNonzero as tables over reflect.Kind; Bytes' use of them.
func ruleC08Max(e *Env, prog *load.Prog, tag string) {
	const rule = "C08.max"
	var reflectPkg, mathPkg *types.Package
	for _, p := range prog.SSA.AllPackages() {
		switch p.Pkg.Path() {
		case "reflect":
			reflectPkg = p.Pkg
		case "math":
			mathPkg = p.Pkg
		}
	}
	if reflectPkg == nil || mathPkg == nil {
		e.S.Unk(rule, "internal", "stdlib", "packages reflect/math not in the program", "")
		return
	}
	cval := func(pkg *types.Package, name string) constant.Value {
		if c, ok := pkg.Scope().Lookup(name).(*types.Const); ok {
			return c.Val()
		}
		return nil
	}
	neg := func(v constant.Value) constant.Value {
		if v == nil {
			return nil
		}
		return constant.UnaryOp(token.SUB, v, 0)
	}
	type row struct {
		kind         string
		max, min, sn constant.Value
	}
	one, zero := constant.MakeInt64(1), constant.MakeInt64(0)
	rows := []row{
		{"Int", cval(mathPkg, "MaxInt"), cval(mathPkg, "MinInt"), one},
		{"Int8", cval(mathPkg, "MaxInt8"), cval(mathPkg, "MinInt8"), one},
		{"Int16", cval(mathPkg, "MaxInt16"), cval(mathPkg, "MinInt16"), one},
		{"Int32", cval(mathPkg, "MaxInt32"), cval(mathPkg, "MinInt32"), one},
		{"Int64", cval(mathPkg, "MaxInt64"), cval(mathPkg, "MinInt64"), one},
		{"Uint", cval(mathPkg, "MaxUint"), zero, one},
		{"Uint8", cval(mathPkg, "MaxUint8"), zero, one},
		{"Uint16", cval(mathPkg, "MaxUint16"), zero, one},
		{"Uint32", cval(mathPkg, "MaxUint32"), zero, one},
		{"Uint64", cval(mathPkg, "MaxUint64"), zero, one},
		{"Float32", cval(mathPkg, "MaxFloat32"), neg(cval(mathPkg, "MaxFloat32")), cval(mathPkg, "SmallestNonzeroFloat32")},
		{"Float64", cval(mathPkg, "MaxFloat64"), neg(cval(mathPkg, "MaxFloat64")), cval(mathPkg, "SmallestNonzeroFloat64")},
	}
	for _, f := range []struct {
		name string
		pick func(r row) constant.Value
	}{{"Max", func(r row) constant.Value { return r.max }}, {"Min", func(r row) constant.Value { return r.min }}, {"SmallestNonzero", func(r row) constant.Value { return r.sn }}} {
		fn := prog.Func("internal", f.name)
		if fn == nil {
			e.S.Unk(rule, "internal."+f.name, "anchor", "function not found", "")
			continue
		}
		site := flow.FnName(fn)
		for _, r := range rows {
			construct := r.kind + tag
			kv := cval(reflectPkg, r.kind)
			want := f.pick(r)
			if kv == nil || want == nil {
				e.S.Unk(rule, site, construct, "stdlib constant not found", "")
				continue
			}
			ev := &pred.Evaluator{Prog: prog.SSA, Oracle: noOracle{}}
			out, err := ev.Eval(fn, []pred.Val{pred.Const{V: kv}})
			if err != nil {
				e.S.Bad(rule, site, construct, "for reflect."+r.kind+" the function does not fold to a constant: "+err.Error()+" (a boxed type that differs from the asserted type panics at run time)", "", "")
				continue
			}
			c, ok := out.Ret.(pred.Const)
			if !ok || c.V == nil || !constant.Compare(constant.ToFloat(c.V), token.EQL, constant.ToFloat(want)) {
				e.S.Bad(rule, site, construct, fmt.Sprintf("%s(reflect.%s) = %v, the bound of that kind is %v", f.name, r.kind, out.Ret, want), "", "")
			} else {
				e.S.Ok(rule, site, construct, fmt.Sprintf("%s(reflect.%s) = %s", f.name, r.kind, want.String()), "")
			}
		}
	}
}

// ruleC08Bytes: size.Bytes[N] per reflect.Kind of N: integer kinds succeed exactly when the size does not exceed the
// kind's maximum, float kinds exactly when the conversion round-trips; the value returned is the converted size.
func ruleC08Bytes(e *Env) {
	const rule = "C08.bytes"
	fn := e.Fn(rule, "size", "Bytes")
	kindFn := e.F("internal", "Kind")
	if fn == nil || kindFn == nil {
		return
	}
	site := flow.FnName(fn)
	var reflectPkg, mathPkg *types.Package
	for _, p := range e.P.SSA.AllPackages() {
		switch p.Pkg.Path() {
		case "reflect":
			reflectPkg = p.Pkg
		case "math":
			mathPkg = p.Pkg
		}
	}
	if reflectPkg == nil || mathPkg == nil {
		return
	}
	cval := func(pkg *types.Package, name string) constant.Value {
		if c, ok := pkg.Scope().Lookup(name).(*types.Const); ok {
			return c.Val()
		}
		return nil
	}
	kinds := []struct {
		kind, max string
	}{{"Int", "MaxInt"}, {"Int8", "MaxInt8"}, {"Int16", "MaxInt16"}, {"Int32", "MaxInt32"}, {"Int64", "MaxInt64"},
		{"Uint", "MaxUint"}, {"Uint8", "MaxUint8"}, {"Uint16", "MaxUint16"}, {"Uint32", "MaxUint32"}, {"Uint64", "MaxUint64"},
		{"Float32", ""}, {"Float64", ""}}
	for _, k := range kinds {
		kv := cval(reflectPkg, k.kind)
		sums := map[string]pred.Summary{kindFn.String(): func(ev *pred.Evaluator, args []pred.Val) (pred.Val, error) {
			return pred.Const{V: kv}, nil
		}}
		keyOf := func(a, b pred.Val) (string, bool) {
			if a.String() == "s" {
				if c, ok := b.(pred.Const); ok && c.V != nil {
					return "s?" + c.V.ExactString(), true
				}
				if b.String() == "conv[N](s)" || b.String() == "conv[uint64](conv[N](s))" {
					return "roundtrip", true
				}
			}
			if b.String() == "s" && (a.String() == "conv[N](s)" || a.String() == "conv[uint64](conv[N](s))") {
				return "roundtrip", true
			}
			return "", false
		}
		// the round trip has three outcomes: the float is the size, or the nearest float lies below or above it
		// (rounding up is as much a changed value as rounding down)
		domain := func(key string) []int { return []int{-1, 0, 1} }
		leaves, err := extractTree(e.P.SSA, fn, func() []pred.Val { return []pred.Val{pred.Sym{Name: "s"}} }, sums, nil, keyOf, domain)
		if err != nil {
			e.S.Unk(rule, site, k.kind, err.Error(), e.Pos(fn))
			continue
		}
		for _, lf := range leaves {
			construct := k.kind + " {" + lf.String() + "}"
			if lf.Err != nil {
				e.S.Unk(rule, site, construct, lf.Err.Error(), e.Pos(fn))
				continue
			}
			t, ok := lf.Out.Ret.(pred.Tuple)
			if !ok || len(t) != 2 {
				e.S.Unk(rule, site, construct, lf.Out.Ret.String(), e.Pos(fn))
				continue
			}
			gotOK, _ := boolOf(t[1])
			// a fast path for the size zero: zero is representable in every kind; a size is never negative
			nAtoms := len(lf.Assign)
			if z, askedZ := lf.Assign["s?0"]; askedZ {
				nAtoms--
				switch {
				case z < 0:
					continue // impossible valuation for an unsigned size
				case z == 0:
					if gotOK && (t[0].String() == "0" || t[0].String() == "conv[N](s)") {
						e.S.Ok(rule, site, construct, "the size zero is reported representable", e.Pos(fn))
					} else {
						e.S.Bad(rule, site, construct, fmt.Sprintf("for the size zero Bytes returns (%v, ok=%v); zero is exactly representable in every numeric type", t[0], gotOK), e.Pos(fn), "Size(0)")
					}
					continue
				}
			}
			want, determined := false, false
			if k.max != "" {
				maxKey := "s?" + cval(mathPkg, k.max).ExactString()
				if v, asked := lf.Assign[maxKey]; asked && nAtoms == 1 {
					want, determined = v <= 0, true
				}
			} else if v, asked := lf.Assign["roundtrip"]; asked && nAtoms == 1 {
				want, determined = v == 0, true
			}
			switch {
			case !determined:
				crit := "comparison with math." + k.max
				if k.max == "" {
					crit = "exact round trip through the float type"
				}
				e.S.Bad(rule, site, construct, fmt.Sprintf("for kind %s the verdict (ok=%v) does not depend on exactly the %s", k.kind, gotOK, crit), e.Pos(fn), "")
			case gotOK != want:
				e.S.Bad(rule, site, construct, fmt.Sprintf("ok=%v, exact representability demands %v", gotOK, want), e.Pos(fn), "")
			case gotOK && t[0].String() != "conv[N](s)":
				e.S.Bad(rule, site, construct, "on success the value returned is "+t[0].String()+", not the converted size", e.Pos(fn), "")
			case !gotOK && t[0].String() != "0":
				e.S.Bad(rule, site, construct, "on failure the value returned is "+t[0].String()+", not 0", e.Pos(fn), "")
			default:
				e.S.Ok(rule, site, construct, fmt.Sprintf("ok=%v", want), e.Pos(fn))
			}
		}
	}
}

// ruleC08Object: in the JSON object form the number and the unit that reach newSize are exactly the decoded "value"
// and "unit" members: unmarshalJSONObject passes to newOrError only nil or decodeValue's / decodeUnit's result,
// newOrError dereferences exactly those two, decodeValue parses the number token in base 10 / 64 bits and
// decodeUnit yields the string token unchanged.
func ruleC08Object(e *Env) {
	const rule = "C08.object"
	fn := e.Fn(rule, "size", "unmarshalJSONObject")
	noe := e.Fn(rule, "size", "newOrError")
	dv := e.Fn(rule, "size", "decodeValue")
	du := e.Fn(rule, "size", "decodeUnit")
	ns := e.F("size", "newSize")
	if fn == nil || noe == nil || dv == nil || du == nil || ns == nil {
		return
	}
	// origins of a value through phis
	var origins func(v ssa.Value, seen map[ssa.Value]bool, out *[]ssa.Value)
	origins = func(v ssa.Value, seen map[ssa.Value]bool, out *[]ssa.Value) {
		if seen[v] {
			return
		}
		seen[v] = true
		if p, ok := v.(*ssa.Phi); ok {
			for _, ed := range p.Edges {
				origins(ed, seen, out)
			}
			return
		}
		*out = append(*out, v)
	}
	site := flow.FnName(fn)
	calls := e.C.Calls(fn, func(f *ssa.Function) bool { return f == noe })
	if len(calls) != 1 {
		e.S.Unk(rule, site, "newOrError", fmt.Sprintf("%d calls to newOrError, expected exactly one", len(calls)), e.Pos(fn))
	} else {
		c := calls[0]
		for i, want := range []*ssa.Function{dv, du} {
			var os []ssa.Value
			origins(c.Call.Args[i], map[ssa.Value]bool{}, &os)
			bad := ""
			n := 0
			for _, o := range os {
				if flow.IsNilConst(o) {
					continue
				}
				if ex, ok := o.(*ssa.Extract); ok && ex.Index == 0 {
					if cc, ok := ex.Tuple.(*ssa.Call); ok && e.C.StaticCallee(&cc.Call) == want {
						n++
						continue
					}
				}
				bad = o.String()
			}
			name := []string{"value", "unit"}[i]
			switch {
			case bad != "":
				e.S.Bad(rule, site, name, "the "+name+" handed to newOrError can be something other than the decoded \""+name+"\" member ("+bad+"): the constructed size no longer is number × unit of the object", e.posOf(c), "")
			case n == 0:
				e.S.Bad(rule, site, name, "the decoded \""+name+"\" member never reaches newOrError", e.posOf(c), "")
			default:
				e.S.Ok(rule, site, name, "newOrError receives nil or the result of "+want.Name()+" and nothing else", e.posOf(c))
			}
		}
		// and its result is returned unchanged
		ok := false
		for _, r := range flow.Returns(fn) {
			if len(r.Results) == 2 {
				e0, ok0 := r.Results[0].(*ssa.Extract)
				e1, ok1 := r.Results[1].(*ssa.Extract)
				if ok0 && ok1 && e0.Tuple == ssa.Value(c) && e1.Tuple == ssa.Value(c) && e0.Index == 0 && e1.Index == 1 {
					ok = true
				}
			}
		}
		if ok {
			e.S.Ok(rule, site, "result", "newOrError's result is returned unchanged", e.posOf(c))
		} else {
			e.S.Bad(rule, site, "result", "newOrError's (size, error) is not what the function returns", e.posOf(c), "")
		}
	}
	// the value and unit members read are the object's own: an ignored member is consumed completely, whatever its
	// nesting, so that no member of a nested object is read as a member of the size object
	ruleSkipper(e, rule, e.F("size", "decodeAndSkipNested"))
	// newOrError → newSize(*value, *unit)
	{
		site := flow.FnName(noe)
		calls := e.C.Calls(noe, func(f *ssa.Function) bool { return flow.Origin(f) == ns })
		if len(calls) == 0 {
			e.S.Unk(rule, site, "newSize", "no call to newSize", e.Pos(noe))
		} else {
			// every call (a fast path may duplicate it) takes exactly the two dereferenced parameters
			ok := true
			perm := e.ParamPerm("size", "newSize", ns) // newSize(value, unit) as recorded; perm[i] = position of recorded parameter i
			for _, c := range calls {
				okc := len(c.Call.Args) == 2
				for i := 0; okc && i < 2; i++ {
					at := i
					if perm != nil && len(perm) == 2 {
						at = perm[i]
					}
					u, isLoad := c.Call.Args[at].(*ssa.UnOp)
					okc = isLoad && u.Op == token.MUL && u.X == ssa.Value(noe.Params[i])
				}
				ok = ok && okc
			}
			if ok {
				e.S.Ok(rule, site, "newSize", "newSize(*value, *unit) with the two parameters", e.posOf(calls[0]))
			} else {
				e.S.Bad(rule, site, "newSize", "newSize is not applied to (*value, *unit)", e.posOf(calls[0]), "")
			}
		}
	}
	// decodeValue: &u with u = ParseUint(number.String(), 10, 64)
	pointee := func(f *ssa.Function) (ssa.Value, *ssa.Alloc) {
		var al *ssa.Alloc
		for _, r := range flow.Returns(f) {
			if len(r.Results) == 2 && flow.IsNilConst(r.Results[1]) {
				a, ok := r.Results[0].(*ssa.Alloc)
				if !ok || (al != nil && al != a) {
					return nil, nil
				}
				al = a
			}
		}
		if al == nil {
			return nil, nil
		}
		var stored ssa.Value
		for _, r := range *al.Referrers() {
			if st, ok := r.(*ssa.Store); ok && st.Addr == ssa.Value(al) {
				if stored != nil {
					return nil, al
				}
				stored = st.Val
			}
		}
		return stored, al
	}
	tokenOf := func(v ssa.Value) bool { // v is result #0 of d.Token()
		ex, ok := v.(*ssa.Extract)
		if !ok || ex.Index != 0 {
			return false
		}
		c, ok := ex.Tuple.(*ssa.Call)
		return ok && c.Call.IsInvoke() && c.Call.Method.Name() == "Token"
	}
	{
		site := flow.FnName(dv)
		st, _ := pointee(dv)
		ok := false
		if ex, isEx := st.(*ssa.Extract); isEx && ex.Index == 0 {
			if c, isC := ex.Tuple.(*ssa.Call); isC && calleeName(&c.Call) == "strconv.ParseUint" && len(c.Call.Args) == 3 {
				b, okb := flow.ConstInt(c.Call.Args[1])
				w, okw := flow.ConstInt(c.Call.Args[2])
				// the text is (json.Number).String() of the asserted token
				txt := false
				if sc, isS := c.Call.Args[0].(*ssa.Call); isS && calleeName(&sc.Call) == "(encoding/json.Number).String" {
					if ta := typeAssertOperand(sc.Call.Args[0]); ta != nil && tokenOf(ta) {
						txt = true
					}
				}
				// … or the conversion string(n): json.Number is a string type, String() is that conversion
				if cv, isCv := c.Call.Args[0].(*ssa.ChangeType); isCv {
					if ta := typeAssertOperand(cv.X); ta != nil && tokenOf(ta) {
						txt = true
					}
				}
				ok = okb && okw && b == 10 && w == 64 && txt
			}
		}
		// ParseUint's error decides: the number is handed on only where that error is nil (on ErrRange the value
		// returned is the saturated MaxUint64, on ErrSyntax 0 — neither is the token's number)
		if ok {
			pe := parseErrOf(st)
			good := pe != nil
			for _, r := range flow.Returns(dv) {
				if !(len(r.Results) == 2 && flow.IsNilConst(r.Results[1])) {
					continue
				}
				dom := false
				for _, b := range dv.Blocks {
					iff, isIf := b.Instrs[len(b.Instrs)-1].(*ssa.If)
					if !isIf {
						continue
					}
					cmp, isCmp := iff.Cond.(*ssa.BinOp)
					if !isCmp || (cmp.Op != token.NEQ && cmp.Op != token.EQL) || !(cmp.X == pe && flow.IsNilConst(cmp.Y) || cmp.Y == pe && flow.IsNilConst(cmp.X)) {
						continue
					}
					nilSide := b.Succs[map[bool]int{true: 0, false: 1}[cmp.Op == token.EQL]]
					if len(nilSide.Preds) == 1 && nilSide.Dominates(r.Block()) {
						dom = true
					}
				}
				if !dom {
					good = false
				}
			}
			if good {
				e.S.Ok(rule, site, "number error", "the number is returned only where ParseUint's error is nil", e.Pos(dv))
			} else {
				e.S.Bad(rule, site, "number error", "the parsed number is handed on on a path where ParseUint's error is not known to be nil: out of range it is the saturated 18446744073709551615, not the token's number", e.Pos(dv), `{"value":99999999999999999999,"unit":"B"}`)
			}
		}
		if ok {
			e.S.Ok(rule, site, "number", "&u with u = strconv.ParseUint(token.(json.Number).String(), 10, 64)", e.Pos(dv))
		} else {
			e.S.Bad(rule, site, "number", "the value member is not the number token parsed in base 10 into 64 bits", e.Pos(dv), "")
		}
	}
	{
		site := flow.FnName(du)
		st, _ := pointee(du)
		if st != nil {
			if ta := typeAssertOperand(st); ta != nil && tokenOf(ta) {
				e.S.Ok(rule, site, "unit", "&s with s = token.(string), unchanged", e.Pos(du))
				return
			}
		}
		e.S.Bad(rule, site, "unit", "the unit member is not the string token unchanged", e.Pos(du), "")
	}
}

// parseErrOf: v is result #0 of a call; returns the Extract of result #1 (the error), nil if it is never taken.
func parseErrOf(v ssa.Value) ssa.Value {
	ex, ok := v.(*ssa.Extract)
	if !ok {
		return nil
	}
	for _, r := range *ex.Tuple.Referrers() {
		if e1, ok := r.(*ssa.Extract); ok && e1.Index == 1 {
			return e1
		}
	}
	return nil
}

// typeAssertOperand: v is `x.(T)` (plain or comma-ok, result #0) — returns x.
func typeAssertOperand(v ssa.Value) ssa.Value {
	if ex, ok := v.(*ssa.Extract); ok && ex.Index == 0 {
		v = ex.Tuple
	}
	if ta, ok := v.(*ssa.TypeAssert); ok {
		return ta.X
	}
	return nil
}

// ruleC08Kind: internal.Kind classifies by the kind of the dynamic type (reflect), not by a test for exact types: the
// numeric constraints admit named types (~int, ~uint16, …), whose kind is what selects the limit table row.
func ruleC08Kind(e *Env, rule string) {
	fn := e.Fn(rule, "internal", "Kind")
	if fn == nil {
		return
	}
	site := flow.FnName(fn)
	ev := &pred.Evaluator{Prog: e.P.SSA, GlobalInit: e.globalTables(), Oracle: noOracle{}}
	out, err := ev.Eval(fn, []pred.Val{pred.Sym{Name: "value"}})
	switch {
	case err != nil:
		e.S.Unk(rule, site, "Kind", "Kind is not the reflect kind of its argument's dynamic type (a test for exact types misses the named types the ~T constraints admit): "+err.Error(), e.Pos(fn))
	case out.Ret.String() == "invoke.Kind(reflect.TypeOf(value))" || out.Ret.String() == "(reflect.Value).Kind(reflect.ValueOf(value))":
		e.S.Ok(rule, site, "Kind", "= "+out.Ret.String(), e.Pos(fn))
	default:
		e.S.Bad(rule, site, "Kind", "Kind computes "+out.Ret.String()+", documented reflect.TypeOf(value).Kind()", e.Pos(fn), "type Blocks uint16")
	}
}

// ruleC08Mint: who may turn a number into a size and a size into a number. A Size is an unsigned 64-bit count:
// uint64 ↔ Size is value-preserving and may stand anywhere; from any other type a number becomes a size only inside
// the checked constructor (newSize: sign, integrality, overflow), and a size becomes a number of any other type only
// inside the checked accessor (Bytes: reports whether it fits). A conversion elsewhere — Size(v) with v an int64 in a
// new Scan method, int64(s) in a new Value method — wraps negative numbers or sizes above the target's range without
// any of the decided tests.
func ruleC08Mint(e *Env) {
	const rule = "C08.mint"
	sp := e.P.ByName["size"]
	if sp == nil || sp.Type("Size") == nil {
		return
	}
	sizeT := sp.Type("Size").Type()
	ns, by := e.F("size", "newSize"), e.F("size", "Bytes")
	isU64 := func(t types.Type) bool {
		b, ok := t.Underlying().(*types.Basic)
		return ok && b.Kind() == types.Uint64
	}
	ord := map[string]int{}
	for _, fn := range flow.SortedFuncs(e.C.AllRepoFuncs()) {
		if fn.Pkg != sp {
			continue
		}
		o := flow.Origin(fn)
		if o != fn {
			continue
		}
		for _, b := range fn.Blocks {
			for _, in := range b.Instrs {
				var from, to types.Type
				var x ssa.Value
				switch c := in.(type) {
				case *ssa.ChangeType:
					from, to, x = c.X.Type(), c.Type(), c.X
				case *ssa.MultiConvert:
					from, to, x = c.X.Type(), c.Type(), c.X
				case *ssa.Convert:
					// a uint64 that a call made out of a Size (`u, _ := Bytes[uint64](s)`) narrowed afterwards
					if ex, ok := c.X.(*ssa.Extract); ok && isU64(c.X.Type()) && !(o == by || onlyCalledFrom(e, o, by, 0)) {
						if call, ok := ex.Tuple.(*ssa.Call); ok {
							fromSz := false
							for _, a := range call.Call.Args {
								if types.Identical(a.Type(), sizeT) {
									fromSz = true
								}
							}
							if bt, isB := c.Type().Underlying().(*types.Basic); fromSz && isB && bt.Info()&types.IsInteger != 0 && bt.Kind() != types.Uint64 {
								site := flow.FnName(fn)
								ord[site+"narrow"]++
								e.S.Bad(rule, site, fmt.Sprintf("%s <- uint64 of a Size #%d", c.Type(), ord[site+"narrow"]), "the uint64 a call made out of a Size is converted on to "+c.Type().String()+" outside the checked accessor: sizes beyond that type's range come out wrapped or negative", e.posOf(in), "Size(1<<63)")
							}
						}
					}
					from, to, x = c.X.Type(), c.Type(), c.X
				case *ssa.BinOp:
					// arithmetic on sizes outside the checked constructor builds a Size that no overflow test has seen
					if types.Identical(c.Type(), sizeT) && (c.Op == token.MUL || c.Op == token.SHL || c.Op == token.ADD) && !(o == ns || onlyCalledFrom(e, o, ns, 0)) {
						site := flow.FnName(fn)
						ord[site+"arith"]++
						e.S.Unk(rule, site, fmt.Sprintf("Size %s Size #%d", c.Op, ord[site+"arith"]), "a Size is computed by "+c.Op.String()+" outside the checked constructor: whether the result can wrap is not read here", e.posOf(in))
					}
					continue
				default:
					continue
				}
				toSize, fromSize := types.Identical(to, sizeT), types.Identical(from, sizeT)
				if toSize == fromSize {
					continue
				}
				if _, isConst := x.(*ssa.Const); isConst {
					continue
				}
				site := flow.FnName(fn)
				kind := fmt.Sprintf("%s <- %s", types.TypeString(to, types.RelativeTo(sp.Pkg)), types.TypeString(from, types.RelativeTo(sp.Pkg)))
				ord[site+kind]++
				construct := fmt.Sprintf("%s #%d", kind, ord[site+kind])
				inCtor := o == ns || onlyCalledFrom(e, o, ns, 0)
				inAcc := o == by || onlyCalledFrom(e, o, by, 0)
				switch {
				case toSize && inCtor:
					e.S.Ok(rule, site, construct, "inside the checked constructor (C08.ovf)", e.posOf(in))
				case fromSize && inAcc:
					e.S.Ok(rule, site, construct, "inside the checked accessor (C08.bytes)", e.posOf(in))
				case toSize && isU64(from):
					// the uint64 itself must be a value as it came: not another number squeezed through uint64 first
					// (`Size(uint64(v))`), and not the result of arithmetic that can wrap (`Size(n << 10)`)
					switch why, bad := c08WrappingOrigin(x, map[ssa.Value]bool{}); {
					case bad:
						e.S.Bad(rule, site, construct, "a number becomes a Size outside the checked constructor by way of uint64: "+why, e.posOf(in), "a negative int64")
					case why != "":
						e.S.Unk(rule, site, construct, "the uint64 turned into a Size outside the checked constructor is "+why+": whether it can wrap is not read here", e.posOf(in))
					default:
						e.S.Ok(rule, site, construct, "uint64 → Size: value-preserving", e.posOf(in))
					}
				case fromSize && isU64(to):
					// … and the uint64 taken from a Size is not narrowed further on outside the checked accessor
					if why := c08NarrowedLater(in.(ssa.Value), map[ssa.Value]bool{}); why != "" {
						e.S.Bad(rule, site, construct, "a Size is converted, by way of uint64, to "+why+" outside the checked accessor Bytes: sizes beyond that type's range come out wrapped or negative", e.posOf(in), "Size(1<<63)")
					} else {
						e.S.Ok(rule, site, construct, "Size → uint64: value-preserving", e.posOf(in))
					}
				case toSize && c08ExactInto64(from):
					e.S.Ok(rule, site, construct, "an unsigned integer of at most 64 bits: every value is a size", e.posOf(in))
				case toSize && c08NonNegativeAt(x, in.Block()):
					e.S.Ok(rule, site, construct, "a signed integer behind a dominating test that it is not negative", e.posOf(in))
				case toSize:
					e.S.Bad(rule, site, construct, "a number of a type other than uint64 becomes a Size outside the checked constructor: a negative or fractional value, or one beyond 64 bits, wraps instead of being refused", e.posOf(in), "a negative int64")
				default:
					e.S.Bad(rule, site, construct, "a Size is converted to a type that cannot hold every size outside the checked accessor Bytes: sizes beyond that type's range come out wrapped or negative", e.posOf(in), "Size(1<<63)")
				}
			}
		}
	}
}

// onlyCalledFrom: fn is an unexported function of the module whose every call site lies in root or in a function
// that is itself only called from root (two levels), and which is nowhere used as a value: a helper of root.
func onlyCalledFrom(e *Env, fn, root *ssa.Function, depth int) bool {
	if fn == nil || root == nil || depth > 2 || fn.Object() == nil || fn.Object().Exported() {
		return false
	}
	sites := 0
	for _, g := range flow.SortedFuncs(e.C.AllRepoFuncs()) {
		for _, b := range g.Blocks {
			for _, in := range b.Instrs {
				for _, op := range in.Operands(nil) {
					f, ok := (*op).(*ssa.Function)
					if !ok || flow.Origin(f) != fn {
						continue
					}
					ci, isCall := in.(ssa.CallInstruction)
					if !isCall || op != &ci.Common().Value {
						return false // used as a value
					}
					sites++
					if go_ := flow.Origin(g); go_ != root && go_ != fn && !onlyCalledFrom(e, go_, root, depth+1) {
						return false
					}
				}
			}
		}
	}
	return sites > 0
}

// c08WrappingOrigin: why the uint64 x is not a value as it came — bad: it is another numeric type converted to
// uint64 (sign and fraction are lost before Size sees them); otherwise a non-empty reason names arithmetic whose
// range is not read here.
func c08WrappingOrigin(x ssa.Value, seen map[ssa.Value]bool) (string, bool) {
	if seen[x] {
		return "", false
	}
	seen[x] = true
	switch v := x.(type) {
	case *ssa.Convert:
		if _, isConst := v.X.(*ssa.Const); isConst {
			return "", false
		}
		if b, ok := v.X.Type().Underlying().(*types.Basic); ok && b.Info()&types.IsNumeric != 0 && b.Kind() != types.Uint64 && !c08ExactInto64(v.X.Type()) {
			return "the " + v.X.Type().String() + " is converted to uint64 first, where a negative or fractional value, or one beyond 64 bits, wraps instead of being refused", true
		}
		return c08WrappingOrigin(v.X, seen)
	case *ssa.ChangeType:
		return c08WrappingOrigin(v.X, seen)
	case *ssa.Phi:
		for _, ed := range v.Edges {
			if why, bad := c08WrappingOrigin(ed, seen); why != "" {
				return why, bad
			}
		}
	case *ssa.BinOp:
		switch v.Op {
		case token.MUL, token.SHL, token.ADD, token.SUB:
			return "the result of " + v.Op.String() + " arithmetic", false
		}
	case *ssa.Extract:
		if c, ok := v.Tuple.(*ssa.Call); ok {
			if f := c.Call.StaticCallee(); f != nil && f.Pkg != nil && f.Pkg.Pkg.Path() == "math/bits" {
				return "a word of " + f.String() + " taken outside the constructor's overflow test", false
			}
			return c08CalleeOrigin(c, v.Index, seen)
		}
	case *ssa.Call:
		return c08CalleeOrigin(v, 0, seen)
	}
	return "", false
}

// c08CalleeOrigin: the origin of result idx of a call to a function of the module (a one-line helper that does the
// squeezing: `func bitsOf(v int64) uint64 { return uint64(v) }`).
func c08CalleeOrigin(c *ssa.Call, idx int, seen map[ssa.Value]bool) (string, bool) {
	f := c.Call.StaticCallee()
	if f == nil || !flow.InRepo(f) || len(f.Blocks) == 0 || len(seen) > 40 {
		return "", false
	}
	for _, b := range f.Blocks {
		if ret, ok := b.Instrs[len(b.Instrs)-1].(*ssa.Return); ok && idx < len(ret.Results) {
			if why, bad := c08WrappingOrigin(ret.Results[idx], seen); why != "" {
				return why + " (in " + flow.FnName(f) + ")", bad
			}
		}
	}
	return "", false
}

// c08NarrowedLater: the type a uint64 taken from a Size is converted to further on (through phis), if any.
func c08NarrowedLater(v ssa.Value, seen map[ssa.Value]bool) string {
	if seen[v] || v.Referrers() == nil {
		return ""
	}
	seen[v] = true
	for _, r := range *v.Referrers() {
		switch y := r.(type) {
		case *ssa.Convert:
			if b, ok := y.Type().Underlying().(*types.Basic); ok && b.Info()&types.IsInteger != 0 && b.Kind() != types.Uint64 && b.Kind() != types.Uintptr {
				return y.Type().String()
			}
		case *ssa.Phi:
			if why := c08NarrowedLater(y, seen); why != "" {
				return why
			}
		}
	}
	return ""
}

// c08ExactInto64: an unsigned integer type of at most 64 bits.
func c08ExactInto64(t types.Type) bool {
	b, ok := t.Underlying().(*types.Basic)
	return ok && b.Info()&types.IsUnsigned != 0 && b.Info()&types.IsInteger != 0
}

// c08NonNegativeAt: block at is dominated by the non-negative side of a test of x against 0 (`x < 0` false,
// `x >= 0` true).
func c08NonNegativeAt(x ssa.Value, at *ssa.BasicBlock) bool {
	if x.Referrers() == nil {
		return false
	}
	for _, r := range *x.Referrers() {
		bo, ok := r.(*ssa.BinOp)
		if !ok || bo.X != x || bo.Referrers() == nil {
			continue
		}
		k, isK := bo.Y.(*ssa.Const)
		if !isK || k.Value == nil || k.Value.Kind() != constant.Int {
			continue
		}
		side := -1
		switch kv, _ := constant.Int64Val(k.Value); {
		case kv == 0 && bo.Op == token.LSS, kv == -1 && bo.Op == token.LEQ:
			side = 1
		case kv == 0 && bo.Op == token.GEQ, kv == -1 && bo.Op == token.GTR:
			side = 0
		}
		if side < 0 {
			continue
		}
		for _, rr := range *bo.Referrers() {
			if br, ok := rr.(*ssa.If); ok && br.Cond == ssa.Value(bo) {
				succ := br.Block().Succs[side]
				if len(succ.Preds) == 1 && succ.Dominates(at) {
					return true
				}
			}
		}
	}
	return false
}
