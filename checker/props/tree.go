package props

import (
	"fmt"
	"go/constant"
	"go/token"
	"reflect"
	"sort"
	"strings"

	"golang.org/x/tools/go/ssa"

	"utilcheck/pred"
)

// Decision-tree extraction by predicate abstraction: a function is evaluated on abstract arguments; each time
// the evaluator needs the order of two abstract values that the current assignment does not define, the run is
// abandoned and restarted once per possible answer. The leaves are (assignment → outcome); what is enumerated
// are abstract valuations, never inputs.

type treeOracle struct {
	assign  map[string]int
	fixed   func(a, b pred.Val) (int, bool, bool) // ord, known, handled
	keyOf   func(a, b pred.Val) (string, bool)    // canonical atom key; ok=false: not an admissible atom
	unknown string
	refused string
	// domain of an atom (nil: not known here). An atom with the two-valued domain {0,1} stands for equal / not equal
	// (or, against the constant 0, for zero / positive): it cannot answer <, <=, >, >= against anything else
	domain func(key string) []int
	// eqOnly: the rule uses the shared two-valued domain binDomain (equal / not equal) for every atom. A rule that
	// supplies its own domain function has chosen the values of each atom itself (e.g. {0,1} = "at least", under a
	// stated premise) and answers for them.
	eqOnly bool
}

func (o *treeOracle) CmpOp(op token.Token, a, b pred.Val) (int, bool) {
	ordering := op == token.LSS || op == token.LEQ || op == token.GTR || op == token.GEQ
	if ordering && o.domain != nil && o.eqOnly {
		handled := false
		if o.fixed != nil {
			_, _, handled = o.fixed(a, b)
		}
		if k, ok := o.keyOf(a, b); ok && !handled {
			k = strings.TrimPrefix(strings.TrimPrefix(k, "~"), "!")
			d := o.domain(k)
			three := false
			for _, v := range d {
				if v < 0 {
					three = true
				}
			}
			zero := func(v pred.Val) bool {
				c, ok := v.(pred.Const)
				return ok && c.V != nil && c.V.Kind() == constant.Int && constant.Sign(c.V) == 0
			}
			if !three && !zero(a) && !zero(b) {
				if o.refused == "" {
					o.refused = fmt.Sprintf("%v %s %v is an ordering test, the atom %s is tabulated as equal / not equal only", a, op, b, k)
				}
				return 0, false
			}
		}
	}
	return o.Cmp(a, b)
}

func (o *treeOracle) Cmp(a, b pred.Val) (int, bool) {
	if o.fixed != nil {
		if ord, known, handled := o.fixed(a, b); handled {
			return ord, known
		}
	}
	k, ok := o.keyOf(a, b)
	if !ok {
		if o.refused == "" {
			o.refused = fmt.Sprintf("%v ? %v", a, b)
		}
		return 0, false
	}
	neg, compl := false, false
	if strings.HasPrefix(k, "~") { // key for the swapped pair
		k, neg = k[1:], true
	}
	if strings.HasPrefix(k, "!") { // a single masked bit compared with the mask itself: equal exactly when the atom is non-zero
		k, compl = k[1:], true
	}
	if v, ok := o.assign[k]; ok {
		if v == pred.Unordered {
			return v, true
		}
		if compl {
			if v == 0 {
				return -1, true
			}
			return 0, true
		}
		if neg {
			return -v, true
		}
		return v, true
	}
	if o.unknown == "" {
		o.unknown = k
	}
	return 0, false
}

type leaf struct {
	Assign map[string]int
	Out    *pred.Outcome
	Err    error
	Asked  []string
	Trace  []string
	final  string // snapshot taken right after the run (e.g. the receiver's abstract value)
}

func (l leaf) trace() []string { return l.Trace }

// treeSnapshot, when set by a caller around extractTree, is evaluated after each abstract run.
var treeSnapshot func() string

func (l leaf) String() string {
	var ks []string
	for k := range l.Assign {
		ks = append(ks, k)
	}
	sort.Strings(ks)
	var parts []string
	for _, k := range ks {
		parts = append(parts, fmt.Sprintf("%s=%d", k, l.Assign[k]))
	}
	return strings.Join(parts, " ")
}

const maxLeaves = 243

// extractTree enumerates the decision tree of fn. domain(key) lists the possible orders of an atom.
func extractTree(prog *ssa.Program, fn *ssa.Function, mkArgs func() []pred.Val, sums map[string]pred.Summary,
	fixed func(a, b pred.Val) (int, bool, bool), keyOf func(a, b pred.Val) (string, bool), domain func(key string) []int, prune ...func(assign map[string]int) bool) ([]leaf, error) {
	return extractTreeWith(prog, fn, mkArgs, sums, fixed, keyOf, domain, nil, prune...)
}

// extractTreeWith is extractTree with a resolver for package-level literal tables.
func extractTreeWith(prog *ssa.Program, fn *ssa.Function, mkArgs func() []pred.Val, sums map[string]pred.Summary,
	fixed func(a, b pred.Val) (int, bool, bool), keyOf func(a, b pred.Val) (string, bool), domain func(key string) []int,
	globals func(string) (pred.Val, bool), prune ...func(assign map[string]int) bool) ([]leaf, error) {
	return extractTreeFull(prog, fn, mkArgs, sums, fixed, keyOf, domain, globals, nil, prune...)
}

// extractTreeFull additionally takes a fallback summary for functions of the module.
func extractTreeFull(prog *ssa.Program, fn *ssa.Function, mkArgs func() []pred.Val, sums map[string]pred.Summary,
	fixed func(a, b pred.Val) (int, bool, bool), keyOf func(a, b pred.Val) (string, bool), domain func(key string) []int,
	globals func(string) (pred.Val, bool), fallback func(*ssa.Function, []pred.Val) (pred.Val, bool, error), prune ...func(assign map[string]int) bool) ([]leaf, error) {
	var leaves []leaf
	var rec func(assign map[string]int) error
	rec = func(assign map[string]int) error {
		if len(leaves) > maxLeaves {
			return fmt.Errorf("more than %d abstract valuations", maxLeaves)
		}
		o := &treeOracle{assign: assign, fixed: fixed, keyOf: keyOf, domain: domain, eqOnly: reflect.ValueOf(domain).Pointer() == reflect.ValueOf(binDomain).Pointer()}
		ev := &pred.Evaluator{Prog: prog, Oracle: o, Summaries: sums, GlobalInit: globals, Fallback: fallback}
		out, err := ev.Eval(fn, mkArgs())
		if err != nil && o.unknown != "" {
			for _, v := range domain(o.unknown) {
				a2 := map[string]int{}
				for k, x := range assign {
					a2[k] = x
				}
				a2[o.unknown] = v
				skip := false
				for _, pr := range prune {
					if !pr(a2) {
						skip = true
					}
				}
				if skip {
					continue
				}
				if err := rec(a2); err != nil {
					return err
				}
			}
			return nil
		}
		if err != nil && o.refused != "" {
			err = fmt.Errorf("%v (comparison outside the admissible atoms: %s)", err, o.refused)
		}
		cp := map[string]int{}
		for k, x := range assign {
			cp[k] = x
		}
		lf := leaf{Assign: cp, Out: out, Err: err, Asked: ev.Asked, Trace: ev.Trace}
		if treeSnapshot != nil {
			lf.final = treeSnapshot()
		}
		leaves = append(leaves, lf)
		return nil
	}
	if err := rec(map[string]int{}); err != nil {
		return nil, err
	}
	return leaves, nil
}
