package props

import (
	"encoding/json"
	"go/types"
	"os"
	"path/filepath"
	"sort"
	"strings"

	"golang.org/x/tools/go/ssa"

	"utilcheck/pred"
)

// Anchor fallback for pure renames of unexported helpers: /verif/anchors.json records, for the tree the rules were
// written against, the signature of every package-level function and the type of every package-level variable.
// When a rule asks for a name that no longer exists, the unique member of the same package with the recorded
// signature/type whose own name is not a recorded anchor is taken instead (and reported as renamed). Anything
// ambiguous stays a missing anchor.

type anchorFile struct {
	Funcs map[string]map[string]string `json:"funcs"` // pkg → name → signature
	Vars  map[string]map[string]string `json:"vars"`  // pkg → name → type
	// Shapes: pkg → name → parameter and result types without parameter names, in order ("ordered") and as sorted
	// multisets ("unordered") — the fallbacks for a rename that also renames or reorders parameters
	Shapes map[string]map[string][2]string `json:"shapes"`
	// Patterns: pkg → name → pattern text of a package-level *regexp.Regexp (several variables share that type, the
	// text tells a renamed one apart)
	Patterns map[string]map[string]string `json:"patterns"`
}

// sigShapes renders a signature without parameter names: in order, and with the parameter types sorted.
func sigShapes(sig *types.Signature) (ordered, unordered string) {
	var ps, rs []string
	if tp := sig.TypeParams(); tp != nil {
		for i := 0; i < tp.Len(); i++ {
			ps = append(ps, "<tp:"+types.TypeString(tp.At(i).Constraint(), qual)+">")
		}
	}
	nTP := len(ps)
	for i := 0; i < sig.Params().Len(); i++ {
		ps = append(ps, types.TypeString(sig.Params().At(i).Type(), qual))
	}
	for i := 0; i < sig.Results().Len(); i++ {
		rs = append(rs, types.TypeString(sig.Results().At(i).Type(), qual))
	}
	join := func(xs []string) string {
		out := ""
		for _, x := range xs {
			out += x + ";"
		}
		return out
	}
	ordered = join(ps) + "->" + join(rs)
	sorted := append([]string{}, ps[nTP:]...)
	sort.Strings(sorted)
	unordered = join(ps[:nTP]) + join(sorted) + "->" + join(rs)
	return
}

var anchors *anchorFile

func qual(p *types.Package) string { return p.Name() }

// LoadAnchors reads anchors.json (missing file: no fallback).
func LoadAnchors(vdir string) {
	b, err := os.ReadFile(filepath.Join(vdir, "anchors.json"))
	if err != nil {
		return
	}
	a := &anchorFile{}
	if json.Unmarshal(b, a) == nil {
		anchors = a
	}
}

// WriteAnchors records the anchors of the loaded tree.
func WriteAnchors(e *Env, vdir string) error {
	a := anchorFile{Funcs: map[string]map[string]string{}, Vars: map[string]map[string]string{}, Shapes: map[string]map[string][2]string{}, Patterns: map[string]map[string]string{}}
	for name, sp := range e.P.ByName {
		a.Funcs[name], a.Vars[name], a.Shapes[name] = map[string]string{}, map[string]string{}, map[string][2]string{}
		for mn, m := range sp.Members {
			switch x := m.(type) {
			case *ssa.Function:
				if x.Synthetic == "" {
					a.Funcs[name][mn] = types.TypeString(x.Signature, qual)
					o, u := sigShapes(x.Signature)
					a.Shapes[name][mn] = [2]string{o, u}
				}
			case *ssa.Global:
				a.Vars[name][mn] = types.TypeString(x.Type(), qual)
				if pat, ok := e.C.PatternOfGlobal(x); ok {
					if a.Patterns[name] == nil {
						a.Patterns[name] = map[string]string{}
					}
					a.Patterns[name][mn] = pat
				}
			}
		}
	}
	b, _ := json.MarshalIndent(a, "", " ")
	return os.WriteFile(filepath.Join(vdir, "anchors.json"), append(b, '\n'), 0o644)
}

func (e *Env) renamedFunc(pkg, name string) *ssa.Function {
	if anchors == nil || anchors.Funcs[pkg] == nil {
		return nil
	}
	want, ok := anchors.Funcs[pkg][name]
	sp := e.P.ByName[pkg]
	if !ok || sp == nil {
		return nil
	}
	var cands []string
	for mn, m := range sp.Members {
		f, isF := m.(*ssa.Function)
		if !isF || f.Synthetic != "" {
			continue
		}
		if _, known := anchors.Funcs[pkg][mn]; known {
			continue // an existing anchor keeps its own role
		}
		if types.TypeString(f.Signature, qual) == want {
			cands = append(cands, mn)
		}
	}
	sort.Strings(cands)
	if len(cands) == 1 {
		return sp.Func(cands[0])
	}
	// parameters renamed (same types in the same order), then parameters reordered (same multiset of types)
	if shape, ok := anchors.Shapes[pkg][name]; ok && len(cands) == 0 {
		for k := 0; k < 2; k++ {
			var cs []string
			for mn, m := range sp.Members {
				f, isF := m.(*ssa.Function)
				if !isF || f.Synthetic != "" {
					continue
				}
				if _, known := anchors.Funcs[pkg][mn]; known {
					continue
				}
				o, u := sigShapes(f.Signature)
				if [2]string{o, u}[k] == shape[k] {
					cs = append(cs, mn)
				}
			}
			if len(cs) == 1 {
				return sp.Func(cs[0])
			}
			if len(cs) > 1 {
				return nil
			}
		}
	}
	return nil
}

// ParamPerm maps the parameter positions a rule was written against (the recorded anchor `name`) to the positions
// of fn, when fn is that anchor after a reordering of its parameters: parameters are matched by type, equal types
// keep their relative order. nil when fn has the recorded order (or nothing is recorded).
func (e *Env) ParamPerm(pkg, name string, fn *ssa.Function) []int {
	if anchors == nil || anchors.Shapes[pkg] == nil || fn == nil {
		return nil
	}
	shape, ok := anchors.Shapes[pkg][name]
	if !ok {
		return nil
	}
	o, u := sigShapes(fn.Signature)
	if o == shape[0] || u != shape[1] {
		return nil
	}
	// recorded parameter types, in order (type parameters are bracketed and come first)
	split := func(s string) []string {
		var out []string
		cur := ""
		for _, part := range splitKeep(s[:indexOf(s, "->")]) {
			cur = part
			if len(cur) > 0 && !strings.HasPrefix(cur, "<tp:") {
				out = append(out, cur)
			}
		}
		return out
	}
	want := split(shape[0])
	have := split(o)
	if len(want) != len(have) {
		return nil
	}
	used := make([]bool, len(have))
	perm := make([]int, len(want))
	for i, t := range want {
		perm[i] = -1
		for j, h := range have {
			if !used[j] && h == t {
				perm[i], used[j] = j, true
				break
			}
		}
		if perm[i] < 0 {
			return nil
		}
	}
	return perm
}

func indexOf(s, sub string) int {
	for i := 0; i+len(sub) <= len(s); i++ {
		if s[i:i+len(sub)] == sub {
			return i
		}
	}
	return len(s)
}

func splitKeep(s string) []string {
	var out []string
	cur := ""
	for _, r := range s {
		if r == ';' {
			out = append(out, cur)
			cur = ""
			continue
		}
		cur += string(r)
	}
	return out
}

func (e *Env) renamedVar(pkg, name string) *ssa.Global {
	if anchors == nil || anchors.Vars[pkg] == nil {
		return nil
	}
	want, ok := anchors.Vars[pkg][name]
	sp := e.P.ByName[pkg]
	if !ok || sp == nil {
		return nil
	}
	var cands []string
	for mn, m := range sp.Members {
		g, isG := m.(*ssa.Global)
		if !isG {
			continue
		}
		if _, known := anchors.Vars[pkg][mn]; known {
			continue
		}
		if types.TypeString(g.Type(), qual) == want {
			cands = append(cands, mn)
		}
	}
	if len(cands) == 1 {
		return sp.Var(cands[0])
	}
	// several candidates of the same type: a regular expression is told apart by its pattern text
	if want, ok := anchors.Patterns[pkg][name]; ok && len(cands) > 1 {
		var hit []string
		for _, c := range cands {
			if pat, ok := e.C.PatternOfGlobal(sp.Var(c)); ok && pat == want {
				hit = append(hit, c)
			}
		}
		if len(hit) == 1 {
			return sp.Var(hit[0])
		}
	}
	return nil
}

// F resolves a package-level function (rename fallback applied), nil if absent; no obligation is recorded.
func (e *Env) F(pkg, name string) *ssa.Function {
	if f := e.P.Func(pkg, name); f != nil {
		return f
	}
	return e.renamedFunc(pkg, name)
}

// V resolves a package-level variable (rename fallback applied), nil if absent; no obligation is recorded.
func (e *Env) V(pkg, name string) *ssa.Global {
	if g := e.P.Var(pkg, name); g != nil {
		return g
	}
	return e.renamedVar(pkg, name)
}

// vname returns the current name of package-level variable `name` of pkg (after a pure rename), or name itself.
func (e *Env) vname(pkg, name string) string {
	if g := e.V(pkg, name); g != nil {
		return g.Name()
	}
	return name
}

// Permuted wraps an argument builder written for the recorded parameter order of anchor pkg.name so that it matches
// fn's order when fn is that anchor with its parameters reordered.
func (e *Env) Permuted(pkg, name string, fn *ssa.Function, mk func() []pred.Val) func() []pred.Val {
	perm := e.ParamPerm(pkg, name, fn)
	if perm == nil {
		return mk
	}
	return func() []pred.Val {
		args := mk()
		if len(args) != len(perm) {
			return args
		}
		out := make([]pred.Val, len(args))
		for i, j := range perm {
			out[j] = args[i]
		}
		return out
	}
}

// Unpermuted returns the arguments of a call to fn in the recorded parameter order of anchor pkg.name (the inverse of
// Permuted), so that summaries can describe calls independently of a reordering of the callee's parameters.
func (e *Env) Unpermuted(pkg, name string, fn *ssa.Function, args []pred.Val) []pred.Val {
	perm := e.ParamPerm(pkg, name, fn)
	if perm == nil || len(perm) != len(args) {
		return args
	}
	out := make([]pred.Val, len(args))
	for i, j := range perm {
		out[i] = args[j]
	}
	return out
}
