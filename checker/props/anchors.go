package props

import (
	"encoding/json"
	"go/types"
	"os"
	"path/filepath"
	"sort"

	"golang.org/x/tools/go/ssa"
)

// Anchor fallback for pure renames of unexported helpers: /verif/anchors.json records, for the tree the rules were
// written against, the signature of every package-level function and the type of every package-level variable.
// When a rule asks for a name that no longer exists, the unique member of the same package with the recorded
// signature/type whose own name is not a recorded anchor is taken instead (and reported as renamed). Anything
// ambiguous stays a missing anchor.

type anchorFile struct {
	Funcs map[string]map[string]string `json:"funcs"` // pkg → name → signature
	Vars  map[string]map[string]string `json:"vars"`  // pkg → name → type
}

var anchors *anchorFile

func qual(p *types.Package) string { return p.Name() }

// LoadAnchors reads anchors.json (missing file: no fallback).
func LoadAnchors(vdir string) {
	b, err := os.ReadFile(filepath.Join(vdir, "anchors.json"))
	if err != nil {
		return
	}
	a := &anchorFile{}
	if json.Unmarshal(b, a) == nil {
		anchors = a
	}
}

// WriteAnchors records the anchors of the loaded tree.
func WriteAnchors(e *Env, vdir string) error {
	a := anchorFile{Funcs: map[string]map[string]string{}, Vars: map[string]map[string]string{}}
	for name, sp := range e.P.ByName {
		a.Funcs[name], a.Vars[name] = map[string]string{}, map[string]string{}
		for mn, m := range sp.Members {
			switch x := m.(type) {
			case *ssa.Function:
				if x.Synthetic == "" {
					a.Funcs[name][mn] = types.TypeString(x.Signature, qual)
				}
			case *ssa.Global:
				a.Vars[name][mn] = types.TypeString(x.Type(), qual)
			}
		}
	}
	b, _ := json.MarshalIndent(a, "", " ")
	return os.WriteFile(filepath.Join(vdir, "anchors.json"), append(b, '\n'), 0o644)
}

func (e *Env) renamedFunc(pkg, name string) *ssa.Function {
	if anchors == nil || anchors.Funcs[pkg] == nil {
		return nil
	}
	want, ok := anchors.Funcs[pkg][name]
	sp := e.P.ByName[pkg]
	if !ok || sp == nil {
		return nil
	}
	var cands []string
	for mn, m := range sp.Members {
		f, isF := m.(*ssa.Function)
		if !isF || f.Synthetic != "" {
			continue
		}
		if _, known := anchors.Funcs[pkg][mn]; known {
			continue // an existing anchor keeps its own role
		}
		if types.TypeString(f.Signature, qual) == want {
			cands = append(cands, mn)
		}
	}
	sort.Strings(cands)
	if len(cands) == 1 {
		return sp.Func(cands[0])
	}
	return nil
}

func (e *Env) renamedVar(pkg, name string) *ssa.Global {
	if anchors == nil || anchors.Vars[pkg] == nil {
		return nil
	}
	want, ok := anchors.Vars[pkg][name]
	sp := e.P.ByName[pkg]
	if !ok || sp == nil {
		return nil
	}
	var cands []string
	for mn, m := range sp.Members {
		g, isG := m.(*ssa.Global)
		if !isG {
			continue
		}
		if _, known := anchors.Vars[pkg][mn]; known {
			continue
		}
		if types.TypeString(g.Type(), qual) == want {
			cands = append(cands, mn)
		}
	}
	if len(cands) == 1 {
		return sp.Var(cands[0])
	}
	return nil
}

// F resolves a package-level function (rename fallback applied), nil if absent; no obligation is recorded.
func (e *Env) F(pkg, name string) *ssa.Function {
	if f := e.P.Func(pkg, name); f != nil {
		return f
	}
	return e.renamedFunc(pkg, name)
}

// V resolves a package-level variable (rename fallback applied), nil if absent; no obligation is recorded.
func (e *Env) V(pkg, name string) *ssa.Global {
	if g := e.P.Var(pkg, name); g != nil {
		return g
	}
	return e.renamedVar(pkg, name)
}

// vname returns the current name of package-level variable `name` of pkg (after a pure rename), or name itself.
func (e *Env) vname(pkg, name string) string {
	if g := e.V(pkg, name); g != nil {
		return g.Name()
	}
	return name
}
