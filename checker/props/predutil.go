package props

import (
	"fmt"
	"go/constant"
	"go/token"
	"go/types"
	"strings"
	"utilcheck/flow"

	"utilcheck/tab"

	"utilcheck/pred"

	"golang.org/x/tools/go/ssa"
)

// ordOracle orders symbols by an explicit table keyed "a|b".
type ordOracle struct {
	ord map[string]int
}

func (o *ordOracle) Cmp(a, b pred.Val) (int, bool) {
	ka, kb := a.String(), b.String()
	if v, ok := o.ord[ka+"|"+kb]; ok {
		return v, true
	}
	if v, ok := o.ord[kb+"|"+ka]; ok {
		return -v, true
	}
	// x == "" is the emptiness test len(x) == 0 in another spelling
	if kb == `""` {
		if v, ok := o.ord["len("+ka+")|0"]; ok {
			return v, true
		}
	}
	return 0, false
}

type noOracle struct{}

func (noOracle) Cmp(a, b pred.Val) (int, bool) { return 0, false }

// symStruct builds a struct value whose fields are opaque symbols prefix.field.
func symStruct(t types.Type, prefix string) *pred.StructV {
	st := t.Underlying().(*types.Struct)
	s := &pred.StructV{T: st, Named: t, Fields: make([]pred.Val, st.NumFields())}
	for i := 0; i < st.NumFields(); i++ {
		s.Fields[i] = pred.Sym{Name: prefix + "." + st.Field(i).Name()}
	}
	return s
}

func boolOf(v pred.Val) (bool, bool) {
	c, ok := v.(pred.Const)
	if !ok || c.V == nil || c.V.Kind() != constant.Bool {
		return false, false
	}
	return constant.BoolVal(c.V), true
}

func intOf(v pred.Val) (int64, bool) {
	switch c := v.(type) {
	case pred.Const:
		if c.V == nil || c.V.Kind() != constant.Int {
			return 0, false
		}
		return constant.Int64Val(c.V)
	case pred.Bits:
		k, ok := c.Known()
		if !ok {
			return 0, false
		}
		return constant.Int64Val(k)
	}
	return 0, false
}

func sgn(x int) int {
	if x < 0 {
		return -1
	}
	if x > 0 {
		return 1
	}
	return 0
}

func constantInt(k int64) constant.Value { return constant.MakeInt64(k) }

// strEmptyKey: the atom "string symbol X is empty", however it is spelled: X == "" or len(X) compared with 0
// (order 0 = empty, 1 = non-empty in both spellings).
func strEmptyKey(a, b pred.Val) (string, bool) {
	c, ok := b.(pred.Const)
	if !ok || c.V == nil {
		return "", false
	}
	switch c.V.ExactString() {
	case `""`:
		if s, ok := a.(pred.Sym); ok {
			return s.Name + `==""`, true
		}
	case "0":
		if t, ok := a.(pred.Term); ok && t.Fn == "len" && len(t.Args) == 1 {
			if s, ok := t.Args[0].(pred.Sym); ok {
				return s.Name + `==""`, true
			}
		}
	}
	return "", false
}

// wrapsSentinel: the abstract error value v makes errors.Is(v, sentinel) true by construction: it is the sentinel
// itself (a load of the package variable, printed "*pkg.ErrX"), or fmt.Errorf(format, args…) whose argument bound to
// a %w verb is such a value (recursively), or a typed parse error of the module (a boxed pointer to a struct) whose
// error-typed field is. A sentinel that only appears as text (Err.Error() under %s, the value under %v) does not count.
func wrapsSentinel(v pred.Val, sentinel string) bool {
	switch x := v.(type) {
	case pred.Sym:
		return x.Name == sentinel
	case pred.Iface:
		if p, ok := x.V.(pred.Ptr); ok && p.Cell != nil {
			if s, ok := p.Cell.V.(*pred.StructV); ok {
				for _, f := range s.Fields {
					if wrapsSentinel(f, sentinel) {
						return true
					}
				}
			}
			return false
		}
		return wrapsSentinel(x.V, sentinel)
	case pred.Term:
		if !strings.HasPrefix(x.Fn, "fmt.Errorf") || len(x.Args) < 2 {
			return false
		}
		fc, ok := x.Args[0].(pred.Const)
		if !ok || fc.V == nil || fc.V.Kind() != constant.String {
			return false
		}
		sv, ok := x.Args[1].(*pred.SliceV)
		if !ok {
			return false
		}
		arg := 0
		for _, it := range flow.ParseFormat(constant.StringVal(fc.V)) {
			if it.Verb == 0 {
				continue
			}
			if it.ArgIx > 0 {
				arg = it.ArgIx - 1
			}
			if it.Verb == 'w' && arg < len(sv.Elems) && wrapsSentinel(sv.Elems[arg].V, sentinel) {
				return true
			}
			arg++
		}
	}
	return false
}

// errorfWrapped: the value bound to the (first) %w verb of v = fmt.Errorf(constant format, args…); nil if there is none.
func errorfWrapped(v pred.Val) pred.Val {
	x, ok := v.(pred.Term)
	if !ok || !strings.HasPrefix(x.Fn, "fmt.Errorf") || len(x.Args) < 2 {
		return nil
	}
	fc, ok := x.Args[0].(pred.Const)
	if !ok || fc.V == nil || fc.V.Kind() != constant.String {
		return nil
	}
	sv, ok := x.Args[1].(*pred.SliceV)
	if !ok {
		return nil
	}
	arg := 0
	for _, it := range flow.ParseFormat(constant.StringVal(fc.V)) {
		if it.Verb == 0 {
			continue
		}
		if it.ArgIx > 0 {
			arg = it.ArgIx - 1
		}
		if it.Verb == 'w' && arg < len(sv.Elems) {
			return sv.Elems[arg].V
		}
		arg++
	}
	return nil
}

// byteSinkSummaries models bytes.Buffer as an append-only byte sequence held in a cell, and fmt's printing functions
// as one uninterpreted rendering fmt.Sprintf(format, args) wherever it is sent (a writer that is such a buffer, a
// byte slice, a string).
func byteSinkSummaries() map[string]pred.Summary {
	sink := func(v pred.Val) (*pred.Cell, error) {
		if i, ok := v.(pred.Iface); ok {
			v = i.V
		}
		if p, ok := v.(pred.Ptr); ok && p.Cell != nil && p.Cell.Name == "bytes.Buffer" && len(p.Path) == 0 {
			return p.Cell, nil
		}
		return nil, &pred.Undecided{Reason: fmt.Sprintf("writer %v is not a bytes.Buffer created in the function", v)}
	}
	app := func(a, b pred.Val) pred.Val { return pred.Term{Fn: "builtin.append", Args: []pred.Val{a, b}} }
	write := func(ev *pred.Evaluator, args []pred.Val) (pred.Val, error) {
		c, err := sink(args[0])
		if err != nil {
			return nil, err
		}
		c.V = app(c.V, args[1])
		return pred.Tuple{pred.Term{Fn: "builtin.len", Args: []pred.Val{args[1]}}, pred.Const{}}, nil
	}
	newBuf := func(ev *pred.Evaluator, args []pred.Val) (pred.Val, error) {
		return pred.Ptr{Cell: &pred.Cell{V: args[0], Name: "bytes.Buffer"}}, nil
	}
	content := func(ev *pred.Evaluator, args []pred.Val) (pred.Val, error) {
		c, err := sink(args[0])
		if err != nil {
			return nil, err
		}
		return c.V, nil
	}
	render := func(args []pred.Val) pred.Val { return pred.Term{Fn: "fmt.Sprintf", Args: args} }
	return map[string]pred.Summary{
		"bytes.NewBuffer":             newBuf,
		"bytes.NewBufferString":       newBuf,
		"(*bytes.Buffer).Write":       write,
		"(*bytes.Buffer).WriteString": write,
		"(*bytes.Buffer).Bytes":       content,
		"(*bytes.Buffer).String":      content,
		"fmt.Sprintf": func(ev *pred.Evaluator, args []pred.Val) (pred.Val, error) {
			return render(args), nil
		},
		"fmt.Appendf": func(ev *pred.Evaluator, args []pred.Val) (pred.Val, error) {
			return app(args[0], render(args[1:])), nil
		},
		"fmt.Fprintf": func(ev *pred.Evaluator, args []pred.Val) (pred.Val, error) {
			c, err := sink(args[0])
			if err != nil {
				return nil, err
			}
			r := render(args[1:])
			c.V = app(c.V, r)
			return pred.Tuple{pred.Term{Fn: "builtin.len", Args: []pred.Val{r}}, pred.Const{}}, nil
		},
	}
}

// globalTables is the evaluator hook for package-level literal tables: a slice or array of constants that no
// function of the module writes after initialisation evaluates to its literal contents, whatever it is called.
func (e *Env) globalTables() func(name string) (pred.Val, bool) {
	cache := map[string]pred.Val{}
	miss := map[string]bool{}
	return func(name string) (pred.Val, bool) {
		if v, ok := cache[name]; ok {
			return v, true
		}
		if miss[name] {
			return nil, false
		}
		miss[name] = true
		i := strings.Index(name, ".")
		if i < 0 {
			return nil, false
		}
		pkg, vn := name[:i], name[i+1:]
		wantMap := strings.HasSuffix(vn, "#map")
		vn = strings.TrimSuffix(vn, "#map")
		p := e.P.ByPkg[pkg]
		g := e.P.Var(pkg, vn)
		if p == nil || g == nil || !e.C.WrittenOnlyByInit(g) {
			return nil, false
		}
		if mt, isMap := g.Type().Underlying().(*types.Pointer).Elem().Underlying().(*types.Map); isMap || wantMap {
			if !isMap || !wantMap {
				return nil, false
			}
			t, err := tab.Literal(p, vn)
			if err != nil {
				return nil, false
			}
			mv := &pred.MapV{Name: pkg + "." + vn, Entries: map[string]pred.Val{}, ElemT: mt.Elem()}
			for k, key := range t.Keys {
				if key == nil || t.Values[k] == nil {
					return nil, false
				}
				mv.Entries[key.ExactString()] = pred.Const{V: t.Values[k]}
			}
			delete(miss, name)
			cache[name] = mv
			return mv, true
		}
		var elemT types.Type
		switch t := g.Type().Underlying().(*types.Pointer).Elem().Underlying().(type) {
		case *types.Slice:
			elemT = t.Elem()
		case *types.Array:
			elemT = t.Elem()
		default:
			return nil, false
		}
		var cells []*pred.Cell
		if st, isStruct := elemT.Underlying().(*types.Struct); isStruct {
			// rows of a table of structs of constants
			rows, _, err := tab.StructRows(p, vn)
			if err != nil {
				return nil, false
			}
			for _, row := range rows {
				sv := &pred.StructV{T: st, Named: elemT, Fields: make([]pred.Val, st.NumFields())}
				for fi := 0; fi < st.NumFields(); fi++ {
					cv, ok := row[st.Field(fi).Name()]
					if !ok || cv == nil {
						return nil, false
					}
					sv.Fields[fi] = pred.Const{V: cv}
				}
				cells = append(cells, &pred.Cell{V: sv, Name: name})
			}
		} else {
			t, err := tab.Literal(p, vn)
			if err != nil {
				return nil, false
			}
			vals, err := t.SliceValues()
			if err != nil {
				return nil, false
			}
			for _, cv := range vals {
				if cv == nil {
					return nil, false
				}
				cells = append(cells, &pred.Cell{V: pred.Const{V: cv}, Name: name})
			}
		}
		var out pred.Val
		if _, isArr := g.Type().Underlying().(*types.Pointer).Elem().Underlying().(*types.Array); isArr {
			av := &pred.ArrayV{Elems: map[int64]*pred.Cell{}, Len: int64(len(cells))}
			for k, c := range cells {
				av.Elems[int64(k)] = c
			}
			out = av
		} else {
			out = &pred.SliceV{Elems: cells}
		}
		delete(miss, name)
		cache[name] = out
		return out, true
	}
}

// formatCall evaluates a formatter fn(buf, value, flag) with bytes.Buffer and fmt's printing functions modelled
// (byteSinkSummaries) and internal.Bprintf evaluated through (its body is decided by ruleBprintf), so that a formatter
// that calls Bprintf and one that has it inlined evaluate alike. The result must be (buf followed by one rendering
// fmt.Sprintf(format, operands...), nil); captured = [what the rendering is appended to, the format, the operands].
func (e *Env) formatCall(fn *ssa.Function, args []pred.Val) (captured []pred.Val, ret pred.Val, err error) {
	ev := &pred.Evaluator{Prog: e.P.SSA, GlobalInit: e.globalTables(), Oracle: noOracle{}, Summaries: byteSinkSummaries()}
	out, err := ev.Eval(fn, args)
	if err != nil {
		return nil, nil, err
	}
	ret = out.Ret
	t, ok := out.Ret.(pred.Tuple)
	if !ok || len(t) != 2 {
		return nil, ret, nil
	}
	app, ok := t[0].(pred.Term)
	if !ok || app.Fn != "builtin.append" || len(app.Args) != 2 {
		return nil, ret, nil
	}
	sp, ok := app.Args[1].(pred.Term)
	if !ok || sp.Fn != "fmt.Sprintf" || len(sp.Args) != 2 {
		return nil, ret, nil
	}
	return []pred.Val{app.Args[0], sp.Args[0], sp.Args[1]}, ret, nil
}

// newInlined adds, next to a summary of date.New, summaries of the two FromTime forms that stand for the same thing
// when New has been inlined at its call site: FromTime(time.Date(y, m, d, 0, 0, 0, 0, time.UTC)) is New(y, m, d)
// (that New is exactly that composition is the obligation of ruleNewDeleg). Anything else handed to FromTime is
// undecided here.
func newInlined(sums map[string]pred.Summary, mk func(args []pred.Val) pred.Val) {
	asNew := func(arg pred.Val) (pred.Val, error) {
		t, ok := arg.(pred.Term)
		if !ok || t.Fn != "time.Date" || len(t.Args) != 8 || t.Args[7].String() != "*time.UTC" {
			return nil, &pred.Undecided{Reason: fmt.Sprintf("FromTime applied to %v, not to time.Date(y, m, d, 0, 0, 0, 0, time.UTC)", arg)}
		}
		for _, a := range t.Args[3:7] {
			if a.String() != "0" {
				return nil, &pred.Undecided{Reason: fmt.Sprintf("FromTime applied to %v: not a midnight", arg)}
			}
		}
		return mk(t.Args[:3]), nil
	}
	sums["go.lstv.dev/util/date.FromTime"] = func(ev *pred.Evaluator, args []pred.Val) (pred.Val, error) {
		return asNew(args[0])
	}
	sums["(*go.lstv.dev/util/date.Date).FromTime"] = func(ev *pred.Evaluator, args []pred.Val) (pred.Val, error) {
		p, ok := args[0].(pred.Ptr)
		if !ok || p.Cell == nil || len(p.Path) != 0 {
			return nil, &pred.Undecided{Reason: "(*Date).FromTime on an unmodelled receiver"}
		}
		v, err := asNew(args[1])
		if err != nil {
			return nil, err
		}
		p.Cell.V = v
		return pred.Tuple{}, nil
	}
}

// flagTest decides what a branch condition says about one bit of a flags parameter: +1 if cond holds exactly when
// flags&bit != 0, -1 if exactly when flags&bit == 0, 0 if neither is shown. Recognised: the comparison of flags&bit
// with 0 or with bit, a negation, and a call of a function of the module with the flags and constants as arguments
// (a helper such as hasFlag(f, FormatLowerCase)), which is evaluated with that bit set and with it clear, every
// other bit unknown.
func (e *Env) flagTest(cond ssa.Value, flags ssa.Value, bit int64) int {
	switch x := cond.(type) {
	case *ssa.UnOp:
		if x.Op == token.NOT {
			return -e.flagTest(x.X, flags, bit)
		}
	case *ssa.BinOp:
		// the constant on the left (`0 < f&bit`, `0 != f&bit`): read as the mirrored comparison
		if _, leftConst := x.X.(*ssa.Const); leftConst {
			if _, rightConst := x.Y.(*ssa.Const); !rightConst {
				mirror := map[token.Token]token.Token{token.LSS: token.GTR, token.GTR: token.LSS, token.LEQ: token.GEQ, token.GEQ: token.LEQ, token.EQL: token.EQL, token.NEQ: token.NEQ}
				if op, ok := mirror[x.Op]; ok {
					return e.flagTest(&ssa.BinOp{Op: op, X: x.Y, Y: x.X}, flags, bit)
				}
			}
		}
		// `f&bit > 0` / `f&bit <= 0` (a positive single bit: the masked value is 0 or the bit) read as != 0 / == 0
		if (x.Op == token.GTR || x.Op == token.LEQ) && bit > 0 {
			if c, isC := flow.ConstInt(x.Y); isC && c == 0 {
				if and, ok := x.X.(*ssa.BinOp); ok && and.Op == token.AND {
					k, isK := flow.ConstInt(and.Y)
					other := and.X
					if !isK {
						k, isK = flow.ConstInt(and.X)
						other = and.Y
					}
					if isK && k == bit && flow.StripConv(other) == flags {
						if x.Op == token.GTR {
							return 1
						}
						return -1
					}
				}
			}
			return 0
		}
		if x.Op != token.EQL && x.Op != token.NEQ {
			return 0
		}
		and, ok := x.X.(*ssa.BinOp)
		if !ok || and.Op != token.AND {
			return 0
		}
		k, isK := flow.ConstInt(and.Y)
		other := and.X
		if !isK {
			k, isK = flow.ConstInt(and.X)
			other = and.Y
		}
		c, isC := flow.ConstInt(x.Y)
		if !isK || !isC || k != bit || flow.StripConv(other) != flags {
			return 0
		}
		switch {
		case c == 0 && x.Op == token.NEQ, c == bit && x.Op == token.EQL:
			return 1
		case c == 0 && x.Op == token.EQL, c == bit && x.Op == token.NEQ:
			return -1
		}
	case *ssa.Call:
		g := e.C.StaticCallee(&x.Call)
		if g == nil || !flow.InRepo(g) || bitIndex(bit) < 0 {
			return 0
		}
		res := [2]int{}
		for v := 0; v < 2; v++ {
			var args []pred.Val
			for _, a := range x.Call.Args {
				switch {
				case flow.StripConv(a) == flags:
					b := pred.SymBits("flags", pred.WordBits, true)
					b.B[bitIndex(bit)] = pred.Bit{K: byte('0' + v)}
					args = append(args, b)
				default:
					k, ok := flow.ConstInt(a)
					if !ok {
						return 0
					}
					args = append(args, pred.Const{V: constant.MakeInt64(k)})
				}
			}
			ev := &pred.Evaluator{Prog: e.P.SSA, GlobalInit: e.globalTables(), Oracle: noOracle{}}
			out, err := ev.Eval(flow.Origin(g), args)
			if err != nil || out.Panic {
				return 0
			}
			c, ok := out.Ret.(pred.Const)
			if !ok || c.V == nil || c.V.Kind() != constant.Bool {
				return 0
			}
			res[v] = map[bool]int{true: 1, false: -1}[constant.BoolVal(c.V)]
		}
		if res[1] == 1 && res[0] == -1 {
			return 1
		}
		if res[1] == -1 && res[0] == 1 {
			return -1
		}
	}
	return 0
}
