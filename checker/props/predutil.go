package props

import (
	"fmt"
	"go/constant"
	"go/types"
	"strings"
	"utilcheck/flow"

	"utilcheck/tab"

	"utilcheck/pred"
)

// ordOracle orders symbols by an explicit table keyed "a|b".
type ordOracle struct {
	ord map[string]int
}

func (o *ordOracle) Cmp(a, b pred.Val) (int, bool) {
	ka, kb := a.String(), b.String()
	if v, ok := o.ord[ka+"|"+kb]; ok {
		return v, true
	}
	if v, ok := o.ord[kb+"|"+ka]; ok {
		return -v, true
	}
	// x == "" is the emptiness test len(x) == 0 in another spelling
	if kb == `""` {
		if v, ok := o.ord["len("+ka+")|0"]; ok {
			return v, true
		}
	}
	return 0, false
}

type noOracle struct{}

func (noOracle) Cmp(a, b pred.Val) (int, bool) { return 0, false }

// symStruct builds a struct value whose fields are opaque symbols prefix.field.
func symStruct(t types.Type, prefix string) *pred.StructV {
	st := t.Underlying().(*types.Struct)
	s := &pred.StructV{T: st, Named: t, Fields: make([]pred.Val, st.NumFields())}
	for i := 0; i < st.NumFields(); i++ {
		s.Fields[i] = pred.Sym{Name: prefix + "." + st.Field(i).Name()}
	}
	return s
}

func boolOf(v pred.Val) (bool, bool) {
	c, ok := v.(pred.Const)
	if !ok || c.V == nil || c.V.Kind() != constant.Bool {
		return false, false
	}
	return constant.BoolVal(c.V), true
}

func intOf(v pred.Val) (int64, bool) {
	switch c := v.(type) {
	case pred.Const:
		if c.V == nil || c.V.Kind() != constant.Int {
			return 0, false
		}
		return constant.Int64Val(c.V)
	case pred.Bits:
		k, ok := c.Known()
		if !ok {
			return 0, false
		}
		return constant.Int64Val(k)
	}
	return 0, false
}

func sgn(x int) int {
	if x < 0 {
		return -1
	}
	if x > 0 {
		return 1
	}
	return 0
}

func constantInt(k int64) constant.Value { return constant.MakeInt64(k) }

// strEmptyKey: the atom "string symbol X is empty", however it is spelled: X == "" or len(X) compared with 0
// (order 0 = empty, 1 = non-empty in both spellings).
func strEmptyKey(a, b pred.Val) (string, bool) {
	c, ok := b.(pred.Const)
	if !ok || c.V == nil {
		return "", false
	}
	switch c.V.ExactString() {
	case `""`:
		if s, ok := a.(pred.Sym); ok {
			return s.Name + `==""`, true
		}
	case "0":
		if t, ok := a.(pred.Term); ok && t.Fn == "len" && len(t.Args) == 1 {
			if s, ok := t.Args[0].(pred.Sym); ok {
				return s.Name + `==""`, true
			}
		}
	}
	return "", false
}

// wrapsSentinel: the abstract error value v makes errors.Is(v, sentinel) true by construction: it is the sentinel
// itself (a load of the package variable, printed "*pkg.ErrX"), or fmt.Errorf(format, args…) whose argument bound to
// a %w verb is such a value (recursively), or a typed parse error of the module (a boxed pointer to a struct) whose
// error-typed field is. A sentinel that only appears as text (Err.Error() under %s, the value under %v) does not count.
func wrapsSentinel(v pred.Val, sentinel string) bool {
	switch x := v.(type) {
	case pred.Sym:
		return x.Name == sentinel
	case pred.Iface:
		if p, ok := x.V.(pred.Ptr); ok && p.Cell != nil {
			if s, ok := p.Cell.V.(*pred.StructV); ok {
				for _, f := range s.Fields {
					if wrapsSentinel(f, sentinel) {
						return true
					}
				}
			}
			return false
		}
		return wrapsSentinel(x.V, sentinel)
	case pred.Term:
		if !strings.HasPrefix(x.Fn, "fmt.Errorf") || len(x.Args) < 2 {
			return false
		}
		fc, ok := x.Args[0].(pred.Const)
		if !ok || fc.V == nil || fc.V.Kind() != constant.String {
			return false
		}
		sv, ok := x.Args[1].(*pred.SliceV)
		if !ok {
			return false
		}
		arg := 0
		for _, it := range flow.ParseFormat(constant.StringVal(fc.V)) {
			if it.Verb == 0 {
				continue
			}
			if it.ArgIx > 0 {
				arg = it.ArgIx - 1
			}
			if it.Verb == 'w' && arg < len(sv.Elems) && wrapsSentinel(sv.Elems[arg].V, sentinel) {
				return true
			}
			arg++
		}
	}
	return false
}

// errorfWrapped: the value bound to the (first) %w verb of v = fmt.Errorf(constant format, args…); nil if there is none.
func errorfWrapped(v pred.Val) pred.Val {
	x, ok := v.(pred.Term)
	if !ok || !strings.HasPrefix(x.Fn, "fmt.Errorf") || len(x.Args) < 2 {
		return nil
	}
	fc, ok := x.Args[0].(pred.Const)
	if !ok || fc.V == nil || fc.V.Kind() != constant.String {
		return nil
	}
	sv, ok := x.Args[1].(*pred.SliceV)
	if !ok {
		return nil
	}
	arg := 0
	for _, it := range flow.ParseFormat(constant.StringVal(fc.V)) {
		if it.Verb == 0 {
			continue
		}
		if it.ArgIx > 0 {
			arg = it.ArgIx - 1
		}
		if it.Verb == 'w' && arg < len(sv.Elems) {
			return sv.Elems[arg].V
		}
		arg++
	}
	return nil
}

// byteSinkSummaries models bytes.Buffer as an append-only byte sequence held in a cell, and fmt's printing functions
// as one uninterpreted rendering fmt.Sprintf(format, args) wherever it is sent (a writer that is such a buffer, a
// byte slice, a string).
func byteSinkSummaries() map[string]pred.Summary {
	sink := func(v pred.Val) (*pred.Cell, error) {
		if i, ok := v.(pred.Iface); ok {
			v = i.V
		}
		if p, ok := v.(pred.Ptr); ok && p.Cell != nil && p.Cell.Name == "bytes.Buffer" && len(p.Path) == 0 {
			return p.Cell, nil
		}
		return nil, &pred.Undecided{Reason: fmt.Sprintf("writer %v is not a bytes.Buffer created in the function", v)}
	}
	app := func(a, b pred.Val) pred.Val { return pred.Term{Fn: "builtin.append", Args: []pred.Val{a, b}} }
	write := func(ev *pred.Evaluator, args []pred.Val) (pred.Val, error) {
		c, err := sink(args[0])
		if err != nil {
			return nil, err
		}
		c.V = app(c.V, args[1])
		return pred.Tuple{pred.Term{Fn: "builtin.len", Args: []pred.Val{args[1]}}, pred.Const{}}, nil
	}
	newBuf := func(ev *pred.Evaluator, args []pred.Val) (pred.Val, error) {
		return pred.Ptr{Cell: &pred.Cell{V: args[0], Name: "bytes.Buffer"}}, nil
	}
	content := func(ev *pred.Evaluator, args []pred.Val) (pred.Val, error) {
		c, err := sink(args[0])
		if err != nil {
			return nil, err
		}
		return c.V, nil
	}
	render := func(args []pred.Val) pred.Val { return pred.Term{Fn: "fmt.Sprintf", Args: args} }
	return map[string]pred.Summary{
		"bytes.NewBuffer":             newBuf,
		"bytes.NewBufferString":       newBuf,
		"(*bytes.Buffer).Write":       write,
		"(*bytes.Buffer).WriteString": write,
		"(*bytes.Buffer).Bytes":       content,
		"(*bytes.Buffer).String":      content,
		"fmt.Sprintf": func(ev *pred.Evaluator, args []pred.Val) (pred.Val, error) {
			return render(args), nil
		},
		"fmt.Appendf": func(ev *pred.Evaluator, args []pred.Val) (pred.Val, error) {
			return app(args[0], render(args[1:])), nil
		},
		"fmt.Fprintf": func(ev *pred.Evaluator, args []pred.Val) (pred.Val, error) {
			c, err := sink(args[0])
			if err != nil {
				return nil, err
			}
			r := render(args[1:])
			c.V = app(c.V, r)
			return pred.Tuple{pred.Term{Fn: "builtin.len", Args: []pred.Val{r}}, pred.Const{}}, nil
		},
	}
}

// globalTables is the evaluator hook for package-level literal tables: a slice or array of constants that no
// function of the module writes after initialisation evaluates to its literal contents, whatever it is called.
func (e *Env) globalTables() func(name string) (pred.Val, bool) {
	cache := map[string]pred.Val{}
	miss := map[string]bool{}
	return func(name string) (pred.Val, bool) {
		if v, ok := cache[name]; ok {
			return v, true
		}
		if miss[name] {
			return nil, false
		}
		miss[name] = true
		i := strings.Index(name, ".")
		if i < 0 {
			return nil, false
		}
		pkg, vn := name[:i], name[i+1:]
		p := e.P.ByPkg[pkg]
		g := e.P.Var(pkg, vn)
		if p == nil || g == nil || !e.C.WrittenOnlyByInit(g) {
			return nil, false
		}
		var elemT types.Type
		switch t := g.Type().Underlying().(*types.Pointer).Elem().Underlying().(type) {
		case *types.Slice:
			elemT = t.Elem()
		case *types.Array:
			elemT = t.Elem()
		default:
			return nil, false
		}
		var cells []*pred.Cell
		if st, isStruct := elemT.Underlying().(*types.Struct); isStruct {
			// rows of a table of structs of constants
			rows, _, err := tab.StructRows(p, vn)
			if err != nil {
				return nil, false
			}
			for _, row := range rows {
				sv := &pred.StructV{T: st, Named: elemT, Fields: make([]pred.Val, st.NumFields())}
				for fi := 0; fi < st.NumFields(); fi++ {
					cv, ok := row[st.Field(fi).Name()]
					if !ok || cv == nil {
						return nil, false
					}
					sv.Fields[fi] = pred.Const{V: cv}
				}
				cells = append(cells, &pred.Cell{V: sv, Name: name})
			}
		} else {
			t, err := tab.Literal(p, vn)
			if err != nil {
				return nil, false
			}
			vals, err := t.SliceValues()
			if err != nil {
				return nil, false
			}
			for _, cv := range vals {
				if cv == nil {
					return nil, false
				}
				cells = append(cells, &pred.Cell{V: pred.Const{V: cv}, Name: name})
			}
		}
		var out pred.Val
		if _, isArr := g.Type().Underlying().(*types.Pointer).Elem().Underlying().(*types.Array); isArr {
			av := &pred.ArrayV{Elems: map[int64]*pred.Cell{}, Len: int64(len(cells))}
			for k, c := range cells {
				av.Elems[int64(k)] = c
			}
			out = av
		} else {
			out = &pred.SliceV{Elems: cells}
		}
		delete(miss, name)
		cache[name] = out
		return out, true
	}
}
