package props

import (
	"go/constant"
	"go/types"

	"utilcheck/pred"
)

// ordOracle orders symbols by an explicit table keyed "a|b".
type ordOracle struct {
	ord map[string]int
}

func (o *ordOracle) Cmp(a, b pred.Val) (int, bool) {
	ka, kb := a.String(), b.String()
	if v, ok := o.ord[ka+"|"+kb]; ok {
		return v, true
	}
	if v, ok := o.ord[kb+"|"+ka]; ok {
		return -v, true
	}
	return 0, false
}

type noOracle struct{}

func (noOracle) Cmp(a, b pred.Val) (int, bool) { return 0, false }

// symStruct builds a struct value whose fields are opaque symbols prefix.field.
func symStruct(t types.Type, prefix string) *pred.StructV {
	st := t.Underlying().(*types.Struct)
	s := &pred.StructV{T: st, Named: t, Fields: make([]pred.Val, st.NumFields())}
	for i := 0; i < st.NumFields(); i++ {
		s.Fields[i] = pred.Sym{Name: prefix + "." + st.Field(i).Name()}
	}
	return s
}

func boolOf(v pred.Val) (bool, bool) {
	c, ok := v.(pred.Const)
	if !ok || c.V == nil || c.V.Kind() != constant.Bool {
		return false, false
	}
	return constant.BoolVal(c.V), true
}

func intOf(v pred.Val) (int64, bool) {
	switch c := v.(type) {
	case pred.Const:
		if c.V == nil || c.V.Kind() != constant.Int {
			return 0, false
		}
		return constant.Int64Val(c.V)
	case pred.Bits:
		k, ok := c.Known()
		if !ok {
			return 0, false
		}
		return constant.Int64Val(k)
	}
	return 0, false
}

func sgn(x int) int {
	if x < 0 {
		return -1
	}
	if x > 0 {
		return 1
	}
	return 0
}

func constantInt(k int64) constant.Value { return constant.MakeInt64(k) }
