package props

import (
	"fmt"
	"go/constant"
	"go/token"
	"sort"
	"strings"

	"golang.org/x/tools/go/ssa"

	"utilcheck/flow"
	"utilcheck/lang"
	"utilcheck/pred"
)

func init() {
	register(&Prop{
		ID:    "C10",
		Title: "Roman parser recognises exactly the documented numerals with the right value",
		Run:   runC10,
		Explanation: "C10.lang: L(roman.pattern) equals the reference language built from the statement (any number of M; per position five? one{0,4} | one five | one ten; case-insensitive), decided on DFAs with a shortest witness on difference. " +
			"C10.same: Valid and DefaultParser share checkInputLength and match the same pattern; after a successful match the parser has no error return. " +
			"C10.groups: the regexp's skeleton is ^<1><2><3><4>$; every sum and product on the way to the result is 64 bits wide on the analysed target (int is 32 bits under GOARCH=386: the thorough tier's second pass); and the value itself is decided on the finite languages of the three group captures (enumerated from the regexp's DFA): DefaultParser is evaluated abstractly — non-empty input within the limit, the thousands capture symbolic — for every spelling of every group in either letter case, the other groups empty, and for every combination of upper-case spellings of the three groups; the result must be len(capture 1) × 1000 + the value an independent reading of the spellings gives (five-symbol then ones; one before five = 4, before ten = 9; ones only), whatever shape the value function has. " +
			"C10.empty, S-ERRZERO, S-WRAP, typed errors, limit strictness for package roman. Only roman.parseGroup (the function C10.value decides) is abstracted as \"the value of a group\"; any other function on the way is evaluated; a conversion of the sum or of a term to a narrower integer type is reported like a narrow sum. C10.empty: the empty-input scenarios are evaluated with the rule value as a bit vector whose RuleDisableEmptyAsZero bit is fixed and whose other bits are unknown.",
		NotDecided:  []string{"uint64 overflow of len(capture 1) × 1000 (needs > 1.8e16 M, beyond any input limit)"},
		Assumptions: []string{"regexp/syntax compiles the pattern to the automaton regexp executes"},
		Technique:   "regular-language equality on DFAs + constant-set propagation over go/ssa",
	})
}

func runC10(e *Env) {
	ruleC10Lang(e)
	ruleC10Same(e)
	ruleRomanSum(e, "C10.groups")
	ruleDeleg(e, "C10.deleg", "roman")
	e.S.Floor("C10.deleg", 12)
	n0 := len(e.S.Obs)
	ruleC02Zero(e)
	for i := n0; i < len(e.S.Obs); i++ {
		if e.S.Obs[i].Rule == "C02.zero" {
			e.S.Obs[i].Rule = "C10.empty"
		}
	}
	// "every other text is rejected", by the parser and by Valid alike
	ruleNoMatchRejects(e, "C10.reject", e.Fn("C10.reject", "roman", "DefaultParser"), e.Fn("C10.reject", "roman", "Valid"))
	e.S.Floor("C10.reject", 2)
	e.S.Floor("C10.groups", 6)
	e.S.Floor("C10.empty", 2)
	ruleErrZero(e, "C10.errzero", "roman")
	ruleWrap(e, "C10.wrap", "roman")
	ruleLimitAccept(e, "C10.limit", "roman")
	ruleTyped(e, "C10.typed", "roman")
	e.S.Floor("C10.typed", 1)
	e.S.Floor("C10.errzero", 3)
	e.S.Floor("C10.limit", 2)
}

// romanReference builds the documented numeral language from the statement: any number of M, then a hundreds,
// tens and units group, each additive (optional five-symbol, up to four one-symbols) or subtractive (four / nine
// form); case-insensitive, written with explicit two-case classes.
func romanReference() string {
	cls := func(c byte) string { return "[" + string(c) + string(c|0x20) + "]" }
	group := func(one, five, ten byte) string {
		return `(?:` + cls(five) + `?` + cls(one) + `{0,4}|` + cls(one) + cls(five) + `|` + cls(one) + cls(ten) + `)`
	}
	return `^` + cls('M') + `*` + group('C', 'D', 'M') + group('X', 'L', 'C') + group('I', 'V', 'X') + `$`
}

func ruleC10Lang(e *Env) {
	const rule = "C10.lang"
	pat, ok := e.pattern(rule, "roman", "pattern")
	if !ok {
		return
	}
	sp, ds, err := lang.Build(pat, romanReference(), `^[MDCLXVImdclxvi]*$`)
	if err != nil {
		e.S.Unk(rule, "roman.pattern", "automaton", "language not decidable by the supported subset: "+err.Error(), "")
		return
	}
	e.langEqual(rule, "roman.pattern", "language", sp, ds[0], ds[1], "roman.pattern", "documented numerals (statement-built reference)")
	e.langSubset(rule, "roman.pattern", "alphabet", sp, ds[0], ds[2], "roman.pattern", "[MDCLXVImdclxvi]*")
	if n, err := lang.NumCap(pat); err != nil || n != 4 {
		e.S.Bad(rule, "roman.pattern", "captures", fmt.Sprintf("pattern must have 4 capture groups (thousands, hundreds, tens, units), has %d", n), "", "")
	} else {
		e.S.Ok(rule, "roman.pattern", "captures", "4 capture groups", "")
	}
}

// ruleC10Same: Valid and DefaultParser accept the same set: both call checkInputLength first and match the same
// pattern global; after a successful match the parser has no error return.
func ruleC10Same(e *Env) {
	const rule = "C10.same"
	dp := e.Fn(rule, "roman", "DefaultParser")
	va := e.Fn(rule, "roman", "Valid")
	if dp == nil || va == nil {
		return
	}
	type info struct {
		guard  *ssa.Function
		global *ssa.Global
		call   *ssa.Call
	}
	get := func(fn *ssa.Function) (info, bool) {
		var in info
		for _, call := range e.C.Calls(fn, func(f *ssa.Function) bool { return true }) {
			callee := e.C.StaticCallee(&call.Call)
			// the guard: the first call of a module function in the entry block that is handed the input (at whatever
			// position the parameter list has it) — not an error constructor further down
			if flow.InRepo(callee) && in.guard == nil && len(fn.Blocks) > 0 && call.Block() == fn.Blocks[0] {
				for _, a := range call.Call.Args {
					if a == ssa.Value(fn.Params[0]) {
						in.guard = callee
					}
				}
			}
			if strings.HasPrefix(callee.String(), "(*regexp.Regexp).") {
				if in.call != nil {
					return in, false
				}
				in.call = call
				in.global = flow.GlobalLoad(call.Call.Args[0])
			}
		}
		return in, in.guard != nil && in.global != nil
	}
	a, ok1 := get(dp)
	b, ok2 := get(va)
	if !ok1 || !ok2 {
		e.S.Unk(rule, "roman.DefaultParser/Valid", "shape", "could not identify the length guard helper and the single regexp call in both functions", "")
		return
	}
	if a.guard == b.guard {
		e.S.Ok(rule, "roman.DefaultParser/Valid", "guard", "both call "+flow.FnName(a.guard)+" on the input first", "")
	} else {
		e.S.Bad(rule, "roman.DefaultParser/Valid", "guard", "Valid and DefaultParser use different length/empty guards: "+flow.FnName(b.guard)+" vs "+flow.FnName(a.guard), "", "")
	}
	if a.global == b.global {
		e.S.Ok(rule, "roman.DefaultParser/Valid", "pattern", "both match against roman."+a.global.Name(), "")
	} else {
		e.S.Bad(rule, "roman.DefaultParser/Valid", "pattern", "Valid matches "+b.global.Name()+" but the parser matches "+a.global.Name(), "", "")
	}
	// the regexp subject is the whole input in both
	for _, x := range []struct {
		fn *ssa.Function
		in info
	}{{dp, a}, {va, b}} {
		subj := x.in.call.Call.Args[1]
		if flow.RootParam(subj) == x.fn.Params[0] && !flow.HasSliceOnPath(subj) {
			e.S.Ok(rule, flow.FnName(x.fn), "subject", "the whole input is matched", "")
		} else {
			e.S.Bad(rule, flow.FnName(x.fn), "subject", "the regexp is applied to something other than the whole input", e.posOf(x.in.call), "")
		}
	}
	// Valid looks at nothing the parser does not look at: every branch of it is decided by the guard's answers or by
	// the match (a further test — a length, a letter, the rule value — makes it refuse or admit texts on its own), and
	// the guard is handed Valid's own input and rule unchanged
	{
		site := flow.FnName(va)
		var guardCall *ssa.Call
		for _, call := range e.C.Calls(va, flow.InRepo) {
			if e.C.StaticCallee(&call.Call) == b.guard {
				guardCall = call
			}
		}
		var fromCalls func(v ssa.Value, depth int) bool
		fromCalls = func(v ssa.Value, depth int) bool {
			if depth > 6 {
				return false
			}
			switch x := v.(type) {
			case *ssa.Const:
				return true
			case *ssa.Call:
				if x == b.call || x == guardCall {
					return true
				}
				if bi, ok := x.Call.Value.(*ssa.Builtin); ok && bi.Name() == "len" {
					return fromCalls(x.Call.Args[0], depth+1)
				}
				return false
			case *ssa.Extract:
				return fromCalls(x.Tuple, depth+1)
			case *ssa.BinOp:
				return fromCalls(x.X, depth+1) && fromCalls(x.Y, depth+1)
			case *ssa.UnOp:
				return fromCalls(x.X, depth+1)
			case *ssa.Phi:
				for _, ed := range x.Edges {
					if !fromCalls(ed, depth+1) {
						return false
					}
				}
				return true
			}
			return false
		}
		bad := ""
		var at ssa.Instruction
		for _, blk := range va.Blocks {
			if iff, ok := blk.Instrs[len(blk.Instrs)-1].(*ssa.If); ok && !fromCalls(iff.Cond, 0) {
				bad, at = iff.Cond.String(), iff
			}
		}
		passes := guardCall != nil
		if guardCall != nil {
			for _, arg := range guardCall.Call.Args {
				if _, isC := arg.(*ssa.Const); isC {
					continue
				}
				if p, isP := arg.(*ssa.Parameter); !isP || p.Parent() != va {
					passes = false
				}
			}
		}
		switch {
		case bad != "":
			e.S.Bad(rule, site, "nothing else", "Valid branches on "+bad+", which is neither the guard's answer nor the match: it refuses or admits texts the parser treats otherwise", e.posOf(at), "Ix")
		case !passes:
			e.S.Bad(rule, site, "nothing else", "the guard is not handed Valid's own input and rule unchanged", e.Pos(va), "the empty text under a rule with a second bit set")
		default:
			e.S.Ok(rule, site, "nothing else", "every branch of Valid is decided by the guard's answers or the match; the guard gets Valid's input and rule as they are", e.Pos(va))
		}
	}
	// after the match test, the parser has no further error return
	okBlk := matchOKBlock(a.call)
	if okBlk == nil {
		e.S.Unk(rule, flow.FnName(dp), "post-match", "match result is not tested in the recognised form (len(p) == 0 / p == nil)", e.posOf(a.call))
		return
	}
	bad := false
	for _, r := range flow.Returns(dp) {
		if (okBlk == r.Block() || okBlk.Dominates(r.Block())) && !flow.IsNilConst(r.Results[len(r.Results)-1]) {
			e.S.Bad(rule, flow.FnName(dp), "post-match", "the parser can still fail after the pattern matched: Valid and the parser accept different sets", e.posOf(r), "")
			bad = true
		}
	}
	if !bad {
		e.S.Ok(rule, flow.FnName(dp), "post-match", "no error return after a successful match", "")
	}
}

// matchOKBlock returns the block entered when the FindSubmatch result is non-empty.
func matchOKBlock(call *ssa.Call) *ssa.BasicBlock {
	// the successor entered when the match result is non-empty: len(p) compared with 0 or 1 in any spelling
	// (== 0, != 0, > 0, >= 1, < 1, <= 0, mirrored), or p compared with nil
	for _, r := range *call.Referrers() {
		var cmp *ssa.BinOp
		isLen := false
		switch x := r.(type) {
		case *ssa.Call: // len(p)
			if bi, ok := x.Call.Value.(*ssa.Builtin); ok && bi.Name() == "len" {
				for _, r2 := range *x.Referrers() {
					if bo, ok := r2.(*ssa.BinOp); ok {
						cmp, isLen = bo, true
					}
				}
			}
		case *ssa.BinOp:
			cmp = x
		}
		if cmp == nil {
			continue
		}
		op := cmp.Op
		other := cmp.Y
		if _, lhsConst := cmp.X.(*ssa.Const); lhsConst { // mirror: constant on the right
			other = cmp.X
			switch op {
			case token.LSS:
				op = token.GTR
			case token.GTR:
				op = token.LSS
			case token.LEQ:
				op = token.GEQ
			case token.GEQ:
				op = token.LEQ
			}
		}
		nonEmptyOnTrue, known := false, false
		if isLen {
			if k, ok := flow.ConstInt(other); ok {
				switch {
				case k == 0 && (op == token.NEQ || op == token.GTR), k == 1 && op == token.GEQ:
					nonEmptyOnTrue, known = true, true
				case k == 0 && (op == token.EQL || op == token.LEQ), k == 1 && op == token.LSS:
					nonEmptyOnTrue, known = false, true
				}
			}
		} else if flow.IsNilConst(other) {
			switch op {
			case token.NEQ:
				nonEmptyOnTrue, known = true, true
			case token.EQL:
				nonEmptyOnTrue, known = false, true
			}
		}
		if !known {
			continue
		}
		for _, r3 := range *cmp.Referrers() {
			if iff, ok := r3.(*ssa.If); ok {
				if nonEmptyOnTrue {
					return iff.Block().Succs[0]
				}
				return iff.Block().Succs[1]
			}
		}
	}
	return nil
}

// romanAlphabet returns the ASCII letters that occur in words of roman.pattern (from its automaton).
func romanAlphabet(e *Env) string {
	g := e.V("roman", "pattern")
	if g == nil {
		return ""
	}
	pat, ok := e.C.PatternOfGlobal(g)
	if !ok {
		return ""
	}
	sp, ds, err := lang.Build(pat)
	if err != nil {
		return ""
	}
	return sp.Alphabet(ds[0])
}

// ruleC10Value: the value function of a group as a decision table, and that table evaluated (inside the checker)
// on every word of the group's capture language against an independent roman-numeral evaluator.
func ruleC10Value(e *Env) {
	ruleGroupValue(e, "C10.value", nil)
}

// ruleGroupValue: see ruleC10Value; digits (optional) maps capture → emitted literal → decimal digit and adds the
// group-level round trip formatter literal ↦ value function ↦ digit.
func ruleGroupValue(e *Env, rule string, digits map[int]map[string]int) {
	pg := e.Fn(rule, "roman", "parseGroup")
	if pg == nil {
		return
	}
	site := flow.FnName(pg)
	keyOf := func(a, b pred.Val) (string, bool) {
		if a.String() == "len(input)" {
			if c, ok := b.(pred.Const); ok && c.V != nil {
				return "len==" + c.V.ExactString(), true
			}
		}
		if el, ok := a.(pred.Elem); ok && el.Base.String() == "input" {
			if ic, ok := el.Index.(pred.Const); ok && ic.V != nil {
				if cn, ok := pred.Canon(b); ok && (cn.Root == "digit5" || cn.Root == "digit10") && (cn.C == 0 || cn.C == 32) {
					return fmt.Sprintf("in[%s]==%s+%d", ic.V.ExactString(), cn.Root, cn.C), true
				}
			}
		}
		return "", false
	}
	prune := func(assign map[string]int) bool {
		eq := map[string]int{}
		for k, v := range assign {
			if v == 0 {
				if i := strings.Index(k, "=="); i > 0 {
					eq[k[:i]]++
				}
			}
		}
		for _, n := range eq {
			if n > 1 {
				return false
			}
		}
		return true
	}
	mk := func() []pred.Val {
		return []pred.Val{pred.Sym{Name: "input"}, pred.Sym{Name: "unit"}, pred.Sym{Name: "digit5"}, pred.Sym{Name: "digit10"}}
	}
	leaves, err := extractTree(e.P.SSA, pg, e.Permuted("roman", "parseGroup", pg, mk), nil, nil, keyOf, binDomain, prune)
	if err != nil {
		e.S.Unk(rule, site, "table", err.Error(), e.Pos(pg))
		return
	}
	// interpret an outcome term as a function of the word length
	outcome := func(v pred.Val) (func(l int64) int64, string, bool) {
		s := canonVal(v).String()
		switch {
		case s == "0":
			return func(int64) int64 { return 0 }, "0", true
		case s == "unit":
			return func(int64) int64 { return 1 }, "unit", true
		}
		var k int64
		if n, _ := fmt.Sscanf(s, "*(%d,unit)", &k); n == 1 {
			return func(int64) int64 { return k }, fmt.Sprintf("%d·unit", k), true
		}
		if s == "*(len(input),unit)" {
			return func(l int64) int64 { return l }, "len·unit", true
		}
		if n, _ := fmt.Sscanf(s, "*(len(input)%d,unit)", &k); n == 1 {
			return func(l int64) int64 { return l + k }, fmt.Sprintf("(len%+d)·unit", k), true
		}
		return nil, s, false
	}
	type rowT struct {
		assign map[string]int
		f      func(int64) int64
		desc   string
	}
	var table []rowT
	okTable := true
	for _, lf := range leaves {
		if lf.Err != nil {
			e.S.Unk(rule, site, lf.String(), lf.Err.Error(), e.Pos(pg))
			okTable = false
			continue
		}
		f, desc, ok := outcome(lf.Out.Ret)
		if !ok {
			e.S.Unk(rule, site, lf.String(), "result "+desc+" is not of the form k·unit / (len+k)·unit", e.Pos(pg))
			okTable = false
			continue
		}
		table = append(table, rowT{lf.Assign, f, desc})
	}
	if !okTable {
		return
	}
	e.S.Ok(rule, site, "table", fmt.Sprintf("value function extracted as a %d-row decision table over (length, first two bytes vs five/ten symbol in either case)", len(table)), e.Pos(pg))
	// evaluate the table on a concrete word with concrete symbols (checker-side, no repository code involved)
	apply := func(word string, five, ten byte) (int64, bool) {
		for _, r := range table {
			match := true
			for k, v := range r.assign {
				var truth bool
				var idx int
				var sym string
				var off int
				switch {
				case strings.HasPrefix(k, "len=="):
					var n int
					fmt.Sscanf(k, "len==%d", &n)
					truth = len(word) == n
				default:
					if n, _ := fmt.Sscanf(k, "in[%d]==", &idx); n != 1 {
						return 0, false
					}
					rest := k[strings.Index(k, "==")+2:]
					if n, _ := fmt.Sscanf(strings.Replace(rest, "+", " ", 1), "%s %d", &sym, &off); n != 2 {
						return 0, false
					}
					if idx >= len(word) {
						return 0, false // the table reads a byte the word does not have: index out of range
					}
					c := five
					if sym == "digit10" {
						c = ten
					}
					truth = word[idx] == c+byte(off)
				}
				if truth != (v == 0) {
					match = false
					break
				}
			}
			if match {
				return r.f(int64(len(word))), true
			}
		}
		return 0, false
	}
	pat, ok := e.pattern(rule, "roman", "pattern")
	if !ok {
		return
	}
	for _, p := range romanPositions {
		sub, err := lang.CaptureSub(pat, p.capture)
		if err != nil {
			continue
		}
		sp, ds, err := lang.Build(`^(?:` + sub + `)$`)
		if err != nil {
			continue
		}
		if sp.MaxLen(ds[0]) < 0 || sp.MaxLen(ds[0]) > 6 {
			e.S.Unk(rule, "roman.pattern", p.table, "capture language is not a small finite language", "")
			continue
		}
		words := enumerateWords(sp, ds[0], 6, "IVXLCDMivxlcdm")
		bad := ""
		for _, w := range words {
			got, ok := apply(w, p.five[0], p.ten[0])
			want := romanValue(strings.ToUpper(w)) / romanValue(p.one)
			if !ok {
				bad = fmt.Sprintf("%q is matched by capture %d but the value function's table does not cover it (index out of range or unmatched row)", w, p.capture)
				break
			}
			if got != want {
				bad = fmt.Sprintf("group text %q is worth %d × %s but the value function yields %d × unit", w, want, p.one, got)
				break
			}
		}
		if bad != "" {
			e.S.Bad(rule, site, p.table+" group", bad, e.Pos(pg), "")
		} else {
			e.S.Ok(rule, site, p.table+" group", fmt.Sprintf("all %d words of capture %d (both letter cases) get their roman value from the extracted table", len(words), p.capture), e.Pos(pg))
		}
		if digits != nil {
			var lits []string
			for l := range digits[p.capture] {
				lits = append(lits, l)
			}
			sort.Strings(lits)
			for _, l := range lits {
				d := digits[p.capture][l]
				for _, w := range []string{l, strings.ToLower(l)} {
					got, ok := apply(w, p.five[0], p.ten[0])
					construct := fmt.Sprintf("%s digit %d as %q", p.table, d, w)
					switch {
					case !ok:
						e.S.Bad(rule, site, construct, fmt.Sprintf("the formatter writes digit %d as %q but the parser's value table does not cover that text", d, w), e.Pos(pg), w)
					case got != int64(d):
						e.S.Bad(rule, site, construct, fmt.Sprintf("the formatter writes digit %d as %q, the parser's value function reads it back as %d", d, w, got), e.Pos(pg), w)
					default:
						e.S.Ok(rule, site, construct, fmt.Sprintf("%q ↦ %d × unit", w, d), e.Pos(pg))
					}
					if w == strings.ToLower(w) && w == l {
						break
					}
				}
			}
		}
	}
}

// enumerateWords lists the words of a finite language over the given letters (checker-side enumeration of the
// automaton, bounded by maxLen).
func enumerateWords(sp *lang.Space, d *lang.D, maxLen int, letters string) []string {
	var out []string
	var rec func(prefix string)
	rec = func(prefix string) {
		if sp.Accepts(d, prefix) {
			out = append(out, prefix)
		}
		if len(prefix) == maxLen {
			return
		}
		for _, c := range letters {
			// prune: prefix+c must still be a prefix of some word — cheap check through the product with Σ* is not
			// available here, so bound by length only (≤ 14^6 would be too many): use the alphabet of the language
			rec2 := prefix + string(c)
			if sp.PrefixLive(d, rec2) {
				rec(rec2)
			}
		}
	}
	rec("")
	return out
}

// romanValue evaluates a numeral written with upper-case letters by the subtractive rule (independent oracle).
func romanValue(s string) int64 {
	val := map[byte]int64{'I': 1, 'V': 5, 'X': 10, 'L': 50, 'C': 100, 'D': 500, 'M': 1000}
	var tot int64
	for i := 0; i < len(s); i++ {
		v := val[s[i]]
		if i+1 < len(s) && val[s[i+1]] > v {
			tot -= v
		} else {
			tot += v
		}
	}
	return tot
}

// isSubmatchCallee: the sibling sub-match functions with the same result contract (nil or NumSubexp+1 entries).
func isSubmatchCallee(name string) bool {
	return name == "(*regexp.Regexp).FindSubmatch" || name == "(*regexp.Regexp).FindStringSubmatch"
}

// ruleRomanSum: roman.DefaultParser's result decided by its meaning. The parser is evaluated with a non-empty input
// within the limit, the regexp match returning five opaque captures, the groups table resolved to its rows and the
// value function left uninterpreted: the result must be the sum of len(capture 1) × 1000 and the value function
// applied to (capture 2, 100, 'D', 'M'), (capture 3, 10, 'L', 'C'), (capture 4, 1, 'V', 'X') — each once, in any
// order of summation, whether the loop is written over the table, unrolled or moved into a helper.
func ruleRomanSum(e *Env, rule string) {
	e.skeleton(rule, "roman", "pattern", "^<1><2><3><4>$")
	dp := e.Fn(rule, "roman", "DefaultParser")
	if dp == nil {
		return
	}
	site := flow.FnName(dp)
	pos := e.Pos(dp)
	// the arithmetic of the sum is done in 64 bits: with the input limit raised or disabled the thousands alone
	// (len × 1000) exceed 32 bits from 2 147 484 letters on, and int/uint are 32 bits wide on 32-bit targets
	{
		narrow := ""
		n := 0
		// backward slice of the returned value: through conversions, merges, sums and products, and into the results
		// of the functions of the module that contribute a term
		seen := map[ssa.Value]bool{}
		var walk func(v ssa.Value, depth int)
		walk = func(v ssa.Value, depth int) {
			if v == nil || seen[v] || depth > 40 {
				return
			}
			seen[v] = true
			switch x := v.(type) {
			case *ssa.Convert:
				// a conversion of the sum (or of a term) to a narrower integer type truncates it all the same
				if w, ok := pred.IntWidth(x.Type()); ok && w < 64 && narrow == "" {
					if wx, okx := pred.IntWidth(x.X.Type()); okx && wx > w {
						narrow = fmt.Sprintf("%s converts a term of the sum to %s, %d bits wide on this target (%s)", x.String(), x.Type(), w, e.posOf(x))
					}
				}
				walk(x.X, depth+1)
			case *ssa.ChangeType:
				walk(x.X, depth+1)
			case *ssa.MultiConvert:
				walk(x.X, depth+1)
			case *ssa.Phi:
				for _, ed := range x.Edges {
					walk(ed, depth+1)
				}
			case *ssa.BinOp:
				if x.Op == token.MUL || x.Op == token.ADD {
					if w, ok := pred.IntWidth(x.Type()); ok {
						n++
						if w < 64 && narrow == "" {
							narrow = fmt.Sprintf("%s is computed in %s, %d bits wide on this target (%s)", x.String(), x.Type(), w, e.posOf(x))
						}
					}
				}
				walk(x.X, depth+1)
				walk(x.Y, depth+1)
			case *ssa.Call:
				if callee := e.C.StaticCallee(&x.Call); callee != nil && flow.InRepo(callee) {
					for _, r := range flow.Returns(flow.Origin(callee)) {
						if rv := flow.ReturnValues(r); len(rv) > 0 {
							walk(rv[0], depth+1)
						}
					}
				}
			}
		}
		for _, r := range flow.Returns(dp) {
			if rv := flow.ReturnValues(r); len(rv) > 0 {
				walk(rv[0], 0)
			}
		}
		switch {
		case n == 0:
			e.S.Unk(rule, site, "width", "no sum or product found in the parser and its value function", pos)
		case narrow != "":
			e.S.Bad(rule, site, "width", "the value is not summed in 64 bits: "+narrow+"; a numeral of 2 147 484 or more M (limit raised or disabled) wraps", pos, "2147484 × M on a 32-bit target")
		default:
			e.S.Ok(rule, site, "width", fmt.Sprintf("all %d sums and products of the value are 64 bits wide on this target", n), pos)
		}
	}
	// the value itself: every spelling of every group, and every combination of the three (ruleRomanWords)
	ruleRomanWords(e, rule)
}

// ruleRomanWords: the parser's value, decided on the finite languages of the three group captures instead of on the
// shape of the value function. roman.DefaultParser is evaluated abstractly — non-empty input within the limit, the
// thousands capture left symbolic, the match handing back the captures — once for every word of each group's capture
// language (every spelling in either letter case; the other two groups empty) and once for every combination of
// upper-case words of the three groups. Whatever the value function looks like (one function of four arguments, a
// method on a table row, a digit that the caller scales, a switch, a lower-cased comparison), the result must be
// len(capture 1) × 1000 + the value an independent reading of the word gives: five-symbol then ones, one-symbol
// before five (4) or ten (9), or ones only, times the unit of its decimal position.
func ruleRomanWords(e *Env, rule string) {
	dp := e.Fn(rule, "roman", "DefaultParser")
	pat, ok := e.pattern(rule, "roman", "pattern")
	if dp == nil || !ok {
		return
	}
	site := flow.FnName(dp)
	pos := e.Pos(dp)
	type group struct {
		one, five, ten byte
		unit           int64
	}
	groups := map[int]group{2: {'C', 'D', 'M', 100}, 3: {'X', 'L', 'C', 10}, 4: {'I', 'V', 'X', 1}}
	value := func(g group, w string) (int64, bool) {
		u := strings.ToUpper(w)
		switch {
		case u == "":
			return 0, true
		case u == string([]byte{g.one, g.five}):
			return 4 * g.unit, true
		case u == string([]byte{g.one, g.ten}):
			return 9 * g.unit, true
		}
		n := int64(0)
		rest := u
		if rest[0] == g.five {
			n, rest = 5, rest[1:]
		}
		if len(rest) > 4 || strings.Trim(rest, string([]byte{g.one})) != "" {
			return 0, false
		}
		return (n + int64(len(rest))) * g.unit, true
	}
	words := map[int][]string{}
	for k := 2; k <= 4; k++ {
		sub, err := lang.CaptureSub(pat, k)
		if err != nil {
			e.S.Unk(rule, "roman.pattern", fmt.Sprintf("capture %d", k), err.Error(), "")
			return
		}
		prefix := ""
		if strings.HasPrefix(pat, "(?i)") && !strings.HasPrefix(sub, "(?i") {
			prefix = "(?i)"
		}
		sp, ds, err := lang.Build(prefix + `^(?:` + sub + `)$`)
		if err != nil {
			e.S.Unk(rule, "roman.pattern", fmt.Sprintf("capture %d", k), err.Error(), "")
			return
		}
		ws, finite := sp.Words(ds[0], 5000)
		if !finite {
			e.S.Unk(rule, "roman.pattern", fmt.Sprintf("capture %d", k), "the capture's language is not a finite list of ASCII words", "")
			return
		}
		words[k] = ws
	}
	bytesOf := func(w string) *pred.SliceV {
		sv := &pred.SliceV{}
		for i := 0; i < len(w); i++ {
			sv.Elems = append(sv.Elems, &pred.Cell{V: pred.Const{V: constant.MakeInt64(int64(w[i]))}, Name: "byte"})
		}
		return sv
	}
	fixed := func(a, b pred.Val) (int, bool, bool) {
		as, bs := a.String(), b.String()
		switch {
		case as == "len(input)" && bs == "0":
			return 1, true, true
		case as == "*roman.MaxInputLength" && bs == "0":
			return 0, true, true
		case as == "len(input)" && bs == "*roman.MaxInputLength":
			return 1, true, true
		case as == "*roman.MaxInputLength" && bs == "len(input)":
			return -1, true, true
		}
		return 0, false, false
	}
	noAtoms := func(a, b pred.Val) (string, bool) { return "", false }
	eval := func(caps [5]string) (constPart int64, symbolic []string, err error) {
		sums := map[string]pred.Summary{}
		for _, n := range []string{"(*regexp.Regexp).FindSubmatch", "(*regexp.Regexp).FindStringSubmatch"} {
			sums[n] = func(ev *pred.Evaluator, args []pred.Val) (pred.Val, error) {
				if len(args) != 2 || args[1].String() != "input" {
					return nil, &pred.Undecided{Reason: "the pattern is not matched against the whole input"}
				}
				sv := &pred.SliceV{}
				for i := 0; i < 5; i++ {
					var v pred.Val
					switch i {
					case 0, 1:
						v = pred.Sym{Name: fmt.Sprintf("cap%d", i)}
					default:
						v = bytesOf(caps[i])
					}
					sv.Elems = append(sv.Elems, &pred.Cell{V: v, Name: "capture"})
				}
				return sv, nil
			}
		}
		// the offset form of the same match: (start, end) of each capture; subject[start:end] is the capture again,
		// end − start its length
		for _, n := range []string{"(*regexp.Regexp).FindSubmatchIndex", "(*regexp.Regexp).FindStringSubmatchIndex"} {
			sub := sums["(*regexp.Regexp).FindSubmatch"]
			sums[n] = func(ev *pred.Evaluator, args []pred.Val) (pred.Val, error) {
				capsV, err := sub(ev, args)
				if err != nil {
					return nil, err
				}
				sv := &pred.SliceV{}
				for _, c := range capsV.(*pred.SliceV).Elems {
					for _, end := range []bool{false, true} {
						sv.Elems = append(sv.Elems, &pred.Cell{V: pred.Offset{Cap: c.V, End: end}, Name: "offset"})
					}
				}
				return sv, nil
			}
		}
		mk := func() []pred.Val { return []pred.Val{pred.Sym{Name: "input"}, pred.Sym{Name: "r"}} }
		leaves, err := extractTreeFull(e.P.SSA, dp, mk, sums, fixed, noAtoms, binDomain, e.globalTables(), nil)
		if err != nil {
			return 0, nil, err
		}
		if len(leaves) != 1 || leaves[0].Err != nil {
			if len(leaves) > 0 && leaves[0].Err != nil {
				return 0, nil, leaves[0].Err
			}
			return 0, nil, fmt.Errorf("%d abstract valuations for concrete captures", len(leaves))
		}
		t, ok := leaves[0].Out.Ret.(pred.Tuple)
		if leaves[0].Out.Panic || !ok || len(t) != 2 || t[1].String() != "nil" {
			return 0, nil, fmt.Errorf("a matched input does not yield (number, nil): %v", leaves[0].Out.Ret)
		}
		var walk func(v pred.Val)
		walk = func(v pred.Val) {
			if tm, ok := v.(pred.Term); ok && tm.Fn == "+" && len(tm.Args) == 2 {
				walk(tm.Args[0])
				walk(tm.Args[1])
				return
			}
			if k, ok := intOf(v); ok {
				constPart += k
				return
			}
			if af, ok := v.(pred.Affine); ok { // a symbolic term plus a constant
				constPart += af.C
				walk(af.X)
				return
			}
			s := v.String()
			if s == "*(1000,len(cap1))" {
				s = "*(len(cap1),1000)"
			}
			symbolic = append(symbolic, s)
		}
		walk(t[0])
		return constPart, symbolic, nil
	}
	check := func(caps [5]string, want int64) string {
		got, sym, err := eval(caps)
		switch {
		case err != nil:
			return "?" + err.Error()
		case len(sym) != 1 || sym[0] != "*(len(cap1),1000)":
			return fmt.Sprintf("the thousands term is %v, documented len(capture 1) × 1000 once", sym)
		case got != want:
			return fmt.Sprintf("the groups %q %q %q are worth %d, the parser adds %d", caps[2], caps[3], caps[4], want, got)
		}
		return ""
	}
	// one group at a time, every spelling
	for k := 2; k <= 4; k++ {
		n, bad := 0, ""
		for _, w := range words[k] {
			want, ok := value(groups[k], w)
			if !ok {
				bad = fmt.Sprintf("the capture language holds %q, which is not a numeral group (C10.lang decides the language)", w)
				break
			}
			var caps [5]string
			caps[k] = w
			if msg := check(caps, want); msg != "" {
				bad = msg
				break
			}
			n++
		}
		construct := fmt.Sprintf("capture %d words", k)
		switch {
		case strings.HasPrefix(bad, "?"):
			e.S.Unk(rule, site, construct, "not evaluable: "+bad[1:], pos)
		case bad != "":
			e.S.Bad(rule, site, construct, bad, pos, "")
		default:
			e.S.Ok(rule, site, construct, fmt.Sprintf("all %d spellings of the group (either letter case) add their documented value to len(capture 1) × 1000", n), pos)
		}
	}
	// the three groups together (upper-case spellings): the value is the sum, no interaction between positions
	upper := func(ws []string) []string {
		var out []string
		for _, w := range ws {
			if w == strings.ToUpper(w) {
				out = append(out, w)
			}
		}
		return out
	}
	n, bad := 0, ""
	for _, h := range upper(words[2]) {
		for _, t := range upper(words[3]) {
			for _, u := range upper(words[4]) {
				if bad != "" {
					continue
				}
				vh, _ := value(groups[2], h)
				vt, _ := value(groups[3], t)
				vu, _ := value(groups[4], u)
				if msg := check([5]string{2: h, 3: t, 4: u}, vh+vt+vu); msg != "" {
					bad = msg
				}
				n++
			}
		}
	}
	switch {
	case strings.HasPrefix(bad, "?"):
		e.S.Unk(rule, site, "combined groups", "not evaluable: "+bad[1:], pos)
	case bad != "":
		e.S.Bad(rule, site, "combined groups", bad, pos, "")
	default:
		e.S.Ok(rule, site, "combined groups", fmt.Sprintf("all %d combinations of upper-case hundreds, tens and units spellings are worth the sum of the three", n), pos)
	}
}
