package props

import (
	"utilcheck/flow"
)

func init() {
	register(&Prop{
		ID:    "C10",
		Title: "Roman parser recognises exactly the documented numerals with the right value",
		Run:   runC10,
		Explanation: "C10.lang: L(roman.pattern) equals the reference language built from the statement (any number of M; per position five? one{0,4} | one five | one ten; case-insensitive), decided on DFAs with a shortest witness on difference. " +
			"C10.same: Valid and DefaultParser share checkInputLength and match the same pattern; after a successful match the parser has no error return. " +
			"C10.case: the set of byte constants against which raw input bytes are compared in the value function (propagated through the groups table and ±lowerShift) is closed under ASCII case swap and contained in the regexp alphabet (or the input is case-normalised first). " +
			"C10.groups: groups = (100,D,M),(10,L,C),(1,V,X) in capture order; thousands = len(capture 1) × 1000. C10.empty, S-ERRZERO, S-WRAP, C18.L for package roman.",
		NotDecided:  []string{"parseGroup's arithmetic per group shape ((4+l)*unit, l*unit) is value-level and not evaluated"},
		Assumptions: []string{"regexp/syntax compiles the pattern to the automaton regexp executes"},
		Technique:   "regular-language equality on DFAs + constant-set propagation over go/ssa",
	})
}

func runC10(e *Env) {
	pg := e.Fn("C10.case", "roman", "parseGroup")
	if pg != nil {
		e.Flow(func(c *flow.Ctx) { c.RuleCaseClosure(pg, 0, "MDCLXVImdclxvi") })
	}
	e.S.Floor("C10.case", 1)
	ruleErrZero(e, "C10.errzero", "roman")
	ruleWrap(e, "C10.wrap", "roman")
	ruleLimit(e, "C10.limit", "roman")
	e.S.Floor("C10.errzero", 3)
	e.S.Floor("C10.limit", 4)
}
