package props

import (
	"fmt"
	"go/token"
	"strings"

	"golang.org/x/tools/go/ssa"

	"utilcheck/flow"
	"utilcheck/lang"
)

func init() {
	register(&Prop{
		ID:    "C10",
		Title: "Roman parser recognises exactly the documented numerals with the right value",
		Run:   runC10,
		Explanation: "C10.lang: L(roman.pattern) equals the reference language built from the statement (any number of M; per position five? one{0,4} | one five | one ten; case-insensitive), decided on DFAs with a shortest witness on difference. " +
			"C10.same: Valid and DefaultParser share checkInputLength and match the same pattern; after a successful match the parser has no error return. " +
			"C10.case: the set of byte constants against which raw input bytes are compared in the value function (propagated through the groups table and ±lowerShift) is closed under ASCII case swap and contained in the regexp alphabet (or the input is case-normalised first). " +
			"C10.groups: groups = (100,D,M),(10,L,C),(1,V,X) in capture order; thousands = len(capture 1) × 1000. C10.empty, S-ERRZERO, S-WRAP, C18.L for package roman.",
		NotDecided:  []string{"parseGroup's arithmetic per group shape ((4+l)*unit, l*unit) is value-level and not evaluated"},
		Assumptions: []string{"regexp/syntax compiles the pattern to the automaton regexp executes"},
		Technique:   "regular-language equality on DFAs + constant-set propagation over go/ssa",
	})
}

func runC10(e *Env) {
	ruleC10Lang(e)
	ruleC10Same(e)
	// the value function(s): in-repo callees of the parser that receive an element of the sub-match slice
	if dp := e.Fn("C10.case", "roman", "DefaultParser"); dp != nil {
		alphabet := romanAlphabet(e)
		seen := map[*ssa.Function]bool{}
		for _, call := range e.C.Calls(dp, flow.InRepo) {
			callee := e.C.StaticCallee(&call.Call)
			for ai, a := range call.Call.Args {
				u, ok := a.(*ssa.UnOp)
				if !ok {
					continue
				}
				ia, ok := u.X.(*ssa.IndexAddr)
				if !ok {
					continue
				}
				if m, ok := ia.X.(*ssa.Call); ok && m.Call.StaticCallee() != nil && strings.HasPrefix(m.Call.StaticCallee().String(), "(*regexp.Regexp).FindSubmatch") && !seen[callee] {
					seen[callee] = true
					idx := ai
					e.Flow(func(c *flow.Ctx) { c.RuleCaseClosure(callee, idx, alphabet) })
				}
			}
		}
	}
	e.S.Floor("C10.case", 1)
	ruleErrZero(e, "C10.errzero", "roman")
	ruleWrap(e, "C10.wrap", "roman")
	ruleLimit(e, "C10.limit", "roman")
	ruleTyped(e, "C10.typed", "roman")
	e.S.Floor("C10.typed", 1)
	e.S.Floor("C10.errzero", 3)
	e.S.Floor("C10.limit", 4)
}

// romanReference builds the documented numeral language from the statement: any number of M, then a hundreds,
// tens and units group, each additive (optional five-symbol, up to four one-symbols) or subtractive (four / nine
// form); case-insensitive, written with explicit two-case classes.
func romanReference() string {
	cls := func(c byte) string { return "[" + string(c) + string(c|0x20) + "]" }
	group := func(one, five, ten byte) string {
		return `(?:` + cls(five) + `?` + cls(one) + `{0,4}|` + cls(one) + cls(five) + `|` + cls(one) + cls(ten) + `)`
	}
	return `^` + cls('M') + `*` + group('C', 'D', 'M') + group('X', 'L', 'C') + group('I', 'V', 'X') + `$`
}

func ruleC10Lang(e *Env) {
	const rule = "C10.lang"
	pat, ok := e.pattern(rule, "roman", "pattern")
	if !ok {
		return
	}
	sp, ds, err := lang.Build(pat, romanReference(), `^[MDCLXVImdclxvi]*$`)
	if err != nil {
		e.S.Unk(rule, "roman.pattern", "automaton", "language not decidable by the supported subset: "+err.Error(), "")
		return
	}
	e.langEqual(rule, "roman.pattern", "language", sp, ds[0], ds[1], "roman.pattern", "documented numerals (statement-built reference)")
	e.langSubset(rule, "roman.pattern", "alphabet", sp, ds[0], ds[2], "roman.pattern", "[MDCLXVImdclxvi]*")
	if n, err := lang.NumCap(pat); err != nil || n != 4 {
		e.S.Bad(rule, "roman.pattern", "captures", fmt.Sprintf("pattern must have 4 capture groups (thousands, hundreds, tens, units), has %d", n), "", "")
	} else {
		e.S.Ok(rule, "roman.pattern", "captures", "4 capture groups", "")
	}
}

// ruleC10Same: Valid and DefaultParser accept the same set: both call checkInputLength first and match the same
// pattern global; after a successful match the parser has no error return.
func ruleC10Same(e *Env) {
	const rule = "C10.same"
	dp := e.Fn(rule, "roman", "DefaultParser")
	va := e.Fn(rule, "roman", "Valid")
	if dp == nil || va == nil {
		return
	}
	type info struct {
		guard  *ssa.Function
		global *ssa.Global
		call   *ssa.Call
	}
	get := func(fn *ssa.Function) (info, bool) {
		var in info
		for _, call := range e.C.Calls(fn, func(f *ssa.Function) bool { return true }) {
			callee := e.C.StaticCallee(&call.Call)
			if flow.InRepo(callee) && in.guard == nil && len(call.Call.Args) >= 2 && call.Call.Args[1] == ssa.Value(fn.Params[0]) {
				in.guard = callee
			}
			if strings.HasPrefix(callee.String(), "(*regexp.Regexp).") {
				if in.call != nil {
					return in, false
				}
				in.call = call
				in.global = flow.GlobalLoad(call.Call.Args[0])
			}
		}
		return in, in.guard != nil && in.global != nil
	}
	a, ok1 := get(dp)
	b, ok2 := get(va)
	if !ok1 || !ok2 {
		e.S.Unk(rule, "roman.DefaultParser/Valid", "shape", "could not identify the length guard helper and the single regexp call in both functions", "")
		return
	}
	if a.guard == b.guard {
		e.S.Ok(rule, "roman.DefaultParser/Valid", "guard", "both call "+flow.FnName(a.guard)+" on the input first", "")
	} else {
		e.S.Bad(rule, "roman.DefaultParser/Valid", "guard", "Valid and DefaultParser use different length/empty guards: "+flow.FnName(b.guard)+" vs "+flow.FnName(a.guard), "", "")
	}
	if a.global == b.global {
		e.S.Ok(rule, "roman.DefaultParser/Valid", "pattern", "both match against roman."+a.global.Name(), "")
	} else {
		e.S.Bad(rule, "roman.DefaultParser/Valid", "pattern", "Valid matches "+b.global.Name()+" but the parser matches "+a.global.Name(), "", "")
	}
	// the regexp subject is the whole input in both
	for _, x := range []struct {
		fn *ssa.Function
		in info
	}{{dp, a}, {va, b}} {
		subj := x.in.call.Call.Args[1]
		if flow.RootParam(subj) == x.fn.Params[0] && !flow.HasSliceOnPath(subj) {
			e.S.Ok(rule, flow.FnName(x.fn), "subject", "the whole input is matched", "")
		} else {
			e.S.Bad(rule, flow.FnName(x.fn), "subject", "the regexp is applied to something other than the whole input", e.posOf(x.in.call), "")
		}
	}
	// after the match test, the parser has no further error return
	okBlk := matchOKBlock(a.call)
	if okBlk == nil {
		e.S.Unk(rule, flow.FnName(dp), "post-match", "match result is not tested in the recognised form (len(p) == 0 / p == nil)", e.posOf(a.call))
		return
	}
	bad := false
	for _, r := range flow.Returns(dp) {
		if (okBlk == r.Block() || okBlk.Dominates(r.Block())) && !flow.IsNilConst(r.Results[len(r.Results)-1]) {
			e.S.Bad(rule, flow.FnName(dp), "post-match", "the parser can still fail after the pattern matched: Valid and the parser accept different sets", e.posOf(r), "")
			bad = true
		}
	}
	if !bad {
		e.S.Ok(rule, flow.FnName(dp), "post-match", "no error return after a successful match", "")
	}
}

// matchOKBlock returns the block entered when the FindSubmatch result is non-empty.
func matchOKBlock(call *ssa.Call) *ssa.BasicBlock {
	for _, r := range *call.Referrers() {
		var cmp *ssa.BinOp
		switch x := r.(type) {
		case *ssa.Call: // len(p)
			if bi, ok := x.Call.Value.(*ssa.Builtin); ok && bi.Name() == "len" {
				for _, r2 := range *x.Referrers() {
					if bo, ok := r2.(*ssa.BinOp); ok {
						cmp = bo
					}
				}
			}
		case *ssa.BinOp:
			cmp = x
		}
		if cmp == nil {
			continue
		}
		for _, r3 := range *cmp.Referrers() {
			iff, ok := r3.(*ssa.If)
			if !ok {
				continue
			}
			switch cmp.Op {
			case token.EQL:
				return iff.Block().Succs[1]
			case token.NEQ, token.GTR:
				return iff.Block().Succs[0]
			}
		}
	}
	return nil
}

// romanAlphabet returns the ASCII letters that occur in words of roman.pattern (from its automaton).
func romanAlphabet(e *Env) string {
	g := e.P.Var("roman", "pattern")
	if g == nil {
		return ""
	}
	pat, ok := e.C.PatternOfGlobal(g)
	if !ok {
		return ""
	}
	sp, ds, err := lang.Build(pat)
	if err != nil {
		return ""
	}
	return sp.Alphabet(ds[0])
}
