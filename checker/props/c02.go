package props

import (
	"fmt"
	"go/constant"
	"go/token"
	"go/types"
	"sort"
	"strings"

	"golang.org/x/tools/go/ssa"

	"utilcheck/flow"
	"utilcheck/lang"
	"utilcheck/pred"
)

func init() {
	register(&Prop{
		ID:    "C02",
		Title: "Roman numerals round-trip under every format flag combination",
		Run:   runC02,
		Explanation: "C02.tab: hundreds/tens/units have 10 entries and entry d is the canonical subtractive numeral for digit d built by the checker from (one, five, ten); toHundreds/toTens/toUnits are extracted as decision tables (value = 4 / 9, long-form flag bit): (4, FormatLong4·10^k) ↦ one×4, (9, FormatLong9·10^k) ↦ five+one×4 with the flag constant of that decimal position, otherwise table[value]; thousand = 'M'. " +
			"C02.decomp: DefaultFormatter splits n by a chain of divisions by 1000, 100, 10, each dividend being the previous remainder; the first quotient is the trip count of the loop writing 'M', the next quotients feed toHundreds/toTens, the last remainder toUnits; the writes occur in that order; f is passed unchanged. " +
			"C02.alpha: every literal the formatter can emit for a position, in both letter cases, is a member of that position's capture-group language of roman.pattern (so Valid and the parser accept every formatted numeral). " +
			"C02.lower: toLower evaluated on a one-element slice for each class of a partition of all byte values (the seven letters as themselves, the gaps as an opaque byte known to lie in the gap; that elements are treated alike is the shape of its range loop): each letter becomes its own ASCII lower case, every other byte is unchanged; it is applied only when FormatLowerCase is set, to the appended bytes. (That the parser maps every literal the formatter can emit, in both letter cases, back to its digit is part of C02.sum: the value is decided on every word of the capture languages, which C02.alpha shows to contain the literals.) " +
			"C02.flags: the eight base Format flags are distinct single bits and FormatLong4x/FormatLong9x/FormatLong are exactly the documented unions. C02.zero: n = 0 ↦ buffer unchanged; empty input ↦ (0, nil) unless RuleDisableEmptyAsZero. S-DELEG with verb table L, l, R, r, default. " +
			"C02.valid: Valid and DefaultParser share the guard and match the same pattern on the whole input, for every input type (C10.same under this property). C02.buffer: the formatted numeral is appended to the caller's buffer and shares no storage with anything a later call can write (C16's append-only and buffer-independence rules on roman.DefaultFormatter). C02.sum: as C10.groups. C02.decomp single path: apart from the n = 0 exit every return of the formatter comes after all four unconditional writes into one buffer (the M loop entered from a block that dominates the hundreds write), returns that buffer's bytes with a nil error, and the buffer is only appended to. The regexp's skeleton is ^<1><2><3><4>$ (a matched text is the concatenation of its four captures)." +
			" Added after the second rule audit: the 'M' loop has the counter test as its only exit and its header lies on every path to the return; with the decomposition in a helper, the caller's returns lie behind the unconditional helper call and hand back its buffer; toLower is called, exactly under the flag test (no further condition between the test and the call), after the last write to the buffer, on a slice without an upper bound; the other upper-case ASCII letters may be lower-cased too (no numeral holds one). Since audit round 3: from a write of the numeral no return is reached round the block that tests FormatLowerCase; every turn of the M loop passes the write exactly once; toLower holds no test on a position other than its loop bound and no re-slice of its buffer with an upper bound (C02.lower every element).",
		NotDecided:  []string{"the composition over whole numbers beyond its shape (C02.sum: the parser returns len(capture 1)×1000 + the three group values, every sum and product 64 bits wide on the analysed target)", "which n fit within MaxInputLength (128 bytes)"},
		Assumptions: []string{"bits.Div64(0, x, c) returns quotient and remainder of x / c"},
		Technique:   "constant-table reading + decision-table extraction + DFA membership + dataflow over go/ssa",
	})
}

func runC02(e *Env) {
	ruleC02Tab(e)
	ruleC02Flags(e)
	e.S.Floor("C02.flags", 10)
	lits := ruleC02Long(e)
	ruleC02Decomp(e)
	ruleC02Alpha(e, lits)
	ruleC02Lower(e)
	ruleC02Zero(e)
	ruleDeleg(e, "C02.deleg", "roman")
	ruleLimitAccept(e, "C02.limit", "roman")
	e.S.Floor("C02.limit", 2)
	e.S.Floor("C02.tab", 36)
	e.S.Floor("C02.decomp", 7)
	e.S.Floor("C02.alpha", 36)
	e.S.Floor("C02.lower", 7)
	e.S.Floor("C02.zero", 3)
	e.S.Floor("C02.deleg", 16)
	// "is accepted by the validity check": Valid matches what the parser matches, for every input type (C10.same)
	e.As(map[string]string{"C10.same": "C02.valid"}, func() { ruleC10Same(e) })
	ruleNoMatchRejects(e, "C02.valid", e.Fn("C02.valid", "roman", "Valid"))
	e.S.Floor("C02.valid", 4)
	// the formatted numeral is the caller's: appended to its buffer, no storage shared with later calls (C16's rules)
	if df := e.Fn("C02.buffer", "roman", "DefaultFormatter"); df != nil {
		e.FlowAs(map[string]string{"C16.append": "C02.buffer", "C16.indep": "C02.buffer"}, func(c *flow.Ctx) {
			c.RuleAppendOnly(df)
			c.RuleBufIndependent(df)
		})
	}
	e.S.Floor("C02.buffer", 2)
	// the parser's value is the sum of the group values, computed in 64 bits (C10.groups under this property)
	ruleRomanSum(e, "C02.sum")
	e.S.Floor("C02.sum", 2)
}

type romanPos struct {
	fn, table      string
	one, five, ten string
	long4, long9   string // flag constant names
	capture        int
}

var romanPositions = []romanPos{
	{"toHundreds", "hundreds", "C", "D", "M", "FormatLong400", "FormatLong900", 2},
	{"toTens", "tens", "X", "L", "C", "FormatLong40", "FormatLong90", 3},
	{"toUnits", "units", "I", "V", "X", "FormatLong4", "FormatLong9", 4},
}

// ruleC02Long extracts toHundreds/toTens/toUnits as decision tables; returns the literals each position can emit.
// romanDigits: capture → emitted literal → decimal digit (filled by ruleC02Long).
var romanDigits map[int]map[string]int

func ruleC02Long(e *Env) map[int][]string {
	const rule = "C02.tab"
	lits := map[int][]string{}
	romanDigits = map[int]map[string]int{2: {}, 3: {}, 4: {}}
	for _, p := range romanPositions {
		fn := e.Fn(rule, "roman", p.fn)
		if fn == nil {
			continue
		}
		site := flow.FnName(fn)
		f4, ok1 := tabConstInt(e, "roman", p.long4)
		f9, ok2 := tabConstInt(e, "roman", p.long9)
		if !ok1 || !ok2 || bitIndex(f4) < 0 || bitIndex(f9) < 0 || f4 == f9 {
			e.S.Unk(rule, site, "flags", p.long4+"/"+p.long9+" are not two distinct single-bit constants", e.Pos(fn))
			continue
		}
		keyOf := func(a, b pred.Val) (string, bool) {
			c, ok := b.(pred.Const)
			if !ok || c.V == nil {
				return "", false
			}
			if s, ok := a.(pred.Sym); ok && s.Name == "value" {
				return "value==" + c.V.ExactString(), true
			}
			if bits, ok := a.(pred.Bits); ok && c.V.ExactString() == "0" {
				var idx []string
				for i, bit := range bits.B {
					switch bit.K {
					case 's':
						if bit.Sym != "f" || bit.Idx != i {
							return "", false
						}
						idx = append(idx, fmt.Sprint(i))
					case '0':
					default:
						return "", false
					}
				}
				return "flag&bits(" + strings.Join(idx, ",") + ")", true
			}
			return "", false
		}
		prune := func(assign map[string]int) bool {
			n := 0
			for k, v := range assign {
				if strings.HasPrefix(k, "value==") && v == 0 {
					n++
				}
			}
			return n <= 1
		}
		mk := func() []pred.Val { return []pred.Val{pred.Sym{Name: "value"}, pred.Sym{Name: "f"}} }
		leaves, err := extractTree(e.P.SSA, fn, mk, nil, nil, keyOf, binDomain, prune)
		if err != nil {
			e.S.Unk(rule, site, "table", err.Error(), e.Pos(fn))
			continue
		}
		k4, k9 := fmt.Sprintf("flag&bits(%d)", bitIndex(f4)), fmt.Sprintf("flag&bits(%d)", bitIndex(f9))
		long4, long9 := strings.Repeat(p.one, 4), p.five+strings.Repeat(p.one, 4)
		tableRef := "*roman." + e.vname("roman", p.table) + "[value]"
		for _, lf := range leaves {
			construct := lf.String()
			if lf.Err != nil {
				e.S.Unk(rule, site, construct, lf.Err.Error(), e.Pos(fn))
				continue
			}
			is4, is9 := lf.Assign["value==4"] == 0 && has(lf.Assign, "value==4"), lf.Assign["value==9"] == 0 && has(lf.Assign, "value==9")
			set4, set9 := lf.Assign[k4] == 1, lf.Assign[k9] == 1
			// any other flag atom asked means the function looks at a flag of another position
			foreign := ""
			for k := range lf.Assign {
				if strings.HasPrefix(k, "flag&") && k != k4 && k != k9 {
					foreign = k
				}
			}
			want := tableRef
			switch {
			case is4 && set4:
				want = quote(long4)
			case is9 && set9:
				want = quote(long9)
			}
			got := lf.Out.Ret.String()
			switch {
			case foreign != "":
				e.S.Bad(rule, site, construct, fmt.Sprintf("%s tests %s, which is not the long-form flag of its own decimal position (%s, %s)", p.fn, foreign, p.long4, p.long9), e.Pos(fn), "")
			case is4 && !has(lf.Assign, k4) || is9 && !has(lf.Assign, k9):
				e.S.Bad(rule, site, construct, fmt.Sprintf("for digit %s the matching long-form flag is not consulted", map[bool]string{true: "4", false: "9"}[is4]), e.Pos(fn), "")
			case got != want:
				e.S.Bad(rule, site, construct, fmt.Sprintf("returns %s, documented %s", got, want), e.Pos(fn), "")
			default:
				e.S.Ok(rule, site, construct, "↦ "+want, e.Pos(fn))
			}
			if c, ok := lf.Out.Ret.(pred.Const); ok && c.V != nil && c.V.Kind() == constant.String {
				lits[p.capture] = append(lits[p.capture], constant.StringVal(c.V))
				if is4 {
					romanDigits[p.capture][constant.StringVal(c.V)] = 4
				} else if is9 {
					romanDigits[p.capture][constant.StringVal(c.V)] = 9
				}
			}
		}
		if t := e.table("C02.alpha", "roman", p.table); t != nil {
			if vals, err := t.SliceValues(); err == nil {
				for d, v := range vals {
					if v != nil && v.Kind() == constant.String {
						lits[p.capture] = append(lits[p.capture], constant.StringVal(v))
						romanDigits[p.capture][constant.StringVal(v)] = d
					}
				}
			}
		}
	}
	return lits
}

func has(m map[string]int, k string) bool { _, ok := m[k]; return ok }

// ruleC02Alpha: membership of every emitted literal (both cases) in its capture group's language.
func ruleC02Alpha(e *Env, lits map[int][]string) {
	const rule = "C02.alpha"
	pat, ok := e.pattern(rule, "roman", "pattern")
	if !ok {
		return
	}
	var pats []string
	for k := 1; k <= 4; k++ {
		sub, err := lang.CaptureSub(pat, k)
		if err != nil {
			e.S.Unk(rule, "roman.pattern", fmt.Sprintf("capture %d", k), err.Error(), "")
			return
		}
		pats = append(pats, `^(?:`+sub+`)$`)
	}
	pats = append(pats, `^[Mm]*$`)
	sp, ds, err := lang.Build(pats...)
	if err != nil {
		e.S.Unk(rule, "roman.pattern", "automaton", err.Error(), "")
		return
	}
	e.langEqual(rule, "roman.pattern", "capture 1", sp, ds[0], ds[4], "capture 1", "M* in either case")
	for _, p := range romanPositions {
		seen := map[string]bool{}
		sort.Strings(lits[p.capture])
		for _, l := range lits[p.capture] {
			for _, w := range []string{l, strings.ToLower(l)} {
				if seen[w] {
					continue
				}
				seen[w] = true
				construct := fmt.Sprintf("%s %q", p.table, w)
				if sp.Accepts(ds[p.capture-1], w) {
					e.S.Ok(rule, "roman.pattern", construct, fmt.Sprintf("%q ∈ L(capture %d)", w, p.capture), "")
				} else {
					e.S.Bad(rule, "roman.pattern", construct, fmt.Sprintf("the formatter can emit %q for the %s position but capture group %d of the pattern does not match it: the formatted numeral is rejected by Valid and by the parser", w, p.table, p.capture), "", w)
				}
			}
		}
	}
}

// divStep describes q, r = x / c, x % c.
type divStep struct {
	x    ssa.Value
	c    int64
	q, r ssa.Value
}

func ruleC02Decomp(e *Env) {
	const rule = "C02.decomp"
	top := e.Fn(rule, "roman", "DefaultFormatter")
	if top == nil {
		return
	}
	// the decomposition may live in a function of the package that DefaultFormatter hands the number (and the flags)
	// to: follow that one call
	fn := top
	var helperCall *ssa.Call
	numP, flagP := ssa.Value(top.Params[1]), ssa.Value(top.Params[2])
	hasDivision := func(f *ssa.Function) bool {
		for _, b := range f.Blocks {
			for _, in := range b.Instrs {
				switch x := in.(type) {
				case *ssa.BinOp:
					if x.Op == token.QUO || x.Op == token.REM {
						return true
					}
				case *ssa.Call:
					if c := x.Call.StaticCallee(); c != nil && c.String() == "math/bits.Div64" {
						return true
					}
				}
			}
		}
		return false
	}
	if !hasDivision(top) {
		for _, call := range e.C.Calls(top, flow.InRepo) {
			g := flow.Origin(e.C.StaticCallee(&call.Call))
			ni, fi := -1, -1
			for ai, a := range call.Call.Args {
				switch flow.StripConv(a) {
				case ssa.Value(top.Params[1]):
					ni = ai
				case ssa.Value(top.Params[2]):
					fi = ai
				}
			}
			if ni >= 0 && ni < len(g.Params) && hasDivision(g) {
				helperCall = call
				fn, numP = g, g.Params[ni]
				if fi >= 0 && fi < len(g.Params) {
					flagP = g.Params[fi]
				}
			}
		}
	}
	site := flow.FnName(fn)
	var steps []divStep
	for _, call := range e.C.Calls(fn, func(f *ssa.Function) bool { return f.String() == "math/bits.Div64" }) {
		hi, okh := flow.ConstInt(call.Call.Args[0])
		c, okc := flow.ConstInt(call.Call.Args[2])
		if !okh || hi != 0 || !okc {
			e.S.Unk(rule, site, "division", "bits.Div64 with a non-zero high word or a non-constant divisor", e.posOf(call))
			return
		}
		st := divStep{x: call.Call.Args[1], c: c}
		for _, r := range *call.Referrers() {
			if ex, ok := r.(*ssa.Extract); ok {
				if ex.Index == 0 {
					st.q = ex
				} else {
					st.r = ex
				}
			}
		}
		steps = append(steps, st)
	}
	if len(steps) == 0 {
		// operator form
		byX := map[ssa.Value]*divStep{}
		for _, b := range fn.Blocks {
			for _, in := range b.Instrs {
				bo, ok := in.(*ssa.BinOp)
				if !ok || (bo.Op != token.QUO && bo.Op != token.REM) {
					continue
				}
				c, okc := flow.ConstInt(bo.Y)
				if !okc {
					continue
				}
				st := byX[bo.X]
				if st == nil || st.c != c {
					st = &divStep{x: bo.X, c: c}
					byX[bo.X] = st
					steps = append(steps, *st)
				}
				if bo.Op == token.QUO {
					st.q = bo
				} else {
					st.r = bo
				}
				steps[len(steps)-1] = *st
			}
		}
	}
	wantC := []int64{1000, 100, 10}
	if len(steps) != 3 {
		e.S.Unk(rule, site, "division chain", fmt.Sprintf("%d division steps found, expected the chain /1000, /100, /10 (idioms: bits.Div64(0,x,c) or x/c with x%%c)", len(steps)), e.Pos(fn))
		return
	}
	sort.SliceStable(steps, func(i, j int) bool { return steps[i].c > steps[j].c })
	okChain := true
	for i, st := range steps {
		construct := fmt.Sprintf("÷%d", wantC[i])
		switch {
		case st.c != wantC[i]:
			e.S.Bad(rule, site, construct, fmt.Sprintf("division step %d divides by %d, the decimal decomposition needs %d", i, st.c, wantC[i]), e.Pos(fn), "")
			okChain = false
		case i == 0 && flow.StripConv(st.x) != numP:
			e.S.Bad(rule, site, construct, "the first division is not applied to the number itself", e.Pos(fn), "")
			okChain = false
		case i > 0 && st.x != steps[i-1].r:
			e.S.Bad(rule, site, construct, fmt.Sprintf("the dividend of ÷%d is not the remainder of ÷%d", st.c, steps[i-1].c), e.Pos(fn), "")
			okChain = false
		default:
			e.S.Ok(rule, site, construct, map[bool]string{true: "n ÷ 1000", false: fmt.Sprintf("previous remainder ÷ %d", st.c)}[i == 0], e.Pos(fn))
		}
	}
	if !okChain {
		return
	}
	// consumers
	thousand, _ := tabConstInt(e, "roman", "thousand")
	type sink struct {
		name string
		arg  ssa.Value
		pos  *ssa.Call
	}
	var writes []*ssa.Call // in dominance order
	for _, b := range fn.DomPreorder() {
		for _, in := range b.Instrs {
			if call, ok := in.(*ssa.Call); ok {
				if f := call.Call.StaticCallee(); f != nil && strings.HasPrefix(f.String(), "(*bytes.Buffer).Write") {
					writes = append(writes, call)
				}
			}
		}
	}
	if len(writes) != 4 {
		e.S.Unk(rule, site, "writes", fmt.Sprintf("%d buffer writes, expected 4 (M loop, hundreds, tens, units)", len(writes)), e.Pos(fn))
		return
	}
	// 1: WriteByte(thousand) inside a loop bounded by the first quotient
	w0 := writes[0]
	if k, ok := flow.ConstInt(w0.Call.Args[1]); !ok || k != thousand || k != 'M' {
		e.S.Bad(rule, site, "thousands", "the first write is not the thousands symbol 'M'", e.posOf(w0), "")
	} else if loopBoundedBy(w0.Block(), steps[0].q) == nil {
		e.S.Bad(rule, site, "thousands", "the 'M' write is not repeated exactly (n ÷ 1000) times (loop counter from 0, step 1, bound = first quotient)", e.posOf(w0), "")
	} else {
		e.S.Ok(rule, site, "thousands", "'M' written (n ÷ 1000) times", e.posOf(w0))
	}
	wants := []struct {
		fn  string
		arg ssa.Value
	}{{"toHundreds", steps[1].q}, {"toTens", steps[2].q}, {"toUnits", steps[2].r}}
	for i, w := range writes[1:] {
		construct := wants[i].fn
		src, ok := w.Call.Args[1].(*ssa.Call)
		var callee *ssa.Function
		if ok {
			callee = e.C.StaticCallee(&src.Call)
		}
		switch {
		case callee == nil || callee != e.F("roman", wants[i].fn):
			e.S.Bad(rule, site, construct, fmt.Sprintf("write #%d is not the result of %s (order must be thousands, hundreds, tens, units)", i+2, wants[i].fn), e.posOf(w), "")
		case src.Call.Args[0] != wants[i].arg:
			e.S.Bad(rule, site, construct, wants[i].fn+" is not given the digit of its own decimal position", e.posOf(w), "")
		case src.Call.Args[1] != flagP:
			e.S.Bad(rule, site, construct, wants[i].fn+" is not given the caller's format flags unchanged", e.posOf(w), "")
		default:
			e.S.Ok(rule, site, construct, wants[i].fn+"(digit of its position, f) written next", e.posOf(w))
		}
	}
	// single path: apart from the n == 0 exit every return comes after all four writes, each of which is
	// unconditional (its block dominates the return; the 'M' loop is entered from a block that dominates the
	// hundreds write), hands back the bytes of that same buffer and a nil error; the buffer is only appended to
	var zeroBlock *ssa.BasicBlock
	for _, b := range fn.Blocks {
		iff, ok := b.Instrs[len(b.Instrs)-1].(*ssa.If)
		if !ok {
			continue
		}
		if cmp, ok := iff.Cond.(*ssa.BinOp); ok && (cmp.Op == token.EQL || cmp.Op == token.NEQ) {
			x, y := cmp.X, cmp.Y
			if _, isC := x.(*ssa.Const); isC {
				x, y = y, x
			}
			if k, isK := flow.ConstInt(y); isK && k == 0 && flow.StripConv(x) == numP {
				zeroBlock = b.Succs[map[bool]int{true: 0, false: 1}[cmp.Op == token.EQL]]
				if len(zeroBlock.Preds) != 1 {
					zeroBlock = nil
				}
			}
		}
	}
	buffer := writes[0].Call.Args[0]
	pathBad := ""
	var badPos ssa.Instruction
	for _, w := range writes {
		if w.Call.Args[0] != buffer {
			pathBad, badPos = "the four writes do not go to one buffer", w
		}
	}
	for _, b := range fn.Blocks {
		for _, in := range b.Instrs {
			call, ok := in.(*ssa.Call)
			if !ok {
				continue
			}
			if f := call.Call.StaticCallee(); f != nil && strings.HasPrefix(f.String(), "(*bytes.Buffer).") && len(call.Call.Args) > 0 && call.Call.Args[0] == buffer {
				switch f.Name() {
				case "Write", "WriteByte", "WriteString", "WriteRune", "Bytes", "Len", "Cap", "String", "Grow":
				default:
					pathBad, badPos = "the buffer holding the numeral is modified by "+f.Name()+" besides the four writes", call
				}
			}
		}
	}
	nret := 0
	for _, b := range fn.Blocks {
		ret, ok := b.Instrs[len(b.Instrs)-1].(*ssa.Return)
		if !ok || zeroBlock != nil && zeroBlock.Dominates(b) {
			continue
		}
		nret++
		vals := flow.ReturnValues(ret)
		for _, w := range writes[1:] {
			if !w.Block().Dominates(b) {
				pathBad, badPos = "a return other than the n = 0 exit is reachable without the write of "+flow.FnName(e.C.StaticCallee(&w.Call.Args[1].(*ssa.Call).Call))+" (early exit or conditional write)", ret
			}
		}
		if h := loopBoundedBy(writes[0].Block(), steps[0].q); h != nil && !h.Dominates(b) {
			pathBad, badPos = "the 'M' loop does not lie on every path to this return (it is entered only under a condition)", ret
		}
		if fn != top {
			continue // a helper writing into the caller's buffer: what is handed back is checked at the caller below
		}
		if len(vals) != 2 {
			pathBad, badPos = "unexpected result count", ret
			continue
		}
		if c, ok := vals[1].(*ssa.Const); !ok || !c.IsNil() {
			pathBad, badPos = "a return after the writes carries a non-nil error (the formatter is documented never to fail)", ret
		}
		bc, ok := vals[0].(*ssa.Call)
		if f := (*ssa.Function)(nil); ok {
			f = bc.Call.StaticCallee()
			if f == nil || f.String() != "(*bytes.Buffer).Bytes" || bc.Call.Args[0] != buffer {
				ok = false
			}
		}
		if !ok {
			pathBad, badPos = "the value returned after the writes is not the content of the buffer written to", ret
		}
	}
	if fn != top && helperCall != nil {
		// the caller's path: apart from its n == 0 exit every return of DefaultFormatter lies behind the helper call,
		// carries a nil error and hands back the helper's result or the content of a buffer the helper was given
		var zb *ssa.BasicBlock
		for _, b := range top.Blocks {
			iff, ok := b.Instrs[len(b.Instrs)-1].(*ssa.If)
			if !ok {
				continue
			}
			if cmp, ok := iff.Cond.(*ssa.BinOp); ok && (cmp.Op == token.EQL || cmp.Op == token.NEQ) {
				x, y := cmp.X, cmp.Y
				if _, isC := x.(*ssa.Const); isC {
					x, y = y, x
				}
				if k, isK := flow.ConstInt(y); isK && k == 0 && flow.StripConv(x) == ssa.Value(top.Params[1]) {
					zb = b.Succs[map[bool]int{true: 0, false: 1}[cmp.Op == token.EQL]]
					if len(zb.Preds) != 1 {
						zb = nil
					}
				}
			}
		}
		bad, n := "", 0
		var at ssa.Instruction
		for _, b := range top.Blocks {
			ret, ok := b.Instrs[len(b.Instrs)-1].(*ssa.Return)
			if !ok || zb != nil && zb.Dominates(b) {
				continue
			}
			n++
			vals := flow.ReturnValues(ret)
			switch {
			case !helperCall.Block().Dominates(b):
				bad, at = "a return other than the n = 0 exit is reachable without the call of "+flow.FnName(fn)+" (the numeral is written only under a condition)", ret
			case len(vals) != 2:
				bad, at = "unexpected result count", ret
			default:
				if c, ok := vals[1].(*ssa.Const); !ok || !c.IsNil() {
					bad, at = "a return after the writes carries a non-nil error (the formatter is documented never to fail)", ret
				}
				okVal := false
				switch v := vals[0].(type) {
				case *ssa.Call:
					if v == helperCall {
						okVal = true
					} else if f := v.Call.StaticCallee(); f != nil && (f.String() == "(*bytes.Buffer).Bytes") {
						for _, a := range helperCall.Call.Args {
							if a == v.Call.Args[0] {
								okVal = true
							}
						}
					}
				case *ssa.Extract:
					okVal = v.Tuple == ssa.Value(helperCall)
				}
				if !okVal {
					bad, at = "the value returned after the call of "+flow.FnName(fn)+" is neither its result nor the content of the buffer handed to it", ret
				}
			}
		}
		switch {
		case zb == nil:
			e.S.Unk(rule, flow.FnName(top), "single path", "no `n == 0` exit found: which returns are the zero case is not decided", e.Pos(top))
		case n == 0:
			e.S.Unk(rule, flow.FnName(top), "single path", "no return after the helper call found", e.Pos(top))
		case bad != "":
			e.S.Bad(rule, flow.FnName(top), "single path", bad, e.posOf(at), "")
		default:
			e.S.Ok(rule, flow.FnName(top), "single path", fmt.Sprintf("%d return(s) besides the n = 0 exit, each behind the unconditional call of %s", n, flow.FnName(fn)), e.Pos(top))
		}
	}
	switch {
	case zeroBlock == nil && fn == top: // (in a helper that receives a non-zero number every return comes after the writes)
		e.S.Unk(rule, site, "single path", "no `n == 0` exit found: which returns are the zero case is not decided", e.Pos(fn))
	case nret == 0:
		e.S.Unk(rule, site, "single path", "no return after the writes found", e.Pos(fn))
	case pathBad != "":
		e.S.Bad(rule, site, "single path", pathBad, e.posOf(badPos), "")
	default:
		e.S.Ok(rule, site, "single path", fmt.Sprintf("%d return(s) besides the n = 0 exit: each after all four unconditional writes, returning (buffer.Bytes(), nil)", nret), e.Pos(fn))
	}
}

// loopBoundedBy: block b lies in a loop whose counter runs 0,1,2… while counter < bound.
func loopBoundedBy(b *ssa.BasicBlock, bound ssa.Value) *ssa.BasicBlock {
	// the block b runs exactly `bound` times: a unit-step counter whose continue-condition is, in either operand order,
	//   up:   phi(0, i+1) with i < bound / i != bound,   phi(1, i+1) with i <= bound
	//   down: phi(bound, i-1) with i > 0 / i != 0 / i >= 1
	for _, blk := range b.Parent().Blocks {
		iff, ok := blk.Instrs[len(blk.Instrs)-1].(*ssa.If)
		if !ok {
			continue
		}
		cmp, ok := iff.Cond.(*ssa.BinOp)
		if !ok {
			continue
		}
		op, x, y := cmp.Op, cmp.X, cmp.Y
		if _, isPhi := x.(*ssa.Phi); !isPhi { // mirror so that the counter is on the left
			x, y = y, x
			switch op {
			case token.LSS:
				op = token.GTR
			case token.GTR:
				op = token.LSS
			case token.LEQ:
				op = token.GEQ
			case token.GEQ:
				op = token.LEQ
			}
		}
		ph, ok := x.(*ssa.Phi)
		if !ok || len(ph.Edges) != 2 || ph.Block() != blk {
			continue
		}
		var init ssa.Value
		var inc *ssa.BinOp
		for k, e := range ph.Edges {
			if bo, isBo := e.(*ssa.BinOp); isBo && bo.X == ssa.Value(ph) && (bo.Op == token.ADD || bo.Op == token.SUB) {
				inc = bo
				init = ph.Edges[1-k]
			}
		}
		if inc == nil {
			continue
		}
		step, okS := flow.ConstInt(inc.Y)
		if !okS {
			continue
		}
		if inc.Op == token.SUB {
			step = -step
		}
		body := blk.Succs[0] // the condition continues on its true edge
		if !(body == b || body.Dominates(b)) {
			continue
		}
		// the counter's test is the only way out: nothing in the body leaves the loop (a second condition, a break or
		// a return ends the repetition before the bound)
		single := true
		for _, x := range blk.Parent().Blocks {
			if x != body && !body.Dominates(x) {
				continue
			}
			if len(x.Succs) == 0 {
				single = false
			}
			for _, sx := range x.Succs {
				if sx != blk && sx != body && !body.Dominates(sx) {
					single = false
				}
			}
		}
		if !single {
			continue
		}
		// every turn passes the write exactly once: no way from the body back to the header round the write's block
		// (a write under a condition, a continue in front of it), and no inner cycle through it
		avoid := func(from, without, target *ssa.BasicBlock) bool {
			seen := map[*ssa.BasicBlock]bool{without: true}
			work := []*ssa.BasicBlock{from}
			for len(work) > 0 {
				x := work[len(work)-1]
				work = work[:len(work)-1]
				if seen[x] {
					continue
				}
				seen[x] = true
				if x == target {
					return true
				}
				work = append(work, x.Succs...)
			}
			return false
		}
		if body != b && avoid(body, b, blk) {
			continue
		}
		inner := false
		for _, sx := range b.Succs {
			if sx != blk && avoid(sx, blk, b) {
				inner = true
			}
		}
		if inner {
			continue
		}
		i0, initConst := flow.ConstInt(init)
		lim, limConst := flow.ConstInt(y)
		switch {
		case step == 1 && initConst && i0 == 0 && (op == token.LSS || op == token.NEQ) && y == bound:
			return blk
		case step == 1 && initConst && i0 == 1 && op == token.LEQ && y == bound:
			return blk
		case step == -1 && init == bound && limConst && (lim == 0 && (op == token.GTR || op == token.NEQ) || lim == 1 && op == token.GEQ):
			return blk
		}
	}
	return nil
}

// ruleC02Lower: the switch of toLower.
func ruleC02Lower(e *Env) {
	const rule = "C02.lower"
	fn := e.Fn(rule, "roman", "toLower")
	df := e.F("roman", "DefaultFormatter")
	if fn == nil {
		return
	}
	site := flow.FnName(fn)
	// the per-byte transfer function, decided on a partition of all byte values: each of the seven upper-case roman
	// letters as itself, the gaps between them as an opaque byte known only to lie in the gap. toLower is evaluated on
	// a one-element slice; the element afterwards must be the letter's own lower case resp. unchanged.
	letters := "CDILMVX" // sorted
	type class struct {
		lo, hi int64
		letter bool
	}
	var classes []class
	prev := int64(0)
	gap := func(lo, hi int64) {
		// split at the ends of 'A'..'Z': a toLower that lower-cases every upper-case ASCII letter behaves the same
		// on every numeral (only the seven roman letters are ever written)
		emit := func(lo, hi int64) {
			if lo >= 'A' && hi <= 'Z' {
				for c := lo; c <= hi; c++ { // one class per letter: comparisons with 'A' and 'Z' are decided on each
					classes = append(classes, class{c, c, false})
				}
				return
			}
			classes = append(classes, class{lo, hi, false})
		}
		for _, cut := range []int64{'A', 'Z' + 1} {
			if lo < cut && cut <= hi {
				emit(lo, cut-1)
				lo = cut
			}
		}
		emit(lo, hi)
	}
	for _, c := range letters {
		if int64(c) > prev {
			gap(prev, int64(c)-1)
		}
		classes = append(classes, class{int64(c), int64(c), true})
		prev = int64(c) + 1
	}
	gap(prev, 255)
	gapBad := ""
	for _, cl := range classes {
		cl := cl
		var elem pred.Val = pred.Sym{Name: "b"}
		if cl.letter {
			elem = pred.Const{V: constant.MakeInt64(cl.lo)}
		}
		cell := &pred.Cell{V: elem, Name: "byte"}
		fixed := func(a, b pred.Val) (int, bool, bool) {
			if sy, ok := a.(pred.Sym); ok && sy.Name == "b" {
				if c, ok := b.(pred.Const); ok && c.V != nil && c.V.Kind() == constant.Int {
					k, _ := constant.Int64Val(c.V)
					switch {
					case k < cl.lo:
						return 1, true, true
					case k > cl.hi:
						return -1, true, true
					case cl.lo == cl.hi:
						return 0, true, true
					}
				}
			}
			return 0, false, false
		}
		sums := map[string]pred.Summary{
			"strings.IndexByte": func(ev *pred.Evaluator, args []pred.Val) (pred.Val, error) {
				str, ok1 := args[0].(pred.Const)
				if !ok1 || str.V == nil || str.V.Kind() != constant.String {
					return nil, &pred.Undecided{Reason: "IndexByte on a non-constant string"}
				}
				set := constant.StringVal(str.V)
				if c, ok := args[1].(pred.Const); ok && c.V != nil {
					k, _ := constant.Int64Val(c.V)
					return pred.Const{V: constant.MakeInt64(int64(strings.IndexByte(set, byte(k))))}, nil
				}
				for i := 0; i < len(set); i++ {
					if int64(set[i]) >= cl.lo && int64(set[i]) <= cl.hi {
						return nil, &pred.Undecided{Reason: "IndexByte splits the byte class"}
					}
				}
				return pred.Const{V: constant.MakeInt64(-1)}, nil
			},
		}
		sums["bytes.IndexByte"] = sums["strings.IndexByte"]
		o := &treeOracle{assign: map[string]int{}, fixed: fixed, keyOf: func(a, b pred.Val) (string, bool) { return "", false }}
		ev := &pred.Evaluator{Prog: e.P.SSA, Oracle: o, Summaries: sums, GlobalInit: e.globalTables()}
		_, err := ev.Eval(fn, []pred.Val{&pred.SliceV{Elems: []*pred.Cell{cell}}})
		construct := fmt.Sprintf("%q", rune(cl.lo))
		if !cl.letter {
			construct = fmt.Sprintf("bytes %#x..%#x", cl.lo, cl.hi)
		}
		switch {
		case err != nil:
			e.S.Unk(rule, site, construct, "not evaluable: "+err.Error(), e.Pos(fn))
		case cl.letter:
			want := cl.lo | 0x20
			if k, ok := intOf(cell.V); ok && k == want {
				e.S.Ok(rule, site, construct, fmt.Sprintf("%q ↦ %q", rune(cl.lo), rune(want)), e.Pos(fn))
			} else if ok && k == cl.lo {
				e.S.Bad(rule, site, construct, fmt.Sprintf("the letter %q is not lower-cased: FormatLowerCase output keeps an upper-case letter", rune(cl.lo)), e.Pos(fn), string(rune(cl.lo)))
			} else {
				e.S.Bad(rule, site, construct, fmt.Sprintf("%q is mapped to %v, not to its own lower case %q", rune(cl.lo), cell.V, rune(want)), e.Pos(fn), string(rune(cl.lo)))
			}
		default:
			asciiLower := cl.lo >= 'A' && cl.hi <= 'Z' && (cell.V.String() == "(b+32 mod 2^8)" || cell.V.String() == "⟨b[7:6] 1×1 b[4:0]⟩")
			if cell.V.String() != "b" && !asciiLower {
				gapBad = fmt.Sprintf("toLower also rewrites bytes in %#x..%#x (to %v), which are not upper-case roman letters", cl.lo, cl.hi, cell.V)
				e.S.Bad(rule, site, construct, gapBad, e.Pos(fn), "")
			}
		}
	}
	if gapBad == "" {
		e.S.Ok(rule, site, "other bytes", "every byte that is not one of I V X L C D M is left unchanged (or, for the other upper-case ASCII letters, lower-cased too: no numeral holds one)", e.Pos(fn))
	}
	// every element is treated as the one evaluated above: the only test on a position (an int) is the loop's own
	// test against the length of the buffer — an index-dependent break or skip is harmless at index 0 and not later
	{
		stray := ""
		for _, b := range fn.Blocks {
			for _, in := range b.Instrs {
				bo, ok := in.(*ssa.BinOp)
				if !ok {
					continue
				}
				switch bo.Op {
				case token.EQL, token.NEQ, token.LSS, token.LEQ, token.GTR, token.GEQ:
				default:
					continue
				}
				bt, isB := bo.X.Type().Underlying().(*types.Basic)
				if !isB || bt.Info()&types.IsInteger == 0 || bt.Kind() == types.Uint8 || bt.Kind() == types.Int32 {
					continue
				}
				lenOf := func(v ssa.Value) bool {
					x, ok := flow.IsLenOf(v)
					return ok && flow.RootParam(x) == fn.Params[0]
				}
				// a count handed back by a call (`strings.IndexByte(letters, b) >= 0`) is not a position in the buffer
				_, xCall := bo.X.(*ssa.Call)
				_, yCall := bo.Y.(*ssa.Call)
				if !lenOf(bo.X) && !lenOf(bo.Y) && !xCall && !yCall {
					stray = "a test on a position (" + bo.String() + " at " + e.posOf(bo) + ") other than the loop's own bound"
				}
			}
		}
		// … and the loop runs over the whole buffer: no re-slice of it with an upper bound (`range buf[:m]`)
		for _, b := range fn.Blocks {
			for _, in := range b.Instrs {
				if sl, ok := in.(*ssa.Slice); ok && sl.High != nil && flow.RootParam(sl.X) == fn.Params[0] {
					stray = "the buffer is re-sliced with an upper bound (" + e.posOf(sl) + "): the elements behind it are not visited"
				}
			}
		}
		if stray != "" {
			e.S.Unk(rule, site, "every element", "toLower is evaluated on a one-element slice; whether later elements are treated alike is not read: "+stray, e.Pos(fn))
		} else {
			e.S.Ok(rule, site, "every element", "no test on a position other than the loop's bound against len(buf): every element is treated as the one evaluated", e.Pos(fn))
		}
	}
	// applied exactly under FormatLowerCase, after the last write, to the whole numeral
	if df != nil {
		lc, _ := tabConstInt(e, "roman", "FormatLowerCase")
		ncalls := 0
		for _, g := range flow.SortedFuncs(e.C.Reachable(df)) {
			if g == fn {
				continue
			}
			// the flags as g sees them: DefaultFormatter's own parameter, or the parameter of the flag type in a helper
			var flags ssa.Value
			if g == df {
				flags = df.Params[2]
			} else {
				for _, q := range g.Params {
					if q.Type() == df.Params[2].Type() {
						flags = q
					}
				}
			}
			for _, call := range e.C.Calls(g, func(f *ssa.Function) bool { return f == fn }) {
				ncalls++
				okGate := ""
				var gateBlk *ssa.BasicBlock // the block that tests the flag
				if flags == nil {
					okGate = "the function calling toLower has no parameter of the flag type"
				} else {
					okGate = "toLower is not gated by the FormatLowerCase flag"
					for d := call.Block(); d != nil; d = d.Idom() {
						id := d.Idom()
						if id == nil {
							break
						}
						iff, ok := id.Instrs[len(id.Instrs)-1].(*ssa.If)
						if !ok {
							continue
						}
						pol := e.flagTest(iff.Cond, flags, lc)
						if pol == 0 {
							continue
						}
						side := 0
						if pol < 0 {
							side = 1
						}
						// from the flag's set side straight to the call: no further condition in between
						at, steps := id.Succs[side], 0
						for at != call.Block() && len(at.Succs) == 1 && steps < 8 {
							at, steps = at.Succs[0], steps+1
						}
						if at == call.Block() {
							okGate = ""
							gateBlk = id
						} else if id.Succs[side] == d || id.Succs[side].Dominates(d) {
							okGate = "toLower runs under a further condition besides the FormatLowerCase flag: with the flag set some numerals keep their upper-case letters"
						}
						break
					}
				}
				// the flag test lies behind every write of the numeral (a letter written afterwards keeps its case)
				if okGate == "" {
					for _, b := range g.Blocks {
						for _, in := range b.Instrs {
							w, ok := in.(*ssa.Call)
							if !ok || w == call {
								continue
							}
							f := e.C.StaticCallee(&w.Call)
							if f == nil {
								continue
							}
							writes := strings.HasPrefix(f.String(), "(*bytes.Buffer).Write")
							if !writes && flow.InRepo(f) {
								for h := range e.C.Reachable(f) {
									for _, c2 := range e.C.Calls(h, func(f *ssa.Function) bool { return strings.HasPrefix(f.String(), "(*bytes.Buffer).Write") }) {
										_ = c2
										writes = true
									}
								}
							}
							if !writes {
								continue
							}
							after := flow.ReachFrom(call.Block())[b]
							if b == call.Block() && !after {
								for _, x := range b.Instrs {
									if x == ssa.Instruction(call) {
										after = true
									} else if x == ssa.Instruction(w) {
										break
									}
								}
							}
							if after {
								okGate = "a write to the numeral's buffer can follow the lower-casing: letters written afterwards keep their case"
							}
							// … and the flag is asked for everything written: from a write no return is reached round the
							// flag test (`if n < 4000 && f&FormatLowerCase != 0`: the numerals from 4000 on skip it)
							if gateBlk != nil && b != gateBlk {
								seen := map[*ssa.BasicBlock]bool{gateBlk: true}
								work := []*ssa.BasicBlock{b}
								for len(work) > 0 {
									x := work[len(work)-1]
									work = work[:len(work)-1]
									if seen[x] {
										continue
									}
									seen[x] = true
									if _, isRet := x.Instrs[len(x.Instrs)-1].(*ssa.Return); isRet {
										okGate = "the FormatLowerCase test is itself conditional: after letters are written a return is reached without the flag being asked, so with the flag set some numerals keep their upper-case letters"
									}
									work = append(work, x.Succs...)
								}
							}
						}
					}
				}
				// the argument covers everything written: buffer.Bytes()[len(buf):] (or the whole content)
				if okGate == "" && len(call.Call.Args) == 1 {
					if sl, ok := call.Call.Args[0].(*ssa.Slice); ok && sl.High != nil {
						okGate = "toLower is handed a part of the numeral only (an upper bound on the slice)"
					}
				}
				if okGate == "" {
					e.S.Ok(rule, flow.FnName(g), "gate", "toLower applied exactly when f&FormatLowerCase != 0, after the last write", e.posOf(call))
				} else {
					e.S.Bad(rule, flow.FnName(g), "gate", okGate, e.posOf(call), "")
				}
			}
		}
		if ncalls == 0 {
			e.S.Bad(rule, flow.FnName(df), "gate", "toLower is not called by the formatter: the lower-case flag is served by code this rule has not read", e.Pos(df), "")
		}
	}
}

// ruleC02Zero: zero ↔ empty text.
func ruleC02Zero(e *Env) {
	const rule = "C02.zero"
	if fn := e.Fn(rule, "roman", "DefaultFormatter"); fn != nil {
		o := &ordOracle{ord: map[string]int{"n|0": 0}}
		ev := &pred.Evaluator{Prog: e.P.SSA, GlobalInit: e.globalTables(), Oracle: o}
		out, err := ev.Eval(fn, []pred.Val{pred.Sym{Name: "buf"}, pred.Sym{Name: "n"}, pred.Sym{Name: "f"}})
		switch {
		case err != nil:
			e.S.Unk(rule, flow.FnName(fn), "n=0", err.Error(), e.Pos(fn))
		case out.Ret.String() == "(buf, nil)":
			e.S.Ok(rule, flow.FnName(fn), "n=0", "zero ↦ the caller's buffer unchanged (empty text)", e.Pos(fn))
		default:
			e.S.Bad(rule, flow.FnName(fn), "n=0", "for n = 0 the formatter returns "+out.Ret.String()+", documented: the buffer unchanged", e.Pos(fn), "Number(0)")
		}
	}
	dp := e.Fn(rule, "roman", "DefaultParser")
	bit, ok := tabConstInt(e, "roman", "RuleDisableEmptyAsZero")
	if dp == nil || !ok {
		return
	}
	for _, set := range []bool{false, true} {
		construct := fmt.Sprintf("empty input, RuleDisableEmptyAsZero=%v", set)
		// the rule value: the flag's bit set or clear, every other bit unknown — "the rule forbids it" is the bit,
		// whatever else the rule value carries
		rv := pred.SymBits("r", pred.WordBits, true)
		if bi := bitIndex(bit); bi >= 0 && bi < len(rv.B) {
			rv.B[bi] = pred.Bit{K: map[bool]byte{true: '1', false: '0'}[set]}
		}
		o := &ordOracle{ord: map[string]int{"len(input)|0": 0}}
		ev := &pred.Evaluator{Prog: e.P.SSA, GlobalInit: e.globalTables(), Oracle: o}
		out, err := ev.Eval(dp, []pred.Val{pred.Sym{Name: "input"}, rv})
		if err != nil {
			e.S.Unk(rule, flow.FnName(dp), construct, err.Error(), e.Pos(dp))
			continue
		}
		t, okT := out.Ret.(pred.Tuple)
		if !okT || len(t) != 2 {
			e.S.Unk(rule, flow.FnName(dp), construct, out.Ret.String(), e.Pos(dp))
			continue
		}
		isNil := t[1].String() == "nil"
		v, okV := intOf(t[0])
		switch {
		case !okV || v != 0:
			e.S.Bad(rule, flow.FnName(dp), construct, "value "+t[0].String()+" instead of 0", e.Pos(dp), "")
		case set == isNil:
			e.S.Bad(rule, flow.FnName(dp), construct, fmt.Sprintf("error is %s; empty text is zero unless the rule forbids it", t[1]), e.Pos(dp), "")
		default:
			e.S.Ok(rule, flow.FnName(dp), construct, map[bool]string{false: "(0, nil)", true: "(0, typed error)"}[set], e.Pos(dp))
		}
	}
}

// ruleC02Flags: the seven format flags are distinct single bits and the documented combinations are exactly the
// unions their names promise (the verbs %L %l and DefaultFormat values are written in terms of them).
func ruleC02Flags(e *Env) {
	const rule = "C02.flags"
	base := []string{"FormatLong4", "FormatLong40", "FormatLong400", "FormatLong9", "FormatLong90", "FormatLong900", "FormatLowerCase"}
	val := map[string]int64{}
	seen := map[int64]string{}
	for _, n := range base {
		v, ok := tabConstInt(e, "roman", n)
		switch {
		case !ok:
			e.S.Unk(rule, "roman."+n, "value", "constant not found", "")
			return
		case bitIndex(v) < 0:
			e.S.Bad(rule, "roman."+n, "value", fmt.Sprintf("%s = %d is not a single bit", n, v), "", "")
		case seen[v] != "":
			e.S.Bad(rule, "roman."+n, "value", n+" has the same bit as "+seen[v], "", "")
		default:
			e.S.Ok(rule, "roman."+n, "value", fmt.Sprintf("%s = 1<<%d", n, bitIndex(v)), "")
		}
		val[n], seen[v] = v, n
	}
	for _, c := range []struct {
		name  string
		parts []string
	}{{"FormatLong4x", base[0:3]}, {"FormatLong9x", base[3:6]}, {"FormatLong", base[0:6]}} {
		v, ok := tabConstInt(e, "roman", c.name)
		want := int64(0)
		for _, p := range c.parts {
			want |= val[p]
		}
		switch {
		case !ok:
			e.S.Unk(rule, "roman."+c.name, "value", "constant not found", "")
		case v != want:
			e.S.Bad(rule, "roman."+c.name, "value", fmt.Sprintf("%s = %d, documented as the union of %v = %d", c.name, v, c.parts, want), "", "")
		default:
			e.S.Ok(rule, "roman."+c.name, "value", fmt.Sprintf("%s = %s", c.name, strings.Join(c.parts, "|")), "")
		}
	}
}
