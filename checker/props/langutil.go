package props

import (
	"fmt"
	"strings"

	"utilcheck/lang"
)

// pattern returns the pattern constant of a package-level *regexp.Regexp; missing anchors are reported under rule.
func (e *Env) pattern(rule, pkg, name string) (string, bool) {
	g := e.Var(rule, pkg, name)
	if g == nil {
		return "", false
	}
	p, ok := e.C.PatternOfGlobal(g)
	if !ok {
		e.S.Unk(rule, pkg+"."+name, "pattern", "regexp global is not initialised by regexp.MustCompile(<constant>) (the pattern must be a compile-time constant for the language to be decided)", "")
		return "", false
	}
	return p, true
}

// langEqual reports an obligation: L(got) == L(want), with a shortest distinguishing word.
func (e *Env) langEqual(rule, site, construct string, sp *lang.Space, got, want *lang.D, gotName, wantName string) bool {
	eq, w, side := sp.Equal(got, want)
	if eq {
		e.S.Ok(rule, site, construct, fmt.Sprintf("L(%s) = L(%s) (%d / %d DFA states over %d rune classes)", gotName, wantName, got.States(), want.States(), sp.Classes()), "")
		return true
	}
	who := gotName
	if side == "second" {
		who = wantName
	}
	e.S.Bad(rule, site, construct, fmt.Sprintf("L(%s) ≠ L(%s): %q is matched only by %s", gotName, wantName, w, who), "", w)
	return false
}

// langSubset reports an obligation: L(a) ⊆ L(b).
func (e *Env) langSubset(rule, site, construct string, sp *lang.Space, a, b *lang.D, aName, bName string) bool {
	ok, w := sp.Subset(a, b)
	if ok {
		e.S.Ok(rule, site, construct, fmt.Sprintf("L(%s) ⊆ L(%s)", aName, bName), "")
		return true
	}
	e.S.Bad(rule, site, construct, fmt.Sprintf("L(%s) ⊄ L(%s): %q is in the first but not in the second", aName, bName, w), "", w)
	return false
}

// skeleton reports an obligation: the top-level shape of regexp global pkg.name, with the content of each capture
// abstracted, is want — a matched text is then the concatenation of its captures and the literals between them,
// every capture participates exactly once (or exactly when its optional piece is present), in the written order.
func (e *Env) skeleton(rule, pkg, name, want string) {
	pat, ok := e.pattern(rule, pkg, name)
	if !ok {
		return
	}
	got, err := lang.Skeleton(pat)
	switch {
	case err != nil:
		e.S.Unk(rule, pkg+"."+name, "skeleton", err.Error(), "")
	case got == want:
		e.S.Ok(rule, pkg+"."+name, "skeleton", "shape "+want+": the matched text is the concatenation of its captures and the literals between them", "")
	case strings.Contains(got, "(?)") || strings.Contains(got, "!"):
		e.S.Unk(rule, pkg+"."+name, "skeleton", "shape "+got+" (expected "+want+"): input is consumed outside the captures or a capture sits under an alternation/repetition; what the captures hold is not decided", "")
	default:
		e.S.Bad(rule, pkg+"."+name, "skeleton", "shape "+got+", the reader and the formatter assume "+want, "", "")
	}
}
