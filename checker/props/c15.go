package props

import (
	"fmt"
	"go/constant"
	"go/token"
	"go/types"
	"strings"

	"golang.org/x/tools/go/ssa"

	"utilcheck/flow"
	"utilcheck/pred"
)

func init() {
	register(&Prop{
		ID:    "C15",
		Title: "Date range filter contains exactly the inclusive interval",
		Run:   runC15,
		Explanation: "C15.table: FilterFromTo composed with the Contains method of whichever concrete filter type it returns is evaluated by predicate abstraction over (from nil?, to nil?, order(from,to), order(from,probe), order(to,probe)) restricted to consistent orders — 20 abstract cases covering every triple of dates; Equal/Before/After are replaced by their specification (discharged by C07.order, which this check re-runs). Oracle: error wrapping ErrInvalidFromOrTo iff both given and from > to; otherwise contains ⇔ (from absent ∨ from ≤ probe) ∧ (to absent ∨ probe ≤ to). " +
			"C15.new: date.New = FromTime(time.Date(y,m,d,0,0,0,0,time.UTC)) and FromTime's decision table, so the bounds and probes are the days the caller named. C15.copy: every concrete filter type has only Date value fields (no pointer, slice or map), initialised from loads *from / *to, so later changes of the caller's variables cannot reach the filter. C15.copy frozen: every store into a filter struct initialises a fresh allocation; no method or function writes a filter through a receiver, parameter or loaded pointer." +
			" Added after the second rule audit: C15.wrap looks into Unwrap bodies: every return is the error-typed field of the receiver.",
		NotDecided:  []string{"nothing beyond C07's assumptions (lexicographic field order = chronological order)", "'keeps the bounds it was built with' is decided structurally (nothing writes a filter, or through the address of one of its fields, after construction), not by evaluating a second Contains call"},
		Assumptions: []string{"C07.order (re-checked in this run)"},
		Technique:   "exhaustive predicate abstraction over consistent date orderings with interface dispatch + type-structure check",
	})
}

func runC15(e *Env) {
	ruleC07Order(e) // the specification used below must hold
	for i := range e.S.Obs {
		if e.S.Obs[i].Rule == "C07.order" {
			e.S.Obs[i].Rule = "C15.spec"
		}
	}
	ruleC15Table(e)
	ruleC15Copy(e)
	// the bounds and the probed dates are the days the caller named: New builds the UTC day it is given
	ruleNewDeleg(e, "C15.new")
	if a := newDateAbs(e); a != nil {
		ruleFromTime(e, "C15.new", a)
	}
	e.S.Floor("C15.new", 7)
	ruleWrap(e, "C15.wrap", "date")
	e.S.Floor("C15.table", 20)
	e.S.Floor("C15.copy", 5)
}

// consistent reports whether order(from,to)=ft, order(from,p)=fp, order(to,p)=tp can hold in a total order.
func consistentOrders(ft, fp, tp int) bool {
	for f := 0; f < 3; f++ {
		for t := 0; t < 3; t++ {
			for p := 0; p < 3; p++ {
				if sgn(f-t) == ft && sgn(f-p) == fp && sgn(t-p) == tp {
					return true
				}
			}
		}
	}
	return false
}

// dateKeyOracle extends the scenario's order of whole dates to sortable keys: chronological order is the
// lexicographic order of (year, month, day), so a key that packs exactly fields #0, #1, #2 of one date against the
// same fields of another (lexkey terms of the evaluator's packed comparison) is ordered like the dates — provided
// the Date struct declares year, month, day in that order (enabled).
type dateKeyOracle struct {
	*ordOracle
	enabled bool
}

func (o dateKeyOracle) Cmp(a, b pred.Val) (int, bool) {
	if r, ok := o.ordOracle.Cmp(a, b); ok {
		return r, true
	}
	base := func(v pred.Val) (string, bool) {
		t, ok := v.(pred.Term)
		if !ok || t.Fn != "lexkey" || len(t.Args) != 3 {
			return "", false
		}
		name := ""
		for k, f := range t.Args {
			s, ok := f.(pred.Sym)
			suffix := fmt.Sprintf(".#%d", k)
			if !ok || !strings.HasSuffix(s.Name, suffix) {
				return "", false
			}
			b := strings.TrimSuffix(s.Name, suffix)
			if k > 0 && b != name {
				return "", false
			}
			name = b
		}
		return name, true
	}
	if !o.enabled {
		return 0, false
	}
	x, ok1 := base(a)
	y, ok2 := base(b)
	if !ok1 || !ok2 {
		return 0, false
	}
	if x == y {
		return 0, true
	}
	return o.ordOracle.Cmp(pred.Sym{Name: x}, pred.Sym{Name: y})
}

// dateFieldsInOrder: date.Date is struct{year; month; day} in that order.
func dateFieldsInOrder(e *Env) bool {
	sp := e.P.ByName["date"]
	if sp == nil || sp.Type("Date") == nil {
		return false
	}
	st, ok := sp.Type("Date").Type().Underlying().(*types.Struct)
	if !ok || st.NumFields() != 3 {
		return false
	}
	return st.Field(0).Name() == "year" && st.Field(1).Name() == "month" && st.Field(2).Name() == "day"
}

func ruleC15Table(e *Env) {
	const rule = "C15.table"
	fft := e.Fn(rule, "date", "FilterFromTo")
	if fft == nil {
		return
	}
	site := flow.FnName(fft)
	spec := func(rel func(int) bool) pred.Summary {
		return func(ev *pred.Evaluator, args []pred.Val) (pred.Val, error) {
			ord, ok := ev.Oracle.Cmp(args[0], args[1])
			if !ok {
				return nil, &pred.Undecided{Reason: fmt.Sprintf("date order %v ? %v outside the scenario", args[0], args[1])}
			}
			return pred.Const{V: constant.MakeBool(rel(ord))}, nil
		}
	}
	sums := map[string]pred.Summary{
		"(go.lstv.dev/util/date.Date).Equal":  spec(func(o int) bool { return o == 0 }),
		"(go.lstv.dev/util/date.Date).Before": spec(func(o int) bool { return o < 0 }),
		"(go.lstv.dev/util/date.Date).After":  spec(func(o int) bool { return o > 0 }),
	}
	datePkg := e.P.ByName["date"].Pkg
	for _, fromNil := range []bool{true, false} {
		for _, toNil := range []bool{true, false} {
			for ft := -1; ft <= 1; ft++ {
				if (fromNil || toNil) && ft != -1 {
					continue
				}
				for fp := -1; fp <= 1; fp++ {
					for tp := -1; tp <= 1; tp++ {
						if fromNil && fp != -1 || toNil && tp != -1 {
							continue
						}
						if !fromNil && !toNil && !consistentOrders(ft, fp, tp) {
							continue
						}
						var parts []string
						if fromNil {
							parts = append(parts, "from=nil")
						} else {
							parts = append(parts, "from"+ordSym(fp)+"probe")
						}
						if toNil {
							parts = append(parts, "to=nil")
						} else {
							parts = append(parts, "to"+ordSym(tp)+"probe")
						}
						if !fromNil && !toNil {
							parts = append(parts, "from"+ordSym(ft)+"to")
						}
						for _, alias := range []bool{false, true} {
							if alias && (fromNil || toNil || ft != 0) {
								continue // the caller may pass the same pointer twice only with equal dates
							}
							construct := strings.Join(parts, " ")
							if alias {
								construct += " (same pointer)"
							}
							o := &ordOracle{ord: map[string]int{"from|to": ft, "from|p": fp, "to|p": tp, "from|from": 0, "to|to": 0}}
							ev := &pred.Evaluator{Prog: e.P.SSA, GlobalInit: e.globalTables(), Oracle: dateKeyOracle{o, dateFieldsInOrder(e)}, Summaries: sums}
							var fromV, toV pred.Val = pred.Ptr{}, pred.Ptr{}
							if !fromNil {
								fromV = pred.Ptr{Cell: &pred.Cell{V: pred.Sym{Name: "from"}, Name: "from"}}
							}
							if !toNil {
								toV = pred.Ptr{Cell: &pred.Cell{V: pred.Sym{Name: "to"}, Name: "to"}}
							}
							if alias {
								toV = fromV
							}
							out, err := ev.Eval(fft, []pred.Val{fromV, toV})
							if err != nil {
								e.S.Unk(rule, site, construct, "FilterFromTo not decidable in this case: "+err.Error(), e.Pos(fft))
								continue
							}
							ret, ok := out.Ret.(pred.Tuple)
							if !ok || len(ret) != 2 {
								e.S.Unk(rule, site, construct, fmt.Sprintf("unexpected result %v", out.Ret), e.Pos(fft))
								continue
							}
							wantErr := !fromNil && !toNil && ft > 0
							isErr := true
							if c, ok := ret[1].(pred.Const); ok && c.V == nil {
								isErr = false
							}
							if isErr != wantErr {
								e.S.Bad(rule, site, construct, fmt.Sprintf("FilterFromTo returns error=%v; documented: error exactly when both bounds are given and from is after to", ret[1]), e.Pos(fft), construct)
								continue
							}
							if wantErr {
								if !wrapsSentinel(ret[1], "*date.ErrInvalidFromOrTo") {
									e.S.Bad(rule, site, construct, fmt.Sprintf("error %v does not wrap ErrInvalidFromOrTo", ret[1]), e.Pos(fft), construct)
								} else {
									e.S.Ok(rule, site, construct, "error wrapping ErrInvalidFromOrTo", e.Pos(fft))
								}
								continue
							}
							ifc, ok := ret[0].(pred.Iface)
							if !ok {
								e.S.Unk(rule, site, construct, fmt.Sprintf("filter value %v is not a concrete type boxed in the interface", ret[0]), e.Pos(fft))
								continue
							}
							sel := e.P.SSA.MethodSets.MethodSet(ifc.Dyn).Lookup(datePkg, "Contains")
							if sel == nil {
								e.S.Unk(rule, site, construct, "returned type "+ifc.Dyn.String()+" has no Contains method", e.Pos(fft))
								continue
							}
							cfn := e.P.SSA.MethodValue(sel)
							out2, err := ev.Eval(cfn, []pred.Val{ifc.V, pred.Sym{Name: "p"}})
							if err != nil {
								e.S.Unk(rule, flow.FnName(cfn), construct, "Contains not decidable in this case: "+err.Error(), e.Pos(cfn))
								continue
							}
							got, okb := boolOf(out2.Ret)
							want := (fromNil || fp <= 0) && (toNil || tp >= 0)
							switch {
							case !okb:
								e.S.Unk(rule, flow.FnName(cfn), construct, fmt.Sprintf("non-boolean result %v", out2.Ret), e.Pos(cfn))
							case got != want:
								e.S.Bad(rule, flow.FnName(cfn), construct, fmt.Sprintf("the filter built for this case (type %s) answers Contains(probe) = %v; the inclusive interval demands %v", types.TypeString(ifc.Dyn, func(p *types.Package) string { return p.Name() }), got, want), e.Pos(cfn), construct)
							default:
								e.S.Ok(rule, flow.FnName(cfn), construct, fmt.Sprintf("Contains = %v", want), e.Pos(cfn))
							}
						}
					}
				}
			}
		}
	}
}

// ruleC15Copy: concrete filter types keep Date values, not references.
func ruleC15Copy(e *Env) {
	const rule = "C15.copy"
	sp := e.P.ByName["date"]
	fft := e.F("date", "FilterFromTo")
	if sp == nil || fft == nil {
		return
	}
	filterT := sp.Type("Filter")
	dateT := sp.Type("Date")
	if filterT == nil || dateT == nil {
		e.S.Unk(rule, "date.Filter", "anchor", "types Filter/Date not found", "")
		return
	}
	iface, _ := filterT.Type().Underlying().(*types.Interface)
	n := 0
	for _, m := range sp.Members {
		t, ok := m.(*ssa.Type)
		if !ok {
			continue
		}
		for _, tt := range []types.Type{t.Type(), types.NewPointer(t.Type())} {
			if iface == nil || !types.Implements(tt, iface) {
				continue
			}
			if _, isIface := t.Type().Underlying().(*types.Interface); isIface {
				continue
			}
			n++
			st, ok := t.Type().Underlying().(*types.Struct)
			if !ok {
				e.S.Unk(rule, "date."+t.Name(), "fields", "filter type is not a struct", "")
				break
			}
			bad := ""
			for i := 0; i < st.NumFields(); i++ {
				if !types.Identical(st.Field(i).Type(), dateT.Type()) {
					bad = st.Field(i).Name() + " " + st.Field(i).Type().String()
				}
			}
			if bad != "" {
				e.S.Bad(rule, "date."+t.Name(), "fields", "filter keeps something other than a Date value ("+bad+"): a later change of the caller's variable can alter the filter", "", "")
			} else {
				e.S.Ok(rule, "date."+t.Name(), "fields", fmt.Sprintf("%d Date value field(s), no reference", st.NumFields()), "")
			}
			break
		}
	}
	if n < 4 {
		e.S.Unk(rule, "date.Filter", "implementations", fmt.Sprintf("only %d concrete filter types found (floor 4)", n), "")
	}
	// "the filter keeps the bounds it was built with": a filter's fields are written only while it is being built —
	// every store into a filter struct goes to a fresh allocation; no method (Contains has pointer receivers) and no
	// other function writes one through a receiver, parameter or loaded pointer
	isFilterStruct := func(t types.Type) bool {
		if p, ok := t.Underlying().(*types.Pointer); ok {
			t = p.Elem()
		}
		nt, ok := t.(*types.Named)
		if !ok || nt.Obj().Pkg() == nil || nt.Obj().Pkg() != sp.Pkg || iface == nil {
			return false
		}
		_, isStruct := nt.Underlying().(*types.Struct)
		return isStruct && (types.Implements(nt, iface) || types.Implements(types.NewPointer(nt), iface))
	}
	bad, stores := "", 0
	for _, fn := range e.PkgFuncs("date") {
		for _, b := range fn.Blocks {
			for _, in := range b.Instrs {
				st, ok := in.(*ssa.Store)
				if !ok {
					continue
				}
				base := st.Addr
				if fa, ok := base.(*ssa.FieldAddr); ok {
					base = fa.X
				}
				if !isFilterStruct(base.Type()) {
					continue
				}
				stores++
				// a fresh allocation (in the constructor or a helper of it) is a filter still being built
				if _, fresh := base.(*ssa.Alloc); !fresh && bad == "" {
					bad = fmt.Sprintf("%s writes a field of a filter outside its construction (%s)", flow.FnName(fn), e.posOf(st))
				}
			}
			// a pointer into a finished filter (&d.from) may only be read through: handed to a function, stored, or taken
			// further (&d.from.year) it is a way to change the bounds after the filter was built
			for _, in := range b.Instrs {
				fa, ok := in.(*ssa.FieldAddr)
				if !ok || !isFilterStruct(fa.X.Type()) {
					continue
				}
				if _, fresh := fa.X.(*ssa.Alloc); fresh {
					continue
				}
				for _, r := range *fa.Referrers() {
					switch x := r.(type) {
					case *ssa.DebugRef:
					case *ssa.UnOp:
						if x.Op != token.MUL && bad == "" {
							bad = fmt.Sprintf("%s uses the address of a filter's field other than to read it (%s)", flow.FnName(fn), e.posOf(x))
						}
					case *ssa.Store:
						// counted above when it is the address stored to
						if x.Val == ssa.Value(fa) && bad == "" {
							bad = fmt.Sprintf("%s keeps a pointer into a filter (%s)", flow.FnName(fn), e.posOf(x))
						}
					default:
						if bad == "" {
							bad = fmt.Sprintf("%s hands out a pointer into a filter (%s): what receives it can change the bound", flow.FnName(fn), e.posOf(r))
						}
					}
				}
			}
		}
	}
	// every concrete type FilterFromTo hands out is judged by the field rule above (a generic or differently named type
	// is not found by name: it is read off the constructor's returns)
	if ctor := e.F("date", "FilterFromTo"); ctor != nil {
		for _, r := range flow.Returns(ctor) {
			if len(r.Results) == 0 {
				continue
			}
			mi, ok := r.Results[0].(*ssa.MakeInterface)
			if !ok {
				continue
			}
			t := mi.X.Type()
			if p, ok := t.Underlying().(*types.Pointer); ok {
				t = p.Elem()
			}
			st, ok := t.Underlying().(*types.Struct)
			if !ok {
				if bad == "" {
					bad = fmt.Sprintf("FilterFromTo returns a %s, not a struct of Date values", t)
				}
				continue
			}
			for i := 0; i < st.NumFields(); i++ {
				if !types.Identical(st.Field(i).Type(), dateT.Type()) && bad == "" {
					bad = fmt.Sprintf("FilterFromTo returns a %s whose field %s is a %s, not a Date value: a later change of the caller's variable can alter the filter", t, st.Field(i).Name(), st.Field(i).Type())
				}
			}
		}
	}
	switch {
	case bad != "":
		e.S.Bad(rule, "date.Filter", "frozen", bad+": the filter does not keep the bounds it was built with", "", "")
	case stores == 0:
		e.S.Unk(rule, "date.Filter", "frozen", "no store into a filter struct found, not even in the constructor", "")
	default:
		e.S.Ok(rule, "date.Filter", "frozen", fmt.Sprintf("all %d stores into filter structs initialise a fresh allocation (a filter still being built); none goes through a receiver, parameter or loaded pointer", stores), "")
	}
}
