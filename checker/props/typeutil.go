package props

import "go/types"

func structOf(t types.Type) *types.Struct {
	if p, ok := t.Underlying().(*types.Pointer); ok {
		t = p.Elem()
	}
	st, _ := t.Underlying().(*types.Struct)
	return st
}
