package props

import (
	"fmt"
	"go/constant"
	"go/token"
	"go/types"
	"strconv"
	"strings"

	"utilcheck/flow"
	"utilcheck/pred"
)

func init() {
	register(&Prop{
		ID:    "C11",
		Title: "Date binary encoding is stable, strict and lossless",
		Run:   runC11,
		Explanation: "C11.wire: bit-provenance evaluation of Date.MarshalBinary: 7 bytes; [0] = constant 1; [1..4] = bits 31..24, 23..16, 15..8, 7..0 of year+1; [5] = month+1; [6] = day+1. " +
			"C11.inv: substituting those seven abstract bytes for data[0..6] in UnmarshalBinary yields the identity on every field modulo 2^32 / 2^8 (calendar guard folded through the New summary). " +
			"C11.strict: decision table over the orderings (len ? 0, data[0] ? version, len ? 7), each −1/0/1 so that a test written with < or > is tabulated too: the failing valuations return errors wrapping ErrInvalidLength, ErrUnsupportedVersion, ErrInvalidLength; all field stores are dominated by the guards; ErrInvalidDate on a leaf whose byte orderings put the month outside 1..12 or the day outside 1..31 is the calendar guard's own answer (a range pre-check). " +
			"C11.range: every store into Date.month/Date.day in the package stores a component of time.Time.Date() minus one, the constant 0 under t.IsZero(), or a decoded byte that passed a calendar-validity guard." +
			" Added after the second rule audit: a whole Date loaded through a pointer converted from another struct type is of unrecognised origin; C11.wrap looks into Unwrap bodies (each return is the error field of the receiver)." +
			" A writer that takes a destination buffer (an AppendBinary behind MarshalBinary) is held to C16's append-only and independence rules under C11.wire.",
		NotDecided:  []string{"nothing value-level beyond the time.Date summary"},
		Assumptions: []string{"time.Date is the identity on in-range components; Time.Date() returns a real calendar date"},
		Technique:   "bit-provenance/affine abstract interpretation, decision-table extraction and dominator rules over go/ssa",
	})
}

func runC11(e *Env) {
	sp := e.P.ByName["date"]
	if sp == nil {
		e.S.Unk("C11.range", "date", "anchor", "package date not found", "")
		return
	}
	e.Flow(func(c *flow.Ctx) { c.RuleDateFieldStores(sp) })
	ruleC11Wire(e)
	// the writer moved behind a function that takes a destination buffer (an AppendBinary next to MarshalBinary): the
	// seven bytes are then decided for the buffer MarshalBinary hands in; for any other buffer they are the same seven
	// bytes behind the caller's own only if that function appends and never writes at fixed offsets of the whole
	// buffer (the append-only and independence rules of C16 for that function, filed here)
	if mb := e.Method("C11.wire", "date", "Date", "MarshalBinary"); mb != nil {
		for _, call := range e.C.Calls(mb, flow.InRepo) {
			g := flow.Origin(e.C.StaticCallee(&call.Call))
			for ai, a := range call.Call.Args {
				if sl, ok := a.Type().Underlying().(*types.Slice); ok && ai < len(g.Params) {
					if b, ok := sl.Elem().Underlying().(*types.Basic); ok && b.Kind() == types.Uint8 {
						g, ai := g, ai
						e.FlowAs(map[string]string{"C16.append": "C11.wire", "C16.indep": "C11.wire"}, func(c *flow.Ctx) {
							c.RuleAppendOnlyAt(g, ai)
							c.RuleBufIndependentAt(g, ai)
						})
					}
				}
			}
		}
	}
	ruleC11Strict(e)
	// the summaries used by C11.inv (New, FromTime on in-range components) are themselves obligations
	ruleNewDeleg(e, "C11.new")
	if a := newDateAbs(e); a != nil {
		ruleFromTime(e, "C11.new", a)
	}
	e.S.Floor("C11.new", 7)
	ruleWrap(e, "C11.wrap", "date")
	e.S.Floor("C11.wire", 8)
	e.S.Floor("C11.inv", 3)
	e.S.Floor("C11.strict", 4)
	e.S.Floor("C11.range", 5)
}

// canonOracle orders two abstract integers as equal when their canonical root±const forms coincide.
type canonOracle struct{}

func (canonOracle) Cmp(a, b pred.Val) (int, bool) {
	ca, ok1 := pred.Canon(a)
	cb, ok2 := pred.Canon(b)
	// equal canonical forms, extension included: sext(x mod 2^32) and zext(x mod 2^32) are the same 32 bits but not
	// the same integer (a year read without sign extension differs from the calendar year for every negative year)
	if ok1 && ok2 && ca.Root == cb.Root && ca.C == cb.C && ca.Ext == cb.Ext && (ca.Ext == "" || ca.Width == cb.Width) {
		return 0, true
	}
	return 0, false
}

// CmpOp: besides equal canonical forms, the stored month and day of a real date have known ranges (month 0..11,
// day 0..30, zero-based as the type stores them): a comparison of month+c / day+c with a constant that holds for the
// whole range is decided (a redundant range pre-check in front of the calendar guard).
func (o canonOracle) CmpOp(op token.Token, a, b pred.Val) (int, bool) {
	if ord, ok := o.Cmp(a, b); ok {
		return ord, true
	}
	flip := map[token.Token]token.Token{token.LSS: token.GTR, token.GTR: token.LSS, token.LEQ: token.GEQ, token.GEQ: token.LEQ, token.EQL: token.EQL, token.NEQ: token.NEQ}
	if _, isC := a.(pred.Const); isC {
		a, b, op = b, a, flip[op]
		if ord, ok := o.CmpOp(op, a, b); ok {
			return -ord, true
		}
		return 0, false
	}
	kc, isC := b.(pred.Const)
	ca, ok := pred.Canon(a)
	if !isC || kc.V == nil || kc.V.Kind() != constant.Int || !ok {
		return 0, false
	}
	k, exact := constant.Int64Val(kc.V)
	hiOf := map[string]int64{"d.month": 11, "d.day": 30}
	top, known := hiOf[ca.Root]
	if !exact || !known || ca.C < 0 || ca.C > 100 || !(ca.Width == 0 || ca.Width == 8) || ca.Ext == "sext" {
		return 0, false
	}
	lo, hi := ca.C, top+ca.C
	holds := func(x int64) bool {
		switch op {
		case token.LSS:
			return x < k
		case token.LEQ:
			return x <= k
		case token.GTR:
			return x > k
		case token.GEQ:
			return x >= k
		case token.EQL:
			return x == k
		}
		return x != k
	}
	first := holds(lo)
	for x := lo; x <= hi; x++ {
		if holds(x) != first {
			return 0, false
		}
	}
	// an order under which the operator gives that truth value
	for _, ord := range []int{-1, 0, 1} {
		var t bool
		switch op {
		case token.LSS:
			t = ord < 0
		case token.LEQ:
			t = ord <= 0
		case token.GTR:
			t = ord > 0
		case token.GEQ:
			t = ord >= 0
		case token.EQL:
			t = ord == 0
		default:
			t = ord != 0
		}
		if t == first {
			return ord, true
		}
	}
	return 0, false
}

// newSummary models date.New(y, m, d) on in-range components: Date{y−1, m−1, d−1} (time.Date is the identity on
// real dates, the writer's operand is well-formed by C11.range).
func newSummary(a *dateAbs) pred.Summary {
	i, i32, u8 := types.Typ[types.Int], types.Typ[types.Int32], types.Typ[types.Uint8]
	return func(ev *pred.Evaluator, args []pred.Val) (pred.Val, error) {
		y, _ := pred.ConvertInt(pred.AddConst(args[0], -1, 64), i, i32)
		m, _ := pred.ConvertInt(pred.AddConst(args[1], -1, 64), i, u8)
		d, _ := pred.ConvertInt(pred.AddConst(args[2], -1, 64), i, u8)
		if y == nil || m == nil || d == nil {
			return nil, &pred.Undecided{Reason: "New applied to values outside the integer domain"}
		}
		st := a.T.Underlying().(*types.Struct)
		return &pred.StructV{T: st, Named: a.T, Fields: []pred.Val{y, m, d}}, nil
	}
}

func ruleC11Wire(e *Env) {
	const rule = "C11.wire"
	a := newDateAbs(e)
	mb := e.Method(rule, "date", "Date", "MarshalBinary")
	ub := e.Method("C11.inv", "date", "Date", "UnmarshalBinary")
	if a == nil || mb == nil {
		return
	}
	site := flow.FnName(mb)
	ev := &pred.Evaluator{Prog: e.P.SSA, GlobalInit: e.globalTables(), Oracle: noOracle{}}
	out, err := ev.Eval(mb, []pred.Val{a.recv("d")})
	if err != nil {
		e.S.Unk(rule, site, "wire", err.Error(), e.Pos(mb))
		return
	}
	t, ok := out.Ret.(pred.Tuple)
	var wire *pred.SliceV
	if ok && len(t) == 2 {
		wire, _ = t[0].(*pred.SliceV)
	}
	if wire == nil || t[1].String() != "nil" {
		e.S.Unk(rule, site, "wire", fmt.Sprintf("result %v is not (byte slice literal, nil)", out.Ret), e.Pos(mb))
		return
	}
	if len(wire.Elems) != 7 {
		e.S.Bad(rule, site, "length", fmt.Sprintf("%d bytes are written, the format is 7 bytes (version, year×4, month, day)", len(wire.Elems)), e.Pos(mb), "")
		return
	}
	e.S.Ok(rule, site, "length", "7 bytes", e.Pos(mb))
	ver := int64(1) // the documented format version (C11: "seven bytes (version 1, …)"), whatever the constant is called
	if k, ok := intOf(wire.Elems[0].V); ok && k == 1 && ver == 1 {
		e.S.Ok(rule, site, "byte 0", "version constant 1", e.Pos(mb))
	} else {
		e.S.Bad(rule, site, "byte 0", fmt.Sprintf("byte 0 is %v, the format version is 1", wire.Elems[0].V), e.Pos(mb), "")
	}
	for k := 1; k <= 4; k++ {
		construct := fmt.Sprintf("byte %d", k)
		b, ok := wire.Elems[k].V.(pred.Bits)
		bad := ""
		if !ok || len(b.B) != 8 {
			bad = fmt.Sprintf("%v is not a tracked byte", wire.Elems[k].V)
		} else {
			for i, bit := range b.B {
				wantIdx := 8*(4-k) + i
				def, isDef := pred.SymDef(bit.Sym)
				if bit.K != 's' || !isDef || def.X.String() != "d.year" || def.C != 1 || def.W != 32 || bit.Idx != wantIdx {
					bad = fmt.Sprintf("bit %d is %s; big-endian signed 32-bit year requires bit %d of (year+1)", i, bitStr(bit), wantIdx)
				}
			}
		}
		if bad != "" {
			e.S.Bad(rule, site, construct, bad, e.Pos(mb), fmt.Sprint(wire.Elems[k].V))
		} else {
			e.S.Ok(rule, site, construct, fmt.Sprintf("bits %d..%d of (year+1)", 8*(4-k)+7, 8*(4-k)), e.Pos(mb))
		}
	}
	for k, name := range map[int]string{5: "month", 6: "day"} {
		construct := fmt.Sprintf("byte %d", k)
		c, ok := pred.Canon(wire.Elems[k].V)
		if ok && c.Root == "d."+name && c.C == 1 && (c.Width == 0 || c.Width == 8) { // all eight bits of the field
			e.S.Ok(rule, site, construct, name+"+1", e.Pos(mb))
		} else {
			e.S.Bad(rule, site, construct, fmt.Sprintf("byte %d is %v, the format stores %s+1 (one-based)", k, canonVal(wire.Elems[k].V), name), e.Pos(mb), "")
		}
	}
	// C11.inv: the reader applied to the writer's abstract output
	if ub == nil {
		return
	}
	usite := flow.FnName(ub)
	recv := &pred.Cell{V: a.recv("old"), Name: "recv"}
	newFn := e.F("date", "New")
	sums := map[string]pred.Summary{}
	if newFn != nil {
		sums[newFn.String()] = newSummary(a)
	}
	// FromTime(time.Date(y, m, d, …)) on in-range components is the same construction
	fromTime := func(recvFirst bool) pred.Summary {
		return func(ev *pred.Evaluator, args []pred.Val) (pred.Val, error) {
			t := args[len(args)-1]
			term, ok := t.(pred.Term)
			if !ok || term.Fn != "time.Date" || len(term.Args) < 3 {
				return nil, &pred.Undecided{Reason: "FromTime applied to something other than time.Date(y, m, d, …)"}
			}
			v, err := newSummary(a)(ev, term.Args[:3])
			if err != nil {
				return nil, err
			}
			if !recvFirst {
				return v, nil
			}
			p, ok := args[0].(pred.Ptr)
			if !ok || p.Cell == nil {
				return nil, &pred.Undecided{Reason: "FromTime on an unmodelled receiver"}
			}
			p.Cell.V = v
			return pred.Tuple{}, nil
		}
	}
	if f := e.F("date", "FromTime"); f != nil {
		sums[f.String()] = fromTime(false)
	}
	if f := e.P.Method("date", "Date", "FromTime"); f != nil {
		sums[f.String()] = fromTime(true)
	}
	ev2 := &pred.Evaluator{Prog: e.P.SSA, GlobalInit: e.globalTables(), Oracle: canonOracle{}, Summaries: sums}
	out2, err := ev2.Eval(ub, []pred.Val{pred.Ptr{Cell: recv}, wire})
	if err != nil {
		e.S.Unk("C11.inv", usite, "composition", "UnmarshalBinary∘MarshalBinary not evaluable symbolically: "+err.Error(), e.Pos(ub))
		return
	}
	if out2.Ret.String() != "nil" {
		e.S.Bad("C11.inv", usite, "composition", fmt.Sprintf("unmarshalling the marshalled bytes returns the error %v", out2.Ret), e.Pos(ub), "")
		return
	}
	sv, ok := recv.V.(*pred.StructV)
	if !ok || len(sv.Fields) != 3 {
		e.S.Unk("C11.inv", usite, "composition", fmt.Sprintf("receiver is %v", recv.V), e.Pos(ub))
		return
	}
	for i, name := range []string{"year", "month", "day"} {
		c, ok := pred.Canon(sv.Fields[i])
		fw := map[int]int{0: 32, 1: 8, 2: 8}[i] // no truncation below the field's own width on the way
		if ok && c.Root == "d."+name && c.C == 0 && (c.Width == 0 || c.Width == fw) {
			e.S.Ok("C11.inv", usite, name, fmt.Sprintf("Unmarshal(Marshal(d)).%s = d.%s (identity modulo 2^%d)", name, name, map[int]int{0: 32, 1: 8, 2: 8}[i]), e.Pos(ub))
		} else {
			e.S.Bad("C11.inv", usite, name, fmt.Sprintf("after the round trip %s = %v, not d.%s", name, canonVal(sv.Fields[i]), name), e.Pos(ub), "")
		}
	}
}

func ruleC11Strict(e *Env) {
	const rule = "C11.strict"
	ub := e.Method(rule, "date", "Date", "UnmarshalBinary")
	a := newDateAbs(e)
	if ub == nil || a == nil {
		return
	}
	site := flow.FnName(ub)
	ver := int64(1) // the documented format version (C11: "seven bytes (version 1, …)"), whatever the constant is called
	keyOf := func(x, y pred.Val) (string, bool) {
		c, ok := y.(pred.Const)
		if !ok || c.V == nil {
			return "", false
		}
		if x.String() == "len(data)" {
			return "len==" + c.V.ExactString(), true
		}
		if el, ok := x.(pred.Elem); ok && el.Base.String() == "data" {
			if ic, ok := el.Index.(pred.Const); ok && ic.V != nil {
				return "data[" + ic.V.ExactString() + "]==" + c.V.ExactString(), true
			}
		}
		return "", false
	}
	// every atom is an ordering (the code may test with <, > as well as ==, !=): −1 / 0 / 1, restricted to what bytes
	// and lengths can be and to mutually consistent length atoms
	domain := func(k string) []int {
		if strings.HasSuffix(k, "==0") {
			return []int{0, 1} // nothing is below 0
		}
		return []int{-1, 0, 1}
	}
	prune := func(assign map[string]int) bool {
		n := 0
		for k, v := range assign {
			if strings.HasPrefix(k, "len==") && v == 0 {
				n++
			}
		}
		if v, ok := assign["len==0"]; ok && v == 0 {
			if w, ok := assign["len==7"]; ok && w != -1 {
				return false
			}
		}
		// the orderings of one byte against several constants must have a common solution in 0..255
		lo, hi := map[string]int64{}, map[string]int64{}
		for k, v := range assign {
			j := strings.Index(k, "]==")
			if !strings.HasPrefix(k, "data[") || j < 0 {
				continue
			}
			c, err := strconv.ParseInt(k[j+3:], 10, 64)
			if err != nil {
				continue
			}
			key := k[:j+1]
			if _, seen := lo[key]; !seen {
				lo[key], hi[key] = 0, 255
			}
			switch {
			case v == 0:
				if c > lo[key] {
					lo[key] = c
				}
				if c < hi[key] {
					hi[key] = c
				}
			case v < 0 && c-1 < hi[key]:
				hi[key] = c - 1
			case v > 0 && c+1 > lo[key]:
				lo[key] = c + 1
			}
		}
		for key := range lo {
			if lo[key] > hi[key] {
				return false
			}
		}
		return n <= 1
	}
	var recv *pred.Cell
	mk := func() []pred.Val {
		recv = &pred.Cell{V: pred.Sym{Name: "old"}, Name: "recv"}
		return []pred.Val{pred.Ptr{Cell: recv}, pred.Sym{Name: "data"}}
	}
	treeSnapshot = func() string { return fmt.Sprint(recv.V) }
	// the construction and the calendar guard behind the three envelope tests are C11.inv / C11.range's business: here
	// New and Date() stay uninterpreted and the guard is taken to pass
	sums := map[string]pred.Summary{
		"go.lstv.dev/util/date.New": func(ev *pred.Evaluator, args []pred.Val) (pred.Val, error) {
			return pred.Term{Fn: "New", Args: args}, nil
		},
		"(go.lstv.dev/util/date.Date).Date": func(ev *pred.Evaluator, args []pred.Val) (pred.Val, error) {
			return pred.Tuple{pred.Term{Fn: "Date#0", Args: args}, pred.Term{Fn: "Date#1", Args: args}, pred.Term{Fn: "Date#2", Args: args}}, nil
		},
		"(go.lstv.dev/util/date.Date).Equal": func(ev *pred.Evaluator, args []pred.Val) (pred.Val, error) {
			return pred.Const{V: constant.MakeBool(true)}, nil
		},
	}
	newInlined(sums, func(a []pred.Val) pred.Val { return pred.Term{Fn: "New", Args: a} })
	for k, acc := range []string{"Year", "Month", "Day"} {
		k := k
		if _, has := sums["(go.lstv.dev/util/date.Date)."+acc]; !has {
			sums["(go.lstv.dev/util/date.Date)."+acc] = func(ev *pred.Evaluator, args []pred.Val) (pred.Val, error) {
				return pred.Term{Fn: fmt.Sprintf("Date#%d", k), Args: args[:1]}, nil
			}
		}
	}
	fixed := func(x, y pred.Val) (int, bool, bool) {
		xs, ys := x.String(), y.String()
		comp := func(s string) bool { // a component of the constructed date: through Date()/Year()… or read off its fields
			return strings.Contains(s, "New(") && (strings.Contains(s, "Date#") || strings.Contains(s, "field#"))
		}
		if comp(xs) || comp(ys) {
			return 0, true, true // calendar round-trip guard passes
		}
		return 0, false, false
	}
	leaves, err := extractTree(e.P.SSA, ub, mk, sums, fixed, keyOf, domain, prune)
	treeSnapshot = nil
	if err != nil {
		e.S.Unk(rule, site, "table", err.Error(), e.Pos(ub))
		return
	}
	verKey := fmt.Sprintf("data[0]==%d", ver)
	for _, lf := range leaves {
		construct := lf.String()
		get := func(k string) int { // 1 true, 0 false, 2 unknown
			v, ok := lf.Assign[k]
			if !ok {
				return 2
			}
			if v == 0 {
				return 1
			}
			return 0
		}
		empty, seven, vok := get("len==0"), get("len==7"), get(verKey)
		if seven == 1 && empty == 2 {
			empty = 0 // a length of seven is not zero, asked or not
		}
		foreign := ""
		for k := range lf.Assign {
			if strings.HasPrefix(k, "data[0]==") && k != verKey || strings.HasPrefix(k, "len==") && k != "len==0" && k != "len==7" {
				foreign = k
			}
		}
		if foreign != "" {
			e.S.Bad(rule, site, construct, "the reader tests "+foreign+"; the format is version "+fmt.Sprint(ver)+" (as written by MarshalBinary) and 7 bytes long", e.Pos(ub), "")
			continue
		}
		want := "?"
		switch {
		case empty == 1:
			want = "ErrInvalidLength"
		case empty == 0 && vok == 0:
			want = "ErrUnsupportedVersion"
		case empty == 0 && vok == 1 && seven == 0:
			want = "ErrInvalidLength"
		case empty == 0 && vok == 1 && seven == 1:
			want = "decode"
		}
		if lf.Err != nil {
			e.S.Unk(rule, site, construct, lf.Err.Error(), e.Pos(ub))
			continue
		}
		got := "decode"
		if lf.Err == nil {
			r := lf.Out.Ret.String()
			switch {
			case r == "nil":
				got = "decode"
			case wrapsSentinel(lf.Out.Ret, "*date.ErrInvalidLength"):
				got = "ErrInvalidLength"
			case wrapsSentinel(lf.Out.Ret, "*date.ErrUnsupportedVersion"):
				got = "ErrUnsupportedVersion"
			default:
				got = "error:" + r
			}
		}
		// a range pre-check in front of the calendar guard: ErrInvalidDate for a month byte outside 1..12 or a day byte
		// outside 1..31 is what the guard itself answers (no year has such a month or day)
		if want == "decode" && lf.Err == nil && wrapsSentinel(lf.Out.Ret, "*date.ErrInvalidDate") {
			bounds := func(idx int) (lo, hi int64) {
				lo, hi = 0, 255
				prefix := fmt.Sprintf("data[%d]==", idx)
				for k, v := range lf.Assign {
					if !strings.HasPrefix(k, prefix) {
						continue
					}
					c, err := strconv.ParseInt(k[len(prefix):], 10, 64)
					if err != nil {
						continue
					}
					switch {
					case v == 0:
						lo, hi = c, c
					case v < 0 && c-1 < hi:
						hi = c - 1
					case v > 0 && c+1 > lo:
						lo = c + 1
					}
				}
				return
			}
			mlo, mhi := bounds(5)
			dlo, dhi := bounds(6)
			if mhi < 1 || mlo > 12 || dhi < 1 || dlo > 31 {
				e.S.Ok(rule, site, construct, "outcome ErrInvalidDate for a month outside 1..12 or a day outside 1..31 (what the calendar guard answers)", e.Pos(ub))
				continue
			}
		}
		switch {
		case want == "?":
			e.S.Bad(rule, site, construct, "the reader decides ("+got+") without having tested emptiness, version and length", e.Pos(ub), "")
		case got != want:
			e.S.Bad(rule, site, construct, "outcome "+got+", documented "+want, e.Pos(ub), "")
		default:
			e.S.Ok(rule, site, construct, "outcome "+want, e.Pos(ub))
		}
	}
}
