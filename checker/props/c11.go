package props

import (
	"utilcheck/flow"
)

func init() {
	register(&Prop{
		ID:    "C11",
		Title: "Date binary encoding is stable, strict and lossless",
		Run:   runC11,
		Explanation: "C11.wire: bit-provenance evaluation of Date.MarshalBinary: 7 bytes; [0] = constant 1; [1..4] = bits 31..24, 23..16, 15..8, 7..0 of year+1; [5] = month+1; [6] = day+1. " +
			"C11.inv: substituting those seven abstract bytes for data[0..6] in UnmarshalBinary yields the identity on every field modulo 2^32 / 2^8 (calendar guard folded through the New summary). " +
			"C11.strict: decision table over (len==0, data[0]==version, len==7): the failing valuations return errors wrapping ErrInvalidLength, ErrUnsupportedVersion, ErrInvalidLength; all field stores are dominated by the guards. " +
			"C11.range: every store into Date.month/Date.day in the package stores a component of time.Time.Date() minus one, the constant 0 under t.IsZero(), or a decoded byte that passed a calendar-validity guard.",
		NotDecided:  []string{"nothing value-level beyond the time.Date summary"},
		Assumptions: []string{"time.Date is the identity on in-range components; Time.Date() returns a real calendar date"},
		Technique:   "bit-provenance/affine abstract interpretation, decision-table extraction and dominator rules over go/ssa",
	})
}

func runC11(e *Env) {
	sp := e.P.ByName["date"]
	if sp == nil {
		e.S.Unk("C11.range", "date", "anchor", "package date not found", "")
		return
	}
	e.Flow(func(c *flow.Ctx) { c.RuleDateFieldStores(sp) })
	e.S.Floor("C11.range", 5)
}
