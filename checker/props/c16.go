package props

import (
	"go/token"
	"go/types"

	"golang.org/x/tools/go/ssa"

	"utilcheck/flow"
)

func init() {
	register(&Prop{
		ID:    "C16",
		Title: "Formatters append to the caller's buffer without disturbing it",
		Run:   runC16,
		Explanation: "Alias/effect analysis over the SSA of the five DefaultFormatter functions and internal.Bprintf: " +
			"the returned slice must derive from the buf parameter by append-only operations (append, strconv.Append*, bytes.NewBuffer+Write*/Fprintf+Bytes); " +
			"every element store, copy or in-repo callee that writes must go through a slice proven to start at len(buf) (suffix-only); " +
			"no read of the caller's existing elements may influence the output (C16.indep); no slice that may alias the caller's buffer is stored into a package-level variable (retention across calls); no second append chain may be started in the caller's spare capacity (buf[len(buf):]) while buf itself is appended to, and no buffer-derived slice value is the destination of two appends on one path while the earlier result is still used after the later one (forked chains write the same spare capacity; a loop-carried phi is a new value per iteration); ID.URN formats onto a literal equal to URNPrefix with flag 0 (C16.urn); the formatter under FormatURN renders urn:uuid: followed by the fields of the plain layout, same widths, same lower-case hex, same operands (C16.urnflag, the layout rule of C05). " +
			"A violation names the storing instruction and the call chain. The rules are applied to the five formatters, internal.Bprintf and every other exported function or method of a value package that takes a []byte and returns one (discovered on each run); besides the region analysis (a union over paths: the result may hold the caller's bytes) a must pass shows that on every non-failure path through the functions of the module the result is built on the buffer; package-level function variables assigned once are resolved to their function." +
			" Added after the second rule audit: C16.entry: each package-level Formatter is initialised to DefaultFormatter and never rebound inside the module; C16.indep follows a bytes.Buffer that wraps the caller's bytes into functions of the module; URN may also be written URNPrefix + String()." +
			" After a replaceable formatter (called through the package variable) has failed, the bytes it handed back are not used as the buffer to go on with. Since audit round 3: a shadow chain is recognised through phis and append results; tuple-returning appenders of the module are chain members; C16.indep resolves function variables assigned once; the URN receiver check covers field stores, the copy's address handed to a call, and the FormatURN shape.",
		NotDecided:  []string{"a second chain held in a bytes.Buffer over the caller's buffer (Buffer destinations are not members of the fork analysis)", "nothing value-level: this is a shape property; stdlib append/Buffer semantics are trusted summaries", "aliasing of the caller's buffer through struct fields or other heap objects (the region analysis follows slices, bytes.Buffer values and functions of the module, not arbitrary pointers)", "the rule is stronger than the clause in one direction: a formatter that first copies the caller's bytes into fresh storage, or trims a byte it has itself appended, is reported although the returned bytes are right"},
		Assumptions: []string{"bytes.Buffer is append-only over the slice it was created from and Bytes() returns that whole slice", "append/strconv.Append* never modify existing elements"},
		Technique:   "alias/effect (region) analysis of the buffer parameter over go/ssa: append-only derivation, suffix-only writes, no reads of the prefix, no shadow append chain",
	})
}

func runC16(e *Env) {
	// what the conversion methods and users call is the package-level Formatter: it is the DefaultFormatter decided
	// below, and nothing in the module rebinds it (a wrapper that formats into buf[:0] would drop the caller's bytes)
	for _, pkg := range ValuePkgs {
		gv := e.Var("C16.entry", pkg, "Formatter")
		if gv == nil {
			continue
		}
		if f := e.C.GlobalFuncInit(gv); f == nil || flow.Origin(f) != e.F(pkg, "DefaultFormatter") {
			e.S.Bad("C16.entry", pkg+".Formatter", "initialiser", "the package-level Formatter is not initialised to DefaultFormatter or is reassigned inside the module: the buffer rules below are decided for DefaultFormatter only", "", "")
		} else {
			e.S.Ok("C16.entry", pkg+".Formatter", "initialiser", "= DefaultFormatter, never reassigned inside the module", "")
		}
	}
	e.S.Floor("C16.entry", 5)
	fs := funcs(
		e.Fn("C16.append", "date", "DefaultFormatter"),
		e.Fn("C16.append", "roman", "DefaultFormatter"),
		e.Fn("C16.append", "sem", "DefaultFormatter"),
		e.Fn("C16.append", "size", "DefaultFormatter"),
		e.Fn("C16.append", "uu", "DefaultFormatter"),
		e.Fn("C16.append", "internal", "Bprintf"),
	)
	// "for every value type, formatting into a caller-supplied buffer": besides the formatters, every exported function
	// or method of a value package that takes a []byte and hands a []byte back is such an entry point (an AppendText
	// added next to MarshalText, say) and is held to the same two rules
	type appender struct {
		fn *ssa.Function
		pi int
	}
	var more []appender
	known := map[*ssa.Function]bool{}
	for _, f := range fs {
		known[f] = true
	}
	isBytes := func(t types.Type) bool {
		s, ok := t.Underlying().(*types.Slice)
		if !ok {
			return false
		}
		b, ok := s.Elem().Underlying().(*types.Basic)
		return ok && b.Kind() == types.Uint8
	}
	for _, f := range e.PkgFuncs(ValuePkgs...) {
		if known[f] || f.Object() == nil || !f.Object().Exported() || f.Signature.Results().Len() == 0 || !isBytes(f.Signature.Results().At(0).Type()) {
			continue
		}
		if recv := f.Signature.Recv(); recv != nil {
			t := recv.Type()
			if p, ok := t.(*types.Pointer); ok {
				t = p.Elem()
			}
			if n, ok := t.(*types.Named); !ok || !n.Obj().Exported() {
				continue
			}
		}
		for i, p := range f.Params {
			if f.Signature.Recv() != nil && i == 0 {
				continue
			}
			if isBytes(p.Type()) {
				more = append(more, appender{f, i})
				break
			}
		}
	}
	e.Flow(func(c *flow.Ctx) {
		c.RuleAppendOnly(fs...)
		c.RuleBufIndependent(fs...)
		for _, a := range more {
			c.RuleAppendOnlyAt(a.fn, a.pi)
			c.RuleBufIndependentAt(a.fn, a.pi)
		}
	})
	e.S.Floor("C16.append", 6)
	e.S.Floor("C16.indep", 6)
	ruleURN(e)
	// "the URN rendering is the prefix urn:uuid: followed by its plain rendering" also for the formatter's own URN flag:
	// its format is that prefix in front of the plain layout's fields, the same operands in the same order (C05.layout)
	e.As(map[string]string{"C05.layout": "C16.urnflag"}, func() { ruleC05Layout(e) })
	e.S.Floor("C16.urnflag", 12)
}

// ruleURN: ID.URN() = string(DefaultFormatter([]byte(<literal equal to URNPrefix>), i, 0)).
func ruleURN(e *Env) {
	const rule = "C16.urn"
	fn := e.Method(rule, "uu", "ID", "URN")
	if fn == nil {
		return
	}
	site := flow.FnName(fn)
	prefix := tabConstString(e, "uu", "URNPrefix")
	if prefix == "" {
		e.S.Unk(rule, site, "URNPrefix", "constant URNPrefix not found", e.Pos(fn))
		return
	}
	if prefix != "urn:uuid:" {
		e.S.Bad(rule, site, "URNPrefix", "URNPrefix is "+quote(prefix)+", RFC 4122 / the property demand \"urn:uuid:\"", e.Pos(fn), prefix)
	}
	df := e.F("uu", "DefaultFormatter")
	calls := e.C.Calls(fn, func(f *ssa.Function) bool { return f == df })
	// the property's own wording: the prefix constant followed by the plain rendering, URNPrefix + i.String()
	if len(calls) == 0 {
		if str := e.P.Method("uu", "ID", "String"); str != nil {
			rets := flow.Returns(fn)
			if len(rets) == 1 && len(rets[0].Results) == 1 {
				if cat, ok := rets[0].Results[0].(*ssa.BinOp); ok && cat.Op == token.ADD {
					lit, okL := flow.ConstString(cat.X)
					sc, okC := cat.Y.(*ssa.Call)
					if okL && okC && e.C.StaticCallee(&sc.Call) == str && len(sc.Call.Args) == 1 && sc.Call.Args[0] == ssa.Value(fn.Params[0]) {
						if lit == prefix {
							e.S.Ok(rule, site, "prefix-literal", "URN is URNPrefix + the receiver's String()", e.Pos(fn))
						} else {
							e.S.Bad(rule, site, "prefix-literal", "URN prepends "+quote(lit)+" but URNPrefix is "+quote(prefix), e.Pos(fn), lit)
						}
						e.S.Ok(rule, site, "flag", "the plain rendering is the receiver's String() (flag 0: C05.deleg)", e.Pos(fn))
						e.S.Ok(rule, site, "result", "the concatenation is returned", e.Pos(fn))
						return
					}
				}
			}
		}
	}
	if len(calls) != 1 {
		e.S.Unk(rule, site, "call", "URN does not make exactly one call to uu.DefaultFormatter (idioms: direct call with a literal prefix buffer)", e.Pos(fn))
		return
	}
	call := calls[0]
	// alternative: the formatter's own URN form on an empty buffer (its layout, prefix + plain, is C05.layout's business)
	if urnFlag, okF := tabConstInt(e, "uu", "FormatURN"); okF && flow.IsNilConst(call.Call.Args[0]) {
		if k, ok := flow.ConstInt(call.Call.Args[2]); ok && k == urnFlag {
			e.S.Ok(rule, site, "prefix-literal", "URN formats with FormatURN onto an empty buffer: the prefix comes from the formatter's URN layout", e.Pos(fn))
			e.S.Ok(rule, site, "flag", "format flag FormatURN on an empty buffer", e.Pos(fn))
			urnReceiver(e, rule, site, fn, call)
			urnResult(e, rule, site, fn, call)
			return
		}
	}
	lit, ok := flow.ConstString(flow.Strip(call.Call.Args[0]))
	if !ok {
		// a buffer made with the prefix's length (any capacity) and filled by copy(b, <constant>) just before the call
		var mk ssa.Value
		n, okN := int64(0), false
		switch x := flow.Strip(call.Call.Args[0]).(type) {
		case *ssa.MakeSlice:
			mk = x
			n, okN = flow.ConstInt(x.Len)
		case *ssa.Slice: // make with constant capacity: a slice [:n] of a fresh local array
			if al, isAl := x.X.(*ssa.Alloc); isAl && x.Low == nil && x.High != nil && al.Comment == "makeslice" {
				mk = x
				n, okN = flow.ConstInt(x.High)
			}
		}
		if mk != nil {
			if okN {
				for _, in := range call.Block().Instrs {
					if in == ssa.Instruction(call) {
						break
					}
					if cp, isCall := in.(*ssa.Call); isCall {
						if bi, isB := cp.Call.Value.(*ssa.Builtin); isB && bi.Name() == "copy" && cp.Call.Args[0] == mk {
							if src, okS := flow.ConstString(flow.Strip(cp.Call.Args[1])); okS && int64(len(src)) == n {
								lit, ok = src, true
							}
						}
					}
				}
			}
		}
	}
	switch {
	case !ok:
		e.S.Unk(rule, site, "prefix-literal", "buffer passed to DefaultFormatter is not a converted string constant", e.Pos(fn))
	case lit != prefix:
		e.S.Bad(rule, site, "prefix-literal", "URN formats onto "+quote(lit)+" but URNPrefix is "+quote(prefix), e.Pos(fn), lit)
	default:
		e.S.Ok(rule, site, "prefix-literal", "URN formats onto a literal equal to URNPrefix", e.Pos(fn))
	}
	if k, ok := flow.ConstInt(call.Call.Args[2]); !ok || k != 0 {
		e.S.Bad(rule, site, "flag", "URN passes a format flag other than 0: the plain rendering would not follow the prefix", e.Pos(fn), "")
	} else {
		e.S.Ok(rule, site, "flag", "format flag 0 (plain rendering after the prefix)", e.Pos(fn))
	}
	urnReceiver(e, rule, site, fn, call)
	// nothing writes into the prefix buffer between its creation and the call
	if buf := call.Call.Args[0]; buf.Referrers() != nil {
		touched := ""
		copies := 0
		for _, r := range *buf.Referrers() {
			switch x := r.(type) {
			case *ssa.IndexAddr:
				touched = "an element of the prefix buffer is addressed (" + e.posOf(x) + ")"
			case *ssa.Slice:
				touched = "the prefix buffer is re-sliced (" + e.posOf(x) + ")"
			case *ssa.Call:
				if bi, isB := x.Call.Value.(*ssa.Builtin); isB && bi.Name() == "copy" && x.Call.Args[0] == buf {
					copies++ // the one copy of the make+copy idiom (its source is checked above)
					if copies > 1 {
						touched = "the prefix buffer is written more than once before the formatter"
					}
					continue
				}
				if bi, isB := x.Call.Value.(*ssa.Builtin); isB && (bi.Name() == "len" || bi.Name() == "cap") {
					continue
				}
				if x != call {
					touched = "the prefix buffer is handed to " + x.Call.String() + " before the formatter"
				}
			}
		}
		if touched != "" {
			e.S.Bad(rule, site, "prefix-literal", "the prefix is not used as written: "+touched, e.Pos(fn), "")
		}
	}
	urnResult(e, rule, site, fn, call)
}

// urnResult: URN returns the formatter's buffer converted to string.
func urnResult(e *Env, rule, site string, fn *ssa.Function, call *ssa.Call) {
	// result: string(b) of result #0
	okRet, n := true, 0
	for _, r := range flow.Returns(fn) { // every return, not just one of them
		n++
		rv := flow.ReturnValues(r)
		if len(rv) != 1 {
			okRet = false
			continue
		}
		if ex, ok := flow.Strip(rv[0]).(*ssa.Extract); !ok || ex.Tuple != ssa.Value(call) || ex.Index != 0 {
			okRet = false
		}
	}
	okRet = okRet && n > 0
	if okRet {
		e.S.Ok(rule, site, "result", "returns the formatter's buffer converted to string", e.Pos(fn))
	} else {
		e.S.Bad(rule, site, "result", "URN does not return the formatter's result #0", e.Pos(fn), "")
	}
}

// urnReceiver: the ID handed to the formatter is the receiver, unchanged.
func urnReceiver(e *Env, rule, site string, fn *ssa.Function, call *ssa.Call) {
	// the ID rendered is the receiver itself
	recvOK := false
	if len(call.Call.Args) > 1 && len(fn.Params) > 0 {
		a := call.Call.Args[1]
		if a == ssa.Value(fn.Params[0]) {
			recvOK = true
		} else if ld, ok := a.(*ssa.UnOp); ok && ld.Op == token.MUL {
			if al, ok := ld.X.(*ssa.Alloc); ok {
				n, onlyRecv := 0, true
				for _, r := range *al.Referrers() {
					if st, ok := r.(*ssa.Store); ok && st.Addr == ssa.Value(al) {
						n++
						if st.Val != ssa.Value(fn.Params[0]) {
							onlyRecv = false
						}
					}
					// the copy's address handed to a call (`i.canon()` with a pointer receiver): it may be written there
					if c, ok := r.(*ssa.Call); ok {
						for _, a := range c.Call.Args {
							if a == ssa.Value(al) {
								onlyRecv = false
							}
						}
					}
					// a field of the receiver's copy written before the call (`i.Lower = …`)
					if fa, ok := r.(*ssa.FieldAddr); ok && fa.Referrers() != nil {
						for _, rr := range *fa.Referrers() {
							if st, ok := rr.(*ssa.Store); ok && st.Addr == ssa.Value(fa) {
								onlyRecv = false
							}
						}
					}
				}
				recvOK = n == 1 && onlyRecv
			}
		}
	}
	if recvOK {
		e.S.Ok(rule, site, "receiver", "the ID handed to the formatter is the receiver", e.Pos(fn))
	} else {
		e.S.Bad(rule, site, "receiver", "the ID handed to the formatter is not the receiver unchanged: URN renders another value", e.posOf(call), "")
	}
}
