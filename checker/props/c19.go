package props

import (
	"fmt"
	"go/token"
	"go/types"
	"strings"

	"golang.org/x/tools/go/ssa"

	"utilcheck/flow"
	"utilcheck/pred"
)

func init() {
	register(&Prop{
		ID:    "C19",
		Title: "Random UUIDs are always version 4 / variant 1 and generation is thread-safe",
		Run:   runC19,
		Explanation: "C19.source: every value stored into the shared generator is rand.New(rand.NewSource(·)) — the premise under which a draw is 63 fresh bits. C19.bits: bit-provenance evaluation of uu.RandomID over symbolic 63-bit draws a,b: Higher bits 15..12 must be the constants 0100, Lower bits 63..62 the constants 10, and the remaining 122 result bits copies of pairwise distinct source bits; composed with the bit-level reading of ID.Version/ID.Variant this makes Version()=4 and Variant()=1 on every draw. " +
			"C19.lock: lockset + who-may-touch: the only function referencing the package-level PRNG is the one that draws; every use is dominated by randomMutex.Lock() with a deferred Unlock; the PRNG value is never returned, stored or captured, and passed only to a function parameter of an unexported function all of whose callers hand in function literals that merely draw (a callback under the lock); it receives only drawing methods — every Seed after initialisation is reported (the stream restarts); an unexported drawing function counts as called under the lock only if every static call site holds it and the function is nowhere used as a value; a mutex held by pointer is set in the package initialiser only; RandomID touches no other package-level state. C19.bits also asks that no other exported function, method or package-level function literal of the package reaches a draw from math/rand, math/rand/v2 or crypto/rand (by call, closure or function value) except through RandomID. Since audit round 3: a draw is also a stdlib drawing function used as a value, a use of crypto/rand.Reader (or any variable of the three packages), and a draw reached in another package of the module; the generator may only be a method call receiver; every constructor of the random packages in the module feeds the shared generator and nothing else; exported functions of any package of the module that yield a uu.ID are roots of the second-generator search.",
		NotDecided:  []string{"a generator whose state is kept in sync/atomic values or behind an RWMutex (the lock rule knows sync.Mutex on the one package-level generator)", "absence of duplicates within a run and 'each of the 122 bits takes both values' are statistical properties of the math/rand stream", "the race detector's dynamic view (the lockset argument replaces it)"},
		Assumptions: []string{"math/rand.Rand.Int63 returns a value with bit 63 clear", "math/rand.Rand is not goroutine-safe; sync.Mutex provides mutual exclusion"},
		Technique:   "bit-provenance abstract interpretation + lockset/dominator analysis over go/ssa",
	})
}

func runC19(e *Env) {
	sp := e.P.ByName["uu"]
	if sp == nil {
		e.S.Unk("C19.lock", "uu", "anchor", "package uu not found", "")
		return
	}
	e.Flow(func(c *flow.Ctx) {
		c.RuleLock(sp, e.vname("uu", "random"), e.vname("uu", "randomMutex"))
		c.RuleNoOtherGlobals(e.Fn("C19.lock", "uu", "RandomID"), map[string]bool{e.vname("uu", "random"): true, e.vname("uu", "randomMutex"): true})
	})
	e.S.Floor("C19.lock", 2) // at least one access under the lock, and the other-globals obligation
	ruleRandomBits(e)
	ruleRandomSource(e)
	e.S.Floor("C19.source", 1)
}

// ruleRandomSource: C19.bits takes every draw for 63 fresh bits, each of which takes both values across draws. That is
// math/rand's contract for its own sources; a source written in the module (a linear congruential generator keeps
// its low bits on a short cycle) is not covered by it. Every value stored into the shared generator is
// rand.New(rand.NewSource(·)).
func ruleRandomSource(e *Env) {
	const rule = "C19.source"
	g := e.Var(rule, "uu", "random")
	if g == nil {
		return
	}
	n := 0
	for _, fn := range flow.SortedFuncs(e.C.AllRepoFuncs()) {
		for _, b := range fn.Blocks {
			for _, in := range b.Instrs {
				st, ok := in.(*ssa.Store)
				if !ok || st.Addr != ssa.Value(g) {
					continue
				}
				n++
				site := flow.FnName(fn)
				newCall, ok := st.Val.(*ssa.Call)
				if !ok || calleeName(&newCall.Call) != "math/rand.New" || len(newCall.Call.Args) != 1 {
					e.S.Bad(rule, site, "generator", "the shared generator is set to something other than rand.New(source)", e.posOf(st), "")
					continue
				}
				src := newCall.Call.Args[0]
				for i := 0; i < 4; i++ {
					switch x := src.(type) {
					case *ssa.MakeInterface:
						src = x.X
						continue
					case *ssa.ChangeInterface:
						src = x.X
						continue
					}
					break
				}
				// the source kept in a package variable of its own: every value stored there is rand.NewSource(·)
				if ld, ok := src.(*ssa.UnOp); ok && ld.Op == token.MUL {
					if sg, ok := ld.X.(*ssa.Global); ok {
						if v := onlyStoredValue(e, sg); v != nil {
							src = v
						}
					}
				}
				if sc, ok := src.(*ssa.Call); ok && calleeName(&sc.Call) == "math/rand.NewSource" {
					e.S.Ok(rule, site, "generator", "rand.New(rand.NewSource(·)): the standard library's source, whose draws C19.bits takes for 63 fresh bits", e.posOf(st))
				} else {
					e.S.Bad(rule, site, "generator", "the shared generator draws from "+src.String()+", not from rand.NewSource: the quality of its bits (each taking both values across consecutive draws) is not math/rand's contract", e.posOf(st), "a linear congruential source: the lowest bit alternates, two draws per ID keep it constant")
				}
			}
		}
	}
	if n == 0 {
		e.S.Unk(rule, "uu.random", "generator", "no initialisation of the shared generator found", "")
	}
}

// ruleRandomBits: C19.bits.
func ruleRandomBits(e *Env) {
	const rule = "C19.bits"
	fn := e.Fn(rule, "uu", "RandomID")
	ver := e.Method(rule, "uu", "ID", "Version")
	vari := e.Method(rule, "uu", "ID", "Variant")
	if fn == nil || ver == nil || vari == nil {
		return
	}
	site := flow.FnName(fn)
	// "every generated ID": the draws are turned into IDs by RandomID only — no other exported function or method of
	// the package reaches a function that draws from a *rand.Rand (its version/variant bits would be unchecked);
	// whether the drawing is a helper of its own or written out in RandomID does not matter
	draws0 := func(f *ssa.Function) bool {
		for _, b := range f.Blocks {
			for _, in := range b.Instrs {
				call, ok := in.(ssa.CallInstruction)
				if !ok {
					continue
				}
				if isRandomDraw(call.Common()) {
					return true
				}
			}
			// a drawing function used as a value (`var next = rand.Uint64`), or the package's reader taken
			// (`io.ReadFull(crypto/rand.Reader, …)`): the draw happens wherever the value ends up
			for _, in := range b.Instrs {
				for _, op := range in.Operands(nil) {
					if op == nil || *op == nil {
						continue
					}
					switch x := (*op).(type) {
					case *ssa.Function:
						if x.Pkg != nil && isRandomPkg(x.Pkg.Pkg.Path()) && isDrawName(x.Name()) {
							return true
						}
					case *ssa.Global:
						if x.Pkg != nil && isRandomPkg(x.Pkg.Pkg.Path()) {
							return true
						}
					}
				}
			}
		}
		return false
	}
	// reach: static callees, closures, and functions used as values (a drawing function handed to a helper is called
	// by it); RandomID itself is a barrier — what it reaches is what C19.bits evaluates
	reach := func(root *ssa.Function) *ssa.Function {
		seen := map[*ssa.Function]bool{}
		var hit *ssa.Function
		var visit func(f *ssa.Function)
		visit = func(f *ssa.Function) {
			if f == nil || hit != nil {
				return
			}
			f = flow.Origin(f)
			if seen[f] || f == fn || !flow.InRepo(f) {
				return
			}
			seen[f] = true
			if draws0(f) {
				hit = f
				return
			}
			for _, b := range f.Blocks {
				for _, in := range b.Instrs {
					for _, op := range in.Operands(nil) {
						if op == nil || *op == nil {
							continue
						}
						switch x := (*op).(type) {
						case *ssa.Function:
							visit(x)
						case *ssa.MakeClosure:
							if g, ok := x.Fn.(*ssa.Function); ok {
								visit(g)
							}
						}
					}
				}
			}
			for _, a := range f.AnonFuncs {
				visit(a)
			}
		}
		visit(root)
		return hit
	}
	for _, f := range e.PkgFuncs("uu") {
		if flow.Origin(f) == fn || f.Parent() != nil {
			continue
		}
		if f.Name() != "init" && (f.Object() == nil || !f.Object().Exported()) {
			continue
		}
		if g := reach(f); g != nil {
			e.S.Bad(rule, flow.FnName(f), "second generator", "draws from a random generator outside RandomID (through "+flow.FnName(g)+"): the IDs built here are not covered by the version/variant evaluation", e.Pos(f), "")
		}
	}
	// … nor does a function of another package of the module that hands out an ID (`fast.NewID() uu.ID`)
	yieldsID := func(f *ssa.Function) bool {
		res := f.Signature.Results()
		for i := 0; i < res.Len(); i++ {
			t := res.At(i).Type()
			if p, ok := t.(*types.Pointer); ok {
				t = p.Elem()
			}
			if n, ok := t.(*types.Named); ok && n.Obj().Name() == "ID" && n.Obj().Pkg() == fn.Pkg.Pkg {
				return true
			}
		}
		return false
	}
	for _, f := range flow.SortedFuncs(e.C.AllRepoFuncs()) {
		if f.Pkg == fn.Pkg || f.Parent() != nil || f.Object() == nil || !f.Object().Exported() || flow.Origin(f) != f || !yieldsID(f) {
			continue
		}
		if g := reach(f); g != nil {
			e.S.Bad(rule, flow.FnName(f), "second generator", "hands out an ID and draws from a random generator outside RandomID (through "+flow.FnName(g)+"): the IDs built here are not covered by the version/variant evaluation", e.Pos(f), "")
		}
	}
	// … and no generator besides the shared one is created: every constructor of the random packages
	// (rand.New, rand.NewSource, …) feeds the store into the shared generator and nothing else (a source kept
	// behind an interface of the module is drawn from by calls this rule cannot tell from any other invoke)
	shared := e.V("uu", "random")
	var onlyShared func(v ssa.Value, depth int) bool
	onlyShared = func(v ssa.Value, depth int) bool {
		if v.Referrers() == nil || depth > 6 {
			return false
		}
		for _, r := range *v.Referrers() {
			switch x := r.(type) {
			case *ssa.DebugRef:
			case *ssa.Store:
				if shared == nil || x.Addr != ssa.Value(shared) || x.Val != v {
					return false
				}
			case *ssa.MakeInterface, *ssa.ChangeInterface, *ssa.TypeAssert, *ssa.Extract:
				if !onlyShared(x.(ssa.Value), depth+1) {
					return false
				}
			case *ssa.Call:
				g := x.Call.StaticCallee()
				if g == nil || g.Pkg == nil || !isRandomPkg(g.Pkg.Pkg.Path()) || !strings.HasPrefix(g.Name(), "New") || !onlyShared(x, depth+1) {
					return false
				}
			default:
				return false
			}
		}
		return true
	}
	for _, f := range flow.SortedFuncs(e.C.AllRepoFuncs()) {
		for _, b := range f.Blocks {
			for _, in := range b.Instrs {
				call, ok := in.(*ssa.Call)
				if !ok {
					continue
				}
				g := call.Call.StaticCallee()
				if g == nil || g.Pkg == nil || !isRandomPkg(g.Pkg.Pkg.Path()) || !strings.HasPrefix(g.Name(), "New") {
					continue
				}
				if !onlyShared(call, 0) {
					e.S.Bad(rule, flow.FnName(f), "second generator", "a random generator or source is created ("+g.String()+") that is not the shared one: what draws from it is outside RandomID's evaluation and outside the lock", e.posOf(call), "")
				}
			}
		}
	}
	// every (*rand.Rand).Int63() call yields a fresh 63-bit symbol (bit 63 clear, documented by math/rand)
	draws := 0
	drawSyms := map[string]bool{}
	ev := &pred.Evaluator{Prog: e.P.SSA, GlobalInit: e.globalTables(), Oracle: noOracle{}, Summaries: map[string]pred.Summary{
		"(*math/rand.Rand).Int63": func(ev *pred.Evaluator, args []pred.Val) (pred.Val, error) {
			draws++
			drawSyms[string(rune('a'+draws-1))] = true
			v := pred.SymBits(string(rune('a'+draws-1)), 64, true)
			v.B[63] = pred.Bit{K: '0'}
			return v, nil
		},
		"(*sync.Mutex).Lock":   func(ev *pred.Evaluator, args []pred.Val) (pred.Val, error) { return pred.Tuple{}, nil },
		"(*sync.Mutex).Unlock": func(ev *pred.Evaluator, args []pred.Val) (pred.Val, error) { return pred.Tuple{}, nil },
	}}
	out, err := ev.Eval(fn, nil)
	if err != nil {
		e.S.Unk(rule, site, "bits", "bit-provenance evaluation stopped: "+err.Error(), e.Pos(fn))
		return
	}
	id, ok := out.Ret.(*pred.StructV)
	if !ok || len(id.Fields) != 2 {
		e.S.Unk(rule, site, "bits", "RandomID does not return an ID struct value", e.Pos(fn))
		return
	}
	hi, ok1 := id.Fields[0].(pred.Bits)
	lo, ok2 := id.Fields[1].(pred.Bits)
	if !ok1 || !ok2 || len(hi.B) != 64 || len(lo.B) != 64 {
		e.S.Unk(rule, site, "bits", fmt.Sprintf("fields are not bit vectors: Higher=%v Lower=%v", id.Fields[0], id.Fields[1]), e.Pos(fn))
		return
	}
	want := map[int]byte{15: '0', 14: '1', 13: '0', 12: '0'}
	seen := map[string]string{}
	check := func(name string, v pred.Bits, fixed map[int]byte) {
		for i := 63; i >= 0; i-- {
			bit := v.B[i]
			construct := fmt.Sprintf("%s[%d]", name, i)
			if w, isFixed := fixed[i]; isFixed {
				if bit.K == w {
					e.S.Ok(rule, site, construct, fmt.Sprintf("constant %c as RFC 4122 requires", w), e.Pos(fn))
				} else {
					e.S.Bad(rule, site, construct, fmt.Sprintf("must be the constant %c (version 4 / variant 10x) but is %s", w, bitStr(bit)), e.Pos(fn), fmt.Sprintf("%s = %v", name, v))
				}
				continue
			}
			switch bit.K {
			case 's':
				k := fmt.Sprintf("%s[%d]", bit.Sym, bit.Idx)
				if !drawSyms[bit.Sym] {
					// a symbol the evaluator made up for an arithmetic result: its bits are not copies of draw bits
					e.S.Unk(rule, site, construct, "bit of the derived value "+bit.Sym+", not a copy of a draw bit (operation outside and/or/shift/convert with constants)", e.Pos(fn))
				} else if prev, dup := seen[k]; dup {
					e.S.Bad(rule, site, construct, "copies source bit "+k+" which also feeds "+prev+": fewer than 122 independent random bits", e.Pos(fn), "")
				} else {
					seen[k] = construct
					e.S.Ok(rule, site, construct, "copy of random source bit "+k+" used nowhere else", e.Pos(fn))
				}
			case '0', '1':
				e.S.Bad(rule, site, construct, fmt.Sprintf("random bit position is the constant %c on every draw", bit.K), e.Pos(fn), fmt.Sprintf("%s = %v", name, v))
			default:
				e.S.Unk(rule, site, construct, "bit origin not tracked (operation outside and/or/shift/convert with constants)", e.Pos(fn))
			}
		}
	}
	check("Higher", hi, want)
	check("Lower", lo, map[int]byte{63: '1', 62: '0'})
	// composition with the accessors
	if o, err := ev.Eval(ver, []pred.Val{id}); err != nil {
		e.S.Unk(rule, flow.FnName(ver), "Version∘RandomID", err.Error(), e.Pos(ver))
	} else if k, ok := intOf(o.Ret); ok && k == 4 {
		e.S.Ok(rule, flow.FnName(ver), "Version∘RandomID", "Version() of the abstract random ID folds to the constant 4", e.Pos(ver))
	} else {
		e.S.Bad(rule, flow.FnName(ver), "Version∘RandomID", fmt.Sprintf("Version() of a random ID is %v, not the constant 4", o.Ret), e.Pos(ver), "")
	}
	o, err := ev.Eval(vari, []pred.Val{id})
	if err != nil {
		// an accessor that compares its field with several constants (switch lower>>61 { case 4, 5: … }) cannot be
		// folded while one of the bits it looks at is a draw bit: evaluate it once per value of the draw bits among the
		// three highest bits of Lower (two worlds on today's layout) and require the same constant in each
		var free []int
		for i := 61; i <= 63; i++ {
			if lo.B[i].K == 's' {
				free = append(free, i)
			}
		}
		if len(free) > 0 && len(free) <= 3 {
			same, first, okAll := true, int64(-1), true
			for w := 0; w < 1<<len(free); w++ {
				lo2 := pred.Bits{B: append([]pred.Bit(nil), lo.B...), Signed: lo.Signed}
				for k, i := range free {
					lo2.B[i] = pred.Bit{K: map[bool]byte{true: '1', false: '0'}[w>>k&1 == 1]}
				}
				id2 := &pred.StructV{T: id.T, Fields: []pred.Val{id.Fields[0], lo2}}
				o2, err2 := ev.Eval(vari, []pred.Val{id2})
				if err2 != nil {
					okAll = false
					break
				}
				k, isInt := intOf(o2.Ret)
				if !isInt {
					okAll = false
					break
				}
				if first < 0 {
					first = k
				} else if k != first {
					same = false
				}
			}
			if okAll && same {
				o, err = &pred.Outcome{Ret: pred.Const{V: constantInt(first)}}, nil
			}
		}
	}
	if err != nil {
		e.S.Unk(rule, flow.FnName(vari), "Variant∘RandomID", err.Error(), e.Pos(vari))
	} else if k, ok := intOf(o.Ret); ok && k == 1 {
		e.S.Ok(rule, flow.FnName(vari), "Variant∘RandomID", "Variant() of the abstract random ID folds to the constant 1", e.Pos(vari))
	} else {
		e.S.Bad(rule, flow.FnName(vari), "Variant∘RandomID", fmt.Sprintf("Variant() of a random ID is %v, not the constant 1", o.Ret), e.Pos(vari), "")
	}
}

func bitStr(b pred.Bit) string {
	switch b.K {
	case 's':
		return fmt.Sprintf("source bit %s[%d]", b.Sym, b.Idx)
	case 'T':
		return "untracked"
	}
	return "constant " + string(b.K)
}

// isRandomDraw: a call that takes random bits — any function or method of math/rand, math/rand/v2 or crypto/rand
// (static or through their interfaces) other than the constructors and Seed.
func isRandomDraw(c *ssa.CallCommon) bool {
	var pkg *types.Package
	name := ""
	if c.IsInvoke() {
		pkg, name = c.Method.Pkg(), c.Method.Name()
	} else if g := c.StaticCallee(); g != nil && g.Pkg != nil {
		pkg, name = g.Pkg.Pkg, g.Name()
	} else if g != nil && g.Object() != nil {
		pkg, name = g.Object().Pkg(), g.Name()
	}
	if pkg == nil {
		return false
	}
	return isRandomPkg(pkg.Path()) && isDrawName(name)
}

func isRandomPkg(path string) bool {
	return path == "math/rand" || path == "math/rand/v2" || path == "crypto/rand"
}

func isDrawName(name string) bool {
	return !strings.HasPrefix(name, "New") && name != "Seed" && name != "init"
}

// onlyStoredValue: the value of the single store into package variable g in the module (interface boxing removed);
// nil if there is none or more than one.
func onlyStoredValue(e *Env, g *ssa.Global) ssa.Value {
	var val ssa.Value
	n := 0
	for _, fn := range flow.SortedFuncs(e.C.AllRepoFuncs()) {
		for _, b := range fn.Blocks {
			for _, in := range b.Instrs {
				for _, op := range in.Operands(nil) {
					if *op != ssa.Value(g) {
						continue
					}
					if st, ok := in.(*ssa.Store); ok && st.Addr == ssa.Value(g) {
						n++
						val = st.Val
					} else if ld, ok := in.(*ssa.UnOp); !ok || ld.Op != token.MUL || fn.Name() != "init" || fn.Parent() != nil {
						return nil // address taken, or read outside the package initialiser (drawn from beside the lock)
					}
				}
			}
		}
	}
	if n != 1 {
		return nil
	}
	for i := 0; i < 4; i++ {
		switch x := val.(type) {
		case *ssa.MakeInterface:
			val = x.X
			continue
		case *ssa.ChangeInterface:
			val = x.X
			continue
		}
		break
	}
	return val
}
