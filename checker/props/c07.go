package props

import (
	"fmt"
	"go/token"
	"go/types"
	"strings"

	"golang.org/x/tools/go/ssa"

	"utilcheck/flow"
	"utilcheck/pred"
)

func init() {
	register(&Prop{
		ID:    "C07",
		Title: "Date ordering and arithmetic agree with the calendar",
		Run:   runC07,
		Explanation: "C07.order: Before, After and Equal are evaluated by predicate abstraction over all 27 orderings of (year, month, day): in every ordering exactly one of the three holds and it is the lexicographic order of the triple; side condition audited: the fields are used only in comparisons against the same field of the other operand; IsZero ⇔ all fields 0. The stored year is a strictly monotone image of the reported one: every read of the year (Year, Date, Time) adds 1 after widening, at a width above the field's 32 bits (obligation year wrap; on 32-bit targets int is that narrow: known finding). With that, lexicographic = chronological. " +
			"C07.deleg: Time() = time.Date(y+1, m+1, d+1, 0,0,0,0, UTC); FromTime calls Date() on the parameter itself (not t.UTC()/In/Local) and maps IsZero to the zero date; Sub = d.Time().Sub(e.Time()) (not swapped); DaysBetween derives from the same difference divided by 24 hours; Add passes (years, months, days) to AddDate in the same positions; AddDuration → Time.Add; both wrap with FromTime; New = FromTime(time.Date(y, m, d, 0…, UTC)); Scan/Value delegate to FromTime/Time. The year-wrap obligation follows every arithmetic operation on a value read from the year field in Year/Date/Time and their callees; FromTime's stores must not pass through a type narrower than the field.",
		NotDecided:  []string{"the calendar arithmetic itself (inside package time)", "float rounding in Hours()/24 and the range of time.Duration", "calendar years outside the int32 year field wrap in New/FromTime/Add, which have no error result (the property speaks of dates the type can hold)"},
		Assumptions: []string{"time.Date/AddDate/Add/Sub implement the proleptic Gregorian calendar"},
		Technique:   "exhaustive predicate abstraction over field orderings + delegation dataflow over go/ssa",
	})
}

func runC07(e *Env) {
	ruleC07Order(e)
	ruleC07Deleg(e)
	e.S.Floor("C07.order", 82)
	e.S.Floor("C07.deleg", 12)
}

func ruleC07Order(e *Env) {
	const rule = "C07.order"
	sp := e.P.ByName["date"]
	if sp == nil || sp.Type("Date") == nil {
		e.S.Unk(rule, "date.Date", "anchor", "type not found", "")
		return
	}
	dateT := sp.Type("Date").Type()
	fields := []string{"year", "month", "day"}
	for _, name := range []string{"Before", "After", "Equal"} {
		fn := e.Method(rule, "date", "Date", name)
		if fn == nil {
			continue
		}
		site := flow.FnName(fn)
		for y := -1; y <= 1; y++ {
			for m := -1; m <= 1; m++ {
				for d := -1; d <= 1; d++ {
					construct := fmt.Sprintf("year%s month%s day%s", ordSym(y), ordSym(m), ordSym(d))
					o := &ordOracle{ord: map[string]int{"d.year|e.year": y, "d.month|e.month": m, "d.day|e.day": d}}
					ev := &pred.Evaluator{Prog: e.P.SSA, GlobalInit: e.globalTables(), Oracle: o}
					out, err := ev.Eval(fn, []pred.Val{symStruct(dateT, "d"), symStruct(dateT, "e")})
					if err != nil {
						e.S.Unk(rule, site, construct, "not decidable by field-order abstraction: "+err.Error(), e.Pos(fn))
						continue
					}
					got, ok := boolOf(out.Ret)
					if !ok {
						e.S.Unk(rule, site, construct, fmt.Sprintf("non-boolean abstract result %v", out.Ret), e.Pos(fn))
						continue
					}
					lex := y
					if lex == 0 {
						lex = m
					}
					if lex == 0 {
						lex = d
					}
					want := map[string]bool{"Before": lex < 0, "After": lex > 0, "Equal": lex == 0}[name]
					sideOK := true
					for _, a := range ev.Asked {
						okAsk := false
						for _, f := range fields {
							if strings.HasPrefix(a, "d."+f+" ") && strings.HasSuffix(a, " e."+f) || strings.HasPrefix(a, "e."+f+" ") && strings.HasSuffix(a, " d."+f) {
								okAsk = true
							}
						}
						if !okAsk {
							sideOK = false
							e.S.Unk(rule, site, construct, "side condition broken: the function compares "+a+", which is not a same-field comparison (the ordering abstraction is not exact)", e.Pos(fn))
						}
					}
					if !sideOK {
						continue
					}
					if got != want {
						e.S.Bad(rule, site, construct, fmt.Sprintf("for receiver-vs-argument ordering (%s) %s returns %v, chronological order demands %v", construct, name, got, want), e.Pos(fn),
							fmt.Sprintf("d and e with %s", construct))
					} else {
						e.S.Ok(rule, site, construct, fmt.Sprintf("%s = %v", name, want), e.Pos(fn))
					}
				}
			}
		}
	}
	// Before/After/Equal order the stored fields. That is the order of the calendar dates the accessors report only if
	// stored ↦ reported is strictly monotone: year is read as field+1, which must not wrap — the addition is made
	// after widening, at a width above the field's 32 bits.
	{
		var wraps []string
		n := 0
		isYear := func(v ssa.Value) bool {
			switch x := v.(type) {
			case *ssa.UnOp:
				fa, ok := x.X.(*ssa.FieldAddr)
				return ok && x.Op == token.MUL && fieldNameOf(fa.X.Type(), fa.Field) == "year"
			case *ssa.Field:
				return fieldNameOf(x.X.Type(), x.Field) == "year"
			}
			return false
		}
		// every arithmetic operation on a value read from the year field, directly or through conversions, in the
		// accessors that report the calendar year and whatever they call (comparisons, stores and calls are not
		// arithmetic; MarshalBinary's modular year+1 is undone modulo 2^32 by the reader and never reported: C11)
		reporters := map[*ssa.Function]bool{}
		for _, name := range []string{"Year", "Date", "Time"} {
			if fn := e.P.Method("date", "Date", name); fn != nil {
				for g := range e.C.Reachable(fn) {
					reporters[g] = true
				}
			}
		}
		for _, fn := range flow.SortedFuncs(reporters) {
			seen := map[ssa.Value]bool{}
			var follow func(v ssa.Value, arith bool)
			follow = func(v ssa.Value, arith bool) {
				if seen[v] || v.Referrers() == nil {
					return
				}
				seen[v] = true
				for _, r := range *v.Referrers() {
					switch x := r.(type) {
					case *ssa.Convert:
						// the sum narrowed again (int32(int64(year)+1)) wraps just the same
						if w, ok := pred.IntWidth(x.Type()); arith && ok && w <= 32 {
							wraps = append(wraps, fmt.Sprintf("%s (%s)", flow.FnName(x.Parent()), e.posOf(x)))
						}
						follow(x, arith)
					case *ssa.ChangeType:
						follow(x, arith)
					case *ssa.Call:
						// handed to a helper of the module (calendarYear(d.year)): the arithmetic is looked for there
						if g := e.C.StaticCallee(&x.Call); g != nil && flow.InRepo(g) {
							o := flow.Origin(g)
							for ai, a := range x.Call.Args {
								if a == v && ai < len(o.Params) {
									follow(o.Params[ai], arith)
								}
							}
						}
					case *ssa.BinOp:
						switch x.Op {
						case token.ADD, token.SUB, token.MUL, token.SHL:
							n++
							if w, ok := pred.IntWidth(x.Type()); ok && w <= 32 {
								wraps = append(wraps, fmt.Sprintf("%s (%s)", flow.FnName(x.Parent()), e.posOf(x)))
							}
							follow(x, true)
						}
					case *ssa.UnOp:
						if x.Op == token.SUB {
							n++
							if w, ok := pred.IntWidth(x.Type()); ok && w <= 32 {
								wraps = append(wraps, fmt.Sprintf("%s (%s)", flow.FnName(fn), e.posOf(x)))
							}
						}
					}
				}
			}
			for _, b := range fn.Blocks {
				for _, in := range b.Instrs {
					if v, ok := in.(ssa.Value); ok && isYear(v) {
						follow(v, false)
					}
				}
			}
		}
		switch {
		case n == 0:
			e.S.Unk(rule, "date.Date", "year wrap", "no arithmetic on a value read from the year field found in Year / Date / Time or their callees (the accessors add 1)", "")
		case len(wraps) > 0:
			e.S.Bad(rule, "date.Date", "year wrap", "the calendar year is read as year+1 computed in 32 bits, the width of the field ("+strings.Join(wraps, ", ")+"; int is that narrow on a 32-bit target): the date stored with year field MaxInt32 reports year −2147483648 (String, Time, Year) but Before/After rank it by the field, above every other date", "",
				"a := date.New(math.MinInt32, 1, 1); b := date.New(2000, 1, 1): a.Time().Before(b.Time()) but a.After(b)")
		default:
			e.S.Ok(rule, "date.Date", "year wrap", fmt.Sprintf("%d arithmetic operation(s) on values read from the year field in Year / Date / Time and their callees, each after widening above 32 bits: ordering by the stored fields is ordering by the reported dates", n), "")
		}
	}
	// IsZero ⇔ all fields zero
	if fn := e.Method(rule, "date", "Date", "IsZero"); fn != nil {
		site := flow.FnName(fn)
		for mask := 0; mask < 8; mask++ {
			ord := map[string]int{"d.year|0": mask & 1, "d.month|0": mask >> 1 & 1, "d.day|0": mask >> 2 & 1}
			ev := &pred.Evaluator{Prog: e.P.SSA, GlobalInit: e.globalTables(), Oracle: &ordOracle{ord: ord}}
			out, err := ev.Eval(fn, []pred.Val{symStruct(dateT, "d")})
			construct := fmt.Sprintf("year≠0:%d month≠0:%d day≠0:%d", mask&1, mask>>1&1, mask>>2&1)
			if err != nil {
				e.S.Unk(rule, site, construct, err.Error(), e.Pos(fn))
				continue
			}
			got, _ := boolOf(out.Ret)
			if got != (mask == 0) {
				e.S.Bad(rule, site, construct, fmt.Sprintf("IsZero returns %v", got), e.Pos(fn), "")
			} else {
				e.S.Ok(rule, site, construct, fmt.Sprintf("IsZero = %v", got), e.Pos(fn))
			}
		}
	}
}

func fieldNameOf(t types.Type, i int) string {
	if p, ok := t.Underlying().(*types.Pointer); ok {
		t = p.Elem()
	}
	if st, ok := t.Underlying().(*types.Struct); ok && i < st.NumFields() {
		return st.Field(i).Name()
	}
	return ""
}

func ordSym(o int) string {
	switch {
	case o < 0:
		return "<"
	case o > 0:
		return ">"
	}
	return "="
}

// ---------------------------------------------------------------------------
// C07.deleg

// callTo returns the unique call in fn whose callee has the given full name.
func (e *Env) callTo(fn *ssa.Function, name string) *ssa.Call {
	var found *ssa.Call
	n := 0
	for _, b := range fn.Blocks {
		for _, in := range b.Instrs {
			if call, ok := in.(*ssa.Call); ok {
				if f := e.C.StaticCallee(&call.Call); f != nil && f.String() == name {
					found = call
					n++
				}
			}
		}
	}
	if n != 1 {
		return nil
	}
	return found
}

// recvField reports whether v is (a conversion of) field `field` of the receiver/parameter p plus k.
func affineField(v ssa.Value, depth int) (root ssa.Value, field string, k int64, ok bool) {
	if depth > 8 {
		return nil, "", 0, false
	}
	switch x := v.(type) {
	case *ssa.Convert:
		return affineField(x.X, depth+1)
	case *ssa.ChangeType:
		return affineField(x.X, depth+1)
	case *ssa.BinOp:
		c, isK := flow.ConstInt(x.Y)
		if !isK {
			return nil, "", 0, false
		}
		r, f, k0, ok := affineField(x.X, depth+1)
		if !ok {
			return nil, "", 0, false
		}
		switch x.Op.String() {
		case "+":
			return r, f, k0 + c, true
		case "-":
			return r, f, k0 - c, true
		}
		return nil, "", 0, false
	case *ssa.UnOp: // load of &recv.field (receiver spilled to an Alloc)
		fa, ok := x.X.(*ssa.FieldAddr)
		if !ok {
			return nil, "", 0, false
		}
		st := structOf(fa.X.Type())
		if st == nil {
			return nil, "", 0, false
		}
		return fa.X, st.Field(fa.Field).Name(), 0, true
	case *ssa.Field:
		st := structOf(x.X.Type())
		if st == nil {
			return nil, "", 0, false
		}
		return x.X, st.Field(x.Field).Name(), 0, true
	}
	return nil, "", 0, false
}

// dateAbstract builds the abstract receiver and the values its accessors must produce.
type dateAbs struct {
	T           types.Type
	recv        func(prefix string) *pred.StructV
	wantY       func(prefix string) pred.Val // int(year+1)
	wantM       func(prefix string) pred.Val // Month(month+1)
	wantD       func(prefix string) pred.Val // int(day+1)
	timeTerm    func(prefix string) string
	canonTime   func(prefix string) string
	fieldsFromT func(t string) (y, m, d string) // fields FromTime must store for a non-zero time t
}

func newDateAbs(e *Env) *dateAbs {
	sp := e.P.ByName["date"]
	if sp == nil || sp.Type("Date") == nil {
		return nil
	}
	T := sp.Type("Date").Type()
	i32, u8, i := types.Typ[types.Int32], types.Typ[types.Uint8], types.Typ[types.Int]
	a := &dateAbs{T: T}
	a.recv = func(p string) *pred.StructV { return symStruct(T, p) }
	a.wantY = func(p string) pred.Val {
		v, _ := pred.ConvertInt(pred.AddConst(pred.Sym{Name: p + ".year"}, 1, 32), i32, i)
		return v
	}
	a.wantM = func(p string) pred.Val {
		v, _ := pred.ConvertInt(pred.AddConst(pred.Sym{Name: p + ".month"}, 1, 8), u8, i)
		return v
	}
	a.wantD = func(p string) pred.Val {
		v, _ := pred.ConvertInt(pred.AddConst(pred.Sym{Name: p + ".day"}, 1, 8), u8, i)
		return v
	}
	a.timeTerm = func(p string) string {
		return fmt.Sprintf("time.Date(%v,%v,%v,0,0,0,0,*time.UTC)", a.wantY(p), a.wantM(p), a.wantD(p))
	}
	a.canonTime = func(p string) string {
		// on a 64-bit target: time.Date(sext(p.year+1 mod 2^32),zext(p.month+1 mod 2^8),zext(p.day+1 mod 2^8),…); the
		// widening of the year disappears where int is 32 bits wide
		return fmt.Sprintf("time.Date(%v,%v,%v,0,0,0,0,*time.UTC)", canonVal(a.wantY(p)), canonVal(a.wantM(p)), canonVal(a.wantD(p)))
	}
	return a
}

func ruleC07Deleg(e *Env) {
	const rule = "C07.deleg"
	a := newDateAbs(e)
	if a == nil {
		e.S.Unk(rule, "date.Date", "anchor", "type not found", "")
		return
	}
	var log []string
	sums := map[string]pred.Summary{
		"go.lstv.dev/util/date.FromTime": func(ev *pred.Evaluator, args []pred.Val) (pred.Val, error) {
			return pred.Term{Fn: "FromTime", Args: args}, nil
		},
		"(*go.lstv.dev/util/date.Date).FromTime": func(ev *pred.Evaluator, args []pred.Val) (pred.Val, error) {
			log = append(log, fmt.Sprintf("(*Date).FromTime(%v,%v)", args[0], args[1]))
			// the method sets its receiver to what the function returns (both are checked by ruleFromTime)
			if p, ok := args[0].(pred.Ptr); ok && p.Cell != nil && len(p.Path) == 0 {
				p.Cell.V = pred.Term{Fn: "FromTime", Args: []pred.Val{args[1]}}
			}
			return pred.Tuple{}, nil
		},
	}
	eval := func(fn *ssa.Function, args ...pred.Val) (pred.Val, error) {
		log = nil
		ev := &pred.Evaluator{Prog: e.P.SSA, GlobalInit: e.globalTables(), Oracle: noOracle{}, Summaries: sums}
		out, err := ev.Eval(fn, args)
		if err != nil {
			return nil, err
		}
		if out.Panic {
			return nil, fmt.Errorf("panics")
		}
		return out.Ret, nil
	}
	short := func(s string) string {
		s = strings.ReplaceAll(s, a.canonTime("d"), "Time(d)")
		return strings.ReplaceAll(s, a.canonTime("e"), "Time(e)")
	}
	check := func(fn *ssa.Function, construct, want string, args ...pred.Val) {
		if fn == nil || c07Only != "" && c07Only != construct {
			return
		}
		site := flow.FnName(fn)
		got, err := eval(fn, args...)
		if err == nil {
			got = canonVal(got)
		}
		if err != nil && (construct == "Sub" || construct == "DaysBetween") {
			// a fast path may ask whether the two dates are the same day: evaluate under both answers. With equal fields
			// the two times are equal, so 0 is the documented difference as well.
			eqKey := func(x, y pred.Val) (string, bool) {
				xs, ys := x.String(), y.String()
				if strings.HasPrefix(xs, "d.") && strings.HasPrefix(ys, "e.") && xs[2:] == ys[2:] {
					return "same " + xs[2:], true
				}
				if strings.HasPrefix(xs, "e.") && strings.HasPrefix(ys, "d.") && xs[2:] == ys[2:] {
					return "same " + xs[2:], true
				}
				return "", false
			}
			log = nil
			leaves, terr := extractTree(e.P.SSA, fn, func() []pred.Val { return args }, sums, nil, eqKey, binDomain)
			if terr == nil && len(leaves) > 0 {
				bad := ""
				for _, lf := range leaves {
					if lf.Err != nil || lf.Out.Panic {
						bad = "not evaluable"
						break
					}
					r := canonVal(lf.Out.Ret).String()
					allSame := len(lf.Assign) == 3
					for _, v := range lf.Assign {
						if v != 0 {
							allSame = false
						}
					}
					subTerm := "(time.Time).Sub(" + a.canonTime("d") + "," + a.canonTime("e") + ")"
					if oneOf(r, want) || allSame && (r == "0" || oneOf(r, strings.ReplaceAll(want, subTerm, "0"))) {
						continue
					}
					bad = fmt.Sprintf("computes %s {%s}, the documented delegation is %s", short(r), lf.String(), short(want))
				}
				if bad == "" {
					e.S.Ok(rule, site, construct, "= "+short(want)+" (a same-day fast path answers 0, the difference of equal times)", e.Pos(fn))
					return
				}
				if bad != "not evaluable" {
					e.S.Bad(rule, site, construct, bad, e.Pos(fn), "")
					return
				}
			}
		}
		switch {
		case err != nil:
			e.S.Unk(rule, site, construct, "not evaluable symbolically: "+err.Error(), e.Pos(fn))
		case !oneOf(got.String(), want):
			e.S.Bad(rule, site, construct, fmt.Sprintf("computes %s, the documented delegation is %s", short(got.String()), short(want)), e.Pos(fn), "")
		default:
			e.S.Ok(rule, site, construct, "= "+short(want), e.Pos(fn))
		}
	}
	d, x := a.recv("d"), a.recv("e")
	T := func(p string) string { return a.canonTime(p) }
	check(e.Method(rule, "date", "Date", "Time"), "Time", T("d"), d)
	check(e.Method(rule, "date", "Date", "Sub"), "Sub", "(time.Time).Sub("+T("d")+","+T("e")+")", d, x)
	// whole days of the same difference: float hours / 24 truncated, or the integer quotient by 24h (equal on every
	// multiple of 24h and on the saturated durations, the only values Sub of two midnights can take)
	check(e.Method(rule, "date", "Date", "DaysBetween"), "DaysBetween", "conv[int](/((time.Duration).Hours((time.Time).Sub("+T("d")+","+T("e")+")),24))|/((time.Time).Sub("+T("d")+","+T("e")+"),86400000000000)", d, x)
	check(e.Method(rule, "date", "Date", "Add"), "Add", "FromTime((time.Time).AddDate("+T("d")+",years,months,days))", d, pred.Sym{Name: "years"}, pred.Sym{Name: "months"}, pred.Sym{Name: "days"})
	check(e.Method(rule, "date", "Date", "AddDuration"), "AddDuration", "FromTime((time.Time).Add("+T("d")+",duration))", d, pred.Sym{Name: "duration"})
	check(e.Fn(rule, "date", "New"), "New", "FromTime(time.Date(year,month,day,0,0,0,0,*time.UTC))", pred.Sym{Name: "year"}, pred.Sym{Name: "month"}, pred.Sym{Name: "day"})
	check(e.Fn(rule, "date", "Today"), "Today", "FromTime(time.Now())")
	check(e.Method(rule, "date", "Date", "Value"), "Value", "(iface(time.Time:"+T("d")+"), nil)", d)
	// Scan: time.Time ⇒ FromTime on the receiver, nil; anything else ⇒ ErrInvalidType, receiver untouched
	if scan := e.Method(rule, "date", "Date", "Scan"); scan != nil {
		site := flow.FnName(scan)
		timeT := e.timeType()
		recv := &pred.Cell{V: a.recv("old"), Name: "recv"}
		if timeT == nil {
			e.S.Unk(rule, site, "Scan(time.Time)", "type time.Time not found in the program", e.Pos(scan))
		} else {
			got, err := eval(scan, pred.Ptr{Cell: recv}, pred.Iface{Dyn: timeT, V: pred.Sym{Name: "t"}})
			switch {
			case err != nil:
				e.S.Unk(rule, site, "Scan(time.Time)", err.Error(), e.Pos(scan))
			case got.String() == "nil" && len(log) == 0 && recv.V != nil && recv.V.String() == "FromTime(t)":
				// the package-level conversion assigned to the receiver: the same date as the method writes
				e.S.Ok(rule, site, "Scan(time.Time)", "sets the receiver to FromTime(t), returns nil", e.Pos(scan))
			case got.String() != "nil" || len(log) != 1 || log[0] != "(*Date).FromTime(&recv[],t)":
				e.S.Bad(rule, site, "Scan(time.Time)", fmt.Sprintf("for a time.Time source Scan returns %v after %v; documented: set the receiver from that time and return nil", got, log), e.Pos(scan), "")
			default:
				e.S.Ok(rule, site, "Scan(time.Time)", "sets the receiver via FromTime(t), returns nil", e.Pos(scan))
			}
		}
		// every other dynamic type a database driver hands over (database/sql/driver.Value): text as string or as
		// bytes, the numbers, bool
		for _, o := range []struct {
			name string
			t    types.Type
		}{{"Scan(other)", types.Typ[types.String]}, {"Scan([]byte)", types.NewSlice(types.Typ[types.Byte])}, {"Scan(int64)", types.Typ[types.Int64]}, {"Scan(float64)", types.Typ[types.Float64]}, {"Scan(bool)", types.Typ[types.Bool]}} {
			log = nil
			got, err := eval(scan, pred.Ptr{Cell: recv}, pred.Iface{Dyn: o.t, V: pred.Sym{Name: "s"}})
			switch {
			case err != nil:
				e.S.Unk(rule, site, o.name, err.Error(), e.Pos(scan))
			case !wrapsSentinel(got, "*date.ErrInvalidType") || len(log) != 0:
				e.S.Bad(rule, site, o.name, fmt.Sprintf("for a non-time source (%s) Scan returns %v after %v; documented: error wrapping ErrInvalidType, receiver untouched", o.t, got, log), e.Pos(scan), "")
			default:
				e.S.Ok(rule, site, o.name, "returns an error wrapping ErrInvalidType without touching the receiver", e.Pos(scan))
			}
		}
	}
	if c07Only != "" {
		return
	}
	// FromTime (function and method): zero time ⇒ zero date; otherwise components of t.Date() on t itself, minus one
	ruleFromTime(e, rule, a)
}

// c07Only restricts ruleC07Deleg to one construct ("Scan") when the rule is filed under another property.
var c07Only string

// ruleScanPath files the Scan obligations of C07.deleg under `rule`: Scan is an input path of the date type — it takes
// a time.Time and refuses everything else; a Scan that also takes text is a parser entry of its own (what it cuts,
// trims or accepts is decided nowhere) and comes out undecided here.
func ruleScanPath(e *Env, rule string) {
	c07Only = "Scan"
	e.As(map[string]string{"C07.deleg": rule}, func() { ruleC07Deleg(e) })
	c07Only = ""
}

func (e *Env) timeType() types.Type {
	for _, p := range e.P.SSA.AllPackages() {
		if p.Pkg.Path() == "time" {
			if t := p.Type("Time"); t != nil {
				return t.Type()
			}
		}
	}
	return nil
}

func ruleFromTime(e *Env, rule string, a *dateAbs) {
	comp := func(k int) string { return fmt.Sprintf("(time.Time).Date#%d(t)", k) }
	for _, which := range []string{"method", "func"} {
		var fn *ssa.Function
		if which == "method" {
			fn = e.Method(rule, "date", "Date", "FromTime")
		} else {
			fn = e.Fn(rule, "date", "FromTime")
		}
		if fn == nil {
			continue
		}
		site := flow.FnName(fn)
		for _, zero := range []bool{true, false} {
			construct := map[bool]string{true: "zero time", false: "non-zero time"}[zero]
			o := &ordOracle{ord: map[string]int{"(time.Time).IsZero(t)|true": map[bool]int{true: 0, false: 1}[zero]}}
			// t.Year(), t.Month(), t.Day() are the components of t.Date() (package time computes all four from the
			// same absolute day)
			tsums := map[string]pred.Summary{}
			for k, acc := range []string{"Year", "Month", "Day"} {
				k := k
				tsums["(time.Time)."+acc] = func(ev *pred.Evaluator, args []pred.Val) (pred.Val, error) {
					return pred.Term{Fn: fmt.Sprintf("(time.Time).Date#%d", k), Args: args}, nil
				}
			}
			ev := &pred.Evaluator{Prog: e.P.SSA, GlobalInit: e.globalTables(), Oracle: o, Summaries: tsums}
			var fields []pred.Val
			if which == "method" {
				recv := &pred.Cell{V: a.recv("old"), Name: "recv"}
				if _, err := ev.Eval(fn, []pred.Val{pred.Ptr{Cell: recv}, pred.Sym{Name: "t"}}); err != nil {
					e.S.Unk(rule, site, construct, err.Error(), e.Pos(fn))
					continue
				}
				fields = recv.V.(*pred.StructV).Fields
			} else {
				out, err := ev.Eval(fn, []pred.Val{pred.Sym{Name: "t"}})
				if err != nil {
					e.S.Unk(rule, site, construct, err.Error(), e.Pos(fn))
					continue
				}
				sv, ok := out.Ret.(*pred.StructV)
				if !ok {
					e.S.Unk(rule, site, construct, fmt.Sprintf("result %v is not a Date value", out.Ret), e.Pos(fn))
					continue
				}
				fields = sv.Fields
			}
			for k, name := range []string{"year", "month", "day"} {
				c2 := construct + " " + name
				if zero {
					if z, ok := intOf(fields[k]); ok && z == 0 {
						e.S.Ok(rule, site, c2, name+" := 0 (zero time ↦ zero date)", e.Pos(fn))
					} else {
						// (not redundant: the zero instant shown in a location west of UTC is December 31 of year 0;
						// seeded change C07-r4-3 deletes the branch and the audit's "behaviour-preserving" was wrong)
						e.S.Bad(rule, site, c2, fmt.Sprintf("for the zero time %s is set to %v, not 0: the zero time no longer maps to the zero date", name, fields[k]), e.Pos(fn), "time.Time{}")
					}
					continue
				}
				cn, ok := pred.Canon(fields[k])
				switch {
				case !ok:
					e.S.Unk(rule, site, c2, fmt.Sprintf("stored value %v is not of the form component ± const", fields[k]), e.Pos(fn))
				case cn.Root != comp(k) || cn.C != -1:
					e.S.Bad(rule, site, c2, fmt.Sprintf("%s := %v; the zero-based encoding requires component #%d of t.Date() (t itself, in its own location) minus one", name, cn, k), e.Pos(fn), "")
				case cn.Width != 0 && cn.Width < []int{32, 8, 8}[k]:
					e.S.Bad(rule, site, c2, fmt.Sprintf("%s := %v: on its way into the %d-bit field the value passes through a %d-bit type and loses its upper bits", name, cn, []int{32, 8, 8}[k], cn.Width), e.Pos(fn), "")
				default:
					e.S.Ok(rule, site, c2, fmt.Sprintf("%s := %v", name, cn), e.Pos(fn))
				}
			}
		}
	}
}

// canonVal rewrites every abstract integer inside v into its canonical root±const form, so that equivalent
// spellings (int(x+1) vs int(x)+1, uint8(m)-1 vs uint8(m-1)) compare equal.
func canonVal(v pred.Val) pred.Val {
	switch x := v.(type) {
	case pred.Bits, pred.Affine:
		if c, ok := pred.Canon(x); ok {
			return pred.Sym{Name: c.String()}
		}
		return v
	case pred.Term:
		args := make([]pred.Val, len(x.Args))
		for i, a := range x.Args {
			args[i] = canonVal(a)
		}
		return pred.Term{Fn: x.Fn, Args: args}
	case pred.Tuple:
		out := make(pred.Tuple, len(x))
		for i, a := range x {
			out[i] = canonVal(a)
		}
		return out
	case pred.Iface:
		return pred.Iface{Dyn: x.Dyn, V: canonVal(x.V)}
	}
	return v
}

// ruleNewDeleg: date.New = FromTime(time.Date(year, month, day, 0,0,0,0, time.UTC)). Rules that summarise New (the
// calendar guard of the parser, the binary reader) depend on it: with another location midnight may not exist on
// a DST-change day and a real date would be normalised away.
func ruleNewDeleg(e *Env, rule string) {
	fn := e.Fn(rule, "date", "New")
	if fn == nil {
		return
	}
	sums := map[string]pred.Summary{}
	if f := e.F("date", "FromTime"); f != nil {
		sums[f.String()] = func(ev *pred.Evaluator, args []pred.Val) (pred.Val, error) {
			return pred.Term{Fn: "FromTime", Args: args}, nil
		}
	}
	if m := e.P.Method("date", "Date", "FromTime"); m != nil {
		sums[m.String()] = func(ev *pred.Evaluator, args []pred.Val) (pred.Val, error) {
			if p, ok := args[0].(pred.Ptr); ok && p.Cell != nil && len(p.Path) == 0 {
				p.Cell.V = pred.Term{Fn: "FromTime", Args: []pred.Val{args[1]}}
				return pred.Tuple{}, nil
			}
			return nil, &pred.Undecided{Reason: "(*Date).FromTime on an unmodelled receiver"}
		}
	}
	ev := &pred.Evaluator{Prog: e.P.SSA, GlobalInit: e.globalTables(), Oracle: noOracle{}, Summaries: sums}
	out, err := ev.Eval(fn, []pred.Val{pred.Sym{Name: "year"}, pred.Sym{Name: "month"}, pred.Sym{Name: "day"}})
	want := "FromTime(time.Date(year,month,day,0,0,0,0,*time.UTC))"
	switch {
	case err != nil:
		e.S.Unk(rule, flow.FnName(fn), "New", err.Error(), e.Pos(fn))
	case out.Ret.String() != want:
		e.S.Bad(rule, flow.FnName(fn), "New", "New computes "+out.Ret.String()+", documented "+want, e.Pos(fn), "")
	default:
		e.S.Ok(rule, flow.FnName(fn), "New", "= "+want, e.Pos(fn))
	}
}

// oneOf: s equals one of the |-separated alternatives.
func oneOf(s, alts string) bool {
	for _, a := range strings.Split(alts, "|") {
		if s == a {
			return true
		}
	}
	return false
}
