package props

import (
	"fmt"

	"golang.org/x/tools/go/ssa"

	"utilcheck/core"
	"utilcheck/flow"
	"utilcheck/load"
)

// Positive controls: for rules whose expected number of violations on a healthy tree is zero, the same engine
// is run on a fixture function that violates the rule. A control that is not flagged means the rule has gone
// blind; the check then fails as broken instead of passing vacuously.

type control struct {
	name  string
	props []string
	run   func(c *flow.Ctx, p *load.Prog)
	rule  string // rule id expected among the findings
	kinds []string
}

var controls = []control{
	{"input write", []string{"C17"}, func(c *flow.Ctx, p *load.Prog) { c.RuleInputReadOnly(p.Func("ctl", "InputWrite")) }, "C17.ro", []string{"violated"}},
	{"input retained in a global", []string{"C17"}, func(c *flow.Ctx, p *load.Prog) { c.RuleInputReadOnly(p.Func("ctl", "InputRetain")) }, "C17.ro", []string{"violated"}},
	{"store before error", []string{"C17"}, func(c *flow.Ctx, p *load.Prog) {
		c.RuleStoreThenError([]*ssa.Function{p.Method("ctl", "Value", "UnmarshalText")})
	}, "C17.store", []string{"violated"}},
	{"truncating re-slice", []string{"C16"}, func(c *flow.Ctx, p *load.Prog) { c.RuleAppendOnly(p.Func("ctl", "FormatTruncate")) }, "C16.append", []string{"violated"}},
	{"prefix overwrite", []string{"C16"}, func(c *flow.Ctx, p *load.Prog) { c.RuleAppendOnly(p.Func("ctl", "FormatOverwrite")) }, "C16.append", []string{"violated"}},
	{"buffer retained in a global", []string{"C16"}, func(c *flow.Ctx, p *load.Prog) { c.RuleAppendOnly(p.Func("ctl", "FormatRetain")) }, "C16.append", []string{"violated"}},
	{"prefix read", []string{"C16"}, func(c *flow.Ctx, p *load.Prog) { c.RuleBufIndependent(p.Func("ctl", "FormatPeek")) }, "C16.indep", []string{"violated"}},
	{"explicit panic", []string{"C18"}, func(c *flow.Ctx, p *load.Prog) {
		c.RuleNoPanicSites(map[*ssa.Function]bool{p.Func("ctl", "ParsePanics"): true}, nil)
	}, "C18.T1", []string{"violated"}},
	{"unguarded index", []string{"C18"}, func(c *flow.Ctx, p *load.Prog) {
		c.RuleIndexObligations(map[*ssa.Function]bool{p.Func("ctl", "ParsePanics"): true})
	}, "C18.T2", []string{"violated"}},
	{"loop without progress", []string{"C18"}, func(c *flow.Ctx, p *load.Prog) {
		c.RuleLoopProgress(map[*ssa.Function]bool{p.Func("ctl", "ParseLoops"): true})
	}, "C18.T3", []string{"undecided"}},
	{"late / non-strict limit guard", []string{"C18", "C01", "C02", "C03", "C04", "C05", "C09", "C10"}, func(c *flow.Ctx, p *load.Prog) {
		c.RuleLimitFirst(p.Func("ctl", "LimitLate"), 0, p.Var("ctl", "ErrInputTooLong"), 0)
		c.RuleLimitZero([]*ssa.Function{p.Func("ctl", "LimitLate")}, "MaxInputLength")
	}, "C18.L", []string{"violated"}},
	{"sentinel not wrapped with %w", []string{"C03", "C05", "C09", "C10", "C11", "C12", "C15"}, func(c *flow.Ctx, p *load.Prog) {
		c.RuleWrap([]*ssa.Function{p.Func("ctl", "WrapV")})
	}, "S-WRAP", []string{"violated"}},
	{"value with error", []string{"C03", "C05", "C09", "C10"}, func(c *flow.Ctx, p *load.Prog) {
		c.RuleErrZero([]*ssa.Function{p.Func("ctl", "NonZeroWithError")})
	}, "S-ERRZERO", []string{"violated"}},
	{"unlocked generator", []string{"C19"}, func(c *flow.Ctx, p *load.Prog) { c.RuleLock(p.ByName["ctl"], "random", "mu") }, "C19.lock", []string{"violated"}},
}

// NeedsControls reports whether property id has positive controls.
func NeedsControls(id string) bool {
	for _, c := range controls {
		for _, p := range c.props {
			if p == id {
				return true
			}
		}
	}
	return false
}

// RunControls runs the controls of property id on the fixture program.
func RunControls(id string, fix *load.Prog, rep *core.Report) {
	n := 0
	for _, ct := range controls {
		applies := false
		for _, p := range ct.props {
			if p == id {
				applies = true
			}
		}
		if !applies {
			continue
		}
		n++
		c := &flow.Ctx{Prog: fix.SSA, ModPath: "go.lstv.dev/utilfix"}
		flagged := false
		func() {
			defer func() {
				if r := recover(); r != nil {
					rep.Broken = append(rep.Broken, fmt.Sprintf("positive control %q: analyser panic: %v", ct.name, r))
				}
			}()
			ct.run(c, fix)
		}()
		for _, f := range c.Out {
			if f.Rule != ct.rule {
				continue
			}
			for _, k := range ct.kinds {
				if f.Kind == k {
					flagged = true
				}
			}
		}
		if flagged {
			rep.Obs = append(rep.Obs, core.Ob{Rule: id + ".control", Site: "fixtures/ctl", Construct: ct.name, Status: core.Discharged,
				Msg: "positive control: the deliberately violating fixture is flagged by rule " + ct.rule + " on this run"})
		} else {
			rep.Broken = append(rep.Broken, fmt.Sprintf("positive control %q is not flagged by rule %s: the rule has gone blind", ct.name, ct.rule))
		}
	}
	rep.Extra["positive_controls"] = n
}
