// Package props instantiates the engines' rules for each property of
// /verif/properties.jsonl.
package props

import (
	"fmt"
	"sort"
	"strings"

	"golang.org/x/tools/go/ssa"

	"utilcheck/core"
	"utilcheck/flow"
	"utilcheck/load"
)

const ModPath = "go.lstv.dev/util"

// ValuePkgs are the five value packages sharing the parser/formatter architecture.
var ValuePkgs = []string{"date", "roman", "sem", "size", "uu"}

type Env struct {
	P    *load.Prog
	C    *flow.Ctx
	S    *core.Sink
	Tier string
	Only string // restrict to rules with this prefix (replay / debugging)

	P386 *load.Prog // thorough tier: second load under GOARCH=386 (may be nil)
}

type Prop struct {
	ID          string
	Title       string
	Run         func(e *Env)
	Explanation string
	NotDecided  []string
	Assumptions []string
	Technique   string // few words naming the deciding method
	Engines     []string
}

var Registry = map[string]*Prop{}

func register(p *Prop) { Registry[p.ID] = p }

func IDs() []string {
	var ids []string
	for id := range Registry {
		ids = append(ids, id)
	}
	sort.Strings(ids)
	return ids
}

// Flow runs f against the flow context and moves its findings into the sink.
func (e *Env) Flow(f func(c *flow.Ctx)) {
	e.C.Out = nil
	f(e.C)
	for _, x := range e.C.Drain() {
		pos := ""
		if x.Pos.IsValid() {
			pos = shortPos(x.Pos.Filename, x.Pos.Line)
		}
		e.S.Add(core.Ob{Rule: x.Rule, Site: x.Site, Construct: x.Construct, Status: core.Status(x.Kind), Msg: x.Msg, Pos: pos, Witness: x.Witness})
	}
}

// FlowAs runs flow rules and files their obligations under other rule names (one engine rule serving two properties).
func (e *Env) FlowAs(rename map[string]string, f func(c *flow.Ctx)) {
	e.C.Out = nil
	f(e.C)
	for _, x := range e.C.Drain() {
		pos := ""
		if x.Pos.IsValid() {
			pos = shortPos(x.Pos.Filename, x.Pos.Line)
		}
		rule := x.Rule
		construct := x.Construct
		if r, ok := rename[rule]; ok {
			if construct == "" {
				construct = strings.TrimPrefix(rule[strings.Index(rule, ".")+1:], ".")
			}
			rule = r
		}
		e.S.Add(core.Ob{Rule: rule, Site: x.Site, Construct: construct, Status: core.Status(x.Kind), Msg: x.Msg, Pos: pos, Witness: x.Witness})
	}
}

// As runs f and files the obligations it adds under another rule name: a rule that is a necessary condition of more
// than one property is decided once per property, under that property's id.
func (e *Env) As(rename map[string]string, f func()) {
	n0 := len(e.S.Obs)
	f()
	for i := n0; i < len(e.S.Obs); i++ {
		if r, ok := rename[e.S.Obs[i].Rule]; ok {
			e.S.Obs[i].Rule = r
		}
	}
}

func shortPos(file string, line int) string {
	if i := strings.LastIndex(file, "/"); i >= 0 {
		if j := strings.LastIndex(file[:i], "/"); j >= 0 {
			file = file[j+1:]
		}
	}
	return fmt.Sprintf("%s:%d", file, line)
}

// Fn resolves a package-level function; a missing anchor is reported as undecided under rule.
func (e *Env) Fn(rule, pkg, name string) *ssa.Function {
	f := e.F(pkg, name)
	if f == nil {
		e.S.Unk(rule, pkg+"."+name, "anchor", "anchor function not found in the tree (and no unique function of the same package has its recorded signature)", "")
	}
	return f
}

// Method resolves a method; a missing anchor is reported as undecided under rule.
func (e *Env) Method(rule, pkg, typ, name string) *ssa.Function {
	f := e.P.Method(pkg, typ, name)
	if f == nil {
		e.S.Unk(rule, pkg+"."+typ+"."+name, "anchor", "anchor method not found in the tree", "")
	}
	return f
}

// Var resolves a package-level variable; a missing anchor is reported as undecided under rule.
func (e *Env) Var(rule, pkg, name string) *ssa.Global {
	g := e.V(pkg, name)
	if g == nil {
		e.S.Unk(rule, pkg+"."+name, "anchor", "anchor variable not found in the tree (and no unique variable of the same package has its recorded type)", "")
	}
	return g
}

func (e *Env) Pos(fn *ssa.Function) string {
	if fn == nil {
		return ""
	}
	p := e.P.SSA.Fset.Position(fn.Pos())
	if !p.IsValid() {
		return ""
	}
	return shortPos(p.Filename, p.Line)
}

// funcs filters nil entries.
func funcs(fs ...*ssa.Function) []*ssa.Function {
	var out []*ssa.Function
	for _, f := range fs {
		if f != nil {
			out = append(out, f)
		}
	}
	return out
}

// ValueFuncs returns every function and method of the listed packages, sorted.
func (e *Env) PkgFuncs(pkgs ...string) []*ssa.Function {
	want := map[string]bool{}
	for _, p := range pkgs {
		want[p] = true
	}
	var out []*ssa.Function
	for _, f := range flow.SortedFuncs(e.C.AllRepoFuncs()) {
		if f.Pkg != nil && want[f.Pkg.Pkg.Name()] {
			out = append(out, f)
		}
	}
	return out
}

func (e *Env) posOfBlock(b *ssa.BasicBlock) string {
	for i := len(b.Instrs) - 1; i >= 0; i-- {
		if p := e.P.SSA.Fset.Position(b.Instrs[i].Pos()); p.IsValid() {
			return shortPos(p.Filename, p.Line)
		}
	}
	return e.Pos(b.Parent())
}
