package props

import (
	"fmt"
	"go/types"
	"sort"
	"strings"

	"golang.org/x/tools/go/ssa"

	"utilcheck/flow"
)

func init() {
	register(&Prop{
		ID:    "C17",
		Title: "Failed parses leave receiver and input untouched; string and bytes agree",
		Run:   runC17,
		Explanation: "C17.store: in each of the 8 pointer-receiver Unmarshal*/Scan methods no store into receiver-derived memory (direct, field-wise or through an in-repo callee that writes its receiver) can reach a return whose error operand is not the nil constant (CFG reachability over SSA; a store in the block where the error value merges runs after the merge; a store made by a callee does not count against a return that hands on that callee's own error if the callee passes the rule itself). " +
			"C17.ro: alias analysis from every parser entry point: no element store, copy or append targets memory that may alias the input (conversions of the type parameter, sub-slices, FindSubmatch results); stdlib callees receiving an alias must be in the read-only summary table; a slice sharing the input's bytes is not stored where it outlives the call; aliases are followed through local cells (variables captured by closures) and into the closures themselves. C17.errinput: the methods of the typed parse errors, which keep the input in their Input field, do not write through an alias of it either (Error() formats a caller's []byte). " +
			"C17.alias: result types contain no reference into the input (Date, Number, Size, ID have no pointer/slice/string fields; Ver's strings are produced by copying string(...) conversions); no unsafe in the value packages. " +
			"C17.generic: one generic body per parser, in which no type switch/assertion/reflect inspects a T-typed value, no type assertion or errors.As target is a type built from T (*ParseError[T]: it matches for one instantiation only), and every fmt verb applied to a T-typed value prints string and []byte identically. C17.generic also reports every input-typed value that is converted to an interface and leaves the generic body other than as a %q/%s/%x operand of a constant format (fmt.Sprint, non-constant formats, helpers taking any)." +
			" Added after the second rule audit: the 'no unsafe' clause of C17.alias covers every package of the module in the call-graph closure of the parser entry points, not a fixed list; a value whose type is instantiated with the input's type parameter must not be printed with %T or %#v/%+v; entry points of other shapes added later (exported functions and methods taking a text and returning an error) join the entry set." +
			" C17.ro 'carrier': an object built around the input (the typed parse error, a struct holding it, an fmt.Errorf wrapping it) is not stored into package-level state; a conversion to string copies. C17.generic 'arms': a decoding method that takes both a string and a []byte out of an interface parameter hands either to the same functions, cut and read the same way.",
		NotDecided:  []string{"error *types* differ by instantiation by design (ParseError[string] vs ParseError[[]byte]); only values and messages are claimed"},
		Technique:   "store-then-error reachability, input alias/effect analysis and generic-body type rules over go/ssa",
		Assumptions: []string{"stdlib read-only summaries (regexp.Find*/Match*, bytes.NewReader, json.NewDecoder, strconv.*) do not write their input", "FindSubmatch results alias the subject"},
	})
}

func runC17(e *Env) {
	var ms []*ssa.Function
	for _, m := range unmarshalMethods {
		if f := e.Method("C17.store", m[0], m[1], m[2]); f != nil {
			ms = append(ms, f)
		}
	}
	// … and whatever else the value types offer under those names ("for every type, an unmarshal or scan call"):
	// pointer-receiver methods called Unmarshal* or Scan that return an error
	known := map[*ssa.Function]bool{}
	for _, m := range ms {
		known[m] = true
	}
	for _, vt := range [][2]string{{"date", "Date"}, {"roman", "Number"}, {"sem", "Ver"}, {"size", "Size"}, {"uu", "ID"}} {
		sp := e.P.ByName[vt[0]]
		if sp == nil || sp.Type(vt[1]) == nil {
			continue
		}
		mset := e.P.SSA.MethodSets.MethodSet(types.NewPointer(sp.Type(vt[1]).Type()))
		for i := 0; i < mset.Len(); i++ {
			name := mset.At(i).Obj().Name()
			if !strings.HasPrefix(name, "Unmarshal") && name != "Scan" {
				continue
			}
			f := e.P.SSA.MethodValue(mset.At(i))
			if f == nil || known[f] || len(f.Blocks) == 0 || f.Signature.Recv() == nil {
				continue
			}
			if _, isPtr := f.Signature.Recv().Type().(*types.Pointer); !isPtr {
				continue
			}
			known[f] = true
			ms = append(ms, f)
		}
	}
	e.Flow(func(c *flow.Ctx) { c.RuleStoreThenError(ms) })
	e.S.Floor("C17.store", 8)

	var entries []*ssa.Function
	seenEntry := map[*ssa.Function]bool{}
	for _, pkg := range ValuePkgs {
		// the recorded parsers and every other exported function of the package that takes an input text (the compare
		// and latest helpers of sem, whatever is added later)
		for _, f := range parserEntryFuncs(e, "C17.ro", pkg) {
			if !seenEntry[f] {
				seenEntry[f] = true
				entries = append(entries, f)
			}
		}
	}
	if f := e.Fn("C17.ro", "sem", "DefaultComparePreRelease"); f != nil && !seenEntry[f] {
		entries = append(entries, f)
	}
	// the unmarshal / scan methods receive the caller's bytes before any parser does
	for _, m := range ms {
		entries = append(entries, m)
	}
	e.Flow(func(c *flow.Ctx) { c.RuleInputReadOnly(entries...) })
	e.S.Floor("C17.ro", 11)
	ruleC17Arms(e)

	// the typed parse errors keep the input (field Input): formatting the error must not write into it either
	var errMethods []*ssa.Function
	for _, pkg := range ValuePkgs {
		sp := e.P.ByName[pkg]
		tn := parseErrorType[pkg]
		if sp == nil || tn == "" || sp.Type(tn) == nil {
			continue
		}
		for _, m := range flow.SortedFuncs(e.C.AllRepoFuncs()) {
			if m.Signature.Recv() == nil || m.Pkg != sp || flow.Origin(m) != m {
				continue
			}
			rt := m.Signature.Recv().Type()
			if p, ok := rt.(*types.Pointer); ok {
				rt = p.Elem()
			}
			if nt, ok := rt.(*types.Named); ok && nt.Obj().Name() == tn && len(m.Blocks) > 0 {
				errMethods = append(errMethods, m)
			}
		}
	}
	n0 := len(e.S.Obs)
	e.Flow(func(c *flow.Ctx) { c.RuleFieldReadOnly("Input", errMethods...) })
	for i := n0; i < len(e.S.Obs); i++ {
		if e.S.Obs[i].Rule == "C17.ro" {
			e.S.Obs[i].Rule = "C17.errinput"
		}
	}
	e.S.Floor("C17.errinput", 5)
	ruleAliasFree(e, "C17.alias", false)
	ruleGeneric(e, entries)
}

// ruleAliasFree: C17.alias.
func ruleAliasFree(e *Env, rule string, semOnly bool) {
	for _, t := range [][2]string{{"date", "Date"}, {"roman", "Number"}, {"size", "Size"}, {"uu", "ID"}} {
		if semOnly {
			break
		}
		sp := e.P.ByName[t[0]]
		if sp == nil || sp.Type(t[1]) == nil {
			e.S.Unk(rule, t[0]+"."+t[1], "anchor", "result type not found", "")
			continue
		}
		if ref := firstReference(sp.Type(t[1]).Type().Underlying(), 0); ref != "" {
			e.S.Bad(rule, t[0]+"."+t[1], "fields", "result type contains a reference ("+ref+"): a parsed value may share memory with the input or the caller's variables", "", ref)
		} else {
			e.S.Ok(rule, t[0]+"."+t[1], "fields", "value type without pointer, slice, map, string-of-input or interface fields", "")
		}
	}
	// sem.Ver: string fields must be produced by copying conversions from []byte (string(parts[k])) in unmarshalText
	if top := e.Fn(rule, "sem", "unmarshalText"); top != nil {
		site := flow.FnName(top)
		n := 0
		// the parser and the functions of the module it reaches (the construction may sit in a helper)
		var blocks []*ssa.BasicBlock
		for _, f := range flow.SortedFuncs(e.C.Reachable(top)) {
			blocks = append(blocks, f.Blocks...)
		}
		for _, b := range blocks {
			for _, in := range b.Instrs {
				st, ok := in.(*ssa.Store)
				if !ok {
					continue
				}
				fa, ok := st.Addr.(*ssa.FieldAddr)
				if !ok {
					continue
				}
				if bt, ok := st.Val.Type().Underlying().(*types.Basic); !ok || bt.Info()&types.IsString == 0 {
					continue
				}
				pt, _ := fa.X.Type().Underlying().(*types.Pointer)
				if pt == nil {
					continue
				}
				stt, _ := pt.Elem().Underlying().(*types.Struct)
				if stt == nil {
					continue
				}
				fname := stt.Field(fa.Field).Name()
				n++
				switch v := st.Val.(type) {
				case *ssa.Const:
					e.S.Ok(rule, site, "Ver."+fname, "constant string", "")
				case *ssa.Convert:
					if _, fromSlice := v.X.Type().Underlying().(*types.Slice); fromSlice {
						e.S.Ok(rule, site, "Ver."+fname, "string(...) conversion of a byte slice copies the bytes", "")
					} else {
						e.S.Ok(rule, site, "Ver."+fname, "string(...) conversion: copies a byte-slice operand, is the identity on an (immutable) string operand", "")
					}
				default:
					// any other string-typed value (sub-string, element of a []string match result, …): a Go string cannot
					// share memory with mutable bytes unless it was made with package unsafe, which the imports clause excludes
					e.S.Ok(rule, site, "Ver."+fname, fmt.Sprintf("string-typed value (%T): immutable, cannot alias the caller's bytes without unsafe (see imports clause)", st.Val), "")
				}
			}
		}
		if n < 2 {
			e.S.Unk(rule, site, "Ver strings", "stores of PreRelease/Build not found in sem.unmarshalText", "")
		}
	}
	// unsafe is not imported by any value package
	for _, pkg := range append(append([]string(nil), ValuePkgs...), "internal") {
		p := e.P.ByPkg[pkg]
		if p == nil || semOnly && pkg != "sem" && pkg != "internal" {
			continue
		}
		uses := false
		for path := range p.Imports {
			if path == "unsafe" || path == "reflect" && pkg != "size" && pkg != "internal" {
				uses = true
			}
		}
		if uses {
			e.S.Bad(rule, pkg, "imports", "value package imports unsafe/reflect: aliasing of input memory can no longer be excluded from types", "", "")
		} else {
			e.S.Ok(rule, pkg, "imports", "no unsafe import", "")
		}
	}
	// … nor by any other package of the module that the parsers reach (a helper package that turns bytes into a
	// string without copying): the packages of every function in the call-graph closure of the parser entry points
	var roots []*ssa.Function
	for _, pkg := range ValuePkgs {
		if semOnly && pkg != "sem" {
			continue
		}
		roots = append(roots, parserEntryFuncs(e, rule, pkg)...)
		for _, m := range unmarshalMethods {
			if m[0] == pkg {
				if f := e.P.Method(m[0], m[1], m[2]); f != nil {
					roots = append(roots, f)
				}
			}
		}
	}
	listed := map[string]bool{"internal": true}
	for _, pkg := range ValuePkgs {
		listed[pkg] = true
	}
	seenPkg := map[*types.Package]bool{}
	for _, f := range flow.SortedFuncs(e.C.Reachable(roots...)) {
		if f.Pkg == nil || seenPkg[f.Pkg.Pkg] || listed[f.Pkg.Pkg.Name()] {
			continue
		}
		seenPkg[f.Pkg.Pkg] = true
		for _, imp := range f.Pkg.Pkg.Imports() {
			if imp.Path() == "unsafe" {
				e.S.Bad(rule, f.Pkg.Pkg.Path(), "imports", "a package the parsers call into ("+flow.FnName(f)+") imports unsafe: a string made there can share memory with the caller's bytes", "", "")
			}
		}
	}
}

func firstReference(t types.Type, depth int) string {
	if depth > 6 {
		return "?"
	}
	switch u := t.Underlying().(type) {
	case *types.Basic:
		if u.Info()&types.IsString != 0 {
			return "string"
		}
		if u.Kind() == types.UnsafePointer {
			return "unsafe.Pointer"
		}
		return ""
	case *types.Struct:
		for i := 0; i < u.NumFields(); i++ {
			if r := firstReference(u.Field(i).Type(), depth+1); r != "" {
				return u.Field(i).Name() + " " + r
			}
		}
		return ""
	case *types.Array:
		return firstReference(u.Elem(), depth+1)
	default:
		return types.TypeString(t, nil)
	}
}

// ruleGeneric: C17.generic.
func ruleGeneric(e *Env, entries []*ssa.Function) {
	const rule = "C17.generic"
	reach := e.C.Reachable(entries...)
	// include the error types' methods (Error() formats the input)
	for _, f := range e.PkgFuncs(ValuePkgs...) {
		// … and the methods fmt reaches through its interfaces on a type built from the input's type (a
		// `quoted[T]` with a String method that tells string from []byte is never called statically)
		fmtReached := f.Signature.Recv() != nil && recvHasTypeParams(f) && (f.Name() == "String" || f.Name() == "Format" || f.Name() == "GoString")
		if f.Name() == "Error" || f.Name() == "Unwrap" || fmtReached {
			// … and what they call (a helper that quotes the input for the message)
			for g := range e.C.Reachable(f) {
				reach[g] = true
			}
		}
	}
	nGeneric := 0
	for _, fn := range flow.SortedFuncs(reach) {
		if fn.TypeParams().Len() == 0 && !(fn.Signature.Recv() != nil && recvHasTypeParams(fn)) {
			continue
		}
		nGeneric++
		site := flow.FnName(fn)
		bad := false
		approved := map[*ssa.MakeInterface]bool{} // boxed input-typed values whose only use is a safe verb of a constant format
		for _, b := range fn.Blocks {
			for _, in := range b.Instrs {
				switch x := in.(type) {
				case *ssa.TypeAssert:
					// a type switch / assertion on a value boxed from a type-parameter-typed value
					if mi, ok := x.X.(*ssa.MakeInterface); ok && mentionsTypeParam(mi.X.Type()) {
						e.S.Bad(rule, site, "type-assert", "dynamic type test on a value of the input's type parameter: string and []byte instantiations may diverge", e.posOf(x), "")
						bad = true
					} else if dependsOnInputParam(x.AssertedType, 0) {
						e.S.Bad(rule, site, "type-assert", "dynamic type test against a type built from the input's type parameter ("+x.AssertedType.String()+"): it holds for one instantiation and fails for the other on the same value", e.posOf(x), "")
						bad = true
					}
				case *ssa.Call:
					callee := x.Call.StaticCallee()
					if callee == nil {
						continue
					}
					name := callee.String()
					if name == "errors.As" && len(x.Call.Args) == 2 {
						// errors.As(err, &target) with a target type built from the type parameter (*ParseError[T]): which
						// errors it finds depends on the instantiation, nested errors keep the type they were made with
						if mi, ok := x.Call.Args[1].(*ssa.MakeInterface); ok && dependsOnInputParam(mi.X.Type(), 0) {
							e.S.Bad(rule, site, "errors.As", "errors.As with a target type built from the input's type parameter ("+mi.X.Type().String()+"): the match depends on the instantiation, so string and []byte callers can get different errors", e.posOf(x), "")
							bad = true
						}
					}
					if strings.HasPrefix(name, "reflect.") {
						for _, a := range x.Call.Args {
							if mi, ok := a.(*ssa.MakeInterface); ok && mentionsTypeParam(mi.X.Type()) {
								e.S.Bad(rule, site, "reflect", "reflection on a value of the input's type parameter", e.posOf(x), "")
								bad = true
							}
						}
					}
					if name == "fmt.Sprintf" || name == "fmt.Errorf" || name == "fmt.Fprintf" {
						fi := 0
						if name == "fmt.Fprintf" {
							fi = 1
						}
						format, ok := flow.ConstString(x.Call.Args[fi])
						if !ok {
							continue // an input-typed operand of it, if any, stays unapproved below
						}
						args := flow.Varargs(x.Call.Args[fi+1])
						k := 0
						for _, it := range flow.ParseFormat(format) {
							if it.Lit != "" || it.Verb == 0 {
								continue
							}
							ix := k
							if it.ArgIx > 0 {
								ix = it.ArgIx - 1
							}
							k = ix + 1
							if ix >= len(args) || args[ix] == nil {
								continue
							}
							mi, ok := args[ix].(*ssa.MakeInterface)
							// … or, for a value without an Error()/String() method of its own (the struct itself rather than
							// the pointer that carries the methods), by any verb: its fields are printed, the input among them
							if ok && !mentionsTypeParam(mi.X.Type()) && dependsOnInputParam(mi.X.Type(), 0) && (it.Verb == 'T' || it.Verb == 'v' && strings.Contains(it.Flags, "#") || !hasErrorOrString(mi.X.Type())) {
								// a value of a type instantiated with the input's type (*ParseError[T]): %T and %#v print the
								// type's name, which names string or []uint8
								e.S.Bad(rule, site, "verb %"+it.Flags+string(it.Verb), fmt.Sprintf("operand %d of %q has a type built from the input's type parameter (%s) and is printed with %%%s%c, which spells out the instantiation: string and []byte callers get different messages", ix, format, mi.X.Type(), it.Flags, it.Verb), e.posOf(x), "")
								bad = true
							}
							if !ok || !mentionsTypeParam(mi.X.Type()) {
								continue
							}
							if !strings.ContainsRune("qsxX", it.Verb) {
								e.S.Bad(rule, site, "verb %"+string(it.Verb), fmt.Sprintf("input-typed operand %d of %q printed with %%%c, which renders string and []byte differently", ix, format, it.Verb), e.posOf(x), "")
								bad = true
							}
							approved[mi] = true
						}
					}
				}
			}
		}
		// any other way of handing an input-typed value to code that can see its dynamic type: fmt.Sprint/Sprintln, a
		// non-constant format, a helper taking `any`, an interface-typed variable
		for _, b := range fn.Blocks {
			for _, in := range b.Instrs {
				mi, ok := in.(*ssa.MakeInterface)
				if !ok || !mentionsTypeParam(mi.X.Type()) || approved[mi] {
					continue
				}
				onlyAssert := mi.Referrers() != nil && len(*mi.Referrers()) > 0
				if onlyAssert {
					for _, r := range *mi.Referrers() {
						if _, isTA := r.(*ssa.TypeAssert); !isTA {
							onlyAssert = false
						}
					}
				}
				if onlyAssert {
					continue // reported above
				}
				e.S.Bad(rule, site, "boxed input", "a value of the input's type parameter is converted to an interface and leaves the generic body other than as a %q/%s/%x operand of a constant format: its dynamic type (string or []byte) can change what is printed or decided", e.posOf(mi), "")
				bad = true
			}
		}
		if !bad {
			e.S.Ok(rule, site, "body", "generic body: no dynamic type test or reflection on input-typed values; input printed only with %q/%s/%x", e.Pos(fn))
		}
	}
	if nGeneric < 10 {
		e.S.Unk(rule, "(anchors)", "floor", fmt.Sprintf("only %d generic bodies found in the parser-reachable set (floor 10)", nGeneric), "")
	}
}

func recvHasTypeParams(fn *ssa.Function) bool {
	r := fn.Signature.Recv()
	if r == nil {
		return false
	}
	t := r.Type()
	if p, ok := t.(*types.Pointer); ok {
		t = p.Elem()
	}
	if n, ok := t.(*types.Named); ok {
		return n.TypeParams().Len() > 0
	}
	return false
}

// mentionsTypeParam reports whether t is (or points to / is a slice of) a type parameter whose constraint
// admits string or []byte, i.e. the parser-input parameter (numeric parameters such as size's N do not count).
func mentionsTypeParam(t types.Type) bool {
	switch u := t.(type) {
	case *types.TypeParam:
		return constraintAdmitsBytes(u.Constraint(), 0)
	case *types.Pointer:
		return mentionsTypeParam(u.Elem())
	case *types.Slice:
		return mentionsTypeParam(u.Elem())
	case *types.Array:
		return mentionsTypeParam(u.Elem())
	case *types.Struct:
		for i := 0; i < u.NumFields(); i++ {
			if mentionsTypeParam(u.Field(i).Type()) {
				return true
			}
		}
	}
	return false
}

// hasErrorOrString: fmt prints a value of type t through its own Error() or String() method.
func hasErrorOrString(t types.Type) bool {
	ms := types.NewMethodSet(t)
	for i := 0; i < ms.Len(); i++ {
		if n := ms.At(i).Obj().Name(); n == "Error" || n == "String" {
			if sig, ok := ms.At(i).Type().(*types.Signature); ok && sig.Params().Len() == 0 && sig.Results().Len() == 1 {
				return true
			}
		}
	}
	return false
}

// dependsOnInputParam: t is built from the parser-input type parameter, also as a type argument (*ParseError[T]).
func dependsOnInputParam(t types.Type, depth int) bool {
	if depth > 6 {
		return false
	}
	switch u := t.(type) {
	case *types.TypeParam:
		return constraintAdmitsBytes(u.Constraint(), 0)
	case *types.Pointer:
		return dependsOnInputParam(u.Elem(), depth+1)
	case *types.Slice:
		return dependsOnInputParam(u.Elem(), depth+1)
	case *types.Named:
		for i := 0; i < u.TypeArgs().Len(); i++ {
			if dependsOnInputParam(u.TypeArgs().At(i), depth+1) {
				return true
			}
		}
	}
	return false
}

func constraintAdmitsBytes(t types.Type, depth int) bool {
	if depth > 5 {
		return false
	}
	switch u := t.Underlying().(type) {
	case *types.Interface:
		for i := 0; i < u.NumEmbeddeds(); i++ {
			if constraintAdmitsBytes(u.EmbeddedType(i), depth+1) {
				return true
			}
		}
		return u.NumEmbeddeds() == 0 && u.NumMethods() == 0 && depth == 0 // `any`
	case *types.Union:
		for i := 0; i < u.Len(); i++ {
			if constraintAdmitsBytes(u.Term(i).Type(), depth+1) {
				return true
			}
		}
	case *types.Basic:
		return u.Info()&types.IsString != 0
	case *types.Slice:
		b, ok := u.Elem().Underlying().(*types.Basic)
		return ok && b.Kind() == types.Uint8
	}
	return false
}

func (e *Env) posOf(in ssa.Instruction) string {
	p := e.P.SSA.Fset.Position(in.Pos())
	if !p.IsValid() {
		return e.Pos(in.Parent())
	}
	return shortPos(p.Filename, p.Line)
}

// ruleC17Arms: string and bytes agree also where the text arrives inside an interface value: a decoding method with
// an interface-typed parameter (Scan(src any)) that takes both a string and a []byte out of it by type assertion
// hands either to the same functions of the module, converted at most — an arm that first trims, folds or otherwise
// rewrites its text with something the other arm does not call makes the two kinds of caller disagree. No
// obligation where a method asserts neither or only one of the two.
func ruleC17Arms(e *Env) {
	const rule = "C17.generic"
	isText := func(t types.Type) string {
		switch u := t.Underlying().(type) {
		case *types.Basic:
			if u.Info()&types.IsString != 0 {
				return "string"
			}
		case *types.Slice:
			if b, ok := u.Elem().Underlying().(*types.Basic); ok && b.Kind() == types.Uint8 {
				return "[]byte"
			}
		}
		return ""
	}
	var fns []*ssa.Function
	for _, pkg := range ValuePkgs {
		for _, m := range unmarshalMethods {
			if m[0] == pkg {
				if f := e.P.Method(m[0], m[1], m[2]); f != nil {
					fns = append(fns, f)
				}
			}
		}
		for _, f := range lateTextEntries(e, pkg) {
			fns = append(fns, f)
		}
		// methods with an interface-typed parameter are not "text" entries by signature: look at every exported method
		for _, f := range e.PkgFuncs(pkg) {
			if f.Signature.Recv() != nil && f.Object() != nil && f.Object().Exported() {
				fns = append(fns, f)
			}
		}
	}
	seen := map[*ssa.Function]bool{}
	for _, f := range fns {
		if seen[f] || len(f.Blocks) == 0 {
			continue
		}
		seen[f] = true
		// the consumers of each asserted text: callee names, "ext:" for functions outside the module
		arms := map[string]map[string]bool{}
		asserted := map[string]bool{}
		for _, b := range f.Blocks {
			for _, in := range b.Instrs {
				ta, ok := in.(*ssa.TypeAssert)
				if !ok || isText(ta.AssertedType) == "" {
					continue
				}
				if _, isParam := flow.Strip(ta.X).(*ssa.Parameter); !isParam {
					continue
				}
				kind := isText(ta.AssertedType)
				asserted[kind] = true
				if arms[kind] == nil {
					arms[kind] = map[string]bool{}
				}
				var val ssa.Value = ta
				if ta.CommaOk {
					val = nil
					for _, r := range *ta.Referrers() {
						if ex, ok := r.(*ssa.Extract); ok && ex.Index == 0 {
							val = ex
						}
					}
				}
				if val == nil {
					continue
				}
				var walk func(v ssa.Value, depth int)
				walk = func(v ssa.Value, depth int) {
					if depth > 4 || v.Referrers() == nil {
						return
					}
					for _, r := range *v.Referrers() {
						switch x := r.(type) {
						case *ssa.Convert:
							walk(x, depth+1)
						case *ssa.ChangeType:
							walk(x, depth+1)
						case *ssa.MakeInterface:
							walk(x, depth+1)
						case *ssa.Phi:
							walk(x, depth+1) // the arms meet: what consumes the merged value consumes either
						case *ssa.Slice:
							arms[kind]["(cut)"] = true // a part of the text is taken: the other arm must do the same
							walk(x, depth+1)
						case *ssa.Index, *ssa.IndexAddr, *ssa.Range:
							arms[kind]["(read byte-wise)"] = true
						case ssa.CallInstruction:
							cc := x.Common()
							if bi, isB := cc.Value.(*ssa.Builtin); isB && (bi.Name() == "len" || bi.Name() == "cap") {
								continue
							}
							if g := e.C.StaticCallee(cc); g != nil {
								if flow.InRepo(g) {
									arms[kind][flow.FnName(flow.Origin(g))] = true
								} else if !strings.HasPrefix(g.String(), "fmt.") { // the error message of the fall-through arm
									// strings.X and bytes.X of the same name do the same to a text: one name for both
									name := g.String()
									name = strings.TrimPrefix(strings.TrimPrefix(name, "strings."), "bytes.")
									// … with the same constant operands (`Trim(v, " \t\r\n")` and `Trim(v, " ")` cut different texts)
									for _, a := range cc.Args {
										if k, isK := a.(*ssa.Const); isK && k.Value != nil {
											name += "," + k.Value.ExactString()
										}
									}
									arms[kind]["ext:"+name] = true
									if v, isVal := x.(ssa.Value); isVal {
										walk(v, depth+1) // what the rewritten text is handed to
									}
								}
							} else {
								arms[kind]["dyn:"+cc.Value.String()] = true
							}
						}
					}
				}
				walk(val, 0)
			}
		}
		if !asserted["string"] || !asserted["[]byte"] {
			continue
		}
		site := flow.FnName(f)
		var diff []string
		for k := range arms["string"] {
			if !arms["[]byte"][k] {
				diff = append(diff, "string arm only: "+k)
			}
		}
		for k := range arms["[]byte"] {
			if !arms["string"][k] {
				diff = append(diff, "[]byte arm only: "+k)
			}
		}
		sort.Strings(diff)
		if len(diff) > 0 {
			e.S.Bad(rule, site, "arms", "the string and the []byte taken out of the interface parameter are not handed to the same functions ("+strings.Join(diff, "; ")+"): the same text can be accepted from one kind of caller and refused from the other", e.Pos(f), "")
		} else {
			e.S.Ok(rule, site, "arms", "the string and the []byte arm hand their text to the same functions", e.Pos(f))
		}
	}
}
