package props

import (
	"fmt"
	"go/constant"
	"go/token"
	"go/types"
	"sort"
	"strconv"
	"strings"

	"golang.org/x/tools/go/ssa"

	"utilcheck/flow"
	"utilcheck/pred"
)

func init() {
	register(&Prop{
		ID:    "C05",
		Title: "UUID text form is exact, strict and round-trips",
		Run:   runC05,
		Explanation: "C05.layout: the format constants reaching internal.Bprintf from uu.DefaultFormatter are parsed by meaning: five zero-padded lower-case hex items of widths 8,4,4,4,12 separated by '-' (URN: the same after \"urn:uuid:\"); by bit-provenance each argument is a contiguous slice of Higher/Lower whose bits above 4·W are constant 0, and the five slices concatenate to Higher[63:0]·Lower[63:0] in order (36 characters, big-endian). " +
			"C05.nib: DefaultParser evaluated on a text of the plain layout (36 bytes, hyphens at 8, 13, 18, 23) and of the URN layout (45 bytes, lower-case prefix), flags clear, the digit function replaced by the four bits of the digit at its text position: the resulting ID holds the first sixteen digits in Higher and the last sixteen in Lower, most significant first, bit for bit; a hyphen expected elsewhere or a digit read from a hyphen position fails the evaluation (this subsumes the hyphen-offset agreement). " +
			"C05.digit: parseDigit as a table over the byte intervals induced by its own comparisons: '0'..'9' ↦ 0..9, 'a'..'f' ↦ 10..15, 'A'..'F' ↦ 10..15 only when upper case is allowed, everything else (0,false). " +
			"C05.strict: decision table of the pre-loop part of DefaultParser over (len = 36 / 45 / other, RuleDisableURN, prefix bytes, hyphen bytes) compared with the documented outcomes; the URN literals agree. C05.ver: Version() = bits 15..12 of Higher; Variant() as a table over the top three bits of Lower. S-ERRZERO, S-WRAP, typed errors, C18.L for package uu.",
		NotDecided:  []string{"fmt's %x rendering and the other stdlib summaries; otherwise the property is decided for all 2^128 IDs and all byte strings"},
		Assumptions: []string{"fmt %0Wx prints exactly W lower-case hex digits for a value below 16^W"},
		Technique:   "format-string reading + bit-provenance + decision-table extraction over go/ssa",
	})
}

func runC05(e *Env) {
	widths, hyph := ruleC05Layout(e)
	_ = widths
	ruleC05Sem(e, "C05.nib")
	ruleC05Digit(e)
	ruleC05Strict(e, hyph)
	ruleC05Ver(e)
	ruleErrZero(e, "C05.errzero", "uu")
	ruleWrap(e, "C05.wrap", "uu")
	ruleLimitAccept(e, "C05.limit", "uu")
	ruleTyped(e, "C05.typed", "uu")
	ruleDeleg(e, "C05.deleg", "uu")
	e.S.Floor("C05.deleg", 12)
	e.S.Floor("C05.layout", 12)
	e.S.Floor("C05.nib", 2)
	e.S.Floor("C05.digit", 6)
	e.S.Floor("C05.strict", 8)
	e.S.Floor("C05.ver", 9)
	e.S.Floor("C05.limit", 2)
}

// ---- C05.layout

func ruleC05Layout(e *Env) (widths []int, hyph []int) {
	const rule = "C05.layout"
	fn := e.Fn(rule, "uu", "DefaultFormatter")
	bp := e.Fn(rule, "internal", "Bprintf")
	sp := e.P.ByName["uu"]
	if fn == nil || bp == nil || sp == nil || sp.Type("ID") == nil {
		return nil, nil
	}
	site := flow.FnName(fn)
	idT := sp.Type("ID").Type()
	urnFlag, ok := tabConstInt(e, "uu", "FormatURN")
	if !ok {
		e.S.Unk(rule, site, "FormatURN", "constant not found", e.Pos(fn))
		return nil, nil
	}
	for _, c := range []struct {
		name   string
		flag   int64
		prefix string
	}{{"plain", 0, ""}, {"urn", urnFlag, "urn:uuid:"}} {
		var captured []pred.Val
		sid := &pred.StructV{T: idT.Underlying().(*types.Struct), Named: idT, Fields: []pred.Val{pred.SymBits("H", 64, false), pred.SymBits("L", 64, false)}}
		ev := &pred.Evaluator{Prog: e.P.SSA, Oracle: noOracle{}, Summaries: map[string]pred.Summary{
			bp.String(): func(ev *pred.Evaluator, args []pred.Val) (pred.Val, error) {
				captured = args
				return pred.Sym{Name: "out"}, nil
			},
		}}
		out, err := ev.Eval(fn, []pred.Val{pred.Sym{Name: "buf"}, sid, pred.Const{V: constant.MakeInt64(c.flag)}})
		if err != nil || captured == nil {
			msg := "internal.Bprintf is not reached"
			if err != nil {
				msg = err.Error()
			}
			e.S.Unk(rule, site, c.name, "not evaluable: "+msg, e.Pos(fn))
			continue
		}
		if t, ok := out.Ret.(pred.Tuple); !ok || len(t) != 2 || t[0].String() != "out" || t[1].String() != "nil" {
			e.S.Bad(rule, site, c.name+" result", fmt.Sprintf("the formatter returns %v, not (Bprintf(buf, …), nil)", out.Ret), e.Pos(fn), "")
		}
		if captured[0].String() != "buf" {
			e.S.Bad(rule, site, c.name+" buffer", "Bprintf is not given the caller's buffer", e.Pos(fn), "")
		}
		fc, ok := captured[1].(pred.Const)
		if !ok || fc.V == nil || fc.V.Kind() != constant.String {
			e.S.Unk(rule, site, c.name+" format", "format is not a constant", e.Pos(fn))
			continue
		}
		format := constant.StringVal(fc.V)
		if !strings.HasPrefix(format, c.prefix) {
			e.S.Bad(rule, site, c.name+" prefix", fmt.Sprintf("format %q does not start with %q", format, c.prefix), e.Pos(fn), "")
			continue
		}
		items := flow.ParseFormat(format[len(c.prefix):])
		var ws, hs []int
		pos := 0
		okItems := true
		for _, it := range items {
			if it.Verb == 0 {
				for _, ch := range it.Lit {
					if ch == '-' {
						hs = append(hs, pos)
					} else {
						e.S.Bad(rule, site, c.name+" literal", fmt.Sprintf("format contains the literal %q besides the hyphens", string(ch)), e.Pos(fn), "")
						okItems = false
					}
					pos++
				}
				continue
			}
			w, _ := strconv.Atoi(it.Width)
			zero := strings.Contains(it.Flags, "0") && !strings.Contains(it.Flags, "-")
			if it.Prec != "" { // %.Wx pads with zeros as well
				w, _ = strconv.Atoi(it.Prec)
				zero = true
			}
			if it.Verb != 'x' || !zero || w == 0 || strings.ContainsAny(it.Flags, "# +") {
				e.S.Bad(rule, site, c.name+" verb", fmt.Sprintf("item %%%s%s%c is not a zero-padded lower-case hex field of fixed width", it.Flags, it.Width, it.Verb), e.Pos(fn), "")
				okItems = false
			}
			ws = append(ws, w)
			pos += w
		}
		if !okItems {
			continue
		}
		if fmt.Sprint(ws) != "[8 4 4 4 12]" || fmt.Sprint(hs) != "[8 13 18 23]" {
			e.S.Bad(rule, site, c.name+" widths", fmt.Sprintf("field widths %v with hyphens at %v; the 8-4-4-4-12 layout has hyphens at [8 13 18 23]", ws, hs), e.Pos(fn), format)
			continue
		}
		e.S.Ok(rule, site, c.name+" widths", fmt.Sprintf("%q: widths 8-4-4-4-12, zero-padded lower-case hex, hyphens at 8,13,18,23, total %d characters", format, pos+len(c.prefix)), e.Pos(fn))
		if c.name == "plain" {
			widths, hyph = ws, hs
		}
		// arguments
		sv, ok := captured[2].(*pred.SliceV)
		if !ok || len(sv.Elems) != len(ws) {
			e.S.Bad(rule, site, c.name+" arguments", fmt.Sprintf("%d verbs but the variadic arguments are %v", len(ws), captured[2]), e.Pos(fn), "")
			continue
		}
		nextSym, nextBit := "H", 63
		for k, cell := range sv.Elems {
			construct := fmt.Sprintf("%s arg %d", c.name, k)
			ifc, ok := cell.V.(pred.Iface)
			var bits pred.Bits
			if ok {
				bits, ok = ifc.V.(pred.Bits)
			}
			if !ok {
				e.S.Unk(rule, site, construct, fmt.Sprintf("argument %v is not a tracked bit vector", cell.V), e.Pos(fn))
				continue
			}
			w := 4 * ws[k]
			bad := ""
			for i, b := range bits.B {
				if i >= w {
					if b.K != '0' {
						bad = fmt.Sprintf("bit %d above the field's %d bits is not constant 0 (more than %d digits would be printed)", i, w, ws[k])
					}
					continue
				}
				wantIdx := nextBit - (w - 1 - i)
				if b.K != 's' || b.Sym != nextSym || b.Idx != wantIdx {
					bad = fmt.Sprintf("bit %d is %s, big-endian order requires %s[%d]", i, bitStr(b), nextSym, wantIdx)
				}
			}
			if bad != "" {
				e.S.Bad(rule, site, construct, bad, e.Pos(fn), fmt.Sprint(bits))
			} else {
				e.S.Ok(rule, site, construct, fmt.Sprintf("%s[%d:%d], upper bits 0", nextSym, nextBit, nextBit-w+1), e.Pos(fn))
			}
			nextBit -= w
			if nextBit < 0 && nextSym == "H" {
				nextSym, nextBit = "L", 63
			}
		}
		if !(nextSym == "L" && nextBit == -1) {
			e.S.Bad(rule, site, c.name+" coverage", "the five fields do not cover Higher[63:0]·Lower[63:0] exactly", e.Pos(fn), "")
		}
	}
	// Bprintf itself: fmt.Fprintf(bytes.NewBuffer(buf), format, a...) and returns b.Bytes()
	ruleBprintf(e, rule, bp)
	return widths, hyph
}

func ruleBprintf(e *Env, rule string, bp *ssa.Function) {
	site := flow.FnName(bp)
	calls := e.C.Calls(bp, func(f *ssa.Function) bool { return strings.HasPrefix(f.String(), "fmt.") })
	if len(calls) != 1 || !(calls[0].Call.StaticCallee().String() == "fmt.Fprintf" || calls[0].Call.StaticCallee().String() == "fmt.Appendf") {
		e.S.Unk(rule, site, "delegation", "Bprintf does not make exactly one call to fmt.Fprintf/fmt.Appendf", e.Pos(bp))
		return
	}
	c := calls[0]
	if c.Call.Args[1] != ssa.Value(bp.Params[1]) || c.Call.Args[2] != ssa.Value(bp.Params[2]) {
		e.S.Bad(rule, site, "delegation", "format or arguments are not passed to fmt unchanged", e.posOf(c), "")
		return
	}
	e.S.Ok(rule, site, "delegation", "format and arguments passed to "+c.Call.StaticCallee().String()+" unchanged (append-only behaviour: C16)", e.Pos(bp))
}

// ---- C05.pos

func ruleC05Pos(e *Env, widths, hyph []int) {
	const rule = "C05.pos"
	if hyph == nil {
		e.S.Unk(rule, "uu.DefaultFormatter", "layout", "formatter layout not available (see C05.layout)", "")
		return
	}
	dp := e.Fn(rule, "uu", "DefaultParser")
	if dp == nil {
		return
	}
	site := flow.FnName(dp)
	// hyphen tests: input[offset+K] compared with '-'
	got := map[int]bool{}
	for _, b := range dp.Blocks {
		for _, in := range b.Instrs {
			bo, ok := in.(*ssa.BinOp)
			if !ok || (bo.Op != token.NEQ && bo.Op != token.EQL) {
				continue
			}
			k, isK := flow.ConstInt(bo.Y)
			if !isK || k != '-' {
				continue
			}
			ld, ok := bo.X.(*ssa.UnOp)
			if !ok {
				continue
			}
			ia, ok := ld.X.(*ssa.IndexAddr)
			if !ok || flow.RootParam(ia.X) != dp.Params[0] {
				continue
			}
			add, ok := ia.Index.(*ssa.BinOp)
			if !ok || add.Op != token.ADD {
				continue
			}
			if off, ok := flow.ConstInt(add.Y); ok {
				if _, isPhi := add.X.(*ssa.Phi); isPhi {
					got[int(off)] = true
				}
			}
		}
	}
	var gs []int
	for k := range got {
		gs = append(gs, k)
	}
	sort.Ints(gs)
	if fmt.Sprint(gs) == fmt.Sprint(hyph) {
		e.S.Ok(rule, site, "hyphen offsets", fmt.Sprintf("parser tests '-' at offset+%v, exactly where the formatter writes them", gs), e.Pos(dp))
	} else {
		e.S.Bad(rule, site, "hyphen offsets", fmt.Sprintf("parser tests '-' at offset+%v, the formatter writes hyphens at %v", gs, hyph), e.Pos(dp), "")
	}
	st := e.table(rule, "uu", "starts")
	if st == nil {
		return
	}
	vals, err := st.SliceValues()
	if err != nil {
		e.S.Unk(rule, "uu.starts", "literal", err.Error(), e.tpos("uu", st))
		return
	}
	total := len(hyph)
	for _, w := range widths {
		total += w
	}
	want := map[int]bool{}
	for i := 0; i < total; i++ {
		want[i] = true
	}
	for _, h := range hyph {
		delete(want, h)
	}
	prev := int64(-1)
	okAll := true
	for i, v := range vals {
		k, ok := int64(0), false
		if v != nil {
			k, ok = constant.Int64Val(v)
		}
		if !ok {
			e.S.Unk(rule, "uu.starts", fmt.Sprintf("[%d]", i), "non-constant entry", e.tpos("uu", st))
			return
		}
		if k <= prev {
			e.S.Bad(rule, "uu.starts", fmt.Sprintf("[%d]", i), fmt.Sprintf("entry %d is not greater than its predecessor %d (digit pairs out of order)", k, prev), e.tpos("uu", st), "")
			okAll = false
		}
		prev = k
		if !want[int(k)] || !want[int(k)+1] {
			e.S.Bad(rule, "uu.starts", fmt.Sprintf("[%d]", i), fmt.Sprintf("digit pair at %d,%d overlaps a hyphen, another pair, or lies outside the %d-character text", k, k+1, total), e.tpos("uu", st), "")
			okAll = false
		}
		delete(want, int(k))
		delete(want, int(k)+1)
	}
	if len(want) != 0 {
		var miss []int
		for k := range want {
			miss = append(miss, k)
		}
		sort.Ints(miss)
		e.S.Bad(rule, "uu.starts", "coverage", fmt.Sprintf("text positions %v are neither hyphens nor covered by a digit pair: those digits are never read", miss), e.tpos("uu", st), "")
		okAll = false
	}
	if okAll {
		e.S.Ok(rule, "uu.starts", "coverage", fmt.Sprintf("%d strictly increasing pairs cover exactly the %d hex positions of the %d-character layout", len(vals), 2*len(vals), total), e.tpos("uu", st))
	}
	if len(vals) != 16 {
		e.S.Bad(rule, "uu.starts", "length", fmt.Sprintf("%d digit pairs, a 128-bit ID has 16 bytes", len(vals)), e.tpos("uu", st), "")
	} else {
		e.S.Ok(rule, "uu.starts", "length", "16 digit pairs = 128 bits", e.tpos("uu", st))
	}
}

// ---- C05.nib

// intExpr evaluates an integer SSA expression over bindings of loop counters (abstract index set, not inputs).
func intExpr(v ssa.Value, bind map[ssa.Value]int64, depth int) (int64, bool) {
	if depth > 16 {
		return 0, false
	}
	if k, ok := bind[v]; ok {
		return k, true
	}
	if k, ok := flow.ConstInt(v); ok {
		return k, true
	}
	switch x := v.(type) {
	case *ssa.Convert:
		return intExpr(x.X, bind, depth+1)
	case *ssa.BinOp:
		a, ok1 := intExpr(x.X, bind, depth+1)
		b, ok2 := intExpr(x.Y, bind, depth+1)
		if !ok1 || !ok2 {
			return 0, false
		}
		switch x.Op {
		case token.ADD:
			return a + b, true
		case token.SUB:
			return a - b, true
		case token.MUL:
			return a * b, true
		case token.SHL:
			if b < 0 || b > 62 {
				return 0, false
			}
			return a << uint(b), true
		case token.SHR:
			if b < 0 || b > 62 || a < 0 {
				return 0, false
			}
			return a >> uint(b), true
		case token.AND:
			return a & b, true
		case token.OR:
			return a | b, true
		case token.QUO:
			if b == 0 {
				return 0, false
			}
			return a / b, true
		case token.REM:
			if b == 0 {
				return 0, false
			}
			return a % b, true
		}
	}
	return 0, false
}

func ruleC05Nib(e *Env, hyph []int) {
	const rule = "C05.nib"
	dp := e.Fn(rule, "uu", "DefaultParser")
	pd := e.F("uu", "parseDigit")
	startsG := e.V("uu", "starts")
	if dp == nil || pd == nil || startsG == nil || hyph == nil {
		if dp != nil {
			e.S.Unk(rule, flow.FnName(dp), "anchors", "parseDigit, starts or the formatter layout not available", e.Pos(dp))
		}
		return
	}
	site := flow.FnName(dp)
	st := e.table(rule, "uu", "starts")
	if st == nil {
		return
	}
	vals, err := st.SliceValues()
	if err != nil {
		return
	}
	var starts []int64
	for _, v := range vals {
		k, _ := constant.Int64Val(v)
		starts = append(starts, k)
	}
	// the accumulating store: *(&n[elem]) = *(&n[elem]) | (v << shift)
	var store *ssa.Store
	for _, b := range dp.Blocks {
		for _, in := range b.Instrs {
			s, ok := in.(*ssa.Store)
			if !ok {
				continue
			}
			ia, ok := s.Addr.(*ssa.IndexAddr)
			if !ok {
				continue
			}
			if _, isAlloc := ia.X.(*ssa.Alloc); !isAlloc {
				continue
			}
			if _, isConst := ia.Index.(*ssa.Const); isConst {
				continue
			}
			if store != nil {
				e.S.Unk(rule, site, "accumulator", "more than one computed-index store into a local array", e.Pos(dp))
				return
			}
			store = s
		}
	}
	if store == nil {
		e.S.Unk(rule, site, "accumulator", "no `n[expr] |= digit << expr` store found (idioms: two-word local array accumulated with OR)", e.Pos(dp))
		return
	}
	ia := store.Addr.(*ssa.IndexAddr)
	arr := ia.X.(*ssa.Alloc)
	or, ok := store.Val.(*ssa.BinOp)
	if !ok || or.Op != token.OR {
		e.S.Bad(rule, site, "accumulator", "digits are not accumulated with OR (earlier digits may be overwritten)", e.posOf(store), "")
		return
	}
	var shl *ssa.BinOp
	var old ssa.Value
	for _, side := range [][2]ssa.Value{{or.X, or.Y}, {or.Y, or.X}} {
		if b, ok := side[0].(*ssa.BinOp); ok && b.Op == token.SHL {
			shl, old = b, side[1]
		}
	}
	if shl == nil {
		e.S.Unk(rule, site, "accumulator", "the OR-ed value is not `digit << shift`", e.posOf(store))
		return
	}
	if ld, ok := old.(*ssa.UnOp); !ok || ld.X != ssa.Value(ia) {
		if ld2, ok2 := old.(*ssa.UnOp); !ok2 || !sameIndexAddr(ld2.X, ia) {
			e.S.Bad(rule, site, "accumulator", "the OR does not accumulate into the same array element it stores to", e.posOf(store), "")
			return
		}
	}
	// digit value v: Extract #0 of parseDigit(input[offset+start+j], …)
	vEx, ok := flow.StripConv(shl.X).(*ssa.Extract)
	var pdCall *ssa.Call
	if ok {
		pdCall, _ = vEx.Tuple.(*ssa.Call)
	}
	if pdCall == nil || e.C.StaticCallee(&pdCall.Call) != pd || vEx.Index != 0 {
		e.S.Unk(rule, site, "digit source", "the shifted value is not result #0 of parseDigit", e.posOf(store))
		return
	}
	// text position expression of the byte given to parseDigit
	ld, ok := pdCall.Call.Args[0].(*ssa.UnOp)
	var posIA *ssa.IndexAddr
	if ok {
		posIA, _ = ld.X.(*ssa.IndexAddr)
	}
	if posIA == nil || flow.RootParam(posIA.X) != dp.Params[0] {
		e.S.Unk(rule, site, "digit source", "parseDigit is not applied to a byte of the input", e.posOf(pdCall))
		return
	}
	// loop counters: i = range index over starts (phi+1), start = starts[i], j = phi(0, j+1), offset = phi of constants
	var iVal, jPhi, startVal, offPhi ssa.Value
	var walk func(v ssa.Value, depth int)
	walk = func(v ssa.Value, depth int) {
		if depth > 12 || v == nil {
			return
		}
		switch x := v.(type) {
		case *ssa.BinOp:
			if ph, ok := x.X.(*ssa.Phi); ok && x.Op == token.ADD {
				if k, ok := flow.ConstInt(x.Y); ok && k == 1 && len(ph.Edges) == 2 {
					if k0, ok := flow.ConstInt(ph.Edges[0]); ok && k0 == -1 && ph.Edges[1] == ssa.Value(x) {
						iVal = x
						return
					}
				}
			}
			walk(x.X, depth+1)
			walk(x.Y, depth+1)
		case *ssa.Convert:
			walk(x.X, depth+1)
		case *ssa.Phi:
			allConst := len(x.Edges) > 0
			for _, ed := range x.Edges {
				if _, ok := flow.ConstInt(ed); !ok {
					allConst = false
				}
			}
			if allConst {
				offPhi = x
				return
			}
			if len(x.Edges) == 2 {
				if k0, ok := flow.ConstInt(x.Edges[0]); ok && k0 == 0 {
					if inc, ok := x.Edges[1].(*ssa.BinOp); ok && inc.Op == token.ADD && inc.X == ssa.Value(x) {
						jPhi = x
						return
					}
				}
			}
		case *ssa.UnOp:
			if ia2, ok := x.X.(*ssa.IndexAddr); ok && (flow.GlobalLoad(ia2.X) == startsG || ia2.X == ssa.Value(startsG)) {
				startVal = x
				walk(ia2.Index, depth+1)
			}
		case *ssa.Index: // range over an array value loaded from the table
			if flow.GlobalLoad(x.X) == startsG {
				startVal = x
				walk(x.Index, depth+1)
			}
		}
	}
	walk(posIA.Index, 0)
	walk(ia.Index, 0)
	walk(shl.Y, 0)
	if iVal == nil || jPhi == nil || startVal == nil {
		e.S.Unk(rule, site, "loop counters", "could not identify the range index over starts, the element value and the inner 0..1 counter in the position/shift expressions", e.posOf(store))
		return
	}
	// inner trip count: j < K
	jMax := int64(-1)
	for _, r := range *jPhi.(*ssa.Phi).Referrers() {
		if bo, ok := r.(*ssa.BinOp); ok && bo.Op == token.LSS && bo.X == jPhi {
			if k, ok := flow.ConstInt(bo.Y); ok {
				jMax = k
			}
		}
	}
	if jMax != 2 {
		e.S.Bad(rule, site, "inner loop", fmt.Sprintf("the inner loop reads %d digit(s) per entry of starts, a byte has 2 hex digits", jMax), e.posOf(store), "")
		return
	}
	// which array element becomes which field
	fieldOf := map[int64]string{}
	for _, r := range flow.Returns(dp) {
		if !flow.IsNilConst(r.Results[len(r.Results)-1]) {
			continue
		}
		// result #0 is a load of a local ID struct whose fields were stored from loads of n[k]
		for _, b := range dp.Blocks {
			for _, in := range b.Instrs {
				s, ok := in.(*ssa.Store)
				if !ok {
					continue
				}
				fa, ok := s.Addr.(*ssa.FieldAddr)
				if !ok {
					continue
				}
				stt := structOf(fa.X.Type())
				if stt == nil || stt.NumFields() != 2 {
					continue
				}
				if ldv, ok := s.Val.(*ssa.UnOp); ok {
					if ia3, ok := ldv.X.(*ssa.IndexAddr); ok && ia3.X == ssa.Value(arr) {
						if k, ok := flow.ConstInt(ia3.Index); ok {
							fieldOf[k] = stt.Field(fa.Field).Name()
						}
					}
				}
			}
		}
	}
	if len(fieldOf) != 2 {
		e.S.Unk(rule, site, "result", "could not relate the two accumulator words to the fields of the returned ID", e.Pos(dp))
		return
	}
	e.S.Ok(rule, site, "result", fmt.Sprintf("ID{%s: n[1], %s: n[0]}", fieldOf[1], fieldOf[0]), e.Pos(dp))
	// hex ordinal of a text position
	ordinal := func(p int64) int64 {
		h := p
		for _, x := range hyph {
			if int64(x) < p {
				h--
			}
		}
		return h
	}
	seen := map[string]string{}
	for i := int64(0); i < int64(len(starts)); i++ {
		for j := int64(0); j < jMax; j++ {
			construct := fmt.Sprintf("i=%d,j=%d", i, j)
			bind := map[ssa.Value]int64{iVal: i, jPhi: j, startVal: starts[i]}
			if offPhi != nil {
				bind[offPhi] = 0
			}
			p, ok1 := intExpr(posIA.Index, bind, 0)
			el, ok2 := intExpr(ia.Index, bind, 0)
			sh, ok3 := intExpr(shl.Y, bind, 0)
			if !ok1 || !ok2 || !ok3 {
				e.S.Unk(rule, site, construct, "position, element or shift expression uses operations outside + - * << >> & | on the loop counters", e.posOf(store))
				continue
			}
			h := ordinal(p)
			wantField, wantShift := "Higher", 60-4*(h%16)
			if h >= 16 {
				wantField = "Lower"
			}
			gotField, okF := fieldOf[el]
			key := fmt.Sprintf("%s@%d", gotField, sh)
			switch {
			case !okF || el < 0 || el > 1:
				e.S.Bad(rule, site, construct, fmt.Sprintf("text position %d is accumulated into n[%d], outside the two-word array", p, el), e.posOf(store), "")
			case gotField != wantField || sh != wantShift:
				e.S.Bad(rule, site, construct, fmt.Sprintf("hex digit #%d (text position %d) is OR-ed into %s at bit %d; big-endian order puts it into %s at bit %d", h, p, gotField, sh, wantField, wantShift), e.posOf(store), "")
			case seen[key] != "":
				e.S.Bad(rule, site, construct, "two digits target the same nibble "+key+" ("+seen[key]+")", e.posOf(store), "")
			default:
				seen[key] = construct
				e.S.Ok(rule, site, construct, fmt.Sprintf("digit #%d at text position %d ↦ %s bits %d..%d", h, p, gotField, sh+3, sh), e.posOf(store))
			}
		}
	}
}

func sameIndexAddr(v ssa.Value, ia *ssa.IndexAddr) bool {
	x, ok := v.(*ssa.IndexAddr)
	return ok && x.X == ia.X && x.Index == ia.Index
}

// ---- C05.digit

func ruleC05Digit(e *Env) {
	const rule = "C05.digit"
	fn := e.Fn(rule, "uu", "parseDigit")
	if fn == nil {
		return
	}
	site := flow.FnName(fn)
	// boundaries from the constants the function compares its first parameter with
	bounds := map[int64]bool{0: true, 256: true}
	digitParam := ssa.Value(fn.Params[0])
	if perm := e.ParamPerm("uu", "parseDigit", fn); perm != nil && perm[0] < len(fn.Params) {
		digitParam = fn.Params[perm[0]]
	}
	for _, b := range fn.Blocks {
		for _, in := range b.Instrs {
			if bo, ok := in.(*ssa.BinOp); ok {
				switch bo.Op {
				case token.LSS, token.LEQ, token.GTR, token.GEQ, token.EQL, token.NEQ:
					if k, ok := flow.ConstInt(bo.Y); ok && bo.X == digitParam {
						bounds[k], bounds[k+1] = true, true
					}
					if k, ok := flow.ConstInt(bo.X); ok && bo.Y == digitParam {
						bounds[k], bounds[k+1] = true, true
					}
				}
			}
		}
	}
	var bs []int64
	for k := range bounds {
		if k >= 0 && k <= 256 {
			bs = append(bs, k)
		}
	}
	sort.Slice(bs, func(i, j int) bool { return bs[i] < bs[j] })
	spec := func(c int64, upper bool) (int64, bool) {
		switch {
		case c >= '0' && c <= '9':
			return c - '0', true
		case c >= 'a' && c <= 'f':
			return c - 'a' + 10, true
		case upper && c >= 'A' && c <= 'F':
			return c - 'A' + 10, true
		}
		return 0, false
	}
	for _, upper := range []bool{true, false} {
		for i := 0; i+1 < len(bs); i++ {
			lo, hi := bs[i], bs[i+1]-1
			construct := fmt.Sprintf("byte %d..%d upper=%v", lo, hi, upper)
			o := intervalOracle{sym: "digit", lo: lo, hi: hi}
			ev := &pred.Evaluator{Prog: e.P.SSA, Oracle: o}
			up := upper
			out, err := ev.Eval(fn, e.Permuted("uu", "parseDigit", fn, func() []pred.Val {
				return []pred.Val{pred.Sym{Name: "digit"}, pred.Const{V: constant.MakeBool(up)}}
			})())
			if err != nil {
				e.S.Unk(rule, site, construct, err.Error(), e.Pos(fn))
				continue
			}
			t, ok := out.Ret.(pred.Tuple)
			if !ok || len(t) != 2 {
				e.S.Unk(rule, site, construct, fmt.Sprintf("result %v", out.Ret), e.Pos(fn))
				continue
			}
			gotOK, _ := boolOf(t[1])
			wLo, okLo := spec(lo, upper)
			wHi, okHi := spec(hi, upper)
			if okLo != okHi {
				e.S.Unk(rule, site, construct, "the function's own comparison constants do not separate hex digits from other bytes in this interval", e.Pos(fn))
				continue
			}
			if gotOK != okLo {
				e.S.Bad(rule, site, construct, fmt.Sprintf("bytes %q..%q: accepted=%v, a hexadecimal digit%s: %v", rune(lo), rune(hi), gotOK, map[bool]string{true: "", false: " (upper case disabled)"}[upper], okLo), e.Pos(fn), string(rune(lo)))
				continue
			}
			if !okLo {
				if z, isZ := intOf(t[0]); isZ && z == 0 {
					e.S.Ok(rule, site, construct, "rejected with value 0", e.Pos(fn))
				} else {
					e.S.Bad(rule, site, construct, fmt.Sprintf("rejected but the value is %v, not 0", t[0]), e.Pos(fn), "")
				}
				continue
			}
			cn, okc := pred.Canon(t[0])
			if !okc || cn.Root != "digit" || (cn.Ext != "zext" && cn.Ext != "") {
				e.S.Unk(rule, site, construct, fmt.Sprintf("value %v is not byte ± const", t[0]), e.Pos(fn))
				continue
			}
			gLo, gHi := (lo+cn.C)&0xff, (hi+cn.C)&0xff
			if gLo == wLo && gHi == wHi {
				e.S.Ok(rule, site, construct, fmt.Sprintf("%q..%q ↦ %d..%d", rune(lo), rune(hi), wLo, wHi), e.Pos(fn))
			} else {
				e.S.Bad(rule, site, construct, fmt.Sprintf("%q..%q ↦ %d..%d, the hexadecimal value is %d..%d", rune(lo), rune(hi), gLo, gHi, wLo, wHi), e.Pos(fn), string(rune(lo)))
			}
		}
	}
}

// intervalOracle orders the symbol sym, known to lie in [lo,hi], against constants outside or spanning exactly that interval.
type intervalOracle struct {
	sym    string
	lo, hi int64
}

func (o intervalOracle) Cmp(a, b pred.Val) (int, bool) {
	if s, ok := a.(pred.Sym); ok && s.Name == o.sym {
		if c, ok := b.(pred.Const); ok && c.V != nil {
			k, _ := constant.Int64Val(c.V)
			switch {
			case o.hi < k:
				return -1, true
			case o.lo > k:
				return 1, true
			case o.lo == k && o.hi == k:
				return 0, true
			}
		}
	}
	if s, ok := b.(pred.Sym); ok && s.Name == o.sym {
		r, ok := o.Cmp(b, a)
		return -r, ok
	}
	return 0, false
}

// ---- C05.strict

func ruleC05Strict(e *Env, hyph []int) {
	const rule = "C05.strict"
	dp := e.Fn(rule, "uu", "DefaultParser")
	if dp == nil || hyph == nil {
		return
	}
	site := flow.FnName(dp)
	idLen, ok1 := tabConstInt(e, "uu", "IDLength")
	prefix := tabConstString(e, "uu", "URNPrefix")
	urnBit, ok2 := tabConstInt(e, "uu", "RuleDisableURN")
	if !ok1 || !ok2 || prefix == "" {
		e.S.Unk(rule, site, "constants", "IDLength / URNPrefix / RuleDisableURN not found", e.Pos(dp))
		return
	}
	if idLen != 36 {
		e.S.Bad(rule, "uu.IDLength", "value", fmt.Sprintf("IDLength = %d, the 8-4-4-4-12 layout has 36 characters", idLen), "", "")
	} else {
		e.S.Ok(rule, "uu.IDLength", "value", "IDLength = 36", "")
	}
	if uf := tabConstString(e, "uu", "urnFormat"); !strings.HasPrefix(uf, prefix) {
		e.S.Bad(rule, "uu.urnFormat", "prefix", fmt.Sprintf("urnFormat %q does not start with URNPrefix %q", uf, prefix), "", "")
	} else {
		e.S.Ok(rule, "uu.urnFormat", "prefix", "urnFormat starts with URNPrefix", "")
	}
	urnLen := idLen + int64(len(prefix))
	fixed := func(a, b pred.Val) (int, bool, bool) {
		as, bs := a.String(), b.String()
		switch {
		case as == "*uu.MaxInputLength" && bs == "0":
			return 0, true, true
		case bs == "len(*uu."+e.vname("uu", "starts")+")" || as == "len(*uu."+e.vname("uu", "starts")+")":
			return 0, true, true // skip the digit loop: its body is C05.nib's business
		}
		return 0, false, false
	}
	keyOf := func(a, b pred.Val) (string, bool) {
		c, ok := b.(pred.Const)
		if !ok || c.V == nil {
			return "", false
		}
		if a.String() == "len(input)" {
			return "len==" + c.V.ExactString(), true
		}
		if el, ok := a.(pred.Elem); ok && el.Base.String() == "input" {
			if ic, ok := el.Index.(pred.Const); ok && ic.V != nil {
				return "in[" + ic.V.ExactString() + "]==" + c.V.ExactString(), true
			}
		}
		if bits, ok := a.(pred.Bits); ok && c.V.ExactString() == "0" {
			var idx []string
			for i, bit := range bits.B {
				switch bit.K {
				case 's':
					if bit.Sym != "r" || bit.Idx != i {
						return "", false
					}
					idx = append(idx, fmt.Sprint(i))
				case '0':
				default:
					return "", false
				}
			}
			return "rule&bits(" + strings.Join(idx, ",") + ")", true
		}
		return "", false
	}
	domain := func(k string) []int { return []int{0, 1} }
	prune := func(assign map[string]int) bool {
		eq := map[string]int{}
		for k, v := range assign {
			if v != 0 {
				continue
			}
			if i := strings.Index(k, "=="); i > 0 && !strings.HasPrefix(k, "rule") {
				eq[k[:i]]++
			}
		}
		for _, n := range eq {
			if n > 1 {
				return false
			}
		}
		return true
	}
	mk := func() []pred.Val { return []pred.Val{pred.Sym{Name: "input"}, pred.Sym{Name: "r"}} }
	sums := map[string]pred.Summary{}
	if pd := e.F("uu", "parseDigit"); pd != nil {
		// the digit loop is C05.nib / C05.digit's business: here every digit is taken as valid
		sums[pd.String()] = func(ev *pred.Evaluator, args []pred.Val) (pred.Val, error) {
			return pred.Tuple{pred.Term{Fn: "digit", Args: args[:1]}, pred.Const{V: constant.MakeBool(true)}}, nil
		}
	}
	leaves, err := extractTree(e.P.SSA, dp, mk, sums, fixed, keyOf, domain, prune)
	if err != nil {
		e.S.Unk(rule, site, "table", err.Error(), e.Pos(dp))
		return
	}
	type tri int // Kleene: 0 false, 1 true, 2 unknown
	for _, lf := range leaves {
		construct := lf.String()
		if lf.Err != nil {
			e.S.Unk(rule, site, construct, lf.Err.Error(), e.Pos(dp))
			continue
		}
		get := func(key string) tri {
			v, ok := lf.Assign[key]
			if !ok {
				// an equality on the same subject already assigned equal to another constant ⇒ false
				if i := strings.Index(key, "=="); i > 0 {
					for k, x := range lf.Assign {
						if x == 0 && strings.HasPrefix(k, key[:i+2]) && k != key {
							return 0
						}
					}
				}
				return 2
			}
			if v == 0 {
				return 1
			}
			return 0
		}
		and := func(xs ...tri) tri {
			r := tri(1)
			for _, x := range xs {
				if x == 0 {
					return 0
				}
				if x == 2 {
					r = 2
				}
			}
			return r
		}
		or := func(a, b tri) tri {
			if a == 1 || b == 1 {
				return 1
			}
			if a == 2 || b == 2 {
				return 2
			}
			return 0
		}
		byteIs := func(pos int, c byte) tri { return get(fmt.Sprintf("in[%d]==%d", pos, c)) }
		hyphens := func(off int) tri {
			var xs []tri
			for _, h := range hyph {
				xs = append(xs, byteIs(off+h, '-'))
			}
			return and(xs...)
		}
		// documented outcome
		want := "?"
		is36, is45 := get(fmt.Sprintf("len==%d", idLen)), get(fmt.Sprintf("len==%d", urnLen))
		switch {
		case is36 == 1:
			switch hyphens(0) {
			case 1:
				want = "digits"
			case 0:
				want = "reject"
			}
		case is36 == 0 && is45 == 1:
			ruleSet := get(fmt.Sprintf("rule&bits(%d)", bitIndex(urnBit)))
			switch ruleSet {
			case 0: // masked bits != 0 ⇒ flag set
				want = "ErrURNFormatDisabled"
			case 1:
				var ps []tri
				for i := 0; i < 3; i++ {
					ps = append(ps, or(byteIs(i, prefix[i]), byteIs(i, prefix[i]&^0x20)))
				}
				for i := 3; i < len(prefix); i++ {
					ps = append(ps, byteIs(i, prefix[i]))
				}
				switch and(append(ps, hyphens(len(prefix)))...) {
				case 1:
					want = "digits"
				case 0:
					want = "reject"
				}
			}
		case is36 == 0 && is45 == 0:
			want = "reject"
		}
		got := classifyUUOutcome(lf.Out)
		switch {
		case want == "?":
			e.S.Bad(rule, site, construct, "the parser decides ("+got+") without testing everything the documented layout depends on for this case", e.Pos(dp), "")
		case got != want:
			e.S.Bad(rule, site, construct, "outcome "+got+", documented "+want, e.Pos(dp), "")
		default:
			e.S.Ok(rule, site, construct, "outcome "+want, e.Pos(dp))
		}
	}
}

func bitIndex(mask int64) int {
	for i := 0; i < 63; i++ {
		if mask == 1<<uint(i) {
			return i
		}
	}
	return -1
}

func classifyUUOutcome(o *pred.Outcome) string {
	t, ok := o.Ret.(pred.Tuple)
	if !ok || len(t) != 2 {
		return "?"
	}
	if c, ok := t[1].(pred.Const); ok && c.V == nil {
		return "digits" // reached the digit loop (skipped here) and the final return
	}
	ifc, ok := t[1].(pred.Iface)
	if !ok {
		return "?"
	}
	p, ok := ifc.V.(pred.Ptr)
	if !ok || p.Cell == nil {
		return "?"
	}
	s, ok := p.Cell.V.(*pred.StructV)
	if !ok || len(s.Fields) != 3 {
		return "?"
	}
	switch errv := s.Fields[2].(type) {
	case pred.Const:
		if errv.V == nil {
			return "reject"
		}
	case pred.Sym:
		return strings.TrimPrefix(errv.Name, "*uu.")
	}
	return "reject:other"
}

// ---- C05.ver

func ruleC05Ver(e *Env) {
	const rule = "C05.ver"
	sp := e.P.ByName["uu"]
	ver := e.Method(rule, "uu", "ID", "Version")
	vari := e.Method(rule, "uu", "ID", "Variant")
	if sp == nil || ver == nil || vari == nil {
		return
	}
	idT := sp.Type("ID").Type()
	mk := func(h, l pred.Bits) *pred.StructV {
		return &pred.StructV{T: idT.Underlying().(*types.Struct), Named: idT, Fields: []pred.Val{h, l}}
	}
	// Version: bits 15..12 of Higher, zero-extended
	ev := &pred.Evaluator{Prog: e.P.SSA, Oracle: noOracle{}}
	out, err := ev.Eval(ver, []pred.Val{mk(pred.SymBits("H", 64, false), pred.SymBits("L", 64, false))})
	if err != nil {
		e.S.Unk(rule, flow.FnName(ver), "bits", err.Error(), e.Pos(ver))
	} else if b, ok := out.Ret.(pred.Bits); ok {
		bad := ""
		for i, bit := range b.B {
			if i < 4 {
				if bit.K != 's' || bit.Sym != "H" || bit.Idx != 12+i {
					bad = fmt.Sprintf("result bit %d is %s, RFC 4122 puts the version in bits 15..12 of the high word (time_hi_and_version)", i, bitStr(bit))
				}
			} else if bit.K != '0' {
				bad = fmt.Sprintf("result bit %d is not 0 (range 0-15 exceeded)", i)
			}
		}
		if bad != "" {
			e.S.Bad(rule, flow.FnName(ver), "bits", bad, e.Pos(ver), fmt.Sprint(b))
		} else {
			e.S.Ok(rule, flow.FnName(ver), "bits", "Version() = Higher[15:12]", e.Pos(ver))
		}
	} else {
		e.S.Unk(rule, flow.FnName(ver), "bits", fmt.Sprintf("result %v is not a tracked bit vector", out.Ret), e.Pos(ver))
	}
	// Variant: table over the top three bits of Lower
	for top := 0; top < 8; top++ {
		l := pred.SymBits("L", 64, false)
		for k := 0; k < 3; k++ {
			if top>>uint(2-k)&1 == 1 {
				l.B[63-k] = pred.Bit{K: '1'}
			} else {
				l.B[63-k] = pred.Bit{K: '0'}
			}
		}
		want := int64(3)
		switch {
		case top < 4:
			want = 0
		case top < 6:
			want = 1
		case top < 7:
			want = 2
		}
		construct := fmt.Sprintf("Lower[63:61]=%03b", top)
		ev := &pred.Evaluator{Prog: e.P.SSA, Oracle: noOracle{}}
		out, err := ev.Eval(vari, []pred.Val{mk(pred.SymBits("H", 64, false), l)})
		if err != nil {
			e.S.Unk(rule, flow.FnName(vari), construct, "depends on more than the top three bits of Lower: "+err.Error(), e.Pos(vari))
			continue
		}
		if k, ok := intOf(out.Ret); ok && k == want {
			e.S.Ok(rule, flow.FnName(vari), construct, fmt.Sprintf("Variant() = %d", want), e.Pos(vari))
		} else {
			e.S.Bad(rule, flow.FnName(vari), construct, fmt.Sprintf("Variant() = %v, RFC 4122 (number of leading 1 bits, at most 3) gives %d", out.Ret, want), e.Pos(vari), "")
		}
	}
}

// ruleC05Sem: the UUID parser's digit placement decided by its meaning. DefaultParser is evaluated on a text of the
// plain layout (36 bytes, hyphens at 8, 13, 18, 23) and of the URN layout (45 bytes, the lower-case prefix, hyphens
// nine further), flags clear, with the digit function replaced by "the four bits of the digit at text position k".
// The result must be the ID whose Higher word holds the first sixteen hexadecimal digits, most significant first,
// and whose Lower word the other sixteen — however the words are accumulated (indexed array with OR, shift-and-OR,
// helpers). A hyphen expected anywhere else, or a digit read from a hyphen position, fails the evaluation.
func ruleC05Sem(e *Env, rule string) {
	dp := e.Fn(rule, "uu", "DefaultParser")
	if dp == nil {
		return
	}
	site := flow.FnName(dp)
	pos := e.Pos(dp)
	const prefix = "urn:uuid:"
	for _, lay := range []struct {
		name   string
		length int
		off    int
	}{{"plain layout", 36, 0}, {"URN layout", 45, len(prefix)}} {
		hy := map[int]bool{lay.off + 8: true, lay.off + 13: true, lay.off + 18: true, lay.off + 23: true}
		// text positions of the 32 digits, in order
		var digitPos []int
		for k := lay.off; k < lay.length; k++ {
			if !hy[k] {
				digitPos = append(digitPos, k)
			}
		}
		elemIndex := func(v pred.Val) (int, bool) {
			el, ok := v.(pred.Elem)
			if !ok || el.Base.String() != "input" {
				return 0, false
			}
			c, ok := el.Index.(pred.Const)
			if !ok || c.V == nil {
				return 0, false
			}
			k, exact := constant.Int64Val(c.V)
			return int(k), exact
		}
		fixed := func(a, b pred.Val) (int, bool, bool) {
			as, bs := a.String(), b.String()
			c, isC := b.(pred.Const)
			switch {
			case as == "*uu.MaxInputLength" && bs == "0":
				return 0, true, true
			case as == "len(input)" && isC && c.V != nil && c.V.Kind() == constant.Int:
				k, _ := constant.Int64Val(c.V)
				return sgn(lay.length - int(k)), true, true
			}
			if k, ok := elemIndex(a); ok && isC && c.V != nil && c.V.Kind() == constant.Int {
				want, _ := constant.Int64Val(c.V)
				switch {
				case hy[k]:
					return sgn('-' - int(want)), true, true
				case k < lay.off:
					return sgn(int(prefix[k]) - int(want)), true, true
				}
				return 0, false, false // a hexadecimal digit is compared with a constant outside the digit function
			}
			if bits, ok := a.(pred.Bits); ok && bs == "0" {
				for _, bit := range bits.B {
					if bit.K == '1' {
						return 1, true, true
					}
					if bit.K == 's' && bit.Sym != "r" {
						return 0, false, false
					}
				}
				return 0, true, true // rule flags clear
			}
			return 0, false, false
		}
		badDigit := ""
		fallback := func(fn *ssa.Function, args []pred.Val) (pred.Val, bool, error) {
			// the digit function: a function of the module that receives one input byte and returns (value, ok)
			k, found := 0, false
			for _, a := range args {
				if i, ok := elemIndex(a); ok {
					if found {
						return nil, false, nil
					}
					k, found = i, true
				}
			}
			if !found || fn.Signature.Results().Len() != 2 {
				return nil, false, nil
			}
			if hy[k] || k < lay.off || k >= lay.length {
				badDigit = fmt.Sprintf("a digit is read from text position %d, which holds a hyphen or lies outside the digits", k)
			}
			w, _, ok := intWidth(fn.Signature.Results().At(0).Type())
			if !ok {
				return nil, false, nil
			}
			b := pred.Bits{B: make([]pred.Bit, w)}
			for i := range b.B {
				b.B[i] = pred.Bit{K: '0'}
				if i < 4 {
					b.B[i] = pred.Bit{K: 's', Sym: fmt.Sprintf("d%d", k), Idx: i}
				}
			}
			return pred.Tuple{b, pred.Const{V: constant.MakeBool(true)}}, true, nil
		}
		o := &treeOracle{assign: map[string]int{}, fixed: fixed, keyOf: func(a, b pred.Val) (string, bool) { return "", false }}
		ev := &pred.Evaluator{Prog: e.P.SSA, Oracle: o, GlobalInit: e.globalTables(), Fallback: fallback}
		out, err := ev.Eval(dp, []pred.Val{pred.Sym{Name: "input"}, pred.SymBits("r", 64, true)})
		if err != nil {
			e.S.Unk(rule, site, lay.name, "not evaluable: "+err.Error(), pos)
			continue
		}
		t, ok := out.Ret.(pred.Tuple)
		if out.Panic || !ok || len(t) != 2 {
			e.S.Unk(rule, site, lay.name, "unexpected result "+out.Ret.String(), pos)
			continue
		}
		if t[1].String() != "nil" {
			e.S.Bad(rule, site, lay.name, "a text of the "+lay.name+" with hyphens at the documented positions is rejected: "+t[1].String(), pos, "")
			continue
		}
		id, ok := t[0].(*pred.StructV)
		if !ok || len(id.Fields) != 2 {
			e.S.Unk(rule, site, lay.name, "the result is not an ID value: "+t[0].String(), pos)
			continue
		}
		bad := badDigit
		for word := 0; word < 2 && bad == ""; word++ {
			bits, ok := id.Fields[word].(pred.Bits)
			if !ok || len(bits.B) != 64 {
				bad = fmt.Sprintf("word %d of the ID is %v, not a composition of digit bits", word, id.Fields[word])
				break
			}
			for m := 0; m < 16 && bad == ""; m++ {
				p := digitPos[word*16+m]
				for b := 0; b < 4; b++ {
					got := bits.B[60-4*m+b]
					if got.K != 's' || got.Sym != fmt.Sprintf("d%d", p) || got.Idx != b {
						bad = fmt.Sprintf("bit %d of %s does not come from bit %d of the digit at text position %d (big-endian order: digit %d of the text is nibble %d of that word)", 60-4*m+b, []string{"Higher", "Lower"}[word], b, p, word*16+m, 15-m)
						break
					}
				}
			}
		}
		if bad != "" {
			e.S.Bad(rule, site, lay.name, bad, pos, "")
		} else {
			e.S.Ok(rule, site, lay.name, "the 32 digits land in Higher (first sixteen) and Lower (last sixteen), most significant first; hyphens are expected exactly at "+fmt.Sprint(lay.off+8, lay.off+13, lay.off+18, lay.off+23), pos)
		}
	}
}

// intWidth: bit width of an integer type.
func intWidth(t types.Type) (int, bool, bool) {
	b, ok := t.Underlying().(*types.Basic)
	if !ok || b.Info()&types.IsInteger == 0 {
		return 0, false, false
	}
	switch b.Kind() {
	case types.Int8, types.Uint8:
		return 8, b.Kind() == types.Int8, true
	case types.Int16, types.Uint16:
		return 16, b.Kind() == types.Int16, true
	case types.Int32, types.Uint32:
		return 32, b.Kind() == types.Int32, true
	}
	return 64, b.Info()&types.IsUnsigned == 0, true
}
