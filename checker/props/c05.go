package props

import (
	"fmt"
	"go/constant"
	"go/token"
	"go/types"
	"sort"
	"strconv"
	"strings"

	"golang.org/x/tools/go/ssa"

	"utilcheck/flow"
	"utilcheck/pred"
)

func init() {
	register(&Prop{
		ID:    "C05",
		Title: "UUID text form is exact, strict and round-trips",
		Run:   runC05,
		Explanation: "C05.layout: the format constants reaching internal.Bprintf from uu.DefaultFormatter are parsed by meaning: five zero-padded lower-case hex items of widths 8,4,4,4,12 separated by '-' (URN: the same after \"urn:uuid:\"); by bit-provenance each argument is a contiguous slice of Higher/Lower whose bits above 4·W are constant 0, and the five slices concatenate to Higher[63:0]·Lower[63:0] in order (36 characters, big-endian). " +
			"C05.nib: DefaultParser evaluated on a text of the plain layout (36 bytes, hyphens at 8, 13, 18, 23) and of the URN layout (45 bytes, lower-case prefix), flags clear, the digit function replaced by the four bits of the digit at its text position: the resulting ID holds the first sixteen digits in Higher and the last sixteen in Lower, most significant first, bit for bit; a hyphen expected elsewhere or a digit read from a hyphen position fails the evaluation (this subsumes the hyphen-offset agreement). " +
			"C05.digit: parseDigit as a table over the byte intervals induced by its own comparisons: '0'..'9' ↦ 0..9, 'a'..'f' ↦ 10..15, 'A'..'F' ↦ 10..15 only when upper case is allowed, everything else (0,false). " +
			"C05.strict: decision table of the pre-loop part of DefaultParser over (len = 36 / 45 / other, RuleDisableURN, prefix bytes, hyphen bytes) compared with the documented outcomes; the URN literals agree. C05.ver: Version() = bits 15..12 of Higher; Variant() as a table over the top three bits of Lower. S-ERRZERO, S-WRAP, typed errors, C18.L for package uu." +
			" C05.reject: every call of a digit-loop helper has its verdict tested. Since audit round 3: the length atoms of C05.strict are ordered (a length between 36 and 45 is a valuation of its own); C05.reject reads every helper of the parser that calls the digit function, at each of its calls; C05.nib is read under thirteen settings of the rule flags and prefix spelling (every case pattern of the letters u, r, n).",
		NotDecided:  []string{"a digit-function call two levels below the parser (undecided when found)", "fmt's %x rendering and the other stdlib summaries; otherwise the property is decided for all 2^128 IDs and all byte strings", "which method encoding/json picks for uu.ID (the property observes the formatter, String, URN, MarshalText/UnmarshalText and the fmt verbs)"},
		Assumptions: []string{"fmt %0Wx prints exactly W lower-case hex digits for a value below 16^W", "Variant() is read as the number of leading one bits of the variant field, at most 3 — the library's documented encoding of the RFC 4122 fields 0, 10, 110, 111; that only Lower[63:61] matters is decided, the codomain is taken from the doc comment"},
		Technique:   "format-string reading + bit-provenance + decision-table extraction over go/ssa",
	})
}

func runC05(e *Env) {
	widths, hyph := ruleC05Layout(e)
	_ = widths
	ruleC05Sem(e, "C05.nib")
	ruleC05Digit(e)
	ruleC05Strict(e, hyph)
	ruleC05Ver(e)
	ruleC05Reject(e)
	e.S.Floor("C05.reject", 3)
	ruleErrZero(e, "C05.errzero", "uu")
	ruleWrap(e, "C05.wrap", "uu")
	ruleLimitAccept(e, "C05.limit", "uu")
	ruleTyped(e, "C05.typed", "uu")
	ruleDeleg(e, "C05.deleg", "uu")
	e.S.Floor("C05.deleg", 12)
	e.S.Floor("C05.layout", 12)
	e.S.Floor("C05.nib", 13)
	e.S.Floor("C05.digit", 6)
	e.S.Floor("C05.strict", 8)
	e.S.Floor("C05.ver", 9)
	e.S.Floor("C05.limit", 2)
}

// ruleC05Reject: what the digit function refuses, the parser refuses (the other C05 rules summarise the digit function
// as "valid" and so never look at the failing side); upper-case digits are admitted exactly when
// RuleDisableUpperCaseDigits is clear; the default limit admits the longest form the formatter writes; ID.URN renders
// the receiver.
func ruleC05Reject(e *Env) {
	const rule = "C05.reject"
	dp := e.Fn(rule, "uu", "DefaultParser")
	pd := e.Fn(rule, "uu", "parseDigit")
	if dp == nil || pd == nil {
		return
	}
	site := flow.FnName(dp)
	isPD := func(f *ssa.Function) bool { return flow.Origin(f) == pd }
	calls := e.C.Calls(dp, isPD)
	// the digit loop may live in a helper the parser calls (one level): the helper reports a refused digit through a
	// false boolean result, which the parser in turn must test
	// every helper the parser calls (one level) that holds a digit-function call is inspected, next to the parser's
	// own calls; a call further down is not followed
	type group struct {
		helper *ssa.Function
		vias   []*ssa.Call
		calls  []*ssa.Call
	}
	groups := []group{{calls: calls}}
	total := len(calls)
	{
		byHelper := map[*ssa.Function]int{}
		for _, c := range e.C.Calls(dp, flow.InRepo) {
			h := flow.Origin(e.C.StaticCallee(&c.Call))
			if h == nil || h == pd || h == dp {
				continue
			}
			gi, seen := byHelper[h]
			if !seen {
				hc := e.C.Calls(h, isPD)
				if len(hc) == 0 {
					// deeper: a digit-function call two levels down is outside what this rule reads
					for _, c2 := range e.C.Calls(h, flow.InRepo) {
						if h2 := flow.Origin(e.C.StaticCallee(&c2.Call)); h2 != nil && h2 != pd && len(e.C.Calls(h2, isPD)) > 0 {
							e.S.Unk(rule, site, "invalid digit", "the digit function is called two levels below the parser ("+flow.FnName(h2)+"): its verdict is not followed that far", e.posOf(c2))
						}
					}
					byHelper[h] = -1
					continue
				}
				groups = append(groups, group{helper: h, calls: hc})
				gi = len(groups) - 1
				byHelper[h] = gi
				total += len(hc)
			}
			if gi > 0 {
				groups[gi].vias = append(groups[gi].vias, c)
			}
		}
	}
	if total == 0 {
		e.S.Unk(rule, site, "invalid digit", "the parser does not call the digit function", e.Pos(dp))
	}
	// falseEdge: the successor taken when the boolean v is false, for a branch on v or on !v
	falseEdges := func(v ssa.Value) []*ssa.BasicBlock {
		var out []*ssa.BasicBlock
		var walk func(x ssa.Value, neg bool)
		walk = func(x ssa.Value, neg bool) {
			if x.Referrers() == nil {
				return
			}
			for _, rr := range *x.Referrers() {
				switch y := rr.(type) {
				case *ssa.If:
					if y.Cond == x {
						out = append(out, y.Block().Succs[map[bool]int{false: 1, true: 0}[neg]])
					}
				case *ssa.UnOp:
					if y.Op == token.NOT {
						walk(y, !neg)
					}
				}
			}
		}
		walk(v, false)
		return out
	}
	// viasTest: every call of the helper has its j-th result tested, the false edge leading only to error returns
	viasTest := func(vias []*ssa.Call, j int) bool {
		all := len(vias) > 0
		for _, v1 := range vias {
			tested := false
			for _, vr := range *v1.Referrers() {
				if vex, ok := vr.(*ssa.Extract); ok && vex.Index == j {
					for _, vfe := range falseEdges(vex) {
						if flow.LeadsOnlyToErrors(vfe) {
							tested = true
						}
					}
				}
			}
			if !tested {
				all = false
			}
		}
		return all
	}
	perm := e.ParamPerm("uu", "parseDigit", pd)
	for _, g := range groups {
		helper, vias := g.helper, g.vias
		for _, call := range g.calls {
			// the ok result branches, and its false edge leads only to error returns
			decided := false
			for _, r := range *call.Referrers() {
				ex, ok := r.(*ssa.Extract)
				if !ok || !types.Identical(ex.Type(), types.Typ[types.Bool]) {
					continue
				}
				for _, fe := range falseEdges(ex) {
					decided = true
					rejects := false
					if helper == nil {
						rejects = flow.LeadsOnlyToErrors(fe)
					} else {
						// in the helper: only returns with one and the same boolean result false …
						for j := 0; j < helper.Signature.Results().Len() && !rejects; j++ {
							if !types.Identical(helper.Signature.Results().At(j).Type(), types.Typ[types.Bool]) {
								continue
							}
							j := j
							if !flow.LeadsOnlyToReturns(fe, func(ret *ssa.Return) bool {
								vals := flow.ReturnValues(ret)
								if j >= len(vals) {
									return false
								}
								c, isC := vals[j].(*ssa.Const)
								return isC && c.Value != nil && c.Value.Kind() == constant.Bool && !constant.BoolVal(c.Value)
							}) {
								continue
							}
							// … which the parser tests, its false edge leading only to error returns
							rejects = viasTest(vias, j)
						}
					}
					if rejects {
						e.S.Ok(rule, site, "invalid digit", "a byte the digit function refuses leads only to error returns", e.posOf(call))
					} else {
						e.S.Bad(rule, site, "invalid digit", "a byte the digit function refuses does not always end in an error: a non-hexadecimal digit can be accepted", e.posOf(call), "00000000-0000-0000-zzzz-zzzzzzzzzzzz")
					}
				}
			}
			if !decided && helper != nil {
				// the helper hands the verdict on as it came (`return parseDigit(…)`): the parser tests that result
				for _, r := range *call.Referrers() {
					ex, ok := r.(*ssa.Extract)
					if !ok || !types.Identical(ex.Type(), types.Typ[types.Bool]) || ex.Referrers() == nil || len(*ex.Referrers()) == 0 {
						continue
					}
					j, passed := -1, true
					for _, rr := range *ex.Referrers() {
						ret, isRet := rr.(*ssa.Return)
						if !isRet {
							passed = false
							break
						}
						for k, v := range ret.Results {
							if v == ssa.Value(ex) {
								if j >= 0 && j != k {
									passed = false
								}
								j = k
							}
						}
					}
					// every return of the helper hands on this verdict
					for _, b := range helper.Blocks {
						if ret, isRet := b.Instrs[len(b.Instrs)-1].(*ssa.Return); isRet && passed && (j < 0 || j >= len(ret.Results) || ret.Results[j] != ssa.Value(ex)) {
							passed = false
						}
					}
					if passed && j >= 0 {
						decided = true
						if viasTest(vias, j) {
							e.S.Ok(rule, site, "invalid digit", "the helper hands the digit function's verdict on, and the parser's test of it leads only to error returns", e.posOf(call))
						} else {
							e.S.Bad(rule, site, "invalid digit", "a byte the digit function refuses does not always end in an error: a non-hexadecimal digit can be accepted", e.posOf(call), "00000000-0000-0000-zzzz-zzzzzzzzzzzz")
						}
					}
				}
			}
			if !decided {
				e.S.Bad(rule, site, "invalid digit", "the digit function's verdict is not tested directly (the ok result must decide a branch whose false edge only returns errors)", e.posOf(call), "")
			}
			// the upper-case permission is `r & RuleDisableUpperCaseDigits == 0`, nothing more
			bi := 1
			if perm != nil && len(perm) == 2 {
				bi = perm[1]
			}
			bit, okBit := tabConstInt(e, "uu", "RuleDisableUpperCaseDigits")
			gate := false
			if bi < len(call.Call.Args) && okBit {
				perm := call.Call.Args[bi]
				rp := dp.Params[len(dp.Params)-1]
				switch hp, isParam := perm.(*ssa.Parameter); {
				case helper == nil:
					gate = e.flagTest(perm, rp, bit) == -1
				case isParam: // handed down by the parser: at every call of the helper
					gate = len(vias) > 0
					for _, v1 := range vias {
						for pi, p := range helper.Params {
							if p == hp && (pi >= len(v1.Call.Args) || e.flagTest(v1.Call.Args[pi], rp, bit) != -1) {
								gate = false
							}
						}
					}
				default: // computed in the helper from a rule parameter the parser hands down unchanged
					for pi, p := range helper.Params {
						if e.flagTest(perm, p, bit) != -1 {
							continue
						}
						gate = len(vias) > 0
						for _, v1 := range vias {
							if pi >= len(v1.Call.Args) || v1.Call.Args[pi] != ssa.Value(rp) {
								gate = false
							}
						}
					}
				}
			}
			if gate {
				e.S.Ok(rule, site, "upper-case gate", "upper-case digits are admitted exactly when r&RuleDisableUpperCaseDigits == 0", e.posOf(call))
			} else {
				e.S.Bad(rule, site, "upper-case gate", "the permission for upper-case digits handed to the digit function is not exactly `r&RuleDisableUpperCaseDigits == 0`: the form the rule disables can get through (or is refused without the rule)", e.posOf(call), "both rules set")
			}
		}
	}
	// default limit: 0 or at least the URN form (36 + len(\"urn:uuid:\"))
	if g := e.Var(rule, "uu", "MaxInputLength"); g != nil {
		prefix := tabConstString(e, "uu", "URNPrefix")
		if v, ok := e.globalIntInit(g); !ok {
			e.S.Unk(rule, "uu.MaxInputLength", "default", "initial value is not a constant", "")
		} else if v != 0 && v < int64(36+len(prefix)) {
			e.S.Bad(rule, "uu.MaxInputLength", "default", fmt.Sprintf("the default limit %d is below the %d bytes of the URN form the formatter writes: it does not parse back", v, 36+len(prefix)), "", "id.UnmarshalText([]byte(id.URN()))")
		} else {
			e.S.Ok(rule, "uu.MaxInputLength", "default", fmt.Sprintf("default limit %d admits the URN form (%d bytes)", v, 36+len(prefix)), "")
		}
	}
}

// ---- C05.layout

func ruleC05Layout(e *Env) (widths []int, hyph []int) {
	const rule = "C05.layout"
	fn := e.Fn(rule, "uu", "DefaultFormatter")
	bp := e.Fn(rule, "internal", "Bprintf")
	sp := e.P.ByName["uu"]
	if fn == nil || bp == nil || sp == nil || sp.Type("ID") == nil {
		return nil, nil
	}
	site := flow.FnName(fn)
	idT := sp.Type("ID").Type()
	urnFlag, ok := tabConstInt(e, "uu", "FormatURN")
	if !ok {
		e.S.Unk(rule, site, "FormatURN", "constant not found", e.Pos(fn))
		return nil, nil
	}
	for _, c := range []struct {
		name   string
		flag   int64
		prefix string
	}{{"plain", 0, ""}, {"urn", urnFlag, "urn:uuid:"}} {
		sid := &pred.StructV{T: idT.Underlying().(*types.Struct), Named: idT, Fields: []pred.Val{pred.SymBits("H", 64, false), pred.SymBits("L", 64, false)}}
		captured, ret, err := e.formatCall(fn, []pred.Val{pred.Sym{Name: "buf"}, sid, pred.Const{V: constant.MakeInt64(c.flag)}})
		if err != nil {
			e.S.Unk(rule, site, c.name, "not evaluable: "+err.Error(), e.Pos(fn))
			continue
		}
		if captured == nil {
			e.S.Bad(rule, site, c.name+" result", fmt.Sprintf("the formatter returns %v, not (buf followed by one fmt rendering, nil)", ret), e.Pos(fn), "")
			continue
		}
		if t, ok := ret.(pred.Tuple); !ok || len(t) != 2 || t[1].String() != "nil" {
			e.S.Bad(rule, site, c.name+" result", fmt.Sprintf("the formatter returns %v, not (Bprintf(buf, …), nil)", ret), e.Pos(fn), "")
		}
		if captured[0].String() != "buf" {
			e.S.Bad(rule, site, c.name+" buffer", "Bprintf is not given the caller's buffer", e.Pos(fn), "")
		}
		fc, ok := captured[1].(pred.Const)
		if !ok || fc.V == nil || fc.V.Kind() != constant.String {
			e.S.Unk(rule, site, c.name+" format", "format is not a constant", e.Pos(fn))
			continue
		}
		format := constant.StringVal(fc.V)
		if !strings.HasPrefix(format, c.prefix) {
			e.S.Bad(rule, site, c.name+" prefix", fmt.Sprintf("format %q does not start with %q", format, c.prefix), e.Pos(fn), "")
			continue
		}
		items := flow.ParseFormat(format[len(c.prefix):])
		var ws, hs []int
		pos := 0
		okItems := true
		for _, it := range items {
			if it.Verb == 0 {
				for _, ch := range it.Lit {
					if ch == '-' {
						hs = append(hs, pos)
					} else {
						e.S.Bad(rule, site, c.name+" literal", fmt.Sprintf("format contains the literal %q besides the hyphens", string(ch)), e.Pos(fn), "")
						okItems = false
					}
					pos++
				}
				continue
			}
			w, _ := strconv.Atoi(it.Width)
			zero := strings.Contains(it.Flags, "0") && !strings.Contains(it.Flags, "-")
			if it.Prec != "" { // %.Wx pads with zeros as well
				w, _ = strconv.Atoi(it.Prec)
				zero = true
			}
			if it.Verb != 'x' || !zero || w == 0 || strings.ContainsAny(it.Flags, "# +") {
				e.S.Bad(rule, site, c.name+" verb", fmt.Sprintf("item %%%s%s%c is not a zero-padded lower-case hex field of fixed width", it.Flags, it.Width, it.Verb), e.Pos(fn), "")
				okItems = false
			}
			ws = append(ws, w)
			pos += w
		}
		if !okItems {
			continue
		}
		if fmt.Sprint(ws) != "[8 4 4 4 12]" || fmt.Sprint(hs) != "[8 13 18 23]" {
			e.S.Bad(rule, site, c.name+" widths", fmt.Sprintf("field widths %v with hyphens at %v; the 8-4-4-4-12 layout has hyphens at [8 13 18 23]", ws, hs), e.Pos(fn), format)
			continue
		}
		e.S.Ok(rule, site, c.name+" widths", fmt.Sprintf("%q: widths 8-4-4-4-12, zero-padded lower-case hex, hyphens at 8,13,18,23, total %d characters", format, pos+len(c.prefix)), e.Pos(fn))
		if c.name == "plain" {
			widths, hyph = ws, hs
		}
		// arguments
		sv, ok := captured[2].(*pred.SliceV)
		if !ok || len(sv.Elems) != len(ws) {
			e.S.Bad(rule, site, c.name+" arguments", fmt.Sprintf("%d verbs but the variadic arguments are %v", len(ws), captured[2]), e.Pos(fn), "")
			continue
		}
		nextSym, nextBit := "H", 63
		for k, cell := range sv.Elems {
			construct := fmt.Sprintf("%s arg %d", c.name, k)
			ifc, ok := cell.V.(pred.Iface)
			var bits pred.Bits
			if ok {
				bits, ok = ifc.V.(pred.Bits)
			}
			if !ok {
				e.S.Unk(rule, site, construct, fmt.Sprintf("argument %v is not a tracked bit vector", cell.V), e.Pos(fn))
				continue
			}
			w := 4 * ws[k]
			bad := ""
			// %0Wx prints exactly W digits only for a non-negative value below 16^W: a signed operand with its top bit
			// set prints a minus sign
			if bt, isB := ifc.Dyn.Underlying().(*types.Basic); !isB || bt.Info()&types.IsUnsigned == 0 {
				bad = fmt.Sprintf("the operand has the signed type %s: a value with its top bit set is printed with a minus sign", ifc.Dyn)
			}
			for i, b := range bits.B {
				if i >= w {
					if b.K != '0' {
						bad = fmt.Sprintf("bit %d above the field's %d bits is not constant 0 (more than %d digits would be printed)", i, w, ws[k])
					}
					continue
				}
				wantIdx := nextBit - (w - 1 - i)
				if b.K != 's' || b.Sym != nextSym || b.Idx != wantIdx {
					bad = fmt.Sprintf("bit %d is %s, big-endian order requires %s[%d]", i, bitStr(b), nextSym, wantIdx)
				}
			}
			if bad != "" {
				e.S.Bad(rule, site, construct, bad, e.Pos(fn), fmt.Sprint(bits))
			} else {
				e.S.Ok(rule, site, construct, fmt.Sprintf("%s[%d:%d], upper bits 0", nextSym, nextBit, nextBit-w+1), e.Pos(fn))
			}
			nextBit -= w
			if nextBit < 0 && nextSym == "H" {
				nextSym, nextBit = "L", 63
			}
		}
		if !(nextSym == "L" && nextBit == -1) {
			e.S.Bad(rule, site, c.name+" coverage", "the five fields do not cover Higher[63:0]·Lower[63:0] exactly", e.Pos(fn), "")
		}
	}
	// Bprintf itself: fmt.Fprintf(bytes.NewBuffer(buf), format, a...) and returns b.Bytes()
	ruleBprintf(e, rule, bp)
	return widths, hyph
}

// ruleBprintf: internal.Bprintf(buf, format, a...) = buf followed by fmt's rendering of (format, a...), whatever
// route the bytes take (Fprintf into a bytes.Buffer over buf, Appendf, WriteString(Sprintf(…))): the function is
// evaluated with bytes.Buffer modelled as an append-only byte sequence and fmt as one uninterpreted rendering.
func ruleBprintf(e *Env, rule string, bp *ssa.Function) {
	site := flow.FnName(bp)
	if len(bp.Params) != 3 {
		e.S.Unk(rule, site, "delegation", "unexpected signature", e.Pos(bp))
		return
	}
	ev := &pred.Evaluator{Prog: e.P.SSA, Oracle: noOracle{}, Summaries: byteSinkSummaries()}
	out, err := ev.Eval(bp, []pred.Val{pred.Sym{Name: "buf"}, pred.Sym{Name: "format"}, pred.Sym{Name: "a"}})
	const want = "builtin.append(buf,fmt.Sprintf(format,a))"
	switch {
	case err != nil:
		e.S.Unk(rule, site, "delegation", "not evaluable: "+err.Error(), e.Pos(bp))
	case out.Panic:
		e.S.Bad(rule, site, "delegation", "Bprintf panics", e.Pos(bp), "")
	case out.Ret.String() != want:
		e.S.Bad(rule, site, "delegation", "returns "+out.Ret.String()+", not buf followed by fmt's rendering of (format, a...) unchanged", e.Pos(bp), "")
	default:
		e.S.Ok(rule, site, "delegation", "= append(buf, fmt.Sprintf(format, a...)...): format and arguments reach fmt unchanged (append-only behaviour: C16)", e.Pos(bp))
	}
}

// ---- C05.pos

// ---- C05.nib

// ---- C05.digit

func ruleC05Digit(e *Env) {
	const rule = "C05.digit"
	fn := e.Fn(rule, "uu", "parseDigit")
	if fn == nil {
		return
	}
	site := flow.FnName(fn)
	// boundaries from the constants the function compares its first parameter with
	bounds := map[int64]bool{0: true, 256: true}
	digitParam := ssa.Value(fn.Params[0])
	if perm := e.ParamPerm("uu", "parseDigit", fn); perm != nil && perm[0] < len(fn.Params) {
		digitParam = fn.Params[perm[0]]
	}
	for _, b := range fn.Blocks {
		for _, in := range b.Instrs {
			// a digit looked up in a constant string (strings.IndexByte("0123456789abcdef", digit)): every byte of that
			// string is a class of its own
			if call, ok := in.(*ssa.Call); ok && len(call.Call.Args) == 2 {
				if n := calleeName(&call.Call); (n == "strings.IndexByte" || n == "bytes.IndexByte") && flow.StripConv(call.Call.Args[1]) == digitParam {
					if str, ok := flow.ConstString(flow.Strip(call.Call.Args[0])); ok {
						for i := 0; i < len(str); i++ {
							bounds[int64(str[i])], bounds[int64(str[i])+1] = true, true
						}
					}
				}
			}
			if bo, ok := in.(*ssa.BinOp); ok {
				switch bo.Op {
				case token.LSS, token.LEQ, token.GTR, token.GEQ, token.EQL, token.NEQ:
					if k, ok := flow.ConstInt(bo.Y); ok && bo.X == digitParam {
						bounds[k], bounds[k+1] = true, true
					}
					if k, ok := flow.ConstInt(bo.X); ok && bo.Y == digitParam {
						bounds[k], bounds[k+1] = true, true
					}
				}
			}
		}
	}
	var bs []int64
	for k := range bounds {
		if k >= 0 && k <= 256 {
			bs = append(bs, k)
		}
	}
	sort.Slice(bs, func(i, j int) bool { return bs[i] < bs[j] })
	spec := func(c int64, upper bool) (int64, bool) {
		switch {
		case c >= '0' && c <= '9':
			return c - '0', true
		case c >= 'a' && c <= 'f':
			return c - 'a' + 10, true
		case upper && c >= 'A' && c <= 'F':
			return c - 'A' + 10, true
		}
		return 0, false
	}
	for _, upper := range []bool{true, false} {
		for i := 0; i+1 < len(bs); i++ {
			lo, hi := bs[i], bs[i+1]-1
			construct := fmt.Sprintf("byte %d..%d upper=%v", lo, hi, upper)
			o := intervalOracle{sym: "digit", lo: lo, hi: hi}
			idx := func(ev *pred.Evaluator, args []pred.Val) (pred.Val, error) {
				str, ok1 := args[0].(pred.Const)
				if !ok1 || str.V == nil || str.V.Kind() != constant.String || args[1].String() != "digit" {
					return nil, &pred.Undecided{Reason: "IndexByte other than (constant string, the digit)"}
				}
				set := constant.StringVal(str.V)
				if lo == hi {
					return pred.Const{V: constant.MakeInt64(int64(strings.IndexByte(set, byte(lo))))}, nil
				}
				for i := 0; i < len(set); i++ {
					if int64(set[i]) >= lo && int64(set[i]) <= hi {
						return nil, &pred.Undecided{Reason: "IndexByte splits the byte class"}
					}
				}
				return pred.Const{V: constant.MakeInt64(-1)}, nil
			}
			ev := &pred.Evaluator{Prog: e.P.SSA, GlobalInit: e.globalTables(), Oracle: o, Summaries: map[string]pred.Summary{"strings.IndexByte": idx, "bytes.IndexByte": idx}}
			up := upper
			out, err := ev.Eval(fn, e.Permuted("uu", "parseDigit", fn, func() []pred.Val {
				return []pred.Val{pred.Sym{Name: "digit"}, pred.Const{V: constant.MakeBool(up)}}
			})())
			if err != nil {
				e.S.Unk(rule, site, construct, err.Error(), e.Pos(fn))
				continue
			}
			t, ok := out.Ret.(pred.Tuple)
			if !ok || len(t) != 2 {
				e.S.Unk(rule, site, construct, fmt.Sprintf("result %v", out.Ret), e.Pos(fn))
				continue
			}
			gotOK, _ := boolOf(t[1])
			wLo, okLo := spec(lo, upper)
			wHi, okHi := spec(hi, upper)
			if okLo != okHi {
				e.S.Unk(rule, site, construct, "the function's own comparison constants do not separate hex digits from other bytes in this interval", e.Pos(fn))
				continue
			}
			if gotOK != okLo {
				e.S.Bad(rule, site, construct, fmt.Sprintf("bytes %q..%q: accepted=%v, a hexadecimal digit%s: %v", rune(lo), rune(hi), gotOK, map[bool]string{true: "", false: " (upper case disabled)"}[upper], okLo), e.Pos(fn), string(rune(lo)))
				continue
			}
			if !okLo {
				if z, isZ := intOf(t[0]); isZ && z == 0 {
					e.S.Ok(rule, site, construct, "rejected with value 0", e.Pos(fn))
				} else {
					e.S.Bad(rule, site, construct, fmt.Sprintf("rejected but the value is %v, not 0", t[0]), e.Pos(fn), "")
				}
				continue
			}
			// a single byte whose value the function computes as a constant (a table or string look-up)
			if k, isK := intOf(t[0]); isK && lo == hi {
				if k == wLo {
					e.S.Ok(rule, site, construct, fmt.Sprintf("%q ↦ %d", rune(lo), wLo), e.Pos(fn))
				} else {
					e.S.Bad(rule, site, construct, fmt.Sprintf("%q is given the value %d, its hexadecimal value is %d", rune(lo), k, wLo), e.Pos(fn), string(rune(lo)))
				}
				continue
			}
			cn, okc := pred.Canon(t[0])
			if !okc || cn.Root != "digit" || (cn.Ext != "zext" && cn.Ext != "") {
				e.S.Unk(rule, site, construct, fmt.Sprintf("value %v is not byte ± const", t[0]), e.Pos(fn))
				continue
			}
			gLo, gHi := (lo+cn.C)&0xff, (hi+cn.C)&0xff
			if gLo == wLo && gHi == wHi {
				e.S.Ok(rule, site, construct, fmt.Sprintf("%q..%q ↦ %d..%d", rune(lo), rune(hi), wLo, wHi), e.Pos(fn))
			} else {
				e.S.Bad(rule, site, construct, fmt.Sprintf("%q..%q ↦ %d..%d, the hexadecimal value is %d..%d", rune(lo), rune(hi), gLo, gHi, wLo, wHi), e.Pos(fn), string(rune(lo)))
			}
		}
	}
}

// intervalOracle orders the symbol sym, known to lie in [lo,hi], against constants outside or spanning exactly that interval.
type intervalOracle struct {
	sym    string
	lo, hi int64
}

func (o intervalOracle) Cmp(a, b pred.Val) (int, bool) {
	if s, ok := a.(pred.Sym); ok && s.Name == o.sym {
		if c, ok := b.(pred.Const); ok && c.V != nil {
			k, _ := constant.Int64Val(c.V)
			switch {
			case o.hi < k:
				return -1, true
			case o.lo > k:
				return 1, true
			case o.lo == k && o.hi == k:
				return 0, true
			}
		}
	}
	if s, ok := b.(pred.Sym); ok && s.Name == o.sym {
		r, ok := o.Cmp(b, a)
		return -r, ok
	}
	return 0, false
}

// ---- C05.strict

func ruleC05Strict(e *Env, hyph []int) {
	const rule = "C05.strict"
	dp := e.Fn(rule, "uu", "DefaultParser")
	if dp == nil || hyph == nil {
		return
	}
	site := flow.FnName(dp)
	idLen, ok1 := tabConstInt(e, "uu", "IDLength")
	prefix := tabConstString(e, "uu", "URNPrefix")
	urnBit, ok2 := tabConstInt(e, "uu", "RuleDisableURN")
	if !ok1 || !ok2 || prefix == "" {
		e.S.Unk(rule, site, "constants", "IDLength / URNPrefix / RuleDisableURN not found", e.Pos(dp))
		return
	}
	if idLen != 36 {
		e.S.Bad(rule, "uu.IDLength", "value", fmt.Sprintf("IDLength = %d, the 8-4-4-4-12 layout has 36 characters", idLen), "", "")
	} else {
		e.S.Ok(rule, "uu.IDLength", "value", "IDLength = 36", "")
	}
	// what the formatter writes in front of a URN is the prefix the parser expects (the format that reaches fmt under
	// FormatURN, whatever constant or helper it comes from)
	if df, sp := e.F("uu", "DefaultFormatter"), e.P.ByName["uu"]; df != nil && sp != nil && sp.Type("ID") != nil {
		idT := sp.Type("ID").Type()
		urnFlag, _ := tabConstInt(e, "uu", "FormatURN")
		sid := &pred.StructV{T: idT.Underlying().(*types.Struct), Named: idT, Fields: []pred.Val{pred.SymBits("H", 64, false), pred.SymBits("L", 64, false)}}
		captured, _, err := e.formatCall(df, []pred.Val{pred.Sym{Name: "buf"}, sid, pred.Const{V: constant.MakeInt64(urnFlag)}})
		uf, isConst := "", false
		if err == nil && captured != nil {
			if fc, ok := captured[1].(pred.Const); ok && fc.V != nil && fc.V.Kind() == constant.String {
				uf, isConst = constant.StringVal(fc.V), true
			}
		}
		switch {
		case !isConst:
			e.S.Unk(rule, "uu.DefaultFormatter", "URN prefix", "the format used under FormatURN is not a constant reaching one fmt rendering", "")
		case !strings.HasPrefix(uf, prefix):
			e.S.Bad(rule, "uu.DefaultFormatter", "URN prefix", fmt.Sprintf("the URN format %q does not start with URNPrefix %q", uf, prefix), "", "")
		default:
			e.S.Ok(rule, "uu.DefaultFormatter", "URN prefix", "the URN format starts with URNPrefix", "")
		}
	}
	urnLen := idLen + int64(len(prefix))
	fixed := func(a, b pred.Val) (int, bool, bool) {
		as, bs := a.String(), b.String()
		switch {
		case as == "*uu.MaxInputLength" && bs == "0":
			return 0, true, true
		case as == "len(input)" && bs == "*uu.MaxInputLength":
			return 1, true, true // a non-empty text against the disabled limit (0): longer, and not rejected
		case as == "*uu.MaxInputLength" && bs == "len(input)":
			return -1, true, true
		case bs == "len(*uu."+e.vname("uu", "starts")+")" || as == "len(*uu."+e.vname("uu", "starts")+")":
			return 0, true, true // skip the digit loop: its body is C05.nib's business
		}
		return 0, false, false
	}
	keyOf := func(a, b pred.Val) (string, bool) {
		c, ok := b.(pred.Const)
		if !ok || c.V == nil {
			return "", false
		}
		if a.String() == "len(input)" {
			return "len==" + c.V.ExactString(), true
		}
		if el, ok := a.(pred.Elem); ok && el.Base.String() == "input" {
			if ic, ok := el.Index.(pred.Const); ok && ic.V != nil {
				return "in[" + ic.V.ExactString() + "]==" + c.V.ExactString(), true
			}
		}
		if bits, ok := a.(pred.Bits); ok && c.V.ExactString() == "0" {
			var idx []string
			for i, bit := range bits.B {
				switch bit.K {
				case 's':
					if bit.Sym != "r" || bit.Idx != i {
						return "", false
					}
					idx = append(idx, fmt.Sprint(i))
				case '0':
				default:
					return "", false
				}
			}
			return "rule&bits(" + strings.Join(idx, ",") + ")", true
		}
		return "", false
	}
	domain := func(k string) []int {
		if strings.HasPrefix(k, "len==") {
			return []int{-1, 0, 1} // the length is ordered: shorter, equal, longer (a length between two constants is a valuation of its own)
		}
		return []int{0, 1}
	}
	prune := func(assign map[string]int) bool {
		// the length atoms must be satisfiable together: some n >= 0 stands in the assigned order to every constant
		var ks []int64
		for k := range assign {
			if strings.HasPrefix(k, "len==") {
				if n, err := strconv.ParseInt(k[5:], 10, 64); err == nil {
					ks = append(ks, n)
				}
			}
		}
		if len(ks) > 0 {
			sat := false
			for _, c := range ks {
				for _, n := range []int64{c - 1, c, c + 1} {
					if n < 0 {
						continue
					}
					all := true
					for _, c2 := range ks {
						want := assign["len=="+strconv.FormatInt(c2, 10)]
						got := 0
						if n < c2 {
							got = -1
						} else if n > c2 {
							got = 1
						}
						if got != want {
							all = false
						}
					}
					if all {
						sat = true
					}
				}
			}
			if !sat {
				return false
			}
		}
		eq := map[string]int{}
		for k, v := range assign {
			if v != 0 {
				continue
			}
			if i := strings.Index(k, "=="); i > 0 && !strings.HasPrefix(k, "rule") {
				eq[k[:i]]++
			}
		}
		for _, n := range eq {
			if n > 1 {
				return false
			}
		}
		return true
	}
	mk := func() []pred.Val { return []pred.Val{pred.Sym{Name: "input"}, pred.Sym{Name: "r"}} }
	sums := map[string]pred.Summary{}
	if pd := e.F("uu", "parseDigit"); pd != nil {
		// the digit loop is C05.nib / C05.digit's business: here every digit is taken as valid
		sums[pd.String()] = func(ev *pred.Evaluator, args []pred.Val) (pred.Val, error) {
			return pred.Tuple{pred.Term{Fn: "digit", Args: args[:1]}, pred.Const{V: constant.MakeBool(true)}}, nil
		}
	}
	leaves, err := extractTree(e.P.SSA, dp, mk, sums, fixed, keyOf, domain, prune)
	if err != nil {
		e.S.Unk(rule, site, "table", err.Error(), e.Pos(dp))
		return
	}
	type tri int // Kleene: 0 false, 1 true, 2 unknown
	for _, lf := range leaves {
		construct := lf.String()
		if lf.Err != nil {
			e.S.Unk(rule, site, construct, lf.Err.Error(), e.Pos(dp))
			continue
		}
		get := func(key string) tri {
			v, ok := lf.Assign[key]
			if !ok {
				// an equality on the same subject already assigned equal to another constant ⇒ false
				if i := strings.Index(key, "=="); i > 0 {
					for k, x := range lf.Assign {
						if x == 0 && strings.HasPrefix(k, key[:i+2]) && k != key {
							return 0
						}
					}
				}
				// the length is ordered: shorter than a smaller constant, or longer than a larger one, is not equal to this one
				if strings.HasPrefix(key, "len==") {
					if want, err := strconv.ParseInt(key[5:], 10, 64); err == nil {
						for k, x := range lf.Assign {
							if !strings.HasPrefix(k, "len==") {
								continue
							}
							c, err := strconv.ParseInt(k[5:], 10, 64)
							if err != nil {
								continue
							}
							if (x < 0 && want >= c) || (x > 0 && want <= c) {
								return 0
							}
						}
					}
				}
				return 2
			}
			if v == 0 {
				return 1
			}
			return 0
		}
		and := func(xs ...tri) tri {
			r := tri(1)
			for _, x := range xs {
				if x == 0 {
					return 0
				}
				if x == 2 {
					r = 2
				}
			}
			return r
		}
		or := func(a, b tri) tri {
			if a == 1 || b == 1 {
				return 1
			}
			if a == 2 || b == 2 {
				return 2
			}
			return 0
		}
		byteIs := func(pos int, c byte) tri { return get(fmt.Sprintf("in[%d]==%d", pos, c)) }
		hyphens := func(off int) tri {
			var xs []tri
			for _, h := range hyph {
				xs = append(xs, byteIs(off+h, '-'))
			}
			return and(xs...)
		}
		// documented outcome
		want := "?"
		is36, is45 := get(fmt.Sprintf("len==%d", idLen)), get(fmt.Sprintf("len==%d", urnLen))
		switch {
		case is36 == 1:
			switch hyphens(0) {
			case 1:
				want = "digits"
			case 0:
				want = "reject"
			}
		case is36 == 0 && is45 == 1:
			ruleSet := get(fmt.Sprintf("rule&bits(%d)", bitIndex(urnBit)))
			switch ruleSet {
			case 0: // masked bits != 0 ⇒ flag set
				want = "ErrURNFormatDisabled"
			case 1:
				var ps []tri
				for i := 0; i < 3; i++ {
					ps = append(ps, or(byteIs(i, prefix[i]), byteIs(i, prefix[i]&^0x20)))
				}
				for i := 3; i < len(prefix); i++ {
					ps = append(ps, byteIs(i, prefix[i]))
				}
				switch and(append(ps, hyphens(len(prefix)))...) {
				case 1:
					want = "digits"
				case 0:
					want = "reject"
				}
			}
		case is36 == 0 && is45 == 0:
			want = "reject"
		}
		got := classifyUUOutcome(lf.Out)
		switch {
		case want == "?":
			e.S.Bad(rule, site, construct, "the parser decides ("+got+") without testing everything the documented layout depends on for this case", e.Pos(dp), "")
		case got != want:
			e.S.Bad(rule, site, construct, "outcome "+got+", documented "+want, e.Pos(dp), "")
		default:
			e.S.Ok(rule, site, construct, "outcome "+want, e.Pos(dp))
		}
	}
}

func bitIndex(mask int64) int {
	for i := 0; i < 63; i++ {
		if mask == 1<<uint(i) {
			return i
		}
	}
	return -1
}

func classifyUUOutcome(o *pred.Outcome) string {
	t, ok := o.Ret.(pred.Tuple)
	if !ok || len(t) != 2 {
		return "?"
	}
	if c, ok := t[1].(pred.Const); ok && c.V == nil {
		return "digits" // reached the digit loop (skipped here) and the final return
	}
	ifc, ok := t[1].(pred.Iface)
	if !ok {
		return "?"
	}
	p, ok := ifc.V.(pred.Ptr)
	if !ok || p.Cell == nil {
		return "?"
	}
	s, ok := p.Cell.V.(*pred.StructV)
	if !ok || len(s.Fields) != 3 {
		return "?"
	}
	switch errv := s.Fields[2].(type) {
	case pred.Const:
		if errv.V == nil {
			return "reject"
		}
	case pred.Sym:
		return strings.TrimPrefix(errv.Name, "*uu.")
	}
	return "reject:other"
}

// ---- C05.ver

func ruleC05Ver(e *Env) {
	const rule = "C05.ver"
	sp := e.P.ByName["uu"]
	ver := e.Method(rule, "uu", "ID", "Version")
	vari := e.Method(rule, "uu", "ID", "Variant")
	if sp == nil || ver == nil || vari == nil {
		return
	}
	idT := sp.Type("ID").Type()
	mk := func(h, l pred.Bits) *pred.StructV {
		return &pred.StructV{T: idT.Underlying().(*types.Struct), Named: idT, Fields: []pred.Val{h, l}}
	}
	// Version: bits 15..12 of Higher, zero-extended
	ev := &pred.Evaluator{Prog: e.P.SSA, GlobalInit: e.globalTables(), Oracle: noOracle{}}
	out, err := ev.Eval(ver, []pred.Val{mk(pred.SymBits("H", 64, false), pred.SymBits("L", 64, false))})
	if err != nil {
		e.S.Unk(rule, flow.FnName(ver), "bits", err.Error(), e.Pos(ver))
	} else if b, ok := out.Ret.(pred.Bits); ok {
		bad := ""
		for i, bit := range b.B {
			if i < 4 {
				if bit.K != 's' || bit.Sym != "H" || bit.Idx != 12+i {
					bad = fmt.Sprintf("result bit %d is %s, RFC 4122 puts the version in bits 15..12 of the high word (time_hi_and_version)", i, bitStr(bit))
				}
			} else if bit.K != '0' {
				bad = fmt.Sprintf("result bit %d is not 0 (range 0-15 exceeded)", i)
			}
		}
		if bad != "" {
			e.S.Bad(rule, flow.FnName(ver), "bits", bad, e.Pos(ver), fmt.Sprint(b))
		} else {
			e.S.Ok(rule, flow.FnName(ver), "bits", "Version() = Higher[15:12]", e.Pos(ver))
		}
	} else {
		e.S.Unk(rule, flow.FnName(ver), "bits", fmt.Sprintf("result %v is not a tracked bit vector", out.Ret), e.Pos(ver))
	}
	// Variant: table over the top three bits of Lower
	for top := 0; top < 8; top++ {
		l := pred.SymBits("L", 64, false)
		for k := 0; k < 3; k++ {
			if top>>uint(2-k)&1 == 1 {
				l.B[63-k] = pred.Bit{K: '1'}
			} else {
				l.B[63-k] = pred.Bit{K: '0'}
			}
		}
		want := int64(3)
		switch {
		case top < 4:
			want = 0
		case top < 6:
			want = 1
		case top < 7:
			want = 2
		}
		construct := fmt.Sprintf("Lower[63:61]=%03b", top)
		ev := &pred.Evaluator{Prog: e.P.SSA, GlobalInit: e.globalTables(), Oracle: noOracle{}}
		out, err := ev.Eval(vari, []pred.Val{mk(pred.SymBits("H", 64, false), l)})
		if err != nil {
			e.S.Unk(rule, flow.FnName(vari), construct, "depends on more than the top three bits of Lower: "+err.Error(), e.Pos(vari))
			continue
		}
		if k, ok := intOf(out.Ret); ok && k == want {
			e.S.Ok(rule, flow.FnName(vari), construct, fmt.Sprintf("Variant() = %d", want), e.Pos(vari))
		} else {
			e.S.Bad(rule, flow.FnName(vari), construct, fmt.Sprintf("Variant() = %v, RFC 4122 (number of leading 1 bits, at most 3) gives %d", out.Ret, want), e.Pos(vari), "")
		}
	}
}

// ruleC05Sem: the UUID parser's digit placement decided by its meaning. DefaultParser is evaluated on a text of the
// plain layout (36 bytes, hyphens at 8, 13, 18, 23) and of the URN layout (45 bytes, the lower-case prefix, hyphens
// nine further), flags clear, with the digit function replaced by "the four bits of the digit at text position k".
// The result must be the ID whose Higher word holds the first sixteen hexadecimal digits, most significant first,
// and whose Lower word the other sixteen — however the words are accumulated (indexed array with OR, shift-and-OR,
// helpers). A hyphen expected anywhere else, or a digit read from a hyphen position, fails the evaluation.
func ruleC05Sem(e *Env, rule string) {
	dp := e.Fn(rule, "uu", "DefaultParser")
	if dp == nil {
		return
	}
	site := flow.FnName(dp)
	pos := e.Pos(dp)
	// every layout is read with the rule flags clear and with each flag that leaves it enabled set; the URN layout
	// also with the prefix's first three letters in upper case (the parser's other accepted spelling)
	upBit, okUp := tabConstInt(e, "uu", "RuleDisableUpperCaseDigits")
	urnBit, okUrn := tabConstInt(e, "uu", "RuleDisableURN")
	if !okUp || !okUrn {
		e.S.Unk(rule, site, "rule flags", "RuleDisableUpperCaseDigits / RuleDisableURN are not integer constants", pos)
		return
	}
	type layT struct {
		name   string
		length int
		off    int
		flags  int64
		prefix string
	}
	lays := []layT{
		{"plain layout", 36, 0, 0, ""},
		{"plain layout [upper-case digits disabled]", 36, 0, upBit, ""},
		{"plain layout [URN disabled]", 36, 0, urnBit, ""},
		{"plain layout [both rules]", 36, 0, upBit | urnBit, ""},
		{"URN layout", 45, 9, 0, "urn:uuid:"},
		{"URN layout [upper-case digits disabled]", 45, 9, upBit, "urn:uuid:"},
		{"URN layout [URN:]", 45, 9, 0, "URN:uuid:"},
	}
	// the parser accepts the three letters in either case, each on its own: every mixed spelling is a reading too
	for _, pfx := range []string{"Urn", "uRn", "urN", "URn", "UrN", "uRN"} {
		lays = append(lays, layT{"URN layout [" + pfx + ":]", 45, 9, 0, pfx + ":uuid:"})
	}
	for _, lay := range lays {
		prefix := lay.prefix
		hy := map[int]bool{lay.off + 8: true, lay.off + 13: true, lay.off + 18: true, lay.off + 23: true}
		// text positions of the 32 digits, in order
		var digitPos []int
		for k := lay.off; k < lay.length; k++ {
			if !hy[k] {
				digitPos = append(digitPos, k)
			}
		}
		elemIndex := func(v pred.Val) (int, bool) {
			el, ok := v.(pred.Elem)
			if !ok || el.Base.String() != "input" {
				return 0, false
			}
			c, ok := el.Index.(pred.Const)
			if !ok || c.V == nil {
				return 0, false
			}
			k, exact := constant.Int64Val(c.V)
			return int(k), exact
		}
		fixed := func(a, b pred.Val) (int, bool, bool) {
			as, bs := a.String(), b.String()
			c, isC := b.(pred.Const)
			switch {
			case as == "*uu.MaxInputLength" && bs == "0":
				return 0, true, true
			case as == "len(input)" && bs == "*uu.MaxInputLength":
				return 1, true, true // a non-empty text against the disabled limit (0): longer, and not rejected
			case as == "*uu.MaxInputLength" && bs == "len(input)":
				return -1, true, true
			case as == "len(input)" && isC && c.V != nil && c.V.Kind() == constant.Int:
				k, _ := constant.Int64Val(c.V)
				return sgn(lay.length - int(k)), true, true
			}
			if k, ok := elemIndex(a); ok && isC && c.V != nil && c.V.Kind() == constant.Int {
				want, _ := constant.Int64Val(c.V)
				switch {
				case hy[k]:
					return sgn('-' - int(want)), true, true
				case k < lay.off:
					return sgn(int(prefix[k]) - int(want)), true, true
				}
				return 0, false, false // a hexadecimal digit is compared with a constant outside the digit function
			}
			if bits, ok := a.(pred.Bits); ok && bs == "0" {
				for i, bit := range bits.B {
					if bit.K == '1' {
						return 1, true, true
					}
					if bit.K == 's' && (bit.Sym != "r" || bit.Idx != i) {
						return 0, false, false
					}
					if bit.K == 's' && i < 63 && lay.flags&(1<<uint(i)) != 0 {
						return 1, true, true // a flag of this reading
					}
				}
				return 0, true, true // the rule flags tested here are clear in this reading
			}
			return 0, false, false
		}
		badDigit := ""
		digitFn := e.F("uu", "parseDigit")
		fallback := func(fn *ssa.Function, args []pred.Val) (pred.Val, bool, error) {
			// the digit function: the one C05.digit tabulates byte class by byte class — any other function of the module
			// that is handed an input byte (a "fast path" for decimal digits) is evaluated, not believed
			if digitFn == nil || flow.Origin(fn) != digitFn {
				return nil, false, nil
			}
			k, found := 0, false
			for _, a := range args {
				if i, ok := elemIndex(a); ok {
					if found {
						return nil, false, nil
					}
					k, found = i, true
				}
			}
			if !found || fn.Signature.Results().Len() != 2 {
				return nil, false, nil
			}
			if hy[k] || k < lay.off || k >= lay.length {
				badDigit = fmt.Sprintf("a digit is read from text position %d, which holds a hyphen or lies outside the digits", k)
			}
			w, _, ok := intWidth(fn.Signature.Results().At(0).Type())
			if !ok {
				return nil, false, nil
			}
			b := pred.Bits{B: make([]pred.Bit, w)}
			for i := range b.B {
				b.B[i] = pred.Bit{K: '0'}
				if i < 4 {
					b.B[i] = pred.Bit{K: 's', Sym: fmt.Sprintf("d%d", k), Idx: i}
				}
			}
			return pred.Tuple{b, pred.Const{V: constant.MakeBool(true)}}, true, nil
		}
		o := &treeOracle{assign: map[string]int{}, fixed: fixed, keyOf: func(a, b pred.Val) (string, bool) { return "", false }}
		ev := &pred.Evaluator{Prog: e.P.SSA, Oracle: o, GlobalInit: e.globalTables(), Fallback: fallback}
		out, err := ev.Eval(dp, []pred.Val{pred.Sym{Name: "input"}, pred.SymBits("r", 64, true)})
		if err != nil {
			e.S.Unk(rule, site, lay.name, "not evaluable: "+err.Error(), pos)
			continue
		}
		t, ok := out.Ret.(pred.Tuple)
		if out.Panic || !ok || len(t) != 2 {
			e.S.Unk(rule, site, lay.name, "unexpected result "+out.Ret.String(), pos)
			continue
		}
		if t[1].String() != "nil" {
			e.S.Bad(rule, site, lay.name, "a text of the "+lay.name+" with hyphens at the documented positions is rejected: "+t[1].String(), pos, "")
			continue
		}
		id, ok := t[0].(*pred.StructV)
		if !ok || len(id.Fields) != 2 {
			e.S.Unk(rule, site, lay.name, "the result is not an ID value: "+t[0].String(), pos)
			continue
		}
		bad := badDigit
		for word := 0; word < 2 && bad == ""; word++ {
			bits, ok := id.Fields[word].(pred.Bits)
			if !ok || len(bits.B) != 64 {
				bad = fmt.Sprintf("word %d of the ID is %v, not a composition of digit bits", word, id.Fields[word])
				break
			}
			for m := 0; m < 16 && bad == ""; m++ {
				p := digitPos[word*16+m]
				for b := 0; b < 4; b++ {
					got := bits.B[60-4*m+b]
					if got.K != 's' || got.Sym != fmt.Sprintf("d%d", p) || got.Idx != b {
						bad = fmt.Sprintf("bit %d of %s does not come from bit %d of the digit at text position %d (big-endian order: digit %d of the text is nibble %d of that word)", 60-4*m+b, []string{"Higher", "Lower"}[word], b, p, word*16+m, 15-m)
						break
					}
				}
			}
		}
		if bad != "" {
			e.S.Bad(rule, site, lay.name, bad, pos, "")
		} else {
			e.S.Ok(rule, site, lay.name, "the 32 digits land in Higher (first sixteen) and Lower (last sixteen), most significant first; hyphens are expected exactly at "+fmt.Sprint(lay.off+8, lay.off+13, lay.off+18, lay.off+23), pos)
		}
	}
}

// intWidth: bit width of an integer type.
func intWidth(t types.Type) (int, bool, bool) {
	b, ok := t.Underlying().(*types.Basic)
	if !ok || b.Info()&types.IsInteger == 0 {
		return 0, false, false
	}
	switch b.Kind() {
	case types.Int8, types.Uint8:
		return 8, b.Kind() == types.Int8, true
	case types.Int16, types.Uint16:
		return 16, b.Kind() == types.Int16, true
	case types.Int32, types.Uint32:
		return 32, b.Kind() == types.Int32, true
	}
	return 64, b.Info()&types.IsUnsigned == 0, true
}
