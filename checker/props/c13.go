package props

import (
	"fmt"
	"go/constant"
	"sort"
	"strings"

	"utilcheck/flow"
	"utilcheck/pred"
)

func init() {
	register(&Prop{
		ID:    "C13",
		Title: "Shortened and pretty size renderings are exact and maximal",
		Run:   runC13,
		Explanation: "C13.shorten: Size.Shorten is evaluated abstractly on a 64-bit vector whose 10·k low bits are zero and whose k-th group of ten bits is not (k = 0..6), literal tables resolved to their contents, helper functions inlined: every path returns (s >> 10k, the k-th of B, KiB, MiB, GiB, TiB, PiB, EiB); zero returns (0, B). Bit tests on part of the deciding group are explored both ways. " +
			"C13.methods: String / PrettyString / PrettyHTML evaluate to Formatter(<nil or fresh zero-length buffer>, s, 0 / FormatPretty / FormatPretty|FormatHTML) converted, independent of the marshal switches; formatter error: decimal fallback resp. panic; Formatter is initialised to DefaultFormatter. C13.buffer: the digit text and the destination do not share storage (append-only and buffer-independence rules of C16 on size.DefaultFormatter). C13.sep: appendSeparator as a decision table over the three flag sets the property renders with (none, pretty, pretty+HTML): nothing / \" \" / \"&nbsp;\". " +
			"C13.format: size.DefaultFormatter evaluated abstractly for every digit count 1..20 (all a uint64 can have) and each of the four flag combinations, Shorten's results opaque and the decimal text n symbolic digits: the result is buf, the digits in order with that combination's separator after every digit that has a multiple of three digits to its right (one before the unit), then the unit, and nothing else. Loop form, helper functions and how the separator is obtained do not matter." +
			" A slice the evaluator keeps by value stops the evaluation when it is rewritten in place (copy, a writing callee — also when the slice is boxed —, append onto a re-slice that stops short of its operand's end).",
		NotDecided:  []string{"the inductive value invariant value·1024^steps = size of the Shorten loop for all 2^64 sizes (follows from mask/shift agreement; stated, not machine-checked)"},
		Assumptions: []string{"strconv.FormatUint prints canonical decimal"},
		Technique:   "abstract evaluation over exhaustive scenario partitions (trailing-zero groups of the size; digit counts x flags of the rendering) + decision tables over go/ssa",
	})
}

func runC13(e *Env) {
	ruleShortenSem(e, "C13.shorten")
	ruleC13Sep(e)
	ruleFormatSem(e, "C13.format")
	ruleC13Methods(e)
	// the digit text and the destination buffer must not share storage, and the caller's prefix is only appended to
	if df := e.Fn("C13.buffer", "size", "DefaultFormatter"); df != nil {
		e.FlowAs(map[string]string{"C16.indep": "C13.buffer", "C16.append": "C13.buffer"}, func(c *flow.Ctx) {
			c.RuleAppendOnly(df)
			c.RuleBufIndependent(df)
		})
	}
	e.S.Floor("C13.buffer", 2)
	e.S.Floor("C13.methods", 7)
	e.S.Floor("C13.format", 3)
	e.S.Floor("C13.shorten", 8)
	e.S.Floor("C13.sep", 3)
}

// ruleC13Sep: decision table of appendSeparator.
func ruleC13Sep(e *Env) {
	const rule = "C13.sep"
	fn := e.Fn(rule, "size", "appendSeparator")
	if fn == nil {
		return
	}
	site := flow.FnName(fn)
	pretty, ok1 := tabConstInt(e, "size", "FormatPretty")
	html, ok2 := tabConstInt(e, "size", "FormatHTML")
	if !ok1 || !ok2 || pretty == 0 || html == 0 || pretty == html {
		e.S.Unk(rule, site, "flags", "FormatPretty/FormatHTML constants not found or not distinct bits", e.Pos(fn))
		return
	}
	for _, c := range []struct {
		f    int64
		want string
		name string
	}{{0, "", "plain"}, {pretty, " ", "pretty"}, {pretty | html, "&nbsp;", "pretty|html"}} {
		ev := &pred.Evaluator{Prog: e.P.SSA, GlobalInit: e.globalTables(), Oracle: noOracle{}}
		out, err := ev.Eval(fn, []pred.Val{pred.Sym{Name: "buf"}, pred.Const{V: constant.MakeInt64(c.f)}})
		if err != nil {
			e.S.Unk(rule, site, c.name, "not evaluable: "+err.Error(), e.Pos(fn))
			continue
		}
		got, ok := appendedTo(out.Ret, "buf")
		switch {
		case !ok:
			e.S.Unk(rule, site, c.name, fmt.Sprintf("result %v is not buf or an append to buf", out.Ret), e.Pos(fn))
		case got != c.want:
			e.S.Bad(rule, site, c.name, fmt.Sprintf("with flags %s the separator is %q, documented is %q", c.name, got, c.want), e.Pos(fn), "")
		default:
			e.S.Ok(rule, site, c.name, fmt.Sprintf("flags %s ⇒ separator %q", c.name, c.want), e.Pos(fn))
		}
	}
}

// appendedTo decodes the abstract result of a chain of append(base, const...) into the appended text.
func appendedTo(v pred.Val, base string) (string, bool) {
	switch x := v.(type) {
	case pred.Sym:
		return "", x.Name == base
	case pred.Term:
		if x.Fn != "builtin.append" || len(x.Args) != 2 {
			return "", false
		}
		pre, ok := appendedTo(x.Args[0], base)
		if !ok {
			return "", false
		}
		switch a := x.Args[1].(type) {
		case pred.Const:
			if a.V != nil && a.V.Kind() == constant.String {
				return pre + constant.StringVal(a.V), true
			}
		case *pred.SliceV:
			s := ""
			for _, c := range a.Elems {
				k, ok := intOf(c.V)
				if !ok {
					return "", false
				}
				s += string(rune(k))
			}
			return pre + s, true
		case pred.Term:
			// append(buf, "lit"...) lowers to a slice/convert of a constant string
			if len(a.Args) == 1 {
				if c, ok := a.Args[0].(pred.Const); ok && c.V != nil && c.V.Kind() == constant.String {
					return pre + constant.StringVal(c.V), true
				}
			}
		}
	}
	return "", false
}

// ruleC13Methods: String / PrettyString / PrettyHTML render through the package-level Formatter with the documented
// flag and an empty buffer, independent of the marshal switches; the result is the formatter's bytes unchanged.
func ruleC13Methods(e *Env) {
	const rule = "C13.methods"
	gv := e.Var(rule, "size", "Formatter")
	if gv != nil {
		f := e.C.GlobalFuncInit(gv)
		if f == nil || flow.Origin(f) != e.F("size", "DefaultFormatter") {
			e.S.Bad(rule, "size.Formatter", "initialiser", "the package-level Formatter is not initialised to DefaultFormatter or is reassigned inside the module", "", "")
		} else {
			e.S.Ok(rule, "size.Formatter", "initialiser", "= DefaultFormatter, never reassigned inside the module", "")
		}
	}
	pretty, ok1 := tabConstInt(e, "size", "FormatPretty")
	html, ok2 := tabConstInt(e, "size", "FormatHTML")
	if !ok1 || !ok2 {
		e.S.Unk(rule, "size", "flags", "FormatPretty/FormatHTML constants not found", "")
		return
	}
	sums := map[string]pred.Summary{}
	if f := e.F("size", "DefaultFormatter"); f != nil {
		sums[f.String()] = func(ev *pred.Evaluator, args []pred.Val) (pred.Val, error) {
			return pred.Term{Fn: "DefaultFormatter", Args: args}, nil
		}
	}
	for _, m := range []struct {
		name string
		flag int64
		onEr string // "panic" or "decimal"
	}{{"String", 0, "decimal"}, {"PrettyString", pretty, "panic"}, {"PrettyHTML", pretty | html, "panic"}} {
		fn := e.Method(rule, "size", "Size", m.name)
		if fn == nil {
			continue
		}
		site := flow.FnName(fn)
		call := fmt.Sprintf("dyn:*size.Formatter(nil,s,%d)", m.flag)
		leaves, err := extractTree(e.P.SSA, fn, func() []pred.Val { return []pred.Val{pred.Sym{Name: "s"}} }, sums, nil, errKeyOf, binDomain)
		if err != nil {
			e.S.Unk(rule, site, m.name, err.Error(), e.Pos(fn))
			continue
		}
		for _, lf := range leaves {
			// the buffer argument may be nil or any fresh zero-length slice (capacity is only an allocation hint)
			call := call
			pre, suf := "nil? dyn:*size.Formatter#1(", fmt.Sprintf(",s,%d)", m.flag)
			for k := range lf.Assign {
				if strings.HasPrefix(k, pre) && strings.HasSuffix(k, suf) {
					buf := k[len(pre) : len(k)-len(suf)]
					if buf == "nil" || buf == "[]" || strings.HasPrefix(buf, "slice[:0](&makeslice#") && strings.Count(buf, "(") == 1 {
						call = "dyn:*size.Formatter(" + buf + suf
					}
				}
			}
			v, asked := lf.Assign["nil? "+ext(call, 1)]
			switch {
			case !asked:
				e.S.Bad(rule, site, m.name, fmt.Sprintf("does not render through the package-level Formatter(<empty buffer>, s, %d) (asked: %s)", m.flag, lf.String()), e.Pos(fn), "")
			case v == 0:
				if lf.Err != nil {
					e.S.Unk(rule, site, m.name+" ok", lf.Err.Error(), e.Pos(fn))
				} else if got := lf.Out.Ret.String(); got == ext(call, 0) && len(lf.Assign) == 1 {
					e.S.Ok(rule, site, m.name+" ok", fmt.Sprintf("= Formatter(nil, s, %d) converted (%s)", m.flag, got), e.Pos(fn))
				} else {
					e.S.Bad(rule, site, m.name+" ok", "result "+got+fmt.Sprintf("; documented: the bytes of Formatter(nil, s, %d)", m.flag), e.Pos(fn), "")
				}
			default:
				switch {
				case m.onEr == "panic" && lf.Out != nil && lf.Out.Panic:
					e.S.Ok(rule, site, m.name+" error", "panics on a formatter error, as documented", e.Pos(fn))
				case m.onEr == "decimal" && lf.Err == nil && lf.Out != nil && !lf.Out.Panic && strings.Contains(lf.Out.Ret.String(), "FormatUint"):
					e.S.Ok(rule, site, m.name+" error", "on a formatter error returns the plain decimal ("+lf.Out.Ret.String()+")", e.Pos(fn))
				default:
					msg := ""
					if lf.Err != nil {
						msg = lf.Err.Error()
					} else if lf.Out != nil {
						msg = lf.Out.Ret.String()
					}
					e.S.Bad(rule, site, m.name+" error", "formatter error path: "+msg, e.Pos(fn), "")
				}
			}
		}
	}
}

// ruleShortenSem: Size.Shorten decided by its meaning instead of its shape. The method is evaluated on a 64-bit
// vector whose 10·k low bits are zero and whose k-th group of ten is not (k = 0..6; 6: only bits 60..63 are left),
// with literal tables resolved to their contents. Every path must return (s >> 10k, the documented k-th binary unit);
// zero returns (0, "B"). Loops over the unit table, index loops, helper functions and redundant fast paths all
// evaluate to the same thing.
func ruleShortenSem(e *Env, rule string) {
	fn := e.Method(rule, "size", "Size", "Shorten")
	if fn == nil {
		return
	}
	site := flow.FnName(fn)
	pos := e.Pos(fn)
	want := []string{"B", "KiB", "MiB", "GiB", "TiB", "PiB", "EiB"}
	hook := e.globalTables()
	// zero
	{
		ev := &pred.Evaluator{Prog: e.P.SSA, Oracle: noOracle{}, GlobalInit: hook}
		out, err := ev.Eval(fn, []pred.Val{pred.Const{V: constant.MakeInt64(0)}})
		switch {
		case err != nil:
			e.S.Unk(rule, site, "zero", err.Error(), pos)
		case out.Panic || out.Ret.String() != `(0, "B")`:
			e.S.Bad(rule, site, "zero", "Shorten(0) evaluates to "+out.Ret.String()+", documented (0, \"B\")", pos, "Size(0)")
		default:
			e.S.Ok(rule, site, "zero", "zero ⇒ (0, \"B\")", pos)
		}
	}
	for k := 0; k <= 6; k++ {
		construct := fmt.Sprintf("lowest non-zero group %d", k)
		lo, hi := 10*k, 10*k+9
		if hi > 63 {
			hi = 63
		}
		mk := func() []pred.Val {
			b := pred.SymBits("s", 64, false)
			for i := 0; i < lo; i++ {
				b.B[i] = pred.Bit{K: '0'}
			}
			return []pred.Val{b}
		}
		// which bits of s a value still depends on (other bits must be known zeros)
		symSet := func(v pred.Val) (set map[int]bool, anyOne bool, ok bool) {
			b, isB := v.(pred.Bits)
			if !isB {
				return nil, false, false
			}
			set = map[int]bool{}
			for _, bit := range b.B {
				switch bit.K {
				case 's':
					if bit.Sym != "s" {
						return nil, false, false
					}
					set[bit.Idx] = true
				case '1':
					anyOne = true
				case '0':
				default:
					return nil, false, false
				}
			}
			return set, anyOne, true
		}
		// a vector read as a signed number whose sign bit is not known to be clear (int64(s)) is not "> 0" just because it
		// is not zero: such a comparison is left undecided
		signedOpen := func(v pred.Val) bool {
			bv, ok := v.(pred.Bits)
			return ok && bv.Signed && len(bv.B) > 0 && bv.B[len(bv.B)-1].K != '0'
		}
		fixed := func(a, b pred.Val) (int, bool, bool) {
			c, isC := b.(pred.Const)
			if !isC || c.V == nil || c.V.ExactString() != "0" || signedOpen(a) {
				return 0, false, false
			}
			set, anyOne, ok := symSet(a)
			if !ok {
				return 0, false, false
			}
			if anyOne {
				return 1, true, true
			}
			all := true
			for i := lo; i <= hi; i++ {
				if !set[i] {
					all = false
				}
			}
			if all {
				return 1, true, true // contains the whole group that the scenario makes non-zero
			}
			return 0, false, false
		}
		keyOf := func(a, b pred.Val) (string, bool) {
			c, isC := b.(pred.Const)
			if !isC || c.V == nil || c.V.ExactString() != "0" || signedOpen(a) {
				return "", false
			}
			set, _, ok := symSet(a)
			if !ok || len(set) == 0 {
				return "", false
			}
			var idx []int
			for i := range set {
				idx = append(idx, i)
			}
			sort.Ints(idx)
			return fmt.Sprintf("s&bits%v", idx), true
		}
		// the number of trailing zero bits of such a size lies in [10k, 10k+9] (the scenario fixes the group, not the bit)
		sums := map[string]pred.Summary{"math/bits.TrailingZeros64": func(ev *pred.Evaluator, args []pred.Val) (pred.Val, error) {
			set, anyOne, ok := symSet(args[0])
			full := ok && !anyOne
			for i := lo; full && i < 64; i++ {
				full = set[i]
			}
			if !full || len(set) != 64-lo {
				return nil, &pred.Undecided{Reason: "TrailingZeros64 of something other than the size itself"}
			}
			return pred.IntRange{Lo: int64(lo), Hi: int64(hi)}, nil
		}}
		leaves, err := extractTreeWith(e.P.SSA, fn, mk, sums, fixed, keyOf, binDomain, hook)
		if err != nil {
			e.S.Unk(rule, site, construct, err.Error(), pos)
			continue
		}
		bad := ""
		for _, lf := range leaves {
			if lf.Err != nil {
				e.S.Unk(rule, site, construct, lf.Err.Error(), pos)
				bad = "-"
				break
			}
			t, ok := lf.Out.Ret.(pred.Tuple)
			if lf.Out.Panic || !ok || len(t) != 2 {
				bad = "does not return (value, unit)"
				break
			}
			// value = s >> 10k
			vb, isB := t[0].(pred.Bits)
			okV := isB && len(vb.B) == 64
			for i := 0; okV && i < 64; i++ {
				src := i + lo
				if src < 64 {
					okV = vb.B[i].K == 's' && vb.B[i].Sym == "s" && vb.B[i].Idx == src
				} else {
					okV = vb.B[i].K == '0'
				}
			}
			if !okV {
				bad = fmt.Sprintf("returns the value %v, expected the size shifted right by %d bits", t[0], lo)
				break
			}
			if t[1].String() != quote(want[k]) {
				bad = fmt.Sprintf("returns the unit %v for a size whose largest dividing binary unit is %s (1024^%d)", t[1], want[k], k)
				break
			}
		}
		switch {
		case bad == "-":
		case bad != "":
			e.S.Bad(rule, site, construct, "a size with exactly "+fmt.Sprint(lo)+" trailing zero bits in whole groups of ten: Shorten "+bad, pos, fmt.Sprintf("Size(1<<%d)", lo))
		default:
			e.S.Ok(rule, site, construct, fmt.Sprintf("⇒ (s >> %d, %q) on every path (%d)", lo, want[k], len(leaves)), pos)
		}
	}
}

// fmtItems flattens an abstract byte sequence built by append into items: "<sym>" for opaque operands, "{sym}" for
// single symbolic bytes, literal text for constants.
func fmtItems(v pred.Val) ([]string, bool) {
	switch x := v.(type) {
	case pred.Sym:
		if x.Name == "make" {
			return nil, true
		}
		return []string{"<" + x.Name + ">"}, true
	case pred.Const:
		if x.V == nil {
			return nil, true
		}
		if x.V.Kind() == constant.String {
			if constant.StringVal(x.V) == "" {
				return nil, true
			}
			return []string{constant.StringVal(x.V)}, true
		}
	case *pred.SliceV:
		var out []string
		for _, c := range x.Elems {
			if k, ok := intOf(c.V); ok {
				out = append(out, string(rune(k)))
			} else if s, ok := c.V.(pred.Sym); ok {
				out = append(out, "{"+s.Name+"}")
			} else {
				return nil, false
			}
		}
		return out, true
	case pred.Term:
		if x.Fn == "builtin.append" && len(x.Args) == 2 {
			a, ok1 := fmtItems(x.Args[0])
			b, ok2 := fmtItems(x.Args[1])
			return append(a, b...), ok1 && ok2
		}
		if (x.Fn == "slice" || x.Fn == "slice[:0]") && len(x.Args) == 1 {
			if p, ok := x.Args[0].(pred.Ptr); ok && p.Cell != nil {
				return nil, true // zero-length slice of a fresh local array
			}
		}
	}
	return nil, false
}

// ruleFormatSem: size.DefaultFormatter decided by its meaning. For every digit count n = 1..20 (all a uint64 can
// have) and each of the four flag combinations the formatter is evaluated with Shorten's results opaque and the
// decimal text a sequence of n symbolic digits: the result must be buf, the digits in order with the separator of
// that flag combination after every digit that has a multiple of three digits to its right (which puts exactly one
// before the unit), then the unit — and nothing else.
func ruleFormatSem(e *Env, rule string) {
	fn := e.Fn(rule, "size", "DefaultFormatter")
	sh := e.P.Method("size", "Size", "Shorten")
	if fn == nil || sh == nil {
		return
	}
	site := flow.FnName(fn)
	pos := e.Pos(fn)
	pretty, ok1 := tabConstInt(e, "size", "FormatPretty")
	html, ok2 := tabConstInt(e, "size", "FormatHTML")
	if !ok1 || !ok2 || pretty == 0 || html == 0 || pretty == html {
		e.S.Unk(rule, site, "flags", "FormatPretty/FormatHTML constants not found or not distinct bits", pos)
		return
	}
	hook := e.globalTables()
	for _, c := range []struct {
		f    int64
		sep  string
		name string
	}{{0, "", "plain"}, {pretty, " ", "pretty"}, {pretty | html, "&nbsp;", "pretty|html"}} { // FormatHTML without FormatPretty: no rendering of the property
		bad := ""
		undecided := ""
		for n := 1; n <= 20 && bad == "" && undecided == ""; n++ {
			digits := func() *pred.SliceV {
				sv := &pred.SliceV{}
				for i := 0; i < n; i++ {
					sv.Elems = append(sv.Elems, &pred.Cell{V: pred.Sym{Name: fmt.Sprintf("d%d", i)}, Name: "digit"})
				}
				return sv
			}
			emptyDst := func(v pred.Val) bool {
				items, ok := fmtItems(v)
				return ok && len(items) == 0
			}
			sums := map[string]pred.Summary{
				sh.String(): func(ev *pred.Evaluator, args []pred.Val) (pred.Val, error) {
					// the rendering is that of the size the formatter was given, not of something derived from it
					if len(args) != 1 || args[0].String() != "s" {
						return nil, &pred.Undecided{Reason: fmt.Sprintf("Shorten is applied to %v, not to the size being formatted", args)}
					}
					return pred.Tuple{pred.Sym{Name: "value"}, pred.Sym{Name: "unit"}}, nil
				},
				"strconv.FormatUint": func(ev *pred.Evaluator, args []pred.Val) (pred.Val, error) {
					if len(args) != 2 || args[0].String() != "value" || args[1].String() != "10" {
						return nil, &pred.Undecided{Reason: "FormatUint is not applied to (Shorten's value, 10)"}
					}
					return digits(), nil
				},
				"strconv.AppendUint": func(ev *pred.Evaluator, args []pred.Val) (pred.Val, error) {
					if len(args) != 3 || args[1].String() != "value" || args[2].String() != "10" || !emptyDst(args[0]) {
						return nil, &pred.Undecided{Reason: "AppendUint is not applied to (an empty scratch buffer, Shorten's value, 10)"}
					}
					return digits(), nil
				},
			}
			ev := &pred.Evaluator{Prog: e.P.SSA, Oracle: noOracle{}, Summaries: sums, GlobalInit: hook}
			out, err := ev.Eval(fn, []pred.Val{pred.Sym{Name: "buf"}, pred.Sym{Name: "s"}, pred.Const{V: constant.MakeInt64(c.f)}})
			if err != nil {
				undecided = fmt.Sprintf("%d digits: %v", n, err)
				break
			}
			t, ok := out.Ret.(pred.Tuple)
			if out.Panic || !ok || len(t) != 2 || t[1].String() != "nil" {
				bad = fmt.Sprintf("%d digits: the formatter does not return (bytes, nil)", n)
				break
			}
			items, ok := fmtItems(t[0])
			if !ok {
				undecided = fmt.Sprintf("%d digits: result %v is not an append chain over buf", n, t[0])
				break
			}
			want := "<buf>"
			for i := 0; i < n; i++ {
				want += fmt.Sprintf("{d%d}", i)
				if (n-1-i)%3 == 0 {
					want += c.sep
				}
			}
			want += "<unit>"
			if got := strings.Join(items, ""); got != want {
				bad = fmt.Sprintf("a value of %d digits with flags %s renders as %s, documented %s", n, c.name, got, want)
			}
		}
		switch {
		case undecided != "":
			e.S.Unk(rule, site, c.name, "not evaluable: "+undecided, pos)
		case bad != "":
			e.S.Bad(rule, site, c.name, bad, pos, "")
		default:
			e.S.Ok(rule, site, c.name, fmt.Sprintf("1..20 digits: buf, digits grouped in threes from the right with %q, one %q before the unit, the unit", c.sep, c.sep), pos)
		}
	}
}
