package props

import (
	"fmt"
	"go/constant"
	"go/token"
	"math/big"
	"sort"
	"strings"

	"golang.org/x/tools/go/ssa"

	"utilcheck/flow"
	"utilcheck/pred"
)

func init() {
	register(&Prop{
		ID:    "C13",
		Title: "Shortened and pretty size renderings are exact and maximal",
		Run:   runC13,
		Explanation: "C13.shorten: Size.Shorten is evaluated abstractly on a 64-bit vector whose 10·k low bits are zero and whose k-th group of ten bits is not (k = 0..6), literal tables resolved to their contents, helper functions inlined: every path returns (s >> 10k, the k-th of B, KiB, MiB, GiB, TiB, PiB, EiB); zero returns (0, B). Bit tests on part of the deciding group are explored both ways. " +
			"C13.methods: String / PrettyString / PrettyHTML evaluate to Formatter(<nil or fresh zero-length buffer>, s, 0 / FormatPretty / FormatPretty|FormatHTML) converted, independent of the marshal switches; formatter error: decimal fallback resp. panic; Formatter is initialised to DefaultFormatter. C13.buffer: the digit text and the destination do not share storage (append-only and buffer-independence rules of C16 on size.DefaultFormatter). C13.sep: appendSeparator as a decision table over (pretty bit, HTML bit): nothing / \" \" / \"&nbsp;\" / nothing. " +
			"C13.format: size.DefaultFormatter evaluated abstractly for every digit count 1..20 (all a uint64 can have) and each of the four flag combinations, Shorten's results opaque and the decimal text n symbolic digits: the result is buf, the digits in order with that combination's separator after every digit that has a multiple of three digits to its right (one before the unit), then the unit, and nothing else. Loop form, helper functions and how the separator is obtained do not matter.",
		NotDecided:  []string{"the inductive value invariant value·1024^steps = size of the Shorten loop for all 2^64 sizes (follows from mask/shift agreement; stated, not machine-checked)"},
		Assumptions: []string{"strconv.FormatUint prints canonical decimal"},
		Technique:   "abstract evaluation over exhaustive scenario partitions (trailing-zero groups of the size; digit counts x flags of the rendering) + decision tables over go/ssa",
	})
}

func runC13(e *Env) {
	ruleShortenSem(e, "C13.shorten")
	ruleC13Sep(e)
	ruleFormatSem(e, "C13.format")
	ruleC13Methods(e)
	// the digit text and the destination buffer must not share storage, and the caller's prefix is only appended to
	if df := e.Fn("C13.buffer", "size", "DefaultFormatter"); df != nil {
		e.FlowAs(map[string]string{"C16.indep": "C13.buffer", "C16.append": "C13.buffer"}, func(c *flow.Ctx) {
			c.RuleAppendOnly(df)
			c.RuleBufIndependent(df)
		})
	}
	e.S.Floor("C13.buffer", 2)
	e.S.Floor("C13.methods", 7)
	e.S.Floor("C13.format", 4)
	e.S.Floor("C13.shorten", 8)
	e.S.Floor("C13.sep", 4)
}

func ruleC13Shorten(e *Env, units []string) {
	const rule = "C13.tab"
	fn := e.Method(rule, "size", "Size", "Shorten")
	if fn == nil {
		return
	}
	site := flow.FnName(fn)
	pos := e.Pos(fn)
	got, _ := sizeUnits(e, "C13.units")
	su := e.V("size", "shortenUnits")
	var and, shr *ssa.BinOp
	for _, b := range fn.Blocks {
		for _, in := range b.Instrs {
			bo, ok := in.(*ssa.BinOp)
			if !ok {
				continue
			}
			if _, isK := bo.Y.(*ssa.Const); !isK {
				continue
			}
			switch bo.Op {
			case token.AND:
				if and != nil {
					e.S.Unk(rule, site, "mask", "more than one masking operation (idioms: one `v & mask` test per step)", pos)
					return
				}
				and = bo
			case token.SHR:
				if shr != nil {
					e.S.Unk(rule, site, "shift", "more than one shift (idioms: one `v >>= k` per step)", pos)
					return
				}
				shr = bo
			case token.QUO, token.REM:
				e.S.Unk(rule, site, "division", "division-based shortening is outside the enumerated idioms (mask/shift)", pos)
				return
			}
		}
	}
	if and == nil || shr == nil {
		e.S.Unk(rule, site, "mask/shift", "mask test or shift not found in Shorten", pos)
		return
	}
	mask, _ := flow.ConstInt(and.Y)
	k, _ := flow.ConstInt(shr.Y)
	maskB := new(big.Int)
	if c, ok := and.Y.(*ssa.Const); ok {
		maskB = bigOf(c.Value)
	}
	_ = mask
	ratio := new(big.Int).Lsh(big.NewInt(1), uint(k))
	if new(big.Int).Add(maskB, big.NewInt(1)).Cmp(ratio) != 0 {
		e.S.Bad(rule, site, "mask vs shift", fmt.Sprintf("the remainder test masks with %v but the value is shifted by %d bits (divides by %v): remainder and quotient disagree", maskB, k, ratio), pos, "")
	} else {
		e.S.Ok(rule, site, "mask vs shift", fmt.Sprintf("mask %v + 1 = 1<<%d", maskB, k), pos)
	}
	if ratio.Cmp(big.NewInt(1024)) != 0 {
		e.S.Bad(rule, site, "step ratio", fmt.Sprintf("each step divides by %v but consecutive units of shortenUnits differ by 1024", ratio), pos, "")
	} else {
		e.S.Ok(rule, site, "step ratio", "each step divides by 1024, the ratio of consecutive units", pos)
	}
	// both operate on the same loop-carried value, whose back edge is the shift
	ph, ok := and.X.(*ssa.Phi)
	if !ok || shr.X != ssa.Value(ph) {
		e.S.Bad(rule, site, "same value", "the remainder test and the shift do not operate on the same loop-carried value", pos, "")
		return
	}
	backOK := false
	for _, ed := range ph.Edges {
		if ed == ssa.Value(shr) {
			backOK = true
		}
	}
	if !backOK {
		e.S.Bad(rule, site, "same value", "the shifted value is not what the next step tests", pos, "")
	} else {
		e.S.Ok(rule, site, "same value", "test and shift operate on the loop-carried value; the shift feeds the next step", pos)
	}
	// the test is `masked != 0` (or == 0) and the non-zero edge returns (phi, unit-of-index)
	var iff *ssa.If
	var cmp *ssa.BinOp
	for _, r := range *and.Referrers() {
		if bo, ok := r.(*ssa.BinOp); ok && (bo.Op == token.NEQ || bo.Op == token.EQL) {
			if z, ok := flow.ConstInt(bo.Y); ok && z == 0 {
				cmp = bo
				for _, r2 := range *bo.Referrers() {
					if i, ok := r2.(*ssa.If); ok {
						iff = i
					}
				}
			}
		}
	}
	if iff == nil {
		e.S.Bad(rule, site, "remainder test", "the masked value is not compared with 0 to decide divisibility", pos, "")
		return
	}
	nz, z := iff.Block().Succs[0], iff.Block().Succs[1]
	if cmp.Op == token.EQL {
		nz, z = z, nz
	}
	ret, _ := nz.Instrs[len(nz.Instrs)-1].(*ssa.Return)
	if ret == nil || len(ret.Results) != 2 || ret.Results[0] != ssa.Value(ph) {
		e.S.Bad(rule, site, "in-loop return", "when a remainder exists Shorten does not return the value before shifting", pos, "")
	} else if !isElemOfGlobalAtLoopIndex(ret.Results[1], su) {
		e.S.Bad(rule, site, "in-loop return", "the unit returned with the unshifted value is not shortenUnits[current step]", pos, "")
	} else {
		e.S.Ok(rule, site, "in-loop return", "remainder ≠ 0 ⇒ returns (value before shifting, shortenUnits[step])", pos)
	}
	if !(z == shr.Block() || z.Dominates(shr.Block())) {
		e.S.Bad(rule, site, "order", "the shift is not confined to the no-remainder edge of the test", pos, "")
	} else {
		e.S.Ok(rule, site, "order", "the shift happens only after the remainder test found 0", pos)
	}
	// post-loop and zero returns
	for _, r := range flow.Returns(fn) {
		if r == ret || len(r.Results) != 2 {
			continue
		}
		u, isConst := flow.ConstString(r.Results[1])
		if !isConst {
			e.S.Unk(rule, site, "return", "return with a non-constant unit outside the loop", e.posOf(r))
			continue
		}
		if v, ok := flow.ConstInt(r.Results[0]); ok && v == 0 {
			if u == "B" {
				e.S.Ok(rule, site, "zero", "zero ⇒ (0, \"B\")", e.posOf(r))
			} else {
				e.S.Bad(rule, site, "zero", "zero is returned with unit "+quote(u)+", documented is 0 B", e.posOf(r), "Size(0)")
			}
			continue
		}
		if r.Results[0] != ssa.Value(ph) {
			e.S.Unk(rule, site, "post-loop return", "post-loop return does not return the loop-carried value", e.posOf(r))
			continue
		}
		want := new(big.Int).Lsh(big.NewInt(1), uint(10*len(units)))
		if got != nil && got[u] != nil && got[u].Cmp(want) == 0 && len(units) > 0 {
			e.S.Ok(rule, site, "post-loop unit", fmt.Sprintf("after %d steps the unit is %s = 2^%d", len(units), u, 10*len(units)), e.posOf(r))
		} else {
			e.S.Bad(rule, site, "post-loop unit", fmt.Sprintf("after %d divisions by 1024 the value is returned with unit %s whose multiplier is %v, not 2^%d", len(units), u, got[u], 10*len(units)), e.posOf(r), "Size(1<<60)")
		}
	}
}

// isElemOfGlobalAtLoopIndex: v is the range value of a loop over the global slice g (load of &(*g)[i] with i the
// range index).
func isElemOfGlobalAtLoopIndex(v ssa.Value, g *ssa.Global) bool {
	u, ok := v.(*ssa.UnOp)
	if !ok || u.Op != token.MUL {
		return false
	}
	ia, ok := u.X.(*ssa.IndexAddr)
	if !ok || flow.GlobalLoad(ia.X) != g || g == nil {
		return false
	}
	// index is phi+1 of a 0-based range counter
	bo, ok := ia.Index.(*ssa.BinOp)
	if !ok || bo.Op != token.ADD {
		return false
	}
	_, isPhi := bo.X.(*ssa.Phi)
	k, isK := flow.ConstInt(bo.Y)
	return isPhi && isK && k == 1
}

// ruleC13Sep: decision table of appendSeparator.
func ruleC13Sep(e *Env) {
	const rule = "C13.sep"
	fn := e.Fn(rule, "size", "appendSeparator")
	if fn == nil {
		return
	}
	site := flow.FnName(fn)
	pretty, ok1 := tabConstInt(e, "size", "FormatPretty")
	html, ok2 := tabConstInt(e, "size", "FormatHTML")
	if !ok1 || !ok2 || pretty == 0 || html == 0 || pretty == html {
		e.S.Unk(rule, site, "flags", "FormatPretty/FormatHTML constants not found or not distinct bits", e.Pos(fn))
		return
	}
	for _, c := range []struct {
		f    int64
		want string
		name string
	}{{0, "", "plain"}, {pretty, " ", "pretty"}, {pretty | html, "&nbsp;", "pretty|html"}, {html, "", "html only"}} {
		ev := &pred.Evaluator{Prog: e.P.SSA, Oracle: noOracle{}}
		out, err := ev.Eval(fn, []pred.Val{pred.Sym{Name: "buf"}, pred.Const{V: constant.MakeInt64(c.f)}})
		if err != nil {
			e.S.Unk(rule, site, c.name, "not evaluable: "+err.Error(), e.Pos(fn))
			continue
		}
		got, ok := appendedTo(out.Ret, "buf")
		switch {
		case !ok:
			e.S.Unk(rule, site, c.name, fmt.Sprintf("result %v is not buf or an append to buf", out.Ret), e.Pos(fn))
		case got != c.want:
			e.S.Bad(rule, site, c.name, fmt.Sprintf("with flags %s the separator is %q, documented is %q", c.name, got, c.want), e.Pos(fn), "")
		default:
			e.S.Ok(rule, site, c.name, fmt.Sprintf("flags %s ⇒ separator %q", c.name, c.want), e.Pos(fn))
		}
	}
}

// appendedTo decodes the abstract result of a chain of append(base, const...) into the appended text.
func appendedTo(v pred.Val, base string) (string, bool) {
	switch x := v.(type) {
	case pred.Sym:
		return "", x.Name == base
	case pred.Term:
		if x.Fn != "builtin.append" || len(x.Args) != 2 {
			return "", false
		}
		pre, ok := appendedTo(x.Args[0], base)
		if !ok {
			return "", false
		}
		switch a := x.Args[1].(type) {
		case pred.Const:
			if a.V != nil && a.V.Kind() == constant.String {
				return pre + constant.StringVal(a.V), true
			}
		case *pred.SliceV:
			s := ""
			for _, c := range a.Elems {
				k, ok := intOf(c.V)
				if !ok {
					return "", false
				}
				s += string(rune(k))
			}
			return pre + s, true
		case pred.Term:
			// append(buf, "lit"...) lowers to a slice/convert of a constant string
			if len(a.Args) == 1 {
				if c, ok := a.Args[0].(pred.Const); ok && c.V != nil && c.V.Kind() == constant.String {
					return pre + constant.StringVal(c.V), true
				}
			}
		}
	}
	return "", false
}

// ruleC13Group: residues mod 3 of the grouping condition in size.DefaultFormatter.
func ruleC13Group(e *Env) {
	const rule = "C13.group"
	fn := e.Fn(rule, "size", "DefaultFormatter")
	if fn == nil {
		return
	}
	site := flow.FnName(fn)
	pos := e.Pos(fn)
	// find the condition: an If in the digit loop whose condition is `expr == const` (or !=) leading to the call of
	// appendSeparator; expr is built from the loop index i, len(b) and constants with + - %.
	sep := e.F("size", "appendSeparator")
	var call *ssa.Call
	for _, c := range e.C.Calls(fn, func(f *ssa.Function) bool { return f == sep }) {
		if call != nil {
			e.S.Unk(rule, site, "separator call", "more than one call to appendSeparator", pos)
			return
		}
		call = c
	}
	if call == nil {
		e.S.Unk(rule, site, "separator call", "no call to appendSeparator found", pos)
		return
	}
	var cond *ssa.BinOp
	var onTrue bool
	for d := call.Block(); d != nil && cond == nil; d = d.Idom() {
		id := d.Idom()
		if id == nil {
			break
		}
		if iff, ok := id.Instrs[len(id.Instrs)-1].(*ssa.If); ok {
			if bo, ok := iff.Cond.(*ssa.BinOp); ok && (bo.Op == token.EQL || bo.Op == token.NEQ) {
				if id.Succs[0] == d || id.Succs[0].Dominates(d) {
					cond, onTrue = bo, true
				} else {
					cond, onTrue = bo, false
				}
			}
		}
		if cond != nil || len(d.Preds) > 1 {
			break
		}
	}
	if cond == nil {
		e.S.Unk(rule, site, "condition", "grouping condition not found (idioms: `expr == k` guarding appendSeparator)", pos)
		return
	}
	var idx ssa.Value // loop index symbol
	var ln ssa.Value  // len(digits)
	var eval func(v ssa.Value, i, l int, depth int) (int, bool)
	eval = func(v ssa.Value, i, l int, depth int) (int, bool) {
		if depth > 12 {
			return 0, false
		}
		if k, ok := flow.ConstInt(v); ok {
			return int(k), true
		}
		switch x := v.(type) {
		case *ssa.BinOp:
			a, ok1 := eval(x.X, i, l, depth+1)
			b, ok2 := eval(x.Y, i, l, depth+1)
			if !ok1 || !ok2 {
				return 0, false
			}
			switch x.Op {
			case token.ADD:
				return a + b, true
			case token.SUB:
				return a - b, true
			case token.MUL:
				return a * b, true
			case token.REM:
				if b != 3 && b != 1 {
					return 0, false
				}
				if a < 0 {
					return 0, false // Go's % on negatives: not residue arithmetic
				}
				return a % b, true
			}
			return 0, false
		case *ssa.Phi:
			// range index: phi(-1, phi+1) — the body sees phi+1; a bare phi is outside the idiom
			return 0, false
		case *ssa.Call:
			if bi, ok := x.Call.Value.(*ssa.Builtin); ok && bi.Name() == "len" {
				if ln == nil {
					ln = x.Call.Args[0]
				}
				if x.Call.Args[0] == ln {
					return l, true
				}
			}
			return 0, false
		case *ssa.Convert:
			return eval(x.X, i, l, depth+1)
		}
		return 0, false
	}
	// identify the index value: a BinOp ADD(phi, 1) that is the incremented range counter
	var findIdx func(v ssa.Value, depth int)
	findIdx = func(v ssa.Value, depth int) {
		if depth > 12 || idx != nil {
			return
		}
		if bo, ok := v.(*ssa.BinOp); ok {
			if _, isPhi := bo.X.(*ssa.Phi); isPhi && bo.Op == token.ADD {
				if k, ok := flow.ConstInt(bo.Y); ok && k == 1 {
					idx = bo
					return
				}
			}
			findIdx(bo.X, depth+1)
			findIdx(bo.Y, depth+1)
		}
		if c, ok := v.(*ssa.Convert); ok {
			findIdx(c.X, depth+1)
		}
	}
	findIdx(cond.X, 0)
	findIdx(cond.Y, 0)
	if idx == nil {
		e.S.Unk(rule, site, "condition", "loop index not identified in the grouping condition", pos)
		return
	}
	// the evaluation treats idx as the symbol i; values are taken on representatives large enough that every
	// intermediate is non-negative (i, l ≥ 0 and l ≥ i+1), residues are what matters
	evalTop := func(i, l int) (bool, bool) {
		var ev2 func(v ssa.Value, depth int) (int, bool)
		ev2 = func(v ssa.Value, depth int) (int, bool) {
			if v == idx {
				return i, true
			}
			if bo, ok := v.(*ssa.BinOp); ok && v != idx {
				a, ok1 := ev2(bo.X, depth+1)
				b, ok2 := ev2(bo.Y, depth+1)
				if !ok1 || !ok2 || depth > 12 {
					return 0, false
				}
				switch bo.Op {
				case token.ADD:
					return a + b, true
				case token.SUB:
					return a - b, true
				case token.MUL:
					return a * b, true
				case token.REM:
					if b <= 0 || a < 0 {
						return 0, false
					}
					return a % b, true
				}
				return 0, false
			}
			return eval(v, i, l, depth)
		}
		a, ok1 := ev2(cond.X, 0)
		b, ok2 := ev2(cond.Y, 0)
		if !ok1 || !ok2 {
			return false, false
		}
		r := a == b
		if cond.Op == token.NEQ {
			r = !r
		}
		if !onTrue {
			r = !r
		}
		return r, true
	}
	// residue classes: l mod 3 ∈ {0,1,2}, i mod 3 ∈ {0,1,2}; two representatives each to make sure only residues matter
	for lr := 0; lr < 3; lr++ {
		for ir := 0; ir < 3; ir++ {
			construct := fmt.Sprintf("len≡%d,i≡%d (mod 3)", lr, ir)
			var results []bool
			undec := false
			for _, rep := range [][2]int{{ir, lr + 3*((ir+3)/3+1)}, {ir + 3, lr + 3*((ir+6)/3+2)}, {ir + 6, lr + 30}} {
				i, l := rep[0], rep[1]
				if l <= i {
					l += 3 * ((i-l)/3 + 1)
				}
				r, ok := evalTop(i, l)
				if !ok {
					undec = true
					break
				}
				// oracle: separator after digit i iff the number of digits to its right, l-1-i, is a multiple of 3
				want := (l-1-i)%3 == 0
				results = append(results, r == want)
			}
			if undec {
				e.S.Unk(rule, site, construct, "grouping condition uses operations outside + - * % const on (index, len)", pos)
				continue
			}
			all := true
			for _, r := range results {
				all = all && r
			}
			if all {
				e.S.Ok(rule, site, construct, "separator ⇔ the digits to the right form whole groups of three", pos)
			} else {
				e.S.Bad(rule, site, construct, "for this residue class the separator is not placed exactly where a multiple of three digits remains to the right", pos, "")
			}
		}
	}
}

// ruleC13Emit: the formatter writes the decimal digits of the shortened value in order, then the unit, nothing else.
func ruleC13Emit(e *Env) {
	const rule = "C13.emit"
	fn := e.Fn(rule, "size", "DefaultFormatter")
	sh := e.P.Method("size", "Size", "Shorten")
	if fn == nil || sh == nil {
		return
	}
	site := flow.FnName(fn)
	pos := e.Pos(fn)
	var shCall *ssa.Call
	for _, c := range e.C.Calls(fn, func(f *ssa.Function) bool { return f == sh }) {
		shCall = c
	}
	if shCall == nil || flow.Strip(shCall.Call.Args[0]) != ssa.Value(fn.Params[1]) {
		e.S.Bad(rule, site, "shorten", "the formatter does not shorten the size it is given", pos, "")
		return
	}
	var val, unit ssa.Value
	for _, r := range *shCall.Referrers() {
		if ex, ok := r.(*ssa.Extract); ok {
			if ex.Index == 0 {
				val = ex
			} else {
				unit = ex
			}
		}
	}
	var digits ssa.Value
	for _, c := range e.C.Calls(fn, func(f *ssa.Function) bool {
		return f.String() == "strconv.FormatUint" || f.String() == "strconv.AppendUint" || f.String() == "strconv.Itoa" || f.String() == "strconv.FormatInt"
	}) {
		name := c.Call.StaticCallee().String()
		ai := 0
		if name == "strconv.AppendUint" {
			ai = 1
		}
		if c.Call.Args[ai] != val {
			e.S.Bad(rule, site, "digits", "the decimal digits are not those of the shortened value", e.posOf(c), "")
			return
		}
		if name != "strconv.Itoa" {
			if b, ok := flow.ConstInt(c.Call.Args[ai+1]); !ok || b != 10 {
				e.S.Bad(rule, site, "digits", "the value is not printed in base 10", e.posOf(c), "")
				return
			}
		}
		digits = c
	}
	if digits == nil {
		e.S.Unk(rule, site, "digits", "no strconv decimal conversion of the shortened value found", pos)
		return
	}
	e.S.Ok(rule, site, "digits", "digits = decimal text of Shorten's value", pos)
	// appends: inside the digit loop one element of the digit text at the loop index; after it the unit
	var loopAppend, unitAppend *ssa.Call
	others := 0
	for _, b := range fn.Blocks {
		for _, in := range b.Instrs {
			call, ok := in.(*ssa.Call)
			if !ok {
				continue
			}
			bi, ok := call.Call.Value.(*ssa.Builtin)
			if !ok || bi.Name() != "append" {
				continue
			}
			data := call.Call.Args[1]
			switch {
			case data == unit:
				unitAppend = call
			case isSingleElemOf(data, digits):
				loopAppend = call
			default:
				others++
			}
		}
	}
	switch {
	case loopAppend == nil:
		e.S.Bad(rule, site, "digit loop", "no append of the digit at the loop index: digits are not copied one by one in order", pos, "")
	case others > 0:
		e.S.Bad(rule, site, "digit loop", fmt.Sprintf("%d further append(s) in the formatter besides digits, separators (appendSeparator) and the unit", others), pos, "")
	default:
		e.S.Ok(rule, site, "digit loop", "each digit of the text is appended once, in order (range over the digit text)", e.posOf(loopAppend))
	}
	if unitAppend == nil {
		e.S.Bad(rule, site, "unit", "the unit returned by Shorten is not appended", pos, "")
		return
	}
	okRet := false
	for _, r := range flow.Returns(fn) {
		if len(r.Results) == 2 && r.Results[0] == ssa.Value(unitAppend) && flow.IsNilConst(r.Results[1]) {
			okRet = true
		}
	}
	if okRet && loopAppend != nil && !(unitAppend.Block() == loopAppend.Block()) {
		e.S.Ok(rule, site, "unit", "the unit is appended after the digit loop and that buffer is returned", e.posOf(unitAppend))
	} else {
		e.S.Bad(rule, site, "unit", "the buffer returned is not digits followed by the unit", e.posOf(unitAppend), "")
	}
}

// isSingleElemOf: v is the one-element variadic slice holding text[index] of the converted digit text.
func isSingleElemOf(v ssa.Value, text ssa.Value) bool {
	elems := flow.Varargs(v)
	if len(elems) != 1 || elems[0] == nil {
		return false
	}
	ld, ok := elems[0].(*ssa.UnOp)
	if !ok {
		return false
	}
	ia, ok := ld.X.(*ssa.IndexAddr)
	if !ok {
		return false
	}
	return flow.Strip(ia.X) == text
}

// ruleC13Methods: String / PrettyString / PrettyHTML render through the package-level Formatter with the documented
// flag and an empty buffer, independent of the marshal switches; the result is the formatter's bytes unchanged.
func ruleC13Methods(e *Env) {
	const rule = "C13.methods"
	gv := e.Var(rule, "size", "Formatter")
	if gv != nil {
		f := e.C.GlobalFuncInit(gv)
		if f == nil || flow.Origin(f) != e.F("size", "DefaultFormatter") {
			e.S.Bad(rule, "size.Formatter", "initialiser", "the package-level Formatter is not initialised to DefaultFormatter or is reassigned inside the module", "", "")
		} else {
			e.S.Ok(rule, "size.Formatter", "initialiser", "= DefaultFormatter, never reassigned inside the module", "")
		}
	}
	pretty, ok1 := tabConstInt(e, "size", "FormatPretty")
	html, ok2 := tabConstInt(e, "size", "FormatHTML")
	if !ok1 || !ok2 {
		e.S.Unk(rule, "size", "flags", "FormatPretty/FormatHTML constants not found", "")
		return
	}
	sums := map[string]pred.Summary{}
	if f := e.F("size", "DefaultFormatter"); f != nil {
		sums[f.String()] = func(ev *pred.Evaluator, args []pred.Val) (pred.Val, error) {
			return pred.Term{Fn: "DefaultFormatter", Args: args}, nil
		}
	}
	for _, m := range []struct {
		name string
		flag int64
		onEr string // "panic" or "decimal"
	}{{"String", 0, "decimal"}, {"PrettyString", pretty, "panic"}, {"PrettyHTML", pretty | html, "panic"}} {
		fn := e.Method(rule, "size", "Size", m.name)
		if fn == nil {
			continue
		}
		site := flow.FnName(fn)
		call := fmt.Sprintf("dyn:*size.Formatter(nil,s,%d)", m.flag)
		leaves, err := extractTree(e.P.SSA, fn, func() []pred.Val { return []pred.Val{pred.Sym{Name: "s"}} }, sums, nil, errKeyOf, binDomain)
		if err != nil {
			e.S.Unk(rule, site, m.name, err.Error(), e.Pos(fn))
			continue
		}
		for _, lf := range leaves {
			// the buffer argument may be nil or any fresh zero-length slice (capacity is only an allocation hint)
			call := call
			pre, suf := "nil? dyn:*size.Formatter#1(", fmt.Sprintf(",s,%d)", m.flag)
			for k := range lf.Assign {
				if strings.HasPrefix(k, pre) && strings.HasSuffix(k, suf) {
					buf := k[len(pre) : len(k)-len(suf)]
					if buf == "nil" || strings.HasPrefix(buf, "slice[:0](&makeslice#") && strings.Count(buf, "(") == 1 {
						call = "dyn:*size.Formatter(" + buf + suf
					}
				}
			}
			v, asked := lf.Assign["nil? "+ext(call, 1)]
			switch {
			case !asked:
				e.S.Bad(rule, site, m.name, fmt.Sprintf("does not render through the package-level Formatter(<empty buffer>, s, %d) (asked: %s)", m.flag, lf.String()), e.Pos(fn), "")
			case v == 0:
				if lf.Err != nil {
					e.S.Unk(rule, site, m.name+" ok", lf.Err.Error(), e.Pos(fn))
				} else if got := lf.Out.Ret.String(); got == ext(call, 0) && len(lf.Assign) == 1 {
					e.S.Ok(rule, site, m.name+" ok", fmt.Sprintf("= Formatter(nil, s, %d) converted (%s)", m.flag, got), e.Pos(fn))
				} else {
					e.S.Bad(rule, site, m.name+" ok", "result "+got+fmt.Sprintf("; documented: the bytes of Formatter(nil, s, %d)", m.flag), e.Pos(fn), "")
				}
			default:
				switch {
				case m.onEr == "panic" && lf.Out != nil && lf.Out.Panic:
					e.S.Ok(rule, site, m.name+" error", "panics on a formatter error, as documented", e.Pos(fn))
				case m.onEr == "decimal" && lf.Err == nil && lf.Out != nil && !lf.Out.Panic && strings.Contains(lf.Out.Ret.String(), "FormatUint"):
					e.S.Ok(rule, site, m.name+" error", "on a formatter error returns the plain decimal ("+lf.Out.Ret.String()+")", e.Pos(fn))
				default:
					msg := ""
					if lf.Err != nil {
						msg = lf.Err.Error()
					} else if lf.Out != nil {
						msg = lf.Out.Ret.String()
					}
					e.S.Bad(rule, site, m.name+" error", "formatter error path: "+msg, e.Pos(fn), "")
				}
			}
		}
	}
}

// ruleShortenSem: Size.Shorten decided by its meaning instead of its shape. The method is evaluated on a 64-bit
// vector whose 10·k low bits are zero and whose k-th group of ten is not (k = 0..6; 6: only bits 60..63 are left),
// with literal tables resolved to their contents. Every path must return (s >> 10k, the documented k-th binary unit);
// zero returns (0, "B"). Loops over the unit table, index loops, helper functions and redundant fast paths all
// evaluate to the same thing.
func ruleShortenSem(e *Env, rule string) {
	fn := e.Method(rule, "size", "Size", "Shorten")
	if fn == nil {
		return
	}
	site := flow.FnName(fn)
	pos := e.Pos(fn)
	want := []string{"B", "KiB", "MiB", "GiB", "TiB", "PiB", "EiB"}
	hook := e.globalTables()
	// zero
	{
		ev := &pred.Evaluator{Prog: e.P.SSA, Oracle: noOracle{}, GlobalInit: hook}
		out, err := ev.Eval(fn, []pred.Val{pred.Const{V: constant.MakeInt64(0)}})
		switch {
		case err != nil:
			e.S.Unk(rule, site, "zero", err.Error(), pos)
		case out.Panic || out.Ret.String() != `(0, "B")`:
			e.S.Bad(rule, site, "zero", "Shorten(0) evaluates to "+out.Ret.String()+", documented (0, \"B\")", pos, "Size(0)")
		default:
			e.S.Ok(rule, site, "zero", "zero ⇒ (0, \"B\")", pos)
		}
	}
	for k := 0; k <= 6; k++ {
		construct := fmt.Sprintf("lowest non-zero group %d", k)
		lo, hi := 10*k, 10*k+9
		if hi > 63 {
			hi = 63
		}
		mk := func() []pred.Val {
			b := pred.SymBits("s", 64, false)
			for i := 0; i < lo; i++ {
				b.B[i] = pred.Bit{K: '0'}
			}
			return []pred.Val{b}
		}
		// which bits of s a value still depends on (other bits must be known zeros)
		symSet := func(v pred.Val) (set map[int]bool, anyOne bool, ok bool) {
			b, isB := v.(pred.Bits)
			if !isB {
				return nil, false, false
			}
			set = map[int]bool{}
			for _, bit := range b.B {
				switch bit.K {
				case 's':
					if bit.Sym != "s" {
						return nil, false, false
					}
					set[bit.Idx] = true
				case '1':
					anyOne = true
				case '0':
				default:
					return nil, false, false
				}
			}
			return set, anyOne, true
		}
		fixed := func(a, b pred.Val) (int, bool, bool) {
			c, isC := b.(pred.Const)
			if !isC || c.V == nil || c.V.ExactString() != "0" {
				return 0, false, false
			}
			set, anyOne, ok := symSet(a)
			if !ok {
				return 0, false, false
			}
			if anyOne {
				return 1, true, true
			}
			all := true
			for i := lo; i <= hi; i++ {
				if !set[i] {
					all = false
				}
			}
			if all {
				return 1, true, true // contains the whole group that the scenario makes non-zero
			}
			return 0, false, false
		}
		keyOf := func(a, b pred.Val) (string, bool) {
			c, isC := b.(pred.Const)
			if !isC || c.V == nil || c.V.ExactString() != "0" {
				return "", false
			}
			set, _, ok := symSet(a)
			if !ok || len(set) == 0 {
				return "", false
			}
			var idx []int
			for i := range set {
				idx = append(idx, i)
			}
			sort.Ints(idx)
			return fmt.Sprintf("s&bits%v", idx), true
		}
		// the number of trailing zero bits of such a size lies in [10k, 10k+9] (the scenario fixes the group, not the bit)
		sums := map[string]pred.Summary{"math/bits.TrailingZeros64": func(ev *pred.Evaluator, args []pred.Val) (pred.Val, error) {
			set, anyOne, ok := symSet(args[0])
			full := ok && !anyOne
			for i := lo; full && i < 64; i++ {
				full = set[i]
			}
			if !full || len(set) != 64-lo {
				return nil, &pred.Undecided{Reason: "TrailingZeros64 of something other than the size itself"}
			}
			return pred.IntRange{Lo: int64(lo), Hi: int64(hi)}, nil
		}}
		leaves, err := extractTreeWith(e.P.SSA, fn, mk, sums, fixed, keyOf, binDomain, hook)
		if err != nil {
			e.S.Unk(rule, site, construct, err.Error(), pos)
			continue
		}
		bad := ""
		for _, lf := range leaves {
			if lf.Err != nil {
				e.S.Unk(rule, site, construct, lf.Err.Error(), pos)
				bad = "-"
				break
			}
			t, ok := lf.Out.Ret.(pred.Tuple)
			if lf.Out.Panic || !ok || len(t) != 2 {
				bad = "does not return (value, unit)"
				break
			}
			// value = s >> 10k
			vb, isB := t[0].(pred.Bits)
			okV := isB && len(vb.B) == 64
			for i := 0; okV && i < 64; i++ {
				src := i + lo
				if src < 64 {
					okV = vb.B[i].K == 's' && vb.B[i].Sym == "s" && vb.B[i].Idx == src
				} else {
					okV = vb.B[i].K == '0'
				}
			}
			if !okV {
				bad = fmt.Sprintf("returns the value %v, expected the size shifted right by %d bits", t[0], lo)
				break
			}
			if t[1].String() != quote(want[k]) {
				bad = fmt.Sprintf("returns the unit %v for a size whose largest dividing binary unit is %s (1024^%d)", t[1], want[k], k)
				break
			}
		}
		switch {
		case bad == "-":
		case bad != "":
			e.S.Bad(rule, site, construct, "a size with exactly "+fmt.Sprint(lo)+" trailing zero bits in whole groups of ten: Shorten "+bad, pos, fmt.Sprintf("Size(1<<%d)", lo))
		default:
			e.S.Ok(rule, site, construct, fmt.Sprintf("⇒ (s >> %d, %q) on every path (%d)", lo, want[k], len(leaves)), pos)
		}
	}
}

// fmtItems flattens an abstract byte sequence built by append into items: "<sym>" for opaque operands, "{sym}" for
// single symbolic bytes, literal text for constants.
func fmtItems(v pred.Val) ([]string, bool) {
	switch x := v.(type) {
	case pred.Sym:
		if x.Name == "make" {
			return nil, true
		}
		return []string{"<" + x.Name + ">"}, true
	case pred.Const:
		if x.V == nil {
			return nil, true
		}
		if x.V.Kind() == constant.String {
			if constant.StringVal(x.V) == "" {
				return nil, true
			}
			return []string{constant.StringVal(x.V)}, true
		}
	case *pred.SliceV:
		var out []string
		for _, c := range x.Elems {
			if k, ok := intOf(c.V); ok {
				out = append(out, string(rune(k)))
			} else if s, ok := c.V.(pred.Sym); ok {
				out = append(out, "{"+s.Name+"}")
			} else {
				return nil, false
			}
		}
		return out, true
	case pred.Term:
		if x.Fn == "builtin.append" && len(x.Args) == 2 {
			a, ok1 := fmtItems(x.Args[0])
			b, ok2 := fmtItems(x.Args[1])
			return append(a, b...), ok1 && ok2
		}
		if (x.Fn == "slice" || x.Fn == "slice[:0]") && len(x.Args) == 1 {
			if p, ok := x.Args[0].(pred.Ptr); ok && p.Cell != nil {
				return nil, true // zero-length slice of a fresh local array
			}
		}
	}
	return nil, false
}

// ruleFormatSem: size.DefaultFormatter decided by its meaning. For every digit count n = 1..20 (all a uint64 can
// have) and each of the four flag combinations the formatter is evaluated with Shorten's results opaque and the
// decimal text a sequence of n symbolic digits: the result must be buf, the digits in order with the separator of
// that flag combination after every digit that has a multiple of three digits to its right (which puts exactly one
// before the unit), then the unit — and nothing else.
func ruleFormatSem(e *Env, rule string) {
	fn := e.Fn(rule, "size", "DefaultFormatter")
	sh := e.P.Method("size", "Size", "Shorten")
	if fn == nil || sh == nil {
		return
	}
	site := flow.FnName(fn)
	pos := e.Pos(fn)
	pretty, ok1 := tabConstInt(e, "size", "FormatPretty")
	html, ok2 := tabConstInt(e, "size", "FormatHTML")
	if !ok1 || !ok2 || pretty == 0 || html == 0 || pretty == html {
		e.S.Unk(rule, site, "flags", "FormatPretty/FormatHTML constants not found or not distinct bits", pos)
		return
	}
	hook := e.globalTables()
	for _, c := range []struct {
		f    int64
		sep  string
		name string
	}{{0, "", "plain"}, {pretty, " ", "pretty"}, {pretty | html, "&nbsp;", "pretty|html"}, {html, "", "html only"}} {
		bad := ""
		undecided := ""
		for n := 1; n <= 20 && bad == "" && undecided == ""; n++ {
			digits := func() *pred.SliceV {
				sv := &pred.SliceV{}
				for i := 0; i < n; i++ {
					sv.Elems = append(sv.Elems, &pred.Cell{V: pred.Sym{Name: fmt.Sprintf("d%d", i)}, Name: "digit"})
				}
				return sv
			}
			emptyDst := func(v pred.Val) bool {
				items, ok := fmtItems(v)
				return ok && len(items) == 0
			}
			sums := map[string]pred.Summary{
				sh.String(): func(ev *pred.Evaluator, args []pred.Val) (pred.Val, error) {
					return pred.Tuple{pred.Sym{Name: "value"}, pred.Sym{Name: "unit"}}, nil
				},
				"strconv.FormatUint": func(ev *pred.Evaluator, args []pred.Val) (pred.Val, error) {
					if len(args) != 2 || args[0].String() != "value" || args[1].String() != "10" {
						return nil, &pred.Undecided{Reason: "FormatUint is not applied to (Shorten's value, 10)"}
					}
					return digits(), nil
				},
				"strconv.AppendUint": func(ev *pred.Evaluator, args []pred.Val) (pred.Val, error) {
					if len(args) != 3 || args[1].String() != "value" || args[2].String() != "10" || !emptyDst(args[0]) {
						return nil, &pred.Undecided{Reason: "AppendUint is not applied to (an empty scratch buffer, Shorten's value, 10)"}
					}
					return digits(), nil
				},
			}
			ev := &pred.Evaluator{Prog: e.P.SSA, Oracle: noOracle{}, Summaries: sums, GlobalInit: hook}
			out, err := ev.Eval(fn, []pred.Val{pred.Sym{Name: "buf"}, pred.Sym{Name: "s"}, pred.Const{V: constant.MakeInt64(c.f)}})
			if err != nil {
				undecided = fmt.Sprintf("%d digits: %v", n, err)
				break
			}
			t, ok := out.Ret.(pred.Tuple)
			if out.Panic || !ok || len(t) != 2 || t[1].String() != "nil" {
				bad = fmt.Sprintf("%d digits: the formatter does not return (bytes, nil)", n)
				break
			}
			items, ok := fmtItems(t[0])
			if !ok {
				undecided = fmt.Sprintf("%d digits: result %v is not an append chain over buf", n, t[0])
				break
			}
			want := "<buf>"
			for i := 0; i < n; i++ {
				want += fmt.Sprintf("{d%d}", i)
				if (n-1-i)%3 == 0 {
					want += c.sep
				}
			}
			want += "<unit>"
			if got := strings.Join(items, ""); got != want {
				bad = fmt.Sprintf("a value of %d digits with flags %s renders as %s, documented %s", n, c.name, got, want)
			}
		}
		switch {
		case undecided != "":
			e.S.Unk(rule, site, c.name, "not evaluable: "+undecided, pos)
		case bad != "":
			e.S.Bad(rule, site, c.name, bad, pos, "")
		default:
			e.S.Ok(rule, site, c.name, fmt.Sprintf("1..20 digits: buf, digits grouped in threes from the right with %q, one %q before the unit, the unit", c.sep, c.sep), pos)
		}
	}
}
