package props

import (
	"fmt"
	"go/constant"
	"go/types"
	"strconv"
	"strings"

	"utilcheck/flow"
	"utilcheck/lang"
	"utilcheck/pred"
)

func init() {
	register(&Prop{
		ID:    "C01",
		Title: "Date text round-trip is lossless and canonical",
		Run:   runC01,
		Explanation: "C01.fmt: both format constants that reach internal.Bprintf from date.DefaultFormatter (selected by FormatBasic) are read by meaning: integer verbs, zero-padded, minimum 4/2/2 digits, separated by '-','-' (extended) or by nothing (basic), nothing before or after; the three arguments are year, month, day of the receiver in that order (symbolic evaluation, canonical root±const form). " +
			"C01.enc: zero-based encoding: every store into year/month/day is (calendar component) − 1 or 0 for the zero time, every read leaving the type (Date, Year, Month, Day, Time) is field + 1 with the right sign/zero extension. " +
			"C01.lang: every canonical text D{4,9}-MM-DD / D{4,9}MMDD with MM 01..12 and DD 01..31 lies in the parser's accepted layout language (regexp ∩ separator decision table); capture groups 2 and 3 have fixed width 2, group 1 is D{4,9}; captures flow through Atoi into New(year, month, day) in that order. " +
			"C01.buffer: internal.Bprintf and date.DefaultFormatter hand back the caller's buffer extended by append-only operations, never storage shared with a later call (the summary C01.fmt relies on; rule shared with C16). C01.enc also covers date.New = FromTime(time.Date(y,m,d,0,0,0,0,UTC)). C01.paths: MarshalText/String/Format are in the method set of the value type, UnmarshalText in that of the pointer, and neither has a method the standard JSON/XML encoders prefer to the text methods (MarshalJSON, UnmarshalXML, …). C01.parse: the parser's accepted value is New(number of capture 1, 2, 3), accepted only when the constructed date has those components, on the extended and basic layouts with 4- and 9-digit years and with the rule bit clear or set. C01.limit: the default MaxInputLength admits the longest canonical text for years ≤ 9999. S-DELEG: MarshalText/String/Format/UnmarshalText reach DefaultFormatter/DefaultParser only through the package-level Formatter/Parser with the documented flag; verb table b/e/s." +
			" Added after the second rule audit: the layout table and the construction are also extracted with the limit raised (set, the text within it), not only disabled; C01.subject: the pattern is applied to the whole input and a failed match is an error; the formatter is also evaluated with every other flag bit set (no undocumented flag selects another layout); C01.paths: an exported function or method of the package that takes a text and is not one of the recorded input paths must hand that text unchanged to one of them (else undecided). Since audit round 3: Scan is evaluated for string, []byte, int64, float64 and bool sources; an input path added later is anything that takes a text and yields a Date (with or without an error result), may only hand its text on unexamined and must return the recorded path's result as it came; the construction is also read for 5- to 8-digit years; a verb singled out by a range test gets scenarios on both sides of the bound.",
		NotDecided:  []string{"time.Date∘Time.Date is the identity on real dates (trusted summary)", "behaviour for negative years or years beyond int32", "encoding/json and encoding/xml call MarshalText/UnmarshalText (stdlib)"},
		Assumptions: []string{"fmt %0Nd prints at least N digits, zero padded, for non-negative integers"},
		Technique:   "format-string reading + symbolic evaluation (affine/bit provenance) + regular-language inclusion",
	})
}

func runC01(e *Env) {
	ruleC01Fmt(e)
	ruleC01Enc(e)
	ruleC01Lang(e)
	ruleDeleg(e, "C01.deleg", "date")
	ruleNewDeleg(e, "C01.enc")
	ruleLimitAccept(e, "C01.limit", "date")
	ruleC01Paths(e)
	// "parsing that text … returns a date equal to the original": the accepted value is New(the three written
	// numbers) for every layout and year width (the construction half of C09's decision tree)
	e.As(map[string]string{"C09.valid": "C01.parse", "C09.comp": "C01.parse"}, func() { ruleC09Sem(e) })
	e.S.Floor("C01.parse", 13)
	// … of the text itself: the pattern is applied to the whole input (a text cut to the ten characters of the
	// four-digit layout no longer holds a five-digit year) and a failed match is an error
	ruleNoMatchRejects(e, "C01.subject", e.Fn("C01.subject", "date", "DefaultParser"))
	e.S.Floor("C01.subject", 2)
	// "through any input path": an exported function or method of the package that takes a text and is not one of the
	// paths read here hands that text, whole and unchanged, to one of them — or what it accepts is not known
	ruleLateEntriesDelegate(e, "C01.paths", "date", "Date")
	ruleScanPath(e, "C01.paths")
	// C01.fmt takes Bprintf as "append the formatted text to buf": that summary is an obligation of its own —
	// the bytes handed back are the caller's buffer extended, not storage shared with later calls
	if fs := funcs(e.Fn("C01.buffer", "date", "DefaultFormatter"), e.Fn("C01.buffer", "internal", "Bprintf")); len(fs) == 2 {
		e.FlowAs(map[string]string{"C16.append": "C01.buffer", "C16.indep": "C01.buffer"}, func(c *flow.Ctx) {
			c.RuleAppendOnly(fs...)
			c.RuleBufIndependent(fs...)
		})
	}
	e.S.Floor("C01.buffer", 4)
	e.S.Floor("C01.fmt", 9)
	e.S.Floor("C01.enc", 12)
	e.S.Floor("C01.lang", 6)
	e.S.Floor("C01.deleg", 14)
}

// ruleC01Paths: the JSON and XML paths of the property are the text methods only if the standard encoders pick
// them: MarshalText/String/Format in the method set of the value type, UnmarshalText in that of the pointer, and no
// method of higher priority for encoding/json or encoding/xml (MarshalJSON, UnmarshalJSON, MarshalXML, …) on either.
func ruleC01Paths(e *Env) {
	const rule = "C01.paths"
	sp := e.P.ByName["date"]
	if sp == nil || sp.Type("Date") == nil {
		e.S.Unk(rule, "date.Date", "anchor", "type not found", "")
		return
	}
	T := sp.Type("Date").Type()
	has := func(t types.Type, name string) bool {
		ms := e.P.SSA.MethodSets.MethodSet(t)
		for i := 0; i < ms.Len(); i++ {
			if ms.At(i).Obj().Name() == name {
				return true
			}
		}
		return false
	}
	for _, m := range []string{"MarshalText", "String", "Format"} {
		if has(T, m) {
			e.S.Ok(rule, "date.Date", m, "in the method set of the value type (picked for values and pointers alike)", "")
		} else {
			e.S.Bad(rule, "date.Date", m, m+" is not in the method set of the value type date.Date: fmt and the encoders do not reach it for non-addressable values", "", "")
		}
	}
	if has(types.NewPointer(T), "UnmarshalText") {
		e.S.Ok(rule, "date.Date", "UnmarshalText", "in the method set of *date.Date", "")
	} else {
		e.S.Bad(rule, "date.Date", "UnmarshalText", "UnmarshalText is not in the method set of *date.Date", "", "")
	}
	for _, m := range []string{"MarshalJSON", "UnmarshalJSON", "MarshalXML", "UnmarshalXML", "MarshalXMLAttr", "UnmarshalXMLAttr"} {
		if has(types.NewPointer(T), m) {
			e.S.Unk(rule, "date.Date", m, m+" takes priority over the text methods in the standard encoder; its output is not covered by the rules of the text path", "")
		} else {
			e.S.Ok(rule, "date.Date", m, "absent: the standard encoder falls through to the text methods", "")
		}
	}
	e.S.Floor(rule, 10)
}

func ruleC01Fmt(e *Env) {
	const rule = "C01.fmt"
	fn := e.Fn(rule, "date", "DefaultFormatter")
	bp := e.Fn(rule, "internal", "Bprintf")
	a := newDateAbs(e)
	if fn == nil || bp == nil || a == nil {
		return
	}
	// the rule reads the format and its arguments at the call of Bprintf: that Bprintf hands them to fmt unchanged
	// is an obligation of this property too
	ruleBprintf(e, rule, bp)
	site := flow.FnName(fn)
	basic, ok := tabConstInt(e, "date", "FormatBasic")
	if !ok {
		e.S.Unk(rule, site, "FormatBasic", "constant not found", e.Pos(fn))
		return
	}
	for _, c := range []struct {
		name string
		flag int64
		sep  string
	}{{"extended", 0, "-"}, {"basic", basic, ""},
		// every other flag bit set: no undocumented flag selects another layout
		{"extended (other flag bits set)", ^basic, "-"}, {"basic (other flag bits set)", -1, ""}} {
		captured, ret, err := e.formatCall(fn, []pred.Val{pred.Sym{Name: "buf"}, a.recv("d"), pred.Const{V: constant.MakeInt64(c.flag)}})
		if err != nil {
			e.S.Unk(rule, site, c.name, "not evaluable: "+err.Error(), e.Pos(fn))
			continue
		}
		if captured == nil {
			e.S.Bad(rule, site, c.name+" result", fmt.Sprintf("the formatter returns %v, not (buf followed by one fmt rendering, nil)", ret), e.Pos(fn), "")
			continue
		}
		if t, ok := ret.(pred.Tuple); !ok || len(t) != 2 || t[1].String() != "nil" || captured[0].String() != "buf" {
			e.S.Bad(rule, site, c.name+" result", fmt.Sprintf("the formatter returns %v, not (Bprintf(buf, …), nil)", ret), e.Pos(fn), "")
		} else {
			e.S.Ok(rule, site, c.name+" result", "returns (Bprintf(buf, format, …), nil)", e.Pos(fn))
		}
		fc, ok := captured[1].(pred.Const)
		if !ok || fc.V == nil || fc.V.Kind() != constant.String {
			e.S.Unk(rule, site, c.name+" format", "format is not a constant", e.Pos(fn))
			continue
		}
		format := constant.StringVal(fc.V)
		items := flow.ParseFormat(format)
		// expected shape: verb sep verb sep verb
		minW := []int{4, 2, 2}
		k := 0
		shapeOK := true
		var why string
		expectLit := false
		for _, it := range items {
			if it.Verb == 0 {
				if !expectLit || it.Lit != c.sep || c.sep == "" {
					shapeOK, why = false, fmt.Sprintf("unexpected literal %q", it.Lit)
				}
				expectLit = false
				continue
			}
			if k >= 3 {
				shapeOK, why = false, "more than three fields"
				break
			}
			if expectLit && c.sep != "" {
				shapeOK, why = false, "missing separator before field "+fmt.Sprint(k)
			}
			w, _ := strconv.Atoi(it.Width)
			zero := strings.Contains(it.Flags, "0") && !strings.Contains(it.Flags, "-")
			if it.Prec != "" {
				w, _ = strconv.Atoi(it.Prec)
				zero = true
			}
			if !(it.Verb == 'd') || !zero || w != minW[k] || strings.ContainsAny(it.Flags, "+ #") || it.ArgIx > 0 && it.ArgIx != k+1 {
				shapeOK, why = false, fmt.Sprintf("field %d is %%%s%s%c, required: zero-padded decimal with minimum width %d", k, it.Flags, it.Width+map[bool]string{true: "." + it.Prec, false: ""}[it.Prec != ""], it.Verb, minW[k])
			}
			k++
			expectLit = true
		}
		if k != 3 && shapeOK {
			shapeOK, why = false, fmt.Sprintf("%d fields instead of year, month, day", k)
		}
		if shapeOK {
			e.S.Ok(rule, site, c.name+" format", fmt.Sprintf("%q ≡ YYYY%sMM%sDD zero-padded (4,2,2)", format, c.sep, c.sep), e.Pos(fn))
		} else {
			e.S.Bad(rule, site, c.name+" format", fmt.Sprintf("format %q is not the ISO shape YYYY%sMM%sDD: %s", format, c.sep, c.sep, why), e.Pos(fn), format)
		}
		sv, ok := captured[2].(*pred.SliceV)
		if !ok || len(sv.Elems) != 3 {
			e.S.Bad(rule, site, c.name+" arguments", fmt.Sprintf("the format is not applied to exactly (year, month, day): %v", captured[2]), e.Pos(fn), "")
			continue
		}
		want := []pred.Val{a.wantY("d"), a.wantM("d"), a.wantD("d")}
		for i, cell := range sv.Elems {
			name := []string{"year", "month", "day"}[i]
			ifc, ok := cell.V.(pred.Iface)
			if !ok {
				e.S.Unk(rule, site, c.name+" "+name, fmt.Sprintf("argument %v", cell.V), e.Pos(fn))
				continue
			}
			g, ok1 := pred.Canon(ifc.V)
			w, _ := pred.Canon(want[i])
			if ok1 && g == w {
				e.S.Ok(rule, site, c.name+" "+name, fmt.Sprintf("argument %d = %v", i, g), e.Pos(fn))
			} else {
				e.S.Bad(rule, site, c.name+" "+name, fmt.Sprintf("argument %d is %v, the %s of the date is %v", i, canonVal(ifc.V), name, w), e.Pos(fn), "")
			}
		}
	}
}

// ruleC01Enc: accessors read field+1; stores are component−1 (the latter shared with C07.deleg's FromTime rule).
func ruleC01Enc(e *Env) {
	const rule = "C01.enc"
	a := newDateAbs(e)
	if a == nil {
		return
	}
	wants := map[string][]pred.Val{
		"Date":  {a.wantY("d"), a.wantM("d"), a.wantD("d")},
		"Year":  {a.wantY("d")},
		"Month": {a.wantM("d")},
		"Day":   {a.wantD("d")},
	}
	for _, name := range []string{"Date", "Year", "Month", "Day"} {
		fn := e.Method(rule, "date", "Date", name)
		if fn == nil {
			continue
		}
		site := flow.FnName(fn)
		ev := &pred.Evaluator{Prog: e.P.SSA, GlobalInit: e.globalTables(), Oracle: noOracle{}}
		out, err := ev.Eval(fn, []pred.Val{a.recv("d")})
		if err != nil {
			e.S.Unk(rule, site, name, err.Error(), e.Pos(fn))
			continue
		}
		var got []pred.Val
		if t, ok := out.Ret.(pred.Tuple); ok {
			got = t
		} else {
			got = []pred.Val{out.Ret}
		}
		if len(got) != len(wants[name]) {
			e.S.Bad(rule, site, name, fmt.Sprintf("returns %d values", len(got)), e.Pos(fn), "")
			continue
		}
		for i := range got {
			g, ok := pred.Canon(got[i])
			w, _ := pred.Canon(wants[name][i])
			construct := fmt.Sprintf("%s#%d", name, i)
			if ok && g == w {
				e.S.Ok(rule, site, construct, fmt.Sprintf("= %v", w), e.Pos(fn))
			} else {
				e.S.Bad(rule, site, construct, fmt.Sprintf("returns %v; the zero-based field encoding requires %v", canonVal(got[i]), w), e.Pos(fn), "")
			}
		}
	}
	// Time() arguments and the stores (FromTime) are the other half of the encoding
	ruleFromTime(e, rule, a)
	if fn := e.Method(rule, "date", "Date", "Time"); fn != nil {
		ev := &pred.Evaluator{Prog: e.P.SSA, GlobalInit: e.globalTables(), Oracle: noOracle{}}
		out, err := ev.Eval(fn, []pred.Val{a.recv("d")})
		switch {
		case err != nil:
			e.S.Unk(rule, flow.FnName(fn), "Time", err.Error(), e.Pos(fn))
		case canonVal(out.Ret).String() == a.canonTime("d"):
			e.S.Ok(rule, flow.FnName(fn), "Time", "= time.Date(year+1, month+1, day+1, 0,0,0,0, UTC)", e.Pos(fn))
		default:
			e.S.Bad(rule, flow.FnName(fn), "Time", fmt.Sprintf("= %v, required %s", canonVal(out.Ret), a.canonTime("d")), e.Pos(fn), "")
		}
	}
}

func ruleC01Lang(e *Env) {
	const rule = "C01.lang"
	mm := two(func(i int) bool { return i >= 1 && i <= 12 })
	dd := two(func(i int) bool { return i >= 1 && i <= 31 })
	dl := dateLayoutLanguages(e, rule,
		`^[0-9]{4,9}-`+mm+`-`+dd+`$`, `^[0-9]{4,9}`+mm+dd+`$`)
	if dl == nil {
		return
	}
	site := "date.DefaultParser"
	e.langSubset(rule, site, "canonical extended texts accepted", dl.sp, dl.extra[0], dl.acc0, "D{4,9}-MM-DD (MM 01..12, DD 01..31)", "accepted layouts")
	e.langSubset(rule, site, "canonical basic texts accepted", dl.sp, dl.extra[1], dl.acc0, "D{4,9}MMDD (MM 01..12, DD 01..31)", "accepted layouts")
	// … and the same with the limit raised instead of disabled (set, the text within it)
	dateLimitOn = true
	dl2 := dateLayoutLanguages(e, rule,
		`^[0-9]{4,9}-`+mm+`-`+dd+`$`, `^[0-9]{4,9}`+mm+dd+`$`)
	dateLimitOn = false
	if dl2 != nil {
		e.langSubset(rule, site, "canonical extended texts accepted (limit raised)", dl2.sp, dl2.extra[0], dl2.acc0, "D{4,9}-MM-DD (MM 01..12, DD 01..31)", "accepted layouts")
		e.langSubset(rule, site, "canonical basic texts accepted (limit raised)", dl2.sp, dl2.extra[1], dl2.acc0, "D{4,9}MMDD (MM 01..12, DD 01..31)", "accepted layouts")
	}
	// capture widths
	pat, ok := e.pattern(rule, "date", "pattern")
	if !ok {
		return
	}
	if n, err := lang.NumCap(pat); err != nil || n != 3 {
		e.S.Bad(rule, "date.pattern", "captures", fmt.Sprintf("pattern must have 3 capture groups (year, month, day), has %d", n), "", "")
		return
	}
	var pats []string
	for k := 1; k <= 3; k++ {
		sub, err := lang.CaptureSub(pat, k)
		if err != nil {
			e.S.Unk(rule, "date.pattern", fmt.Sprintf("capture %d", k), err.Error(), "")
			return
		}
		pats = append(pats, `^(?:`+sub+`)$`)
	}
	pats = append(pats, `^[0-9]{4,9}$`, `^[0-9]{2}$`)
	sp, ds, err := lang.Build(pats...)
	if err != nil {
		e.S.Unk(rule, "date.pattern", "automaton", err.Error(), "")
		return
	}
	e.langSubset(rule, "date.pattern", "capture 1 width", sp, ds[0], ds[3], "capture 1", "[0-9]{4,9}")
	e.langSubset(rule, "date.pattern", "capture 2 width", sp, ds[1], ds[4], "capture 2", "[0-9]{2}")
	e.langSubset(rule, "date.pattern", "capture 3 width", sp, ds[2], ds[4], "capture 3", "[0-9]{2}")
	// limit
	if g := e.Var("C01.limit", "date", "MaxInputLength"); g != nil {
		if v, ok := e.globalIntInit(g); !ok {
			e.S.Unk("C01.limit", "date.MaxInputLength", "default", "initial value is not a constant", "")
		} else if v != 0 && v < 10 {
			e.S.Bad("C01.limit", "date.MaxInputLength", "default", fmt.Sprintf("default limit %d rejects the 10-character canonical text YYYY-MM-DD", v), "", "2021-01-01")
		} else {
			e.S.Ok("C01.limit", "date.MaxInputLength", "default", fmt.Sprintf("default %d admits YYYY-MM-DD (10 characters)", v), "")
		}
	}
}
