package props

import (
	"go/types"
	"golang.org/x/tools/go/ssa"
	"sort"

	"utilcheck/flow"
)

// parserEntry lists the parser-level entry points per package (functions taking a ParserInput at index 0).
var parserEntries = map[string][]string{
	"date":  {"DefaultParser"},
	"roman": {"DefaultParser", "Valid"},
	"sem":   {"DefaultParser", "Parse", "ParseTag", "ParseVersion"},
	"size":  {"DefaultParser"},
	"uu":    {"DefaultParser"},
}

// unmarshalMethods are the pointer-receiver decoding methods of the value types.
var unmarshalMethods = [][3]string{
	{"date", "Date", "UnmarshalText"}, {"date", "Date", "UnmarshalBinary"}, {"date", "Date", "Scan"},
	{"roman", "Number", "UnmarshalText"},
	{"sem", "Ver", "UnmarshalText"},
	{"size", "Size", "UnmarshalText"}, {"size", "Size", "UnmarshalJSON"},
	{"uu", "ID", "UnmarshalText"},
}

// ruleWrap instantiates S-WRAP(i) for the given packages under ruleName.
func ruleWrap(e *Env, ruleName string, pkgs ...string) {
	e.Flow(func(c *flow.Ctx) {
		c.RuleWrap(e.PkgFuncs(pkgs...))
		for i := range c.Out {
			c.Out[i].Rule = ruleName
		}
	})
	// an error type of the package that carries another error (a field or an embedded value of type error) must expose
	// it through Unwrap() error — otherwise errors.Is / errors.As cannot see a documented sentinel stored in it
	for _, pkg := range pkgs {
		sp := e.P.ByName[pkg]
		if sp == nil {
			continue
		}
		errT := types.Universe.Lookup("error").Type()
		var names []string
		for n := range sp.Members {
			names = append(names, n)
		}
		sort.Strings(names)
		for _, n := range names {
			tm, ok := sp.Members[n].(*ssa.Type)
			if !ok {
				continue
			}
			named, ok := tm.Type().(*types.Named)
			if !ok {
				continue
			}
			st, ok := named.Underlying().(*types.Struct)
			if !ok {
				continue
			}
			isErr := types.Implements(named, errT.Underlying().(*types.Interface)) || types.Implements(types.NewPointer(named), errT.Underlying().(*types.Interface))
			carries := false
			for i := 0; i < st.NumFields(); i++ {
				if types.Identical(st.Field(i).Type(), errT) {
					carries = true
				}
			}
			if !isErr || !carries {
				continue
			}
			hasUnwrap := false
			for _, recv := range []types.Type{named, types.NewPointer(named)} {
				ms := types.NewMethodSet(recv)
				if sel := ms.Lookup(sp.Pkg, "Unwrap"); sel != nil {
					if sig, ok := sel.Type().(*types.Signature); ok && sig.Params().Len() == 0 && sig.Results().Len() == 1 && types.Identical(sig.Results().At(0).Type(), errT) {
						hasUnwrap = true
					}
				}
			}
			site := pkg + "." + n
			if hasUnwrap {
				e.S.Ok(ruleName, site, "Unwrap", "error type carrying an error exposes it through Unwrap() error", "")
			} else {
				e.S.Bad(ruleName, site, "Unwrap", "error type "+n+" stores another error but has no Unwrap() error method: errors.Is cannot find a documented sentinel wrapped in it", "", "")
			}
		}
	}
}

// ruleErrZero instantiates S-ERRZERO for the given packages under ruleName.
func ruleErrZero(e *Env, ruleName string, pkgs ...string) {
	e.Flow(func(c *flow.Ctx) {
		c.RuleErrZero(e.PkgFuncs(pkgs...))
		for i := range c.Out {
			c.Out[i].Rule = ruleName
		}
	})
}

// ruleLimitAccept instantiates the part of C18.L that accept-exactly / round-trip properties depend on: no input
// within the limit is rejected for its length (strict comparison, `!= 0` conjunct, the too-long sentinel produced
// only on the too-long edge). Where the guard sits and what the error carries is C18's own business.
func ruleLimitAccept(e *Env, ruleName string, pkgs ...string) {
	for _, pkg := range pkgs {
		sent := e.Var(ruleName, pkg, "ErrInputTooLong")
		if sent == nil {
			continue
		}
		e.Flow(func(c *flow.Ctx) {
			c.RuleLimitZero(e.PkgFuncs(pkg), "MaxInputLength")
			c.RuleSentinelOnlyInGuards(sent, e.PkgFuncs(pkg))
			for i := range c.Out {
				switch c.Out[i].Rule {
				case "C18.L", "LIMIT0":
					c.Out[i].Rule = ruleName
				}
			}
		})
	}
}

// ruleLimit instantiates C18.L for the parser entry points of the given packages under ruleName.
func ruleLimit(e *Env, ruleName string, pkgs ...string) {
	for _, pkg := range pkgs {
		sent := e.Var(ruleName, pkg, "ErrInputTooLong")
		if sent == nil {
			continue
		}
		var fs []*ssa.Function
		for _, n := range parserEntries[pkg] {
			if f := e.Fn(ruleName, pkg, n); f != nil {
				fs = append(fs, f)
			}
		}
		e.Flow(func(c *flow.Ctx) {
			for _, f := range fs {
				c.RuleLimitFirst(f, 0, sent, 0)
			}
			c.RuleLimitZero(e.PkgFuncs(pkg), "MaxInputLength")
			c.RuleSentinelOnlyInGuards(sent, e.PkgFuncs(pkg))
			c.RuleLimitOnce(sent, e.PkgFuncs(pkg))
			for i := range c.Out {
				switch c.Out[i].Rule {
				case "C18.L", "LIMIT0":
					c.Out[i].Rule = ruleName
				}
			}
		})
	}
}

// parseErrorType names the typed parse error of each value package.
var parseErrorType = map[string]string{"date": "ParseError", "roman": "NumberFormatError", "sem": "ParseError", "size": "ParseError", "uu": "ParseError"}

// ruleTyped instantiates S-WRAP(ii) for the parser entry points of the given packages under ruleName.
func ruleTyped(e *Env, ruleName string, pkgs ...string) {
	for _, pkg := range pkgs {
		for _, n := range parserEntries[pkg] {
			f := e.Fn(ruleName, pkg, n)
			if f == nil {
				continue
			}
			e.Flow(func(c *flow.Ctx) { c.RuleTypedErrors(ruleName, f, parseErrorType[pkg]) })
		}
	}
}
