package props

import (
	"fmt"
	"go/token"
	"go/types"
	"golang.org/x/tools/go/ssa"
	"sort"
	"strings"

	"utilcheck/flow"
	"utilcheck/pred"
)

// parserEntry lists the parser-level entry points per package (functions taking a ParserInput at index 0).
var parserEntries = map[string][]string{
	"date":  {"DefaultParser"},
	"roman": {"DefaultParser", "Valid"},
	"sem":   {"DefaultParser", "Parse", "ParseTag", "ParseVersion"},
	"size":  {"DefaultParser"},
	"uu":    {"DefaultParser"},
}

// unmarshalMethods are the pointer-receiver decoding methods of the value types.
var unmarshalMethods = [][3]string{
	{"date", "Date", "UnmarshalText"}, {"date", "Date", "UnmarshalBinary"}, {"date", "Date", "Scan"},
	{"roman", "Number", "UnmarshalText"},
	{"sem", "Ver", "UnmarshalText"},
	{"size", "Size", "UnmarshalText"}, {"size", "Size", "UnmarshalJSON"},
	{"uu", "ID", "UnmarshalText"},
}

// ruleWrap instantiates S-WRAP(i) for the given packages under ruleName.
func ruleWrap(e *Env, ruleName string, pkgs ...string) {
	e.Flow(func(c *flow.Ctx) {
		c.RuleWrap(e.PkgFuncs(pkgs...))
		for i := range c.Out {
			c.Out[i].Rule = ruleName
		}
	})
	// an error type of the package that carries another error (a field or an embedded value of type error) must expose
	// it through Unwrap() error — otherwise errors.Is / errors.As cannot see a documented sentinel stored in it
	for _, pkg := range pkgs {
		sp := e.P.ByName[pkg]
		if sp == nil {
			continue
		}
		errT := types.Universe.Lookup("error").Type()
		var names []string
		for n := range sp.Members {
			names = append(names, n)
		}
		sort.Strings(names)
		for _, n := range names {
			tm, ok := sp.Members[n].(*ssa.Type)
			if !ok {
				continue
			}
			named, ok := tm.Type().(*types.Named)
			if !ok {
				continue
			}
			st, ok := named.Underlying().(*types.Struct)
			if !ok {
				continue
			}
			isErr := types.Implements(named, errT.Underlying().(*types.Interface)) || types.Implements(types.NewPointer(named), errT.Underlying().(*types.Interface))
			carries := false
			for i := 0; i < st.NumFields(); i++ {
				if types.Identical(st.Field(i).Type(), errT) {
					carries = true
				}
			}
			if !isErr || !carries {
				continue
			}
			hasUnwrap := false
			unwrapBad := ""
			for _, recv := range []types.Type{named, types.NewPointer(named)} {
				ms := e.P.SSA.MethodSets.MethodSet(recv)
				if sel := ms.Lookup(sp.Pkg, "Unwrap"); sel != nil {
					if sig, ok := sel.Type().(*types.Signature); ok && sig.Params().Len() == 0 && sig.Results().Len() == 1 && types.Identical(sig.Results().At(0).Type(), errT) {
						hasUnwrap = true
						// … and what it hands back is the stored error itself: every return is a load of an error-typed
						// field of the receiver (not nil, not that error unwrapped once more)
						if fn := e.P.SSA.MethodValue(sel); fn != nil && fn.Synthetic == "" && len(fn.Blocks) > 0 {
							for _, r := range flow.Returns(flow.Origin(fn)) {
								okRet := false
								if len(r.Results) == 1 {
									switch v := r.Results[0].(type) {
									case *ssa.UnOp:
										if fa, isFA := v.X.(*ssa.FieldAddr); isFA && v.Op == token.MUL && flow.RootParam(fa.X) == flow.Origin(fn).Params[0] && types.Identical(v.Type(), errT) {
											okRet = true
										}
									case *ssa.Field:
										if flow.RootParam(v.X) == flow.Origin(fn).Params[0] && types.Identical(v.Type(), errT) {
											okRet = true
										}
									}
								}
								if !okRet {
									unwrapBad = "Unwrap of " + n + " returns something other than the error stored in the receiver (" + e.posOf(r) + "): errors.Is does not reach a documented sentinel wrapped in it"
								}
							}
						}
					}
				}
			}
			site := pkg + "." + n
			if hasUnwrap && unwrapBad != "" {
				e.S.Bad(ruleName, site, "Unwrap", unwrapBad, "", "")
			} else if hasUnwrap {
				e.S.Ok(ruleName, site, "Unwrap", "error type carrying an error exposes it through Unwrap() error", "")
			} else {
				e.S.Bad(ruleName, site, "Unwrap", "error type "+n+" stores another error but has no Unwrap() error method: errors.Is cannot find a documented sentinel wrapped in it", "", "")
			}
		}
	}
}

// ruleErrZero instantiates S-ERRZERO for the given packages under ruleName.
func ruleErrZero(e *Env, ruleName string, pkgs ...string) {
	e.Flow(func(c *flow.Ctx) {
		c.RuleErrZero(e.PkgFuncs(pkgs...))
		for i := range c.Out {
			c.Out[i].Rule = ruleName
		}
	})
}

// ruleLimitAccept instantiates the part of C18.L that accept-exactly / round-trip properties depend on: no input
// within the limit is rejected for its length (strict comparison, `!= 0` conjunct, the too-long sentinel produced
// only on the too-long edge). Where the guard sits and what the error carries is C18's own business.
func ruleLimitAccept(e *Env, ruleName string, pkgs ...string) {
	for _, pkg := range pkgs {
		sent := e.Var(ruleName, pkg, "ErrInputTooLong")
		if sent == nil {
			continue
		}
		e.Flow(func(c *flow.Ctx) {
			c.RuleLimitZero(e.PkgFuncs(pkg), "MaxInputLength")
			c.RuleSentinelOnlyInGuards(sent, e.PkgFuncs(pkg))
			for i := range c.Out {
				switch c.Out[i].Rule {
				case "C18.L", "LIMIT0":
					c.Out[i].Rule = ruleName
				}
			}
		})
	}
}

// parserEntryFuncs: the parser-level entry points of a package: the recorded ones (parserEntries) plus every other
// exported function of the package whose parameters include a value of a ParserInput-constrained type parameter —
// "every parsing, validating and comparing entry point", also one added later.
func parserEntryFuncs(e *Env, rule, pkg string) []*ssa.Function {
	var out []*ssa.Function
	seen := map[*ssa.Function]bool{}
	for _, n := range parserEntries[pkg] {
		if f := e.Fn(rule, pkg, n); f != nil && !seen[f] {
			seen[f] = true
			out = append(out, f)
		}
	}
	sp := e.P.ByName[pkg]
	if sp == nil {
		return out
	}
	var names []string
	for n := range sp.Members {
		names = append(names, n)
	}
	sort.Strings(names)
	for _, n := range names {
		f, ok := sp.Members[n].(*ssa.Function)
		if !ok || f.Object() == nil || !f.Object().Exported() || seen[f] || len(f.Blocks) == 0 {
			continue
		}
		if len(inputParams(f)) > 0 {
			seen[f] = true
			out = append(out, f)
		}
	}
	// … and the entry points of any other shape added later: exported functions and methods that take a text and can
	// refuse it (see lateTextEntries)
	for _, f := range lateTextEntries(e, pkg) {
		if !seen[f] {
			seen[f] = true
			out = append(out, f)
		}
	}
	return out
}

// notTextEntries: exported functions of today's tree that take a string and return an error without scanning a text
// (one line of reason each); everything else of that shape is an entry point.
var notTextEntries = map[string][]string{
	"size": {"New"}, // the unit is a key looked up in the unit table; the number is not text
}

// lateTextEntries: exported functions of the package and exported methods of its types that are not among the
// recorded entry points, take a string or []byte (or ParserInput-typed) parameter, return an error last and hand
// back no text (a formatter's buffer is not an input): a parsing, validating or decoding entry point this checker
// was not written against. They join the entry set of C17 and C18.
func lateTextEntries(e *Env, pkg string) []*ssa.Function {
	return lateEntries(e, pkg, "")
}

// lateValueEntries: the same search for entry points that cannot refuse — a text in, a value of the package's type
// `yields` out, no error result (`MustParse(s string) Date`).
func lateValueEntries(e *Env, pkg, yields string) []*ssa.Function {
	return lateEntries(e, pkg, yields)
}

// yieldsType: the function returns a value (or pointer) of the package's named type, or is a method on its pointer.
func yieldsType(f *ssa.Function, name string) bool {
	is := func(t types.Type) bool {
		if p, ok := t.(*types.Pointer); ok {
			t = p.Elem()
		}
		n, ok := t.(*types.Named)
		return ok && n.Obj().Name() == name && f.Pkg != nil && n.Obj().Pkg() == f.Pkg.Pkg
	}
	for i := 0; i < f.Signature.Results().Len(); i++ {
		if is(f.Signature.Results().At(i).Type()) {
			return true
		}
	}
	if r := f.Signature.Recv(); r != nil {
		if _, ptr := r.Type().(*types.Pointer); ptr && is(r.Type()) {
			return true
		}
	}
	return false
}

func lateEntries(e *Env, pkg, yields string) []*ssa.Function {
	sp := e.P.ByName[pkg]
	if sp == nil {
		return nil
	}
	known := map[string]bool{}
	for _, n := range parserEntries[pkg] {
		known[n] = true
	}
	for _, n := range notTextEntries[pkg] {
		known[n] = true
	}
	for _, m := range unmarshalMethods {
		if m[0] == pkg {
			known[m[1]+"."+m[2]] = true
		}
	}
	isText := func(t types.Type) bool {
		switch u := t.Underlying().(type) {
		case *types.Basic:
			return u.Info()&types.IsString != 0
		case *types.Slice:
			b, ok := u.Elem().Underlying().(*types.Basic)
			return ok && b.Kind() == types.Uint8
		}
		return false
	}
	qualifies := func(f *ssa.Function, firstParam int) bool {
		if f == nil || f.Object() == nil || !f.Object().Exported() || len(f.Blocks) == 0 {
			return false
		}
		res := f.Signature.Results()
		hasErr := res.Len() > 0 && types.Identical(res.At(res.Len()-1).Type(), types.Universe.Lookup("error").Type())
		if yields == "" && !hasErr {
			return false
		}
		if yields != "" && (hasErr || f.Signature.Recv() != nil || !yieldsType(f, yields)) {
			return false
		}
		for i := 0; i < res.Len(); i++ {
			if isText(res.At(i).Type()) {
				return false
			}
		}
		for _, p := range f.Params[firstParam:] {
			if isText(p.Type()) {
				return true
			}
		}
		return false
	}
	var out []*ssa.Function
	var names []string
	for n := range sp.Members {
		names = append(names, n)
	}
	sort.Strings(names)
	for _, n := range names {
		switch m := sp.Members[n].(type) {
		case *ssa.Function:
			if !known[n] && len(inputParams(m)) == 0 && qualifies(m, 0) {
				out = append(out, m)
			}
		case *ssa.Type:
			nt, ok := m.Type().(*types.Named)
			if !ok || !m.Object().Exported() {
				continue
			}
			for _, recv := range []types.Type{nt, types.NewPointer(nt)} {
				ms := e.P.SSA.MethodSets.MethodSet(recv)
				for i := 0; i < ms.Len(); i++ {
					sel := ms.At(i)
					if known[n+"."+sel.Obj().Name()] || sel.Obj().Pkg() != sp.Pkg {
						continue
					}
					if _, isPtr := sel.Recv().(*types.Pointer); isPtr != (recv != types.Type(nt)) {
						continue
					}
					fn := e.P.SSA.MethodValue(sel)
					if fn == nil || fn.Synthetic != "" {
						continue
					}
					if qualifies(fn, 1) {
						dup := false
						for _, o := range out {
							if o == fn {
								dup = true
							}
						}
						if !dup {
							out = append(out, fn)
						}
					}
				}
			}
		}
	}
	return out
}

// textParamIndices: the text parameters of an entry point: inputParams, or — for the later, non-generic ones — every
// string / []byte parameter behind the receiver.
func textParamIndices(f *ssa.Function) []int {
	if pis := inputParams(f); len(pis) > 0 {
		return pis
	}
	first := 0
	if f.Signature.Recv() != nil {
		first = 1
	}
	var out []int
	for i := first; i < len(f.Params); i++ {
		switch u := f.Params[i].Type().Underlying().(type) {
		case *types.Basic:
			if u.Info()&types.IsString != 0 {
				out = append(out, i)
			}
		case *types.Slice:
			if b, ok := u.Elem().Underlying().(*types.Basic); ok && b.Kind() == types.Uint8 {
				out = append(out, i)
			}
		}
	}
	return out
}

// inputParams: the indices of fn's text parameters — those of a ParserInput-constrained type parameter; when fn
// declares such type parameters but takes its texts as plain string / []byte (sem.CompareVersion), those.
func inputParams(f *ssa.Function) []int {
	isPI := func(t types.Type) bool {
		tp, ok := t.(*types.TypeParam)
		if !ok {
			return false
		}
		nt, ok := tp.Constraint().(*types.Named)
		return ok && nt.Obj().Name() == "ParserInput"
	}
	var out []int
	for i, p := range f.Params {
		if isPI(p.Type()) {
			out = append(out, i)
		}
	}
	if len(out) > 0 {
		return out
	}
	declares := false
	if tps := f.TypeParams(); tps != nil {
		for i := 0; i < tps.Len(); i++ {
			if isPI(tps.At(i)) {
				declares = true
			}
		}
	}
	if !declares {
		return nil
	}
	for i, p := range f.Params {
		switch t := p.Type().Underlying().(type) {
		case *types.Basic:
			if t.Info()&types.IsString != 0 {
				out = append(out, i)
			}
		case *types.Slice:
			if b, ok := t.Elem().Underlying().(*types.Basic); ok && b.Kind() == types.Uint8 {
				out = append(out, i)
			}
		}
	}
	return out
}

// ruleNoMatchRejects: "everything else is rejected": in each of the given functions, every call that matches a regexp
// of the module against the input decides a branch, and the branch taken when the match fails leads only to error
// returns (the decision tables of the acceptance rules are extracted under the premise "the pattern matched" and
// never look at that side). Recognised tests: len(m) == 0 / != 0, m == nil / != nil for the sub-match forms, the
// boolean result (or its negation) for Match / MatchString.
func ruleNoMatchRejects(e *Env, rule string, fns ...*ssa.Function) {
	for _, fn := range fns {
		if fn == nil {
			continue
		}
		site := flow.FnName(fn)
		n := 0
		for _, b := range fn.Blocks {
			for _, in := range b.Instrs {
				call, ok := in.(*ssa.Call)
				if !ok {
					continue
				}
				name := calleeName(&call.Call)
				isSub := name == "(*regexp.Regexp).FindSubmatch" || name == "(*regexp.Regexp).FindStringSubmatch" || name == "(*regexp.Regexp).FindSubmatchIndex" || name == "(*regexp.Regexp).FindStringSubmatchIndex"
				isBool := name == "(*regexp.Regexp).Match" || name == "(*regexp.Regexp).MatchString"
				if !isSub && !isBool {
					continue
				}
				n++
				// the regexp is the package's pattern (the one whose language the acceptance rules decide), applied to the
				// input itself (for the sub-match forms: to the input or a tail of it, e.g. behind a tag prefix)
				if pat := e.V(fn.Pkg.Pkg.Name(), "pattern"); pat != nil {
					recvOK := false
					if ld, ok := call.Call.Args[0].(*ssa.UnOp); ok && ld.Op == token.MUL && ld.X == ssa.Value(pat) {
						recvOK = true
					}
					subj := call.Call.Args[1]
					subjOK := flow.RootParam(subj) != nil && (!flow.HasSliceOnPath(subj) || fn.Pkg.Pkg.Name() == "sem")
					if !subjOK && fn.Pkg.Pkg.Name() == "sem" {
						subjOK = e.tagTrimmed(subj)
					}
					switch {
					case !recvOK:
						e.S.Bad(rule, site, "pattern", "the input is matched against something other than "+fn.Pkg.Pkg.Name()+"."+pat.Name()+", the pattern whose language is decided", e.posOf(call), "")
					case !subjOK:
						e.S.Bad(rule, site, "pattern", "the pattern is applied to something other than the whole input (a trimmed, cut or rebuilt text)", e.posOf(call), "")
					default:
						e.S.Ok(rule, site, "pattern", "matches "+fn.Pkg.Pkg.Name()+"."+pat.Name()+" against the input", e.posOf(call))
					}
				}
				// the edge taken on "no match"
				var failEdge *ssa.BasicBlock
				var test ssa.Instruction
				var visit func(v ssa.Value, negated bool, depth int)
				visit = func(v ssa.Value, negated bool, depth int) {
					if depth > 3 || v.Referrers() == nil {
						return
					}
					for _, r := range *v.Referrers() {
						switch x := r.(type) {
						case *ssa.If: // v is a boolean: true = match (unless negated)
							if x.Cond == v {
								test = x
								if negated {
									failEdge = x.Block().Succs[0]
								} else {
									failEdge = x.Block().Succs[1]
								}
							}
						case *ssa.UnOp:
							if x.Op == token.NOT {
								visit(x, !negated, depth+1)
							}
						case *ssa.Call: // len(m)
							if bi, ok := x.Call.Value.(*ssa.Builtin); ok && bi.Name() == "len" && isSub {
								for _, rr := range *x.Referrers() {
									if bo, ok := rr.(*ssa.BinOp); ok {
										if k, isC := flow.ConstInt(bo.Y); isC && k == 0 && (bo.Op == token.EQL || bo.Op == token.NEQ || bo.Op == token.GTR) {
											// len == 0: true = no match
											visit(bo, bo.Op != token.EQL, depth+1)
											// visit treats "true = match unless negated": for EQL the true edge is the failing one
											_ = bo
										}
									}
								}
							}
						case *ssa.BinOp: // m == nil / m != nil
							if isSub && (x.Op == token.EQL || x.Op == token.NEQ) && (flow.IsNilConst(x.Y) || flow.IsNilConst(x.X)) {
								visit(x, x.Op != token.EQL, depth+1)
							}
						}
					}
				}
				if isBool {
					visit(call, false, 0)
				} else {
					// for the sub-match forms the comparison results are "true = NO match" when written with ==: the
					// visit above is entered with negated = (op != EQL), and an If on such a value has its TRUE edge as
					// the failing edge when not negated — so flip the reading here
					fullLen := int64(0)
					visitSub := func() {
						var inner func(v ssa.Value, noMatchOnTrue bool, depth int)
						inner = func(v ssa.Value, noMatchOnTrue bool, depth int) {
							if depth > 3 || v.Referrers() == nil {
								return
							}
							for _, r := range *v.Referrers() {
								switch x := r.(type) {
								case *ssa.If:
									if x.Cond == v {
										test = x
										if noMatchOnTrue {
											failEdge = x.Block().Succs[0]
										} else {
											failEdge = x.Block().Succs[1]
										}
									}
								case *ssa.UnOp:
									if x.Op == token.NOT {
										inner(x, !noMatchOnTrue, depth+1)
									}
								}
							}
						}
						for _, r := range *call.Referrers() {
							switch x := r.(type) {
							case *ssa.Call:
								if bi, ok := x.Call.Value.(*ssa.Builtin); ok && bi.Name() == "len" {
									for _, rr := range *x.Referrers() {
										if bo, ok := rr.(*ssa.BinOp); ok {
											if k, isC := flow.ConstInt(bo.Y); isC && k == 0 {
												switch bo.Op {
												case token.EQL, token.LEQ:
													inner(bo, true, 0)
												case token.NEQ, token.GTR:
													inner(bo, false, 0)
												}
											} else if isC && k == 1 { // len(m) < 1, len(m) >= 1
												switch bo.Op {
												case token.LSS:
													inner(bo, true, 0)
												case token.GEQ:
													inner(bo, false, 0)
												}
											} else if isC && fullLen > 0 && k == fullLen {
												// a sub-match result is nil or has one entry per group plus one
												switch bo.Op {
												case token.NEQ, token.LSS:
													inner(bo, true, 0)
												case token.EQL, token.GEQ:
													inner(bo, false, 0)
												}
											}
										}
									}
								}
							case *ssa.BinOp:
								if flow.IsNilConst(x.Y) || flow.IsNilConst(x.X) {
									switch x.Op {
									case token.EQL:
										inner(x, true, 0)
									case token.NEQ:
										inner(x, false, 0)
									}
								}
							}
						}
					}
					failEdge, test = nil, nil
					if ld, ok := call.Call.Args[0].(*ssa.UnOp); ok && ld.Op == token.MUL {
						if g, ok := ld.X.(*ssa.Global); ok {
							if re := e.C.RegexpOfGlobal(g); re != nil {
								fullLen = int64(re.MaxCap()) + 1
								if strings.HasSuffix(name, "Index") {
									fullLen *= 2
								}
							}
						}
					}
					visitSub()
				}
				// … and nothing succeeds without it: every nil-error return lies behind the successful edge of the test,
				// or behind an emptiness test of the input (empty text may be a value of its own: roman zero)
				if failEdge != nil {
					iff := test.(*ssa.If)
					okEdge := iff.Block().Succs[0]
					if okEdge == failEdge {
						okEdge = iff.Block().Succs[1]
					}
					for _, r := range flow.Returns(fn) {
						rv := flow.ReturnValues(r)
						if len(rv) == 0 || !flow.IsNilConst(rv[len(rv)-1]) {
							continue
						}
						if okEdge == r.Block() || okEdge.Dominates(r.Block()) {
							continue
						}
						emptyGuard := false
						for _, cc := range controlConds(r.Block()) {
							switch x := cc.cond.(type) {
							case *ssa.BinOp: // len(input) == 0 (true edge) / != 0, > 0 (false edge)
								if l, ok := flow.IsLenOf(x.X); ok && flow.RootParam(l) != nil {
									if k, isC := flow.ConstInt(x.Y); isC && k == 0 && (x.Op == token.EQL && cc.pos || (x.Op == token.NEQ || x.Op == token.GTR) && !cc.pos) {
										emptyGuard = true
									}
								}
							case *ssa.Extract: // the "empty" verdict of the module's guard helper
								if gc, ok := x.Tuple.(*ssa.Call); ok && cc.pos && types.Identical(x.Type(), types.Typ[types.Bool]) {
									if g := e.C.StaticCallee(&gc.Call); g != nil && flow.InRepo(g) {
										emptyGuard = true
									}
								}
							}
						}
						if !emptyGuard {
							e.S.Bad(rule, site, "success only after a match", "a success return ("+e.posOf(r)+") is reached without the pattern having matched and without the input being empty: some text is accepted unseen", e.posOf(r), "")
						}
					}
				}
				switch {
				case failEdge == nil:
					e.S.Unk(rule, site, "no match", "the result of "+name+" is not tested in a recognised form (len(m) == 0, m == nil, the boolean result)", e.posOf(call))
				case !flow.LeadsOnlyToErrors(failEdge):
					e.S.Bad(rule, site, "no match", "when the pattern does not match, some path does not end in an error: a text outside the grammar can be accepted", e.posOf(test), "")
				default:
					e.S.Ok(rule, site, "no match", "a failed match leads only to error returns", e.posOf(test))
				}
			}
		}
		if n == 0 {
			e.S.Unk(rule, site, "no match", "no regexp match on the input found", e.Pos(fn))
		}
	}
}

// ruleLimit instantiates C18.L for the parser entry points of the given packages under ruleName.
func ruleLimit(e *Env, ruleName string, pkgs ...string) {
	for _, pkg := range pkgs {
		sent := e.Var(ruleName, pkg, "ErrInputTooLong")
		if sent == nil {
			continue
		}
		var fs []*ssa.Function
		for _, f := range parserEntryFuncs(e, ruleName, pkg) {
			// the limit is enforced by rejecting: entry points that can return an error (a comparison of two
			// pre-release texts that yields an int has nothing to reject with)
			res := f.Signature.Results()
			if res.Len() > 0 && types.Identical(res.At(res.Len()-1).Type(), types.Universe.Lookup("error").Type()) {
				fs = append(fs, f)
			}
		}
		// entry points added beside the recorded ones may delegate to those (the text methods, the parser entries)
		late := map[*ssa.Function]bool{}
		for _, f := range lateTextEntries(e, pkg) {
			late[f] = true
		}
		guarded := map[*ssa.Function]bool{}
		for _, f := range fs {
			if !late[f] {
				guarded[flow.Origin(f)] = true
			}
		}
		for _, m := range unmarshalMethods {
			if m[0] == pkg { // the recorded decoding methods: each is held to its own rules (text: the limit through the parser; binary: an exact length)
				if f := e.P.Method(m[0], m[1], m[2]); f != nil {
					guarded[flow.Origin(f)] = true
				}
			}
		}
		e.Flow(func(c *flow.Ctx) {
			for _, f := range fs {
				// every text parameter (the compare and latest helpers take two); index 0 in the recorded single-input entries
				pis := textParamIndices(f)
				if len(pis) == 0 {
					pis = []int{0}
				}
				for _, pi := range pis {
					if late[f] {
						c.RuleLimitLate(f, pi, sent, guarded, e.V(pkg, "Parser"))
					} else {
						c.RuleLimitFirst(f, pi, sent, 0)
					}
				}
			}
			c.RuleLimitZero(e.PkgFuncs(pkg), "MaxInputLength")
			c.RuleSentinelOnlyInGuards(sent, e.PkgFuncs(pkg))
			c.RuleLimitOnce(sent, e.PkgFuncs(pkg))
			for i := range c.Out {
				switch c.Out[i].Rule {
				case "C18.L", "LIMIT0":
					c.Out[i].Rule = ruleName
				}
			}
		})
	}
}

// parseErrorType names the typed parse error of each value package.
var parseErrorType = map[string]string{"date": "ParseError", "roman": "NumberFormatError", "sem": "ParseError", "size": "ParseError", "uu": "ParseError"}

// ruleTyped instantiates S-WRAP(ii) for the parser entry points of the given packages under ruleName.
func ruleTyped(e *Env, ruleName string, pkgs ...string) {
	for _, pkg := range pkgs {
		for _, n := range parserEntries[pkg] {
			f := e.Fn(ruleName, pkg, n)
			if f == nil {
				continue
			}
			e.Flow(func(c *flow.Ctx) { c.RuleTypedErrors(ruleName, f, parseErrorType[pkg]) })
		}
	}
}

// ruleErrWrapper: fn hands its arguments, unchanged and in order, to callee and returns callee's value with a nil
// error, or the zero value with callee's error wrapped (fmt.Errorf … %w checked by the wrap rule), and nothing else.
// The rules that decide callee then speak for fn.
func ruleErrWrapper(e *Env, rule string, fn, callee *ssa.Function, argNames []string, zero string) {
	if fn == nil || callee == nil {
		return
	}
	site := flow.FnName(fn)
	cname := callee.Name()
	sums := map[string]pred.Summary{
		callee.String(): func(ev *pred.Evaluator, args []pred.Val) (pred.Val, error) {
			if callee.Pkg != nil { // the recorded parameter order, whatever the present one
				args = e.Unpermuted(callee.Pkg.Pkg.Name(), cname, callee, args)
			}
			return pred.Tuple{pred.Term{Fn: cname + "#0", Args: args}, pred.Term{Fn: cname + "#1", Args: args}}, nil
		},
	}
	mk := func() []pred.Val {
		var a []pred.Val
		for _, n := range argNames {
			a = append(a, pred.Sym{Name: n})
		}
		return a
	}
	if fn.Pkg != nil {
		mk = e.Permuted(fn.Pkg.Pkg.Name(), fn.Name(), fn, mk)
	}
	leaves, err := extractTree(e.P.SSA, fn, mk, sums, nil, errKeyOf, binDomain)
	if err != nil {
		e.S.Unk(rule, site, "wrapper", err.Error(), e.Pos(fn))
		return
	}
	call := "(" + strings.Join(argNames, ",") + ")"
	for _, lf := range leaves {
		if lf.Err != nil {
			e.S.Unk(rule, site, "wrapper", lf.Err.Error(), e.Pos(fn))
			continue
		}
		got := lf.Out.Ret.String()
		v, asked := lf.Assign["nil? "+cname+"#1"+call]
		switch {
		case asked && len(lf.Assign) == 1 && v == 0 && got == "("+cname+"#0"+call+", nil)":
			e.S.Ok(rule, site, "wrapper ok", "returns the value of "+cname+call+" unchanged with a nil error", e.Pos(fn))
		case asked && len(lf.Assign) == 1 && v == 1 && strings.HasPrefix(got, "("+zero+", fmt.Errorf(") && strings.Contains(got, cname+"#1"+call):
			e.S.Ok(rule, site, "wrapper error", "returns the zero value and the error of "+cname+" wrapped", e.Pos(fn))
		default:
			e.S.Bad(rule, site, "wrapper {"+lf.String()+"}", "returns "+got+"; documented: the result of "+cname+call+", its error wrapped", e.Pos(fn), "")
		}
	}
}

// tagTrimmed: v is a result of a function of the module that was handed the input and returns, in that result, on
// every path either the parameter itself or the parameter without its first byte (the tag prefix cut off by a helper).
func (e *Env) tagTrimmed(v ssa.Value) bool {
	v = flow.StripConv(v)
	if mc, ok := v.(*ssa.MultiConvert); ok {
		v = flow.StripConv(mc.X)
	}
	ex, ok := v.(*ssa.Extract)
	if !ok {
		return false
	}
	call, ok := ex.Tuple.(*ssa.Call)
	if !ok {
		return false
	}
	g := e.C.StaticCallee(&call.Call)
	if g == nil || !flow.InRepo(g) {
		return false
	}
	g = flow.Origin(g)
	pi := -1
	for ai, a := range call.Call.Args {
		if rp := flow.RootParam(a); rp != nil && mentionsTypeParam(rp.Type()) && !flow.HasSliceOnPath(a) && ai < len(g.Params) {
			if pi >= 0 {
				return false
			}
			pi = ai
		}
	}
	if pi < 0 {
		return false
	}
	n := 0
	for _, r := range flow.Returns(g) {
		vals := flow.ReturnValues(r)
		if ex.Index >= len(vals) {
			return false
		}
		rv := flow.StripConv(vals[ex.Index])
		switch x := rv.(type) {
		case *ssa.Parameter:
			if x != g.Params[pi] {
				return false
			}
		case *ssa.Slice:
			lo, isK := flow.ConstInt(x.Low)
			if x.X != ssa.Value(g.Params[pi]) || x.High != nil || x.Low == nil || !isK || lo != 1 {
				return false
			}
		default:
			return false
		}
		n++
	}
	return n > 0
}

// knownNilAt: v is the nil constant, or an error value tested against nil by an If whose nil side (entered from that
// test alone) dominates blk — `return x, err` behind `if err != nil { return … }` returns a nil error.
func knownNilAt(v ssa.Value, blk *ssa.BasicBlock) bool {
	if flow.IsNilConst(v) {
		return true
	}
	for _, b := range blk.Parent().Blocks {
		iff, ok := b.Instrs[len(b.Instrs)-1].(*ssa.If)
		if !ok {
			continue
		}
		cmp, ok := iff.Cond.(*ssa.BinOp)
		if !ok || (cmp.Op != token.NEQ && cmp.Op != token.EQL) {
			continue
		}
		if !(cmp.X == v && flow.IsNilConst(cmp.Y) || cmp.Y == v && flow.IsNilConst(cmp.X)) {
			continue
		}
		nilSide := b.Succs[map[bool]int{true: 0, false: 1}[cmp.Op == token.EQL]]
		if len(nilSide.Preds) == 1 && (nilSide == blk || nilSide.Dominates(blk)) {
			return true
		}
	}
	return false
}

// ruleLateEntriesDelegate: every text entry point of pkg that is not among the recorded ones (lateTextEntries) passes
// each of its text parameters unchanged to a recorded entry point, a text method of the value type or the
// package-level Parser, in one call whose value it returns; nothing else receives the text. One obligation per late
// entry, none on today's tree.
func ruleLateEntriesDelegate(e *Env, rule, pkg string, yields ...string) {
	guarded := map[*ssa.Function]bool{}
	for _, n := range parserEntries[pkg] {
		if f := e.F(pkg, n); f != nil {
			guarded[flow.Origin(f)] = true
		}
	}
	for _, m := range unmarshalMethods {
		if m[0] == pkg {
			if f := e.P.Method(m[0], m[1], m[2]); f != nil {
				guarded[flow.Origin(f)] = true
			}
		}
	}
	parserVar := e.V(pkg, "Parser")
	entries := lateTextEntries(e, pkg)
	if len(yields) == 1 {
		// an input path of the value type: what takes a text and yields the value, whether or not it can refuse
		var keep []*ssa.Function
		for _, f := range entries {
			if yieldsType(f, yields[0]) {
				keep = append(keep, f)
			}
		}
		entries = append(keep, lateValueEntries(e, pkg, yields[0])...)
	}
	for _, f := range entries {
		site := flow.FnName(f)
		bad := ""
		for _, pi := range textParamIndices(f) {
			in := f.Params[pi]
			delegs := 0
			// the text itself is only handed on: the entry does not measure, index or compare it (a pre-check of its
			// own decides which texts are accepted before the recorded path sees them)
			var uses func(v ssa.Value, depth int)
			uses = func(v ssa.Value, depth int) {
				if v.Referrers() == nil || depth > 4 {
					return
				}
				for _, r := range *v.Referrers() {
					switch y := r.(type) {
					case *ssa.DebugRef:
					case ssa.CallInstruction:
						if bi, isB := y.Common().Value.(*ssa.Builtin); isB {
							bad = "examines its text itself (" + bi.Name() + ")"
						}
					case *ssa.Convert:
						uses(y, depth+1)
					case *ssa.ChangeType:
						uses(y, depth+1)
					case *ssa.MakeInterface:
						uses(y, depth+1)
					case *ssa.Phi:
						uses(y, depth+1)
					default:
						bad = fmt.Sprintf("examines its text itself (%T)", r)
					}
				}
			}
			uses(in, 0)
			for _, b := range f.Blocks {
				for _, ins := range b.Instrs {
					ci, ok := ins.(ssa.CallInstruction)
					if !ok {
						continue
					}
					cc := ci.Common()
					carries := false
					for _, a := range cc.Args {
						if flow.RootParam(a) == in {
							carries = true
							if flow.HasSliceOnPath(a) {
								bad = "hands on a part of its text"
							}
						}
					}
					if !carries {
						continue
					}
					if _, isB := cc.Value.(*ssa.Builtin); isB {
						continue // reported above
					}
					g := e.C.StaticCallee(cc)
					// the recorded path's result is what the entry returns, as it came
					asItCame := func() bool {
						v := ci.Value()
						if v == nil || v.Referrers() == nil {
							return false
						}
						var ok func(x ssa.Value) bool
						ok = func(x ssa.Value) bool {
							for _, r := range *x.Referrers() {
								switch y := r.(type) {
								case *ssa.DebugRef, *ssa.Return:
								case *ssa.BinOp:
									// the error compared with nil (`if err != nil { panic(err) }`)
									if !types.Identical(x.Type(), types.Universe.Lookup("error").Type()) {
										return false
									}
								case *ssa.MakeInterface, *ssa.ChangeInterface, *ssa.Panic:
									if !types.Identical(x.Type(), types.Universe.Lookup("error").Type()) {
										return false
									}
								case *ssa.Extract:
									if !ok(y) {
										return false
									}
								default:
									return false
								}
							}
							return true
						}
						return ok(v)
					}
					switch {
					case (g != nil && guarded[flow.Origin(g)] || g == nil && parserVar != nil && isLoadOf(cc.Value, parserVar)) && len(yields) == 1 && !asItCame():
						bad = "does something with the recorded input path's result before returning it"
					case g != nil && guarded[flow.Origin(g)]:
						delegs++
					case g == nil && parserVar != nil && isLoadOf(cc.Value, parserVar):
						delegs++
					default:
						bad = "hands its text to " + cc.Value.String() + ", not to a recorded input path"
					}
				}
			}
			if delegs == 0 && bad == "" {
				bad = "does not hand its text to a recorded input path"
			}
		}
		if bad == "" {
			e.S.Ok(rule, site, "late entry", "an input path added beside the recorded ones: delegates its text unchanged to one of them", e.Pos(f))
		} else {
			e.S.Unk(rule, site, "late entry", "an input path added beside the recorded ones "+bad+": which texts it accepts, and what it returns for them, is not read by this property's rules", e.Pos(f))
		}
	}
}

func isLoadOf(v ssa.Value, g *ssa.Global) bool {
	ld, ok := v.(*ssa.UnOp)
	return ok && ld.Op == token.MUL && ld.X == ssa.Value(g)
}
