package props

import (
	"fmt"
	"go/token"
	"go/types"
	"strings"

	"golang.org/x/tools/go/ssa"

	"utilcheck/flow"
	"utilcheck/pred"
)

func init() {
	register(&Prop{
		ID:    "C06",
		Title: "Version precedence follows SemVer 2.0.0 section 11",
		Run:   runC06,
		Explanation: "C06.core: Ver.Compare evaluated over the 27 orderings of (Major, Minor, Patch) by predicate abstraction: result is ∓1 by the first differing component in receiver-vs-argument direction, and for equal cores the tail call is ComparePreRelease(v.PreRelease, ver.PreRelease) in that order (side condition: the fields are used only in same-field comparisons). " +
			"C06.empty: DefaultComparePreRelease over (len(a)?0, len(b)?0): both empty 0, only a empty +1, only b empty −1. " +
			"C06.build: no function reachable from Ver.Compare reads Ver.Build. C06.entry: the six string helpers parse both inputs with their own parser, test both errors, and return parse(a).Compare(parse(b)) / .Latest; an error is returned only behind the failing edge of one of the two parse calls. C06.parse: the decision table of sem.unmarshalText and its field ← capture mapping (as C03.gate / C03.num): the compared fields are the captures of the pattern applied to the whole input. C06.latest: Ver.Latest returns the argument exactly when Compare = −1 and the receiver otherwise (as C14.latest). " +
			"C06.sep: some constant containing '.' is used by the code reachable from DefaultComparePreRelease (identifier-wise comparison must see the separator). " +
			"C06.num: where the code establishes that both operands are all-digit, every path to the result contains a length comparison or numeric conversion. C06.range: every result of the comparison chain lies in {−1,0,1} (C14.range under this property) — Latest and the helpers test it against −1 / 1. C06.alias: the parsed Ver's strings are copies, package sem imports no unsafe (sem part of C17.alias): a reused input buffer cannot change a version already parsed. C06.scan: shape of the byte scan in comparePreRelease: counter from 0 in unit steps below the length of one operand; at the first differing index the result is the remainder comparison of both operands cut at one common index, returned unchanged; at the end of the scan 0 under equal lengths and 1 for a proper prefix (the longer text is the greater); the all-digit test matches a regexp global whose language is [0-9]*." +
			" Added after the second rule audit: C06.lang carries the skeleton obligation (^<1>.<2>.<3>[-<4>][+<5>]$); C06.core admits a fast path on equal pre-release texts or equal values (extra worlds: texts equal / different); the rewind loop's exit may be a digit predicate of the module (evaluated on '0'..'9'), the cut may be computed by a helper from (operand, first difference) or as len(TrimRight(prefix, digits)).",
		NotDecided:  []string{"full conformance of the identifier-wise comparison for all strings (value-level string scan)", "the pinned a01 == a1 departure is untouched by every rule"},
		Assumptions: []string{"strings.Compare ∈ {-1,0,1}"},
		Technique:   "predicate abstraction over orderings + field-access and constant-use rules over go/ssa",
	})
}

func runC06(e *Env) {
	ruleC06Core(e, "C06.core")
	ruleC06Empty(e, "C06.empty")
	ruleC06Build(e, "C06.build")
	ruleC06Entry(e, "C06.entry")
	ruleSuffix(e, "C06.numorder")
	e.S.Floor("C06.numorder", 7)
	ruleLatest(e, "C06.latest")
	ruleC06Scan(e, "C06.scan")
	e.S.Floor("C06.scan", 3)
	// the string entry points order the texts they are given: the parser maps the whole text to the compared fields
	ruleSemGate(e, "C06.parse", "C06.parse")
	ruleNoMatchRejects(e, "C06.parse", e.Fn("C06.parse", "sem", "unmarshalText"))
	e.S.Floor("C06.parse", 18)
	// "for any two valid versions": valid is the SemVer grammar, which the helpers' parser must accept in full
	e.As(map[string]string{"C03.lang": "C06.lang", "C03.num": "C06.lang", "C03.valid": "C06.lang"}, func() { ruleC03Lang(e) })
	// … and the compared fields are the captures of that pattern laid out as the grammar lays them out: nothing matched
	// lies outside the five captures and the literals between them (a group that swallowed "0." in front of the
	// pre-release would change what is compared without changing the language)
	e.skeleton("C06.lang", "sem", "pattern", "^<1>.<2>.<3>[-<4>][+<5>]$")
	e.S.Floor("C06.lang", 3)
	e.S.Floor("C06.latest", 3)
	e.S.Floor("C06.core", 28)
	e.S.Floor("C06.empty", 6)
	e.S.Floor("C06.build", 1)
	e.S.Floor("C06.entry", 30)
	dcp := e.Fn("C06.sep", "sem", "DefaultComparePreRelease")
	if dcp != nil {
		reach := e.C.Reachable(dcp)
		e.Flow(func(c *flow.Ctx) {
			c.RuleSeparatorAware(reach, '.')
			for _, f := range flow.SortedFuncs(reach) {
				c.RuleNumericCompare(f, func(g *ssa.Global) bool { return c.RegexpSubsetOfDigits(g) })
			}
		})
	}
	e.S.Floor("C06.sep", 1)
	e.S.Floor("C06.num", 1)
	// Latest and the string helpers test the result against −1 / 1: the comparison's range is {−1,0,1} (C14.range)
	e.As(map[string]string{"C14.range": "C06.range"}, func() { ruleC14Range(e) })
	e.S.Floor("C06.range", 3)
	// what is compared is the text that was parsed: the Ver's strings are copies, not views of the caller's bytes
	// (sem part of C17.alias) — a reused buffer must not change an already parsed version
	ruleAliasFree(e, "C06.alias", true)
	e.S.Floor("C06.alias", 4)
}

// ruleC06Core: Ver.Compare over the 27 orderings of (Major, Minor, Patch).
func ruleC06Core(e *Env, rule string) {
	sp := e.P.ByName["sem"]
	cmp := e.Method(rule, "sem", "Ver", "Compare")
	if sp == nil || cmp == nil || sp.Type("Ver") == nil {
		return
	}
	verT := sp.Type("Ver").Type()
	site := flow.FnName(cmp)
	fields := []string{"Major", "Minor", "Patch"}
	for a := -1; a <= 1; a++ {
		for b := -1; b <= 1; b++ {
			for c := -1; c <= 1; c++ {
				// the pre-release / build texts equal or different: asked only by a fast path (v.PreRelease == ver.PreRelease,
				// v == ver); world 0 has both equal and shows which of the two are asked at all
				seenPre, seenBuild := false, false
				for world := 0; world < 4; world++ {
					pre, bw := world&1, world>>1
					if pre == 1 && !seenPre || bw == 1 && !seenBuild {
						continue // the same run as with equal texts
					}
					construct := fmt.Sprintf("Major%s Minor%s Patch%s", ordSym(a), ordSym(b), ordSym(c))
					o := &ordOracle{ord: map[string]int{"v.Major|ver.Major": a, "v.Minor|ver.Minor": b, "v.Patch|ver.Patch": c, "v.PreRelease|ver.PreRelease": pre, "v.Build|ver.Build": bw}}
					ev := &pred.Evaluator{Prog: e.P.SSA, GlobalInit: e.globalTables(), Oracle: o}
					out, err := ev.Eval(cmp, []pred.Val{symStruct(verT, "v"), symStruct(verT, "ver")})
					if err != nil {
						e.S.Unk(rule, site, construct, "not decidable by field-order abstraction: "+err.Error(), e.Pos(cmp))
						break
					}
					side := true
					askedPre, askedBuild := false, false
					for _, q := range ev.Asked {
						okAsk := false
						if q == "v.PreRelease == ver.PreRelease" || q == "ver.PreRelease == v.PreRelease" || q == "v.PreRelease != ver.PreRelease" || q == "ver.PreRelease != v.PreRelease" {
							okAsk, askedPre, seenPre = true, true, true
						}
						if q == "v.Build == ver.Build" || q == "ver.Build == v.Build" || q == "v.Build != ver.Build" || q == "ver.Build != v.Build" {
							okAsk, askedBuild, seenBuild = true, true, true
						}
						for _, f := range fields {
							if strings.HasPrefix(q, "v."+f+" ") && strings.HasSuffix(q, " ver."+f) || strings.HasPrefix(q, "ver."+f+" ") && strings.HasSuffix(q, " v."+f) {
								okAsk = true
							}
						}
						if !okAsk {
							side = false
							e.S.Unk(rule, site, construct, "side condition broken: Compare asks "+q+", not a same-field comparison of the core", e.Pos(cmp))
						}
					}
					if !side {
						break
					}
					if askedPre || seenPre {
						construct += map[int]string{0: " PreRelease=", 1: " PreRelease≠"}[pre]
					}
					if askedBuild || seenBuild {
						construct += map[int]string{0: " Build=", 1: " Build≠"}[bw]
					}
					lex := a
					if lex == 0 {
						lex = b
					}
					if lex == 0 {
						lex = c
					}
					if lex != 0 {
						k, ok := intOf(out.Ret)
						if !ok || int(k) != lex {
							e.S.Bad(rule, site, construct, fmt.Sprintf("receiver vs argument with %s: Compare returns %v, numeric precedence demands %d", construct, out.Ret, lex), e.Pos(cmp), construct)
						} else {
							e.S.Ok(rule, site, construct, fmt.Sprintf("Compare = %d", lex), e.Pos(cmp))
						}
						continue
					}
					want := "dyn:*sem.ComparePreRelease(v.PreRelease,ver.PreRelease)"
					if askedPre && pre == 0 && out.Ret.String() == "0" {
						// the property's own clause: equal core and equal pre-release compare as 0
						e.S.Ok(rule, site, construct, "equal core and equal pre-release text ⇒ 0", e.Pos(cmp))
					} else if out.Ret.String() != want {
						e.S.Bad(rule, site, construct, fmt.Sprintf("for equal cores Compare returns %v; documented: ComparePreRelease(receiver.PreRelease, argument.PreRelease)", out.Ret), e.Pos(cmp), "")
					} else {
						e.S.Ok(rule, site, construct, "equal core ⇒ ComparePreRelease(v.PreRelease, ver.PreRelease)", e.Pos(cmp))
					}
				}
			}
		}
	}
	// the global comparator is the default one and nothing reassigns it
	g := e.Var(rule, "sem", "ComparePreRelease")
	dcp := e.F("sem", "DefaultComparePreRelease")
	if g != nil {
		if f := e.C.GlobalFuncInit(g); f == nil || flow.Origin(f) != dcp {
			e.S.Bad(rule, "sem.ComparePreRelease", "initialiser", "the global comparator is not initialised to DefaultComparePreRelease (or is reassigned inside the module)", "", "")
		} else {
			e.S.Ok(rule, "sem.ComparePreRelease", "initialiser", "= DefaultComparePreRelease[string,string], never reassigned inside the module", "")
		}
	}
}

// preReleaseTable evaluates DefaultComparePreRelease over the length orderings with comparePreRelease uninterpreted.
// It returns outcome strings keyed by "la0,lb0,lalb".
func preReleaseTable(e *Env, rule string) map[string]string {
	dcp := e.Fn(rule, "sem", "DefaultComparePreRelease")
	if dcp == nil {
		return nil
	}
	site := flow.FnName(dcp)
	// uninterpreted: every in-repo callee of DefaultComparePreRelease that receives both operands
	sums := map[string]pred.Summary{}
	// (one name per callee: the first is "cPR", the scan; a second function on another branch is a different term, and
	// the sign argument of C14.swap no longer goes through)
	names := map[*ssa.Function]string{}
	for _, call := range e.C.Calls(dcp, flow.InRepo) {
		callee := e.C.StaticCallee(&call.Call)
		o := flow.Origin(callee)
		if _, ok := names[o]; !ok {
			names[o] = "cPR"
			if len(names) > 1 {
				names[o] = "cPR·" + o.Name()
			}
		}
		name := names[o]
		sums[callee.String()] = func(ev *pred.Evaluator, args []pred.Val) (pred.Val, error) {
			if o.Name() == "comparePreRelease" {
				args = e.Unpermuted("sem", "comparePreRelease", o, args) // the recorded order (shorter, longer), whatever the present one
			}
			return pred.Term{Fn: name, Args: args}, nil
		}
	}
	table := map[string]string{}
	for la0 := 0; la0 <= 1; la0++ {
		for lb0 := 0; lb0 <= 1; lb0++ {
			for lalb := -1; lalb <= 1; lalb++ {
				if la0 == 0 && lb0 == 0 && lalb != 0 || la0 == 0 && lb0 == 1 && lalb != -1 || la0 == 1 && lb0 == 0 && lalb != 1 {
					continue
				}
				key := fmt.Sprintf("%d,%d,%d", la0, lb0, lalb)
				// whether the operands are the same text is a further atom a fast path may ask for: forced by the lengths
				// when they differ (no) or are both zero (yes), open otherwise
				eqs := []int{1}
				if lalb == 0 {
					eqs = []int{1, 0}
					if la0 == 0 && lb0 == 0 {
						eqs = []int{0}
					}
				}
				for _, eq := range eqs {
					o := &ordOracle{ord: map[string]int{"len(a)|0": la0, "len(b)|0": lb0, "len(a)|len(b)": lalb, "a|b": eq, "b|a": eq}}
					ev := &pred.Evaluator{Prog: e.P.SSA, GlobalInit: e.globalTables(), Oracle: o, Summaries: sums}
					out, err := ev.Eval(dcp, []pred.Val{pred.Sym{Name: "a"}, pred.Sym{Name: "b"}})
					if err != nil {
						e.S.Unk(rule, site, "lengths "+key, "not decidable by length-order abstraction: "+err.Error(), e.Pos(dcp))
						return nil
					}
					got := out.Ret.String()
					if eq == 0 && len(eqs) == 2 {
						// same text: 0, or whatever the general path computes (the code did not look)
						if got != "0" && got != table[key] {
							e.S.Bad(rule, site, "lengths "+key+" same text", "for identical pre-release texts the result is "+got+", not 0", e.Pos(dcp), "")
						}
						continue
					}
					table[key] = got
				}
			}
		}
	}
	return table
}

func ruleC06Empty(e *Env, rule string) {
	t := preReleaseTable(e, rule)
	if t == nil {
		return
	}
	site := "sem.DefaultComparePreRelease"
	for _, c := range []struct{ key, name, want string }{
		{"0,0,0", "both empty", "0"}, {"0,1,-1", "only a empty", "1"}, {"1,0,1", "only b empty", "-1"},
	} {
		if t[c.key] == c.want {
			e.S.Ok(rule, site, c.name, "result "+c.want+" (a release ranks above any pre-release)", "")
		} else {
			e.S.Bad(rule, site, c.name, fmt.Sprintf("result %s, SemVer §11 demands %s", t[c.key], c.want), "", "")
		}
	}
	// two non-empty pre-releases: the scan gets (shorter, longer) and answers in the convention cmp(longer, shorter) that
	// C06.scan and C06.numorder read off it; the entry point turns that into its own sign — the scan's answer when b is the
	// shorter operand, its negation when a is (or when the lengths are equal). Any other operand order or sign reverses,
	// or otherwise scrambles, the order of every pair the rows below cover.
	rows := []struct {
		key, name string
		want      []string
	}{
		{"1,1,-1", "a shorter", []string{"-cPR(a,b)"}},
		{"1,1,0", "equal lengths", []string{"-cPR(a,b)", "cPR(b,a)"}},
		{"1,1,1", "b shorter", []string{"cPR(b,a)"}},
	}
	// a scan function that no longer carries the recorded name may have its two parameters the other way round
	// (long, short): then the shorter operand sits in the second position in every row — the mirrored table, as a whole
	if sf := scanFunc(e, rule); sf != nil && sf.Name() != "comparePreRelease" && t["1,1,-1"] == "-cPR(b,a)" {
		rows[0].want, rows[1].want, rows[2].want = []string{"-cPR(b,a)"}, []string{"-cPR(b,a)", "cPR(a,b)"}, []string{"cPR(a,b)"}
	}
	for _, c := range rows {
		ok := false
		for _, w := range c.want {
			if t[c.key] == w {
				ok = true
			}
		}
		if ok {
			e.S.Ok(rule, site, "non-empty, "+c.name, "result "+t[c.key]+" (the scan on (shorter, longer), negated when a is the shorter operand)", "")
		} else {
			e.S.Bad(rule, site, "non-empty, "+c.name, fmt.Sprintf("result %s, expected %s: the scan's answer is given the wrong operands or the wrong sign, or something else decides", t[c.key], strings.Join(c.want, " or ")), "", "1.0.0-B vs 1.0.0-a")
		}
	}
}

// ruleC06Build: no function reachable from Ver.Compare (through the default comparator) reads Ver.Build.
func ruleC06Build(e *Env, rule string) {
	cmp := e.Method(rule, "sem", "Ver", "Compare")
	sp := e.P.ByName["sem"]
	if cmp == nil || sp == nil || sp.Type("Ver") == nil {
		return
	}
	st, _ := sp.Type("Ver").Type().Underlying().(*types.Struct)
	if st == nil {
		return
	}
	buildIdx := -1
	for i := 0; i < st.NumFields(); i++ {
		if st.Field(i).Name() == "Build" {
			buildIdx = i
		}
	}
	if buildIdx < 0 {
		e.S.Unk(rule, "sem.Ver", "Build", "field Build not found", "")
		return
	}
	verT := sp.Type("Ver").Type()
	bad := false
	for _, fn := range flow.SortedFuncs(e.C.Reachable(cmp)) {
		for _, b := range fn.Blocks {
			for _, in := range b.Instrs {
				switch x := in.(type) {
				case *ssa.FieldAddr:
					if pt, ok := x.X.Type().Underlying().(*types.Pointer); ok && types.Identical(pt.Elem(), verT) && x.Field == buildIdx {
						e.S.Bad(rule, flow.FnName(fn), "reads Build", "the comparison path reads Ver.Build: build metadata can influence precedence", e.posOf(x), "1.0.0+a vs 1.0.0+b")
						bad = true
					}
				case *ssa.Field:
					if types.Identical(x.X.Type(), verT) && x.Field == buildIdx {
						e.S.Bad(rule, flow.FnName(fn), "reads Build", "the comparison path reads Ver.Build: build metadata can influence precedence", e.posOf(x), "1.0.0+a vs 1.0.0+b")
						bad = true
					}
				}
			}
		}
	}
	if !bad {
		e.S.Ok(rule, flow.FnName(cmp), "Build unread", fmt.Sprintf("none of the %d functions reachable from Ver.Compare reads Ver.Build", len(e.C.Reachable(cmp))), e.Pos(cmp))
	}
}

// ruleC06Entry: the six string helpers.
func ruleC06Entry(e *Env, rule string) {
	type ent struct{ name, parser, method string }
	for _, x := range []ent{
		{"Compare", "Parse", "Compare"}, {"CompareVersion", "ParseVersion", "Compare"}, {"CompareTag", "ParseTag", "Compare"},
		{"Latest", "Parse", "Latest"}, {"LatestVersion", "ParseVersion", "Latest"}, {"LatestTag", "ParseTag", "Latest"},
	} {
		fn := e.Fn(rule, "sem", x.name)
		if fn == nil {
			continue
		}
		site := flow.FnName(fn)
		parser := e.F("sem", x.parser)
		method := e.P.Method("sem", "Ver", x.method)
		var parses []*ssa.Call
		for _, c := range e.C.Calls(fn, flow.InRepo) {
			callee := e.C.StaticCallee(&c.Call)
			switch {
			case callee == parser:
				parses = append(parses, c)
			case strings.HasPrefix(callee.Name(), "Parse") || callee.Name() == "DefaultParser" || callee.Name() == "unmarshalText":
				e.S.Bad(rule, site, "parser", x.name+" parses with "+callee.Name()+", documented is "+x.parser+": it accepts a different set of texts", e.posOf(c), "")
			}
		}
		if len(parses) != 2 {
			e.S.Unk(rule, site, "parser", fmt.Sprintf("%d calls to %s found, expected one per operand", len(parses), x.parser), e.Pos(fn))
			continue
		}
		// which parse call takes which parameter
		var pa, pb *ssa.Call
		for _, c := range parses {
			switch flow.RootParam(c.Call.Args[0]) {
			case fn.Params[0]:
				pa = c
			case fn.Params[1]:
				pb = c
			}
		}
		if pa == nil || pb == nil {
			e.S.Bad(rule, site, "operands", "the two operands are not each parsed once (same operand parsed twice?)", e.Pos(fn), "")
			continue
		}
		e.S.Ok(rule, site, "parser", "both operands parsed with "+x.parser, e.Pos(fn))
		// each error tested and returned with a zero value
		okErr := true
		for _, c := range []*ssa.Call{pa, pb} {
			cont := errContinuation(c)
			if cont == nil {
				okErr = false
			}
		}
		if okErr {
			e.S.Ok(rule, site, "errors", "both parse errors are tested; the failing edges return (checked by errzero/wrap rules)", e.Pos(fn))
		} else {
			e.S.Bad(rule, site, "errors", "a parse error is not tested before the value is used: an invalid text does not produce an error", e.Pos(fn), "")
		}
		// an error is returned only on the failing edge of one of the two parses: the helper is invalid exactly when a text is
		if okErr {
			var stray []string
			for _, r := range flow.Returns(fn) {
				if len(r.Results) != 2 || knownNilAt(r.Results[1], r.Block()) {
					continue
				}
				behind := false
				for _, c := range []*ssa.Call{pa, pb} {
					if eb := errEdgeOf(c); eb != nil && len(eb.Preds) == 1 && eb.Dominates(r.Block()) {
						behind = true
					}
				}
				if !behind {
					stray = append(stray, e.posOf(r))
				}
			}
			if len(stray) > 0 {
				e.S.Bad(rule, site, "only-parse-errors", x.name+" returns an error on a path where neither "+x.parser+" call failed ("+strings.Join(stray, ", ")+"): it rejects texts the parser accepts", e.Pos(fn), "")
			} else {
				e.S.Ok(rule, site, "only-parse-errors", "every error return lies behind the failing edge of one of the two "+x.parser+" calls", e.Pos(fn))
			}
		}
		// result: method(recv = value of pa, arg = value of pb)
		var mcall *ssa.Call
		for _, c := range e.C.Calls(fn, func(f *ssa.Function) bool { return f == method }) {
			mcall = c
		}
		if mcall == nil {
			e.S.Bad(rule, site, "result", "the result is not computed by Ver."+x.method, e.Pos(fn), "")
			continue
		}
		isVal := func(v ssa.Value, parse *ssa.Call) bool {
			ex, ok := v.(*ssa.Extract)
			return ok && ex.Tuple == ssa.Value(parse) && ex.Index == 0
		}
		switch {
		case isVal(mcall.Call.Args[0], pa) && isVal(mcall.Call.Args[1], pb):
			e.S.Ok(rule, site, "result", "returns parse(a)."+x.method+"(parse(b))", e.posOf(mcall))
		case isVal(mcall.Call.Args[0], pb) && isVal(mcall.Call.Args[1], pa):
			if x.method == "Compare" {
				e.S.Bad(rule, site, "result", "operands swapped: returns parse(b).Compare(parse(a)), the sign is inverted", e.posOf(mcall), "")
			} else {
				e.S.Ok(rule, site, "result", "returns parse(b).Latest(parse(a)) (symmetric up to ties)", e.posOf(mcall))
			}
		default:
			e.S.Bad(rule, site, "result", "the method is not applied to the two parsed operands", e.posOf(mcall), "")
		}
		// and the method's result is what is returned with a nil error
		ret := false
		for _, r := range flow.Returns(fn) {
			if len(r.Results) == 2 && r.Results[0] == ssa.Value(mcall) && knownNilAt(r.Results[1], r.Block()) {
				ret = true
			}
		}
		// … and nothing else is: a success that does not come from comparing the two parsed values (a shortcut on the
		// texts) answers for texts no parser has seen
		stray := ""
		for _, r := range flow.Returns(fn) {
			rv := flow.ReturnValues(r)
			if len(rv) == 2 && knownNilAt(rv[1], r.Block()) && rv[0] != ssa.Value(mcall) { // `, err` behind the error test is a success too
				stray = e.posOf(r)
			}
		}
		if !ret {
			e.S.Bad(rule, site, "return", "the method's result is not returned unchanged with a nil error", e.Pos(fn), "")
		} else if stray != "" {
			e.S.Bad(rule, site, "return", x.name+" also succeeds ("+stray+") with a result that is not parse(a)."+x.method+"(parse(b)): on that path the texts are not validated and the answer is not the comparison of the parsed values", e.Pos(fn), "two identical invalid texts")
		} else {
			e.S.Ok(rule, site, "return", "method result returned unchanged with nil error", e.Pos(fn))
		}
	}
}

// errContinuation: `v, err := call; if err != nil { return … }` — returns the continuation block, nil otherwise.
func errContinuation(call *ssa.Call) *ssa.BasicBlock {
	for _, r := range *call.Referrers() {
		ex, ok := r.(*ssa.Extract)
		if !ok || ex.Index != 1 {
			continue
		}
		for _, r2 := range *ex.Referrers() {
			bo, ok := r2.(*ssa.BinOp)
			if !ok || !flow.IsNilConst(bo.Y) {
				continue
			}
			for _, r3 := range *bo.Referrers() {
				iff, ok := r3.(*ssa.If)
				if !ok {
					continue
				}
				errEdge, okEdge := iff.Block().Succs[0], iff.Block().Succs[1]
				if bo.Op == token.EQL {
					errEdge, okEdge = okEdge, errEdge
				}
				if flow.LeadsOnlyToErrors(errEdge) {
					return okEdge
				}
			}
		}
	}
	return nil
}

// errEdgeOf: the successor taken when the call's error result is non-nil (nil if the idiom is not found).
func errEdgeOf(call *ssa.Call) *ssa.BasicBlock {
	for _, r := range *call.Referrers() {
		ex, ok := r.(*ssa.Extract)
		if !ok || ex.Index != 1 {
			continue
		}
		for _, r2 := range *ex.Referrers() {
			bo, ok := r2.(*ssa.BinOp)
			if !ok || !flow.IsNilConst(bo.Y) {
				continue
			}
			for _, r3 := range *bo.Referrers() {
				if iff, ok := r3.(*ssa.If); ok {
					if bo.Op == token.EQL {
						return iff.Block().Succs[1]
					}
					return iff.Block().Succs[0]
				}
			}
		}
	}
	return nil
}

// ruleC06Scan: the shape of the character scan that finds the first difference of two pre-release texts, the shorter
// one first: a counter from 0 in unit steps while it is below the length of the shorter operand; at the first index
// where the two operands differ the result is that of the remainder comparison, handed back unchanged, of both
// operands cut at one common index (which index: C06.numorder's digit-run obligation); when the scan ends without a
// difference the result is 0 under equal lengths and 1 otherwise — the longer text, whose prefix the shorter one is,
// is the greater ("a longer list above its own prefix", in the sign convention cmp(longer, shorter) that
// C06.numorder reads off the remainder comparison and C14.swap maps to the public result).
func ruleC06Scan(e *Env, rule string) {
	fn := scanFunc(e, rule)
	if fn == nil || len(fn.Params) != 2 {
		return
	}
	site := flow.FnName(fn)
	whole := func(v ssa.Value) *ssa.Parameter {
		for i := 0; i < 6; i++ {
			switch x := v.(type) {
			case *ssa.Parameter:
				return x
			case *ssa.MultiConvert:
				v = x.X
			case *ssa.Convert:
				v = x.X
			case *ssa.ChangeType:
				v = x.X
			default:
				return nil
			}
		}
		return nil
	}
	lenOf := func(v ssa.Value) *ssa.Parameter {
		if a, ok := flow.IsLenOf(v); ok {
			return whole(a)
		}
		return nil
	}
	S, L := fn.Params[0], fn.Params[1]
	// the scan loop
	var head *ssa.BasicBlock
	var ctr *ssa.Phi
	for _, b := range fn.Blocks {
		iff, ok := b.Instrs[len(b.Instrs)-1].(*ssa.If)
		if !ok {
			continue
		}
		cmp, ok := iff.Cond.(*ssa.BinOp)
		if !ok || (cmp.Op != token.LSS && cmp.Op != token.NEQ) {
			continue
		}
		ph, ok := cmp.X.(*ssa.Phi)
		if !ok || ph.Block() != b || len(ph.Edges) != 2 || lenOf(cmp.Y) == nil {
			continue
		}
		unit := false
		for k, ed := range ph.Edges {
			if bo, ok := ed.(*ssa.BinOp); ok && bo.Op == token.ADD && bo.X == ssa.Value(ph) {
				if one, ok := flow.ConstInt(bo.Y); ok && one == 1 {
					if z, ok := flow.ConstInt(ph.Edges[1-k]); ok && z == 0 {
						unit = true
					}
				}
			}
		}
		if !unit {
			continue
		}
		// the operand whose length bounds the scan is the shorter one (that the other is at least as long at every
		// call site is what the index obligation on its subscript proves: C18.T2)
		if lenOf(cmp.Y) != S {
			S, L = L, S
		}
		head, ctr = b, ph
	}
	if head == nil {
		e.S.Unk(rule, site, "scan", "no scan loop `for i := 0; i < len(shorter); i++` found", e.Pos(fn))
		return
	}
	e.S.Ok(rule, site, "scan bound", "counter from 0 in unit steps while below the length of one operand ("+S.Name()+", the shorter one: C18.T2 proves the subscript of the other)", e.posOfBlock(head))
	// the difference test on the same index of both operands
	var differ *ssa.BasicBlock
	body := head.Succs[0]
	if iff, ok := body.Instrs[len(body.Instrs)-1].(*ssa.If); ok {
		if cmp, ok := iff.Cond.(*ssa.BinOp); ok && (cmp.Op == token.NEQ || cmp.Op == token.EQL) {
			at := func(v ssa.Value) (x, index ssa.Value, ok bool) { // string indexing: Index (Lookup in older SSA)
				switch t := v.(type) {
				case *ssa.Index:
					return t.X, t.Index, true
				case *ssa.Lookup:
					return t.X, t.Index, !t.CommaOk
				case *ssa.UnOp: // an element of a byte slice
					if ia, ok := t.X.(*ssa.IndexAddr); ok && t.Op == token.MUL {
						return ia.X, ia.Index, true
					}
				}
				return nil, nil, false
			}
			lxX, lxI, okx := at(cmp.X)
			lyX, lyI, oky := at(cmp.Y)
			if okx && oky && lxI == ssa.Value(ctr) && lyI == ssa.Value(ctr) {
				px, py := whole(lxX), whole(lyX)
				if px != nil && py != nil && px != py && (px == S || px == L) && (py == S || py == L) {
					differ = body.Succs[map[bool]int{true: 0, false: 1}[cmp.Op == token.NEQ]]
					same := body.Succs[map[bool]int{true: 1, false: 0}[cmp.Op == token.NEQ]]
					// the equal side must lead back to the loop head only
					entered := true // only from the difference test (back edges of a loop headed by the block aside)
					for _, p := range differ.Preds {
						if p != body && !differ.Dominates(p) {
							entered = false
						}
					}
					if !entered || !(len(same.Succs) == 1 && same.Succs[0] == head || same == head) {
						differ = nil
					}
				}
			}
		}
	}
	if differ == nil {
		e.S.Unk(rule, site, "difference", "the loop body is not `if shorter[i] != longer[i] { … }` followed by the next index", e.posOfBlock(body))
		return
	}
	// … and a difference ends it: from the differing side neither the next index nor the end of the scan is reached
	// (a `continue` or `break` there compares what follows the first difference, which is not the same for both orders)
	exit := head.Succs[1]
	{
		back := false
		fr := flow.ReachFrom(differ)
		for _, b := range fn.Blocks {
			if !fr[b] {
				continue
			}
			if b == head || b == exit {
				back = true
			}
		}
		// the rewind loop behind the difference has a header of its own: only the scan's header and its exit count
		if back {
			e.S.Bad(rule, site, "difference", "from the first differing position the scan can go on (next index) or fall out of the loop instead of returning the remainder comparison: what decides is then a later position", e.posOfBlock(differ), "1.0.0-x- vs 1.0.0-xa")
			return
		}
	}
	e.S.Ok(rule, site, "difference", "each step compares the two operands at the counter; equal bytes continue the scan, a difference ends it", e.posOfBlock(body))
	nDiff, nEnd := 0, 0
	bad := ""
	var badAt *ssa.BasicBlock
	for _, b := range fn.Blocks {
		ret, ok := b.Instrs[len(b.Instrs)-1].(*ssa.Return)
		if !ok {
			continue
		}
		vals := flow.ReturnValues(ret)
		if len(vals) != 1 {
			bad, badAt = "unexpected result count", b
			continue
		}
		switch {
		case exit == b || exit.Dominates(b):
			nEnd++
			k, isK := flow.ConstInt(vals[0])
			eq := 0 // 1: under equal lengths, -1: under different lengths
			for _, g := range fn.Blocks {
				iff, ok := g.Instrs[len(g.Instrs)-1].(*ssa.If)
				if !ok || !(exit == g || exit.Dominates(g)) {
					continue
				}
				cmp, ok := iff.Cond.(*ssa.BinOp)
				if !ok || (cmp.Op != token.EQL && cmp.Op != token.NEQ) {
					continue
				}
				px, py := lenOf(cmp.X), lenOf(cmp.Y)
				if px == nil || py == nil || px == py {
					continue
				}
				for si, succ := range g.Succs {
					if len(succ.Preds) == 1 && (succ == b || succ.Dominates(b)) {
						if (si == 0) == (cmp.Op == token.EQL) {
							eq = 1
						} else {
							eq = -1
						}
					}
				}
			}
			switch {
			case !isK:
				bad, badAt = "after a scan without difference the result is not a constant", b
			case eq == 0:
				bad, badAt = "after a scan without difference the result does not depend on the two lengths being equal", b
			case eq == 1 && k != 0:
				bad, badAt = fmt.Sprintf("equal texts compare as %d", k), b
			case eq == -1 && k != 1:
				bad, badAt = fmt.Sprintf("a text that is a proper prefix of the other compares as %d: the longer one must be the greater (1 in the convention cmp(longer, shorter))", k), b
			}
		case differ == b || differ.Dominates(b):
			nDiff++
			call, ok := vals[0].(*ssa.Call)
			var g *ssa.Function
			if ok {
				g = e.C.StaticCallee(&call.Call)
			}
			if g == nil || g.Pkg != fn.Pkg || len(call.Call.Args) != 2 {
				bad, badAt = "at the first difference the result is not the remainder comparison handed back unchanged", b
				continue
			}
			var lows [2]ssa.Value
			var roots [2]*ssa.Parameter
			okCut := true
			for i, a := range call.Call.Args {
				sl, ok := a.(*ssa.Slice)
				if !ok || sl.High != nil || sl.Low == nil || whole(sl.X) == nil {
					okCut = false
					break
				}
				lows[i], roots[i] = sl.Low, whole(sl.X)
			}
			if !okCut || lows[0] != lows[1] || roots[0] == roots[1] {
				bad, badAt = "the remainders compared at the first difference are not the two operands cut at one common index up to their ends", b
			}
		default:
			// a fast path: identical operands compare as 0 before any scanning
			fast := false
			if k, isK := flow.ConstInt(vals[0]); isK && k == 0 {
				for _, g := range fn.Blocks {
					iff, ok := g.Instrs[len(g.Instrs)-1].(*ssa.If)
					if !ok {
						continue
					}
					cmp, ok := iff.Cond.(*ssa.BinOp)
					if !ok || cmp.Op != token.EQL {
						continue
					}
					px, py := whole(cmp.X), whole(cmp.Y)
					if px != nil && py != nil && px != py && len(g.Succs[0].Preds) == 1 && (g.Succs[0] == b || g.Succs[0].Dominates(b)) {
						fast = true
					}
				}
			}
			if !fast {
				bad, badAt = "a return is reachable neither from the first difference nor from the end of the scan", b
			}
		}
	}
	switch {
	case bad != "":
		e.S.Bad(rule, site, "results", bad, e.posOfBlock(badAt), "1.0.0-alpha vs 1.0.0-alpha.1")
	case nDiff == 0 || nEnd < 2:
		e.S.Unk(rule, site, "results", fmt.Sprintf("%d return(s) at a difference, %d at the end of the scan: expected at least one and two", nDiff, nEnd), e.Pos(fn))
	default:
		e.S.Ok(rule, site, "results", fmt.Sprintf("%d return(s) at the first difference (the remainder comparison of both operands cut at one index), %d at the end of the scan (0 under equal lengths, 1 for a proper prefix)", nDiff, nEnd), e.Pos(fn))
	}
}

// scanFunc: the function that scans two pre-release texts: sem.comparePreRelease under its recorded name, or — renamed,
// moved or no longer generic — the one function of the module that DefaultComparePreRelease calls with both operands.
func scanFunc(e *Env, rule string) *ssa.Function {
	// what DefaultComparePreRelease actually calls with both operands decides (a function of the recorded name that is
	// no longer called is dead code); two different scanning functions are not one algorithm
	dcp := e.F("sem", "DefaultComparePreRelease")
	if dcp != nil {
		var found *ssa.Function
		several := false
		for _, call := range e.C.Calls(dcp, flow.InRepo) {
			g := flow.Origin(e.C.StaticCallee(&call.Call))
			if len(call.Call.Args) == 2 && len(g.Params) == 2 {
				if found != nil && found != g {
					several = true
				}
				found = g
			}
		}
		if several {
			e.S.Unk(rule, "sem.DefaultComparePreRelease", "anchor", "DefaultComparePreRelease hands its operands to more than one scanning function", e.Pos(dcp))
			return nil
		}
		if found != nil {
			return found
		}
	}
	if f := e.F("sem", "comparePreRelease"); f != nil {
		return f
	}
	e.S.Unk(rule, "sem.comparePreRelease", "anchor", "the scanning function is not found under its name nor as the one callee of DefaultComparePreRelease taking both operands", "")
	return nil
}
