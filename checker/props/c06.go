package props

import (
	"golang.org/x/tools/go/ssa"

	"utilcheck/flow"
)

func init() {
	register(&Prop{
		ID:    "C06",
		Title: "Version precedence follows SemVer 2.0.0 section 11",
		Run:   runC06,
		Explanation: "C06.core: Ver.Compare evaluated over the 27 orderings of (Major, Minor, Patch) by predicate abstraction: result is ∓1 by the first differing component in receiver-vs-argument direction, and for equal cores the tail call is ComparePreRelease(v.PreRelease, ver.PreRelease) in that order (side condition: the fields are used only in same-field comparisons). " +
			"C06.empty: DefaultComparePreRelease over (len(a)?0, len(b)?0): both empty 0, only a empty +1, only b empty −1. " +
			"C06.build: no function reachable from Ver.Compare reads Ver.Build. C06.entry: the six string helpers parse both inputs with their own parser, test both errors, and return parse(a).Compare(parse(b)) / .Latest. " +
			"C06.sep: some constant containing '.' is used by the code reachable from DefaultComparePreRelease (identifier-wise comparison must see the separator). " +
			"C06.num: where the code establishes that both operands are all-digit, every path to the result contains a length comparison or numeric conversion.",
		NotDecided:  []string{"full conformance of the identifier-wise comparison for all strings (value-level string scan)", "the pinned a01 == a1 departure is untouched by every rule"},
		Assumptions: []string{"strings.Compare ∈ {-1,0,1}"},
		Technique:   "predicate abstraction over orderings + field-access and constant-use rules over go/ssa",
	})
}

func runC06(e *Env) {
	dcp := e.Fn("C06.sep", "sem", "DefaultComparePreRelease")
	if dcp != nil {
		reach := e.C.Reachable(dcp)
		e.Flow(func(c *flow.Ctx) {
			c.RuleSeparatorAware(reach, '.')
			for _, f := range flow.SortedFuncs(reach) {
				c.RuleNumericCompare(f, func(g *ssa.Global) bool { return c.RegexpSubsetOfDigits(g) })
			}
		})
	}
	e.S.Floor("C06.sep", 1)
	e.S.Floor("C06.num", 1)
}
