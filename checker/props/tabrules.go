package props

import (
	"fmt"
	"go/constant"
	"math/big"
	"sort"
	"strings"

	"utilcheck/flow"
	"utilcheck/tab"
)

func bigOf(v constant.Value) *big.Int {
	if v == nil {
		return nil
	}
	b, ok := new(big.Int).SetString(v.ExactString(), 10)
	if !ok {
		return nil
	}
	return b
}

// table reads a package-level literal table and proves it constant (who-writes); nil if not available.
func (e *Env) table(rule, pkg, name string) *tab.Table {
	p := e.P.ByPkg[pkg]
	if p == nil {
		e.S.Unk(rule, pkg+"."+name, "anchor", "package not found", "")
		return nil
	}
	t, err := tab.Literal(p, e.vname(pkg, name))
	if err != nil {
		e.S.Unk(rule, pkg+"."+name, "anchor", "literal table not readable: "+err.Error(), "")
		return nil
	}
	if g := e.Var(rule, pkg, name); g != nil {
		e.Flow(func(c *flow.Ctx) { c.RuleTableConst(rule, g) })
	}
	return t
}

func (e *Env) tpos(pkg string, t *tab.Table) string {
	p := e.P.SSA.Fset.Position(t.Pos)
	return shortPos(p.Filename, p.Line)
}

// sizeUnits reads unitToValues as unit → multiplier.
func sizeUnits(e *Env, rule string) (map[string]*big.Int, *tab.Table) {
	utv := e.table(rule, "size", "unitToValues")
	if utv == nil {
		return nil, nil
	}
	got := map[string]*big.Int{}
	for i, k := range utv.Keys {
		if k == nil || k.Kind() != constant.String || utv.Values[i] == nil {
			e.S.Unk(rule, "size.unitToValues", fmt.Sprintf("entry %d", i), "non-constant key or value", e.tpos("size", utv))
			return nil, nil
		}
		u := constant.StringVal(k)
		if _, dup := got[u]; dup {
			e.S.Bad(rule, "size.unitToValues", "unit "+u, "duplicate key", e.tpos("size", utv), "")
		}
		got[u] = bigOf(utv.Values[i])
	}
	return got, utv
}

// ruleC08Tab: C08.tab.
func ruleC08Tab(e *Env) {
	const rule = "C08.tab"
	got, utv := sizeUnits(e, rule)
	if got == nil {
		return
	}
	pos := e.tpos("size", utv)
	spec := map[string]*big.Int{"B": big.NewInt(1)}
	for i, u := range []string{"kB", "MB", "GB", "TB", "PB", "EB"} {
		spec[u] = new(big.Int).Exp(big.NewInt(1000), big.NewInt(int64(i+1)), nil)
	}
	for i, u := range []string{"KiB", "MiB", "GiB", "TiB", "PiB", "EiB"} {
		spec[u] = new(big.Int).Exp(big.NewInt(1024), big.NewInt(int64(i+1)), nil)
	}
	var units []string
	for u := range spec {
		units = append(units, u)
	}
	sort.Strings(units)
	for _, u := range units {
		want := spec[u]
		g, ok := got[u]
		switch {
		case !ok:
			e.S.Bad(rule, "size.unitToValues", "unit "+u, "documented unit "+u+" has no multiplier: sizes with this unit are rejected", pos, "1"+u)
		case g == nil || g.Cmp(want) != 0:
			e.S.Bad(rule, "size.unitToValues", "unit "+u, fmt.Sprintf("multiplier of %s is %v, the documented value is %v", u, g, want), pos, "1"+u)
		default:
			e.S.Ok(rule, "size.unitToValues", "unit "+u, fmt.Sprintf("%s = %v", u, want), pos)
		}
	}
	for u := range got {
		if spec[u] == nil {
			e.S.Bad(rule, "size.unitToValues", "unit "+u, "unit "+quote(u)+" is not one of the documented units with a multiplier (the over-size units ZB, YB, ZiB, YiB must be accepted only with zero)", pos, "1"+u)
		}
	}
	zu := e.table(rule, "size", "zeroUnits")
	if zu == nil {
		return
	}
	zpos := e.tpos("size", zu)
	zset := map[string]bool{}
	for i, k := range zu.Keys {
		if k == nil || k.Kind() != constant.String {
			e.S.Unk(rule, "size.zeroUnits", "keys", "non-constant key", zpos)
			return
		}
		// a set spelled map[string]bool: membership is the stored value (a key mapped to false is not a member)
		if i < len(zu.Values) && zu.Values[i] != nil && zu.Values[i].Kind() == constant.Bool && !constant.BoolVal(zu.Values[i]) {
			continue
		}
		zset[constant.StringVal(k)] = true
	}
	wantZero := append([]string{"", "ZB", "YB", "ZiB", "YiB"}, units...)
	sort.Strings(wantZero)
	for _, u := range wantZero {
		if zset[u] {
			e.S.Ok(rule, "size.zeroUnits", "unit "+quote(u), "accepted with value 0", zpos)
		} else {
			e.S.Bad(rule, "size.zeroUnits", "unit "+quote(u), "zero with unit "+quote(u)+" is rejected although the unit is documented", zpos, "0"+u)
		}
	}
	for u := range zset {
		found := false
		for _, w := range wantZero {
			if w == u {
				found = true
			}
		}
		if !found {
			e.S.Bad(rule, "size.zeroUnits", "unit "+quote(u), "undocumented unit accepted with zero", zpos, "0"+u)
		}
	}
}

// ruleC02Tab: C02.tab — the three digit tables hold the canonical subtractive numerals.
func ruleC02Tab(e *Env) {
	const rule = "C02.tab"
	for _, g := range []struct{ name, one, five, ten string }{{"hundreds", "C", "D", "M"}, {"tens", "X", "L", "C"}, {"units", "I", "V", "X"}} {
		t := e.table(rule, "roman", g.name)
		if t == nil {
			continue
		}
		pos := e.tpos("roman", t)
		vals, err := t.SliceValues()
		if err != nil {
			e.S.Unk(rule, "roman."+g.name, "literal", err.Error(), pos)
			continue
		}
		if len(vals) != 10 {
			e.S.Bad(rule, "roman."+g.name, "length", fmt.Sprintf("%d entries, a decimal digit needs 10", len(vals)), pos, "")
		}
		for d, v := range vals {
			if d > 9 {
				break
			}
			if v == nil || v.Kind() != constant.String {
				e.S.Unk(rule, "roman."+g.name, fmt.Sprintf("[%d]", d), "non-constant entry", pos)
				continue
			}
			want := canonicalDigit(d, g.one, g.five, g.ten)
			if constant.StringVal(v) != want {
				e.S.Bad(rule, "roman."+g.name, fmt.Sprintf("[%d]", d), fmt.Sprintf("digit %d is written %q, the canonical subtractive form is %q", d, constant.StringVal(v), want), pos, "")
			} else {
				e.S.Ok(rule, "roman."+g.name, fmt.Sprintf("[%d]", d), fmt.Sprintf("%d ↦ %q", d, want), pos)
			}
		}
	}
	if th, ok := tabConstInt(e, "roman", "thousand"); !ok || th != 'M' {
		e.S.Bad(rule, "roman.thousand", "value", "the thousands symbol is not 'M'", "", "")
	} else {
		e.S.Ok(rule, "roman.thousand", "value", "thousand = 'M'", "")
	}
}

func canonicalDigit(d int, one, five, ten string) string {
	switch {
	case d <= 3:
		return strings.Repeat(one, d)
	case d == 4:
		return one + five
	case d <= 8:
		return five + strings.Repeat(one, d-5)
	default:
		return one + ten
	}
}
