package props

import (
	"go/constant"
	"strconv"

	"golang.org/x/tools/go/ssa"

	"utilcheck/flow"

	"utilcheck/tab"
)

func quote(s string) string { return strconv.Quote(s) }

// tabConstString returns the value of a package-level string constant, or "".
func tabConstString(e *Env, pkg, name string) string {
	p := e.P.ByPkg[pkg]
	if p == nil {
		return ""
	}
	v := tab.Const(p, name)
	if v == nil || v.Kind() != constant.String {
		return ""
	}
	return constant.StringVal(v)
}

// tabConstInt returns the value of a package-level integer constant.
func tabConstInt(e *Env, pkg, name string) (int64, bool) {
	p := e.P.ByPkg[pkg]
	if p == nil {
		return 0, false
	}
	v := tab.Const(p, name)
	if v == nil || v.Kind() != constant.Int {
		return 0, false
	}
	return constant.Int64Val(v)
}

// globalIntInit returns the constant a package-level integer variable is initialised with (declaration value;
// a variable without an init-time Store keeps its zero value).
func (e *Env) globalIntInit(g *ssa.Global) (int64, bool) {
	found, val := false, int64(0)
	for fn := range e.C.AllRepoFuncs() {
		for _, b := range fn.Blocks {
			for _, in := range b.Instrs {
				st, ok := in.(*ssa.Store)
				if !ok || st.Addr != ssa.Value(g) {
					continue
				}
				if fn.Name() != "init" {
					return 0, false // reassigned at run time by the module itself
				}
				k, ok := flow.ConstInt(st.Val)
				if !ok {
					return 0, false
				}
				found, val = true, k
			}
		}
	}
	_ = found
	return val, true
}
