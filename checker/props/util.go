package props

import (
	"go/constant"
	"strconv"

	"utilcheck/tab"
)

func quote(s string) string { return strconv.Quote(s) }

// tabConstString returns the value of a package-level string constant, or "".
func tabConstString(e *Env, pkg, name string) string {
	p := e.P.ByPkg[pkg]
	if p == nil {
		return ""
	}
	v := tab.Const(p, name)
	if v == nil || v.Kind() != constant.String {
		return ""
	}
	return constant.StringVal(v)
}

// tabConstInt returns the value of a package-level integer constant.
func tabConstInt(e *Env, pkg, name string) (int64, bool) {
	p := e.P.ByPkg[pkg]
	if p == nil {
		return 0, false
	}
	v := tab.Const(p, name)
	if v == nil || v.Kind() != constant.Int {
		return 0, false
	}
	return constant.Int64Val(v)
}
