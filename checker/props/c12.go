package props

import (
	"utilcheck/flow"
)

func init() {
	register(&Prop{
		ID:    "C12",
		Title: "Size JSON forms are gated by rules and objects are read faithfully",
		Run:   runC12,
		Explanation: "C12.gate: decision table of size.unmarshalJSON over (dynamic token type, string-rule bit, object-rule bit) extracted by predicate abstraction and compared with the documented outcomes; DefaultParser enters JSON mode iff a JSON rule bit is set; UseNumber precedes the first Token. " +
			"C12.whole: every success return of the JSON path is preceded, after the value is complete, by an end-of-input check of an enumerated form (Token()==io.EOF, More(), InputOffset, json.Valid), and the object path consumes its closing delimiter. " +
			"C12.zero: every comparison against the exported limit MaxObjectKeys is conjoined with a `!= 0` test (0 disables, as at the five MaxInputLength sites). " +
			"C12.count: in the key loop every path from a member read to the success exit passes a limit comparison that covers that read (order independence of the verdict). " +
			"C12.keys: lower-cased key switch against lower-case constants equal to the marshal keys; duplicate tests precede decoding and return the matching ErrDuplicated*; newOrError maps nil to ErrMissingValueKey/ErrMissingUnitKey; decodeValue/decodeUnit accept exactly json.Number/string; the default arm returns ErrUnexpectedKey iff RuleDisallowUnknownKeys else skips nested values with a depth counter. " +
			"S-WRAP: sentinels bound to %w; errors of the object reader re-wrapped by newParseError.",
		NotDecided:  []string{"encoding/json tokenisation itself", "numeric equality of results (C08)", "behaviour for inputs longer than MaxInputLength (C18)"},
		Assumptions: []string{"json.Decoder.Token/More contracts; Token returns io.EOF at end of input and a syntax error for a malformed continuation"},
		Technique:   "must-pass-through/dominator rules, counter-slack path enumeration and decision-table extraction over go/ssa",
	})
}

func runC12(e *Env) {
	dp := e.Fn("C12.whole", "size", "DefaultParser")
	ujo := e.Fn("C12.count", "size", "unmarshalJSONObject")
	e.Flow(func(c *flow.Ctx) {
		if dp != nil {
			c.RuleWholeInput(dp, 0)
		}
		if ujo != nil {
			c.RuleCounterSlack(ujo, "MaxObjectKeys")
		}
		c.RuleLimitZero(e.PkgFuncs("size"), "MaxObjectKeys")
		for i := range c.Out {
			switch c.Out[i].Rule {
			case "LIMIT0", "C18.L":
				c.Out[i].Rule = "C12.zero"
			}
		}
	})
	e.S.Floor("C12.whole", 1)
	e.S.Floor("C12.zero", 1)
	e.S.Floor("C12.count", 1)
	ruleWrap(e, "C12.wrap", "size")
	e.S.Floor("C12.wrap", 8)
}
