package props

import (
	"fmt"
	"go/constant"
	"go/token"
	"go/types"
	"regexp"
	"strings"

	"golang.org/x/tools/go/ssa"

	"utilcheck/flow"
	"utilcheck/pred"
)

func init() {
	register(&Prop{
		ID:    "C12",
		Title: "Size JSON forms are gated by rules and objects are read faithfully",
		Run:   runC12,
		Explanation: "C12.gate: decision table of size.unmarshalJSON over (dynamic token type, string-rule bit, object-rule bit) extracted by predicate abstraction and compared with the documented outcomes (number and string tokens go to the text parser, the string with the rule's RuleDisableUnit bit: the result is what the text rules give); DefaultParser enters JSON mode iff a JSON rule bit is set; UseNumber precedes the first Token. " +
			"C12.whole: every success return of the JSON path is preceded, after the value is complete, by an end-of-input check of an enumerated form (Token()==io.EOF, More(), InputOffset, json.Valid), and the object path consumes its closing delimiter. " +
			"C12.zero: every comparison against the exported limit MaxObjectKeys is conjoined with a `!= 0` test (0 disables, as at the five MaxInputLength sites). " +
			"C12.count: in the key loop every path from a member read to the success exit passes a limit comparison that covers that read (order independence of the verdict); the comparison and the read may each sit in a helper of the module (an error-returning check of the counter, a key reader). " +
			"C12.object: the members reach newSize as decoded by decodeValue / decodeUnit, which accept only a number resp. string token (null counts as wrongly typed) — C08.object under this property. C12.keyeq: a member is value / unit only when its lower-cased key equals the constant (C04.keys, strict: the normaliser is a function of the module evaluated byte class by byte class to A–Z ↦ a–z and nothing else; strings.ToLower also folds U+0130 and U+212A). C12.keys: lower-cased key switch against lower-case constants equal to the marshal keys; duplicate tests precede decoding and return the matching ErrDuplicated*; newOrError maps nil to ErrMissingValueKey/ErrMissingUnitKey; decodeValue/decodeUnit accept exactly json.Number/string; the default arm returns ErrUnexpectedKey iff RuleDisallowUnknownKeys else skips nested values with a depth counter. " +
			"C12.entry: Size.UnmarshalJSON hands its bytes and the configured DefaultRule, unmasked, to the package-level Parser (a mask would drop RuleDisallowUnknownKeys or a form bit on the encoding/json route). C12.all: the member loop is left for the success path only on the edge where More() reports no member left (otherwise later duplicates, unknown keys and the member count go unexamined and the verdict depends on member order). " +
			"S-WRAP: sentinels bound to %w; errors of the object reader re-wrapped by newParseError. The skipper's nesting counter is decided as a transfer function per token class (scalar, {, [, }, ]): +1, +1, −1, −1, 0, the decreased value tested against zero with the zero side returning nil; the token domain of the gate includes JSON null (a nil token: refused as wrongly typed); the key normaliser is evaluated with the examined byte at every position up to the longest key.",
		NotDecided:  []string{"encoding/json tokenisation itself", "numeric equality of results (C08)", "behaviour for inputs longer than MaxInputLength (C18)", "whether the object form should honour RuleDisableUnit (the property gates forms, not units inside the object; the library does not)"},
		Assumptions: []string{"json.Decoder.Token/More contracts; Token returns io.EOF at end of input and a syntax error for a malformed continuation"},
		Technique:   "must-pass-through/dominator rules, counter-slack path enumeration and decision-table extraction over go/ssa",
	})
}

func runC12(e *Env) {
	dp := e.Fn("C12.whole", "size", "DefaultParser")
	ujo := e.Fn("C12.count", "size", "unmarshalJSONObject")
	e.Flow(func(c *flow.Ctx) {
		if dp != nil {
			c.RuleWholeInput(dp, 0)
		}
		if ujo != nil {
			c.RuleCounterSlack(ujo, "MaxObjectKeys")
		}
		c.RuleLimitZero(e.PkgFuncs("size"), "MaxObjectKeys")
		for i := range c.Out {
			switch c.Out[i].Rule {
			case "LIMIT0", "C18.L":
				c.Out[i].Rule = "C12.zero"
			}
		}
	})
	// "more members than the configured maximum … is rejected with the documented error": the rejecting side of the
	// comparison against MaxObjectKeys builds its error from ErrObjectTooBig (errors.Is finds it: C12.wrap binds it)
	ruleC12TooBig(e)
	e.S.Floor("C12.toobig", 1)
	e.S.Floor("C12.whole", 1)
	e.S.Floor("C12.zero", 1)
	e.S.Floor("C12.count", 1)
	ruleC12Gate(e)
	ruleC12Keys(e)
	ruleC12AllMembers(e, "C12.all")
	e.S.Floor("C12.all", 1)
	e.S.Floor("C12.gate", 10)
	e.S.Floor("C12.keys", 12)
	// the members are decoded as documented (a wrongly typed member — null included — is refused): C08.object; and
	// a member is value / unit only if its lower-cased key equals the constant: C04.keys
	e.As(map[string]string{"C08.object": "C12.object", "C04.keys": "C12.keyeq"}, func() {
		ruleC08Object(e)
		ruleKeys(e, "C12.keyeq", true)
	})
	e.S.Floor("C12.object", 7)
	e.S.Floor("C12.keyeq", 4)
	// the JSON entry point hands the configured rule to the parser as it is: a mask would drop RuleDisallowUnknownKeys
	// (or a form bit) on the encoding/json route although the parser itself honours it
	if fn := e.Method("C12.entry", "size", "Size", "UnmarshalJSON"); fn != nil {
		ruleUnmarshalDeleg(e, "C12.entry", "size", fn, "UnmarshalJSON", "*size.DefaultRule", map[string]pred.Summary{})
	}
	e.S.Floor("C12.entry", 2)
	ruleWrap(e, "C12.wrap", "size")
	e.S.Floor("C12.wrap", 8)
}

// ruleC12TooBig: see runC12.
func ruleC12TooBig(e *Env) {
	const rule = "C12.toobig"
	sent := e.Var(rule, "size", "ErrObjectTooBig")
	lim := e.Var(rule, "size", "MaxObjectKeys")
	if sent == nil || lim == nil {
		return
	}
	for _, fn := range e.PkgFuncs("size") {
		for _, b := range fn.Blocks {
			iff, ok := b.Instrs[len(b.Instrs)-1].(*ssa.If)
			if !ok {
				continue
			}
			cmp, ok := iff.Cond.(*ssa.BinOp)
			if !ok {
				continue
			}
			switch cmp.Op {
			case token.GTR, token.LSS, token.GEQ, token.LEQ:
			default:
				continue
			}
			if flow.GlobalLoad(cmp.X) != lim && flow.GlobalLoad(cmp.Y) != lim {
				continue
			}
			site := flow.FnName(fn)
			// the side on which the count exceeds the limit
			limRight := flow.GlobalLoad(cmp.Y) == lim
			over := (cmp.Op == token.GTR || cmp.Op == token.GEQ) == limRight
			rej := b.Succs[1]
			if over {
				rej = b.Succs[0]
			}
			if !flow.LeadsOnlyToErrors(rej) {
				rej = nil
			}
			if rej == nil {
				e.S.Unk(rule, site, "sentinel", "neither side of the comparison against MaxObjectKeys leads only to error returns", e.posOf(iff))
				continue
			}
			uses := false
			for _, in := range rej.Instrs {
				if u, ok := in.(*ssa.UnOp); ok && u.X == ssa.Value(sent) {
					uses = true
				}
				if c, ok := in.(*ssa.Call); ok {
					if g := e.C.StaticCallee(&c.Call); g != nil && flow.InRepo(g) {
						for _, gb := range flow.Origin(g).Blocks {
							for _, gin := range gb.Instrs {
								if u, ok := gin.(*ssa.UnOp); ok && u.X == ssa.Value(sent) {
									uses = true
								}
							}
						}
					}
				}
			}
			if uses {
				e.S.Ok(rule, site, "sentinel", "too many members ⇒ an error built from ErrObjectTooBig", e.posOf(iff))
			} else {
				e.S.Bad(rule, site, "sentinel", "the rejection of too many members is not built from ErrObjectTooBig: errors.Is(err, ErrObjectTooBig) fails", e.posOf(iff), `{"a":1,"b":2,"c":3} with MaxObjectKeys = 2`)
			}
		}
	}
}

func (e *Env) jsonType(name string) types.Type {
	for _, p := range e.P.SSA.AllPackages() {
		if p.Pkg.Path() == "encoding/json" {
			if t := p.Type(name); t != nil {
				return t.Type()
			}
		}
	}
	return nil
}

// parseErrKind classifies the error value a size parser function returns: "nil", a sentinel name, "typed(<inner>)".
func sizeErrKind(v pred.Val) string {
	switch x := v.(type) {
	case pred.Const:
		if x.V == nil {
			return "nil"
		}
	case pred.Sym:
		return strings.TrimPrefix(x.Name, "*size.")
	case pred.Term:
		if w := errorfWrapped(x); w != nil {
			return "wrap(" + sizeErrKind(w) + ")"
		}
		return x.String()
	case pred.Iface:
		if p, ok := x.V.(pred.Ptr); ok && p.Cell != nil {
			if s, ok := p.Cell.V.(*pred.StructV); ok && len(s.Fields) == 3 {
				return "ParseError(" + sizeErrKind(s.Fields[2]) + ")"
			}
		}
		return sizeErrKind(x.V)
	}
	return v.String()
}

func ruleC12Gate(e *Env) {
	const rule = "C12.gate"
	dp := e.Fn(rule, "size", "DefaultParser")
	if dp == nil {
		return
	}
	// the function that constructs the decoder
	// … or, when the decoder is set up by a helper of its own, the lowest function that reaches both the decoder's
	// construction and the text parser: the one that dispatches on the first token
	ut := e.F("size", "unmarshalText")
	var jv *ssa.Function
	isNewDecoder := func(g *ssa.Function) bool { return g.String() == "encoding/json.NewDecoder" }
	reachesDecoder := func(f *ssa.Function) bool {
		for g := range e.C.Reachable(f) {
			if len(e.C.Calls(g, isNewDecoder)) > 0 {
				return true
			}
		}
		return false
	}
	for _, f := range flow.SortedFuncs(e.C.Reachable(dp)) {
		if f == dp || ut == nil || !reachesDecoder(f) || !e.C.Reachable(f)[ut] {
			continue
		}
		lowest := true
		for _, call := range e.C.Calls(f, flow.InRepo) {
			if g := e.C.StaticCallee(&call.Call); g != nil && g != f && reachesDecoder(g) && e.C.Reachable(g)[ut] {
				lowest = false
			}
		}
		if lowest {
			jv = f
		}
	}
	if jv == nil {
		for _, f := range flow.SortedFuncs(e.C.Reachable(dp)) {
			if len(e.C.Calls(f, isNewDecoder)) > 0 {
				jv = f
			}
		}
	}
	ujo := e.F("size", "unmarshalJSONObject")
	delimT, numberT := e.jsonType("Delim"), e.jsonType("Number")
	if jv == nil || ut == nil || ujo == nil || delimT == nil || numberT == nil {
		e.S.Unk(rule, flow.FnName(dp), "anchors", "JSON value function / unmarshalText / unmarshalJSONObject / json types not found", e.Pos(dp))
		return
	}
	site := flow.FnName(jv)
	// the scenarios start at the function DefaultParser hands the input to in JSON mode, so that whatever stands between
	// it and the dispatcher (a wrapper that masks the rule, trims or pre-checks the text) is evaluated with them
	top := jv
	for _, call := range e.C.Calls(dp, flow.InRepo) {
		if callee := flow.Origin(e.C.StaticCallee(&call.Call)); callee != ut && callee != jv && e.C.Reachable(callee)[jv] {
			top = callee
		}
	}
	unitBit, _ := tabConstInt(e, "size", "RuleDisableUnit")
	unitRule := maskedSym("r", unitBit)
	strBit, _ := tabConstInt(e, "size", "RuleEnableJSONStringForm")
	objBit, _ := tabConstInt(e, "size", "RuleEnableJSONObjectForm")
	keyOf := func(a, b pred.Val) (string, bool) {
		c, ok := b.(pred.Const)
		if ok && c.V != nil {
			if s, ok := a.(pred.Sym); ok && s.Name == "tok" {
				return "delim==" + c.V.ExactString(), true
			}
			if bits, ok := a.(pred.Bits); ok && c.V.ExactString() == "0" {
				var idx []string
				for i, bit := range bits.B {
					switch bit.K {
					case 's':
						if bit.Sym != "r" || bit.Idx != i {
							return "", false
						}
						idx = append(idx, fmt.Sprint(i))
					case '0':
					default:
						return "", false
					}
				}
				return "rule&bits(" + strings.Join(idx, ",") + ")", true
			}
		}
		return errKeyOf(a, b)
	}
	kStr, kObj := fmt.Sprintf("rule&bits(%d)", bitIndex(strBit)), fmt.Sprintf("rule&bits(%d)", bitIndex(objBit))
	for _, sc := range []struct {
		name string
		dyn  types.Type
	}{{"Delim", delimT}, {"Number", numberT}, {"string", types.Typ[types.String]}, {"other (bool/float)", types.Typ[types.Bool]}, {"null", nil}} {
		sums := map[string]pred.Summary{
			"(*encoding/json.Decoder).Token": func(ev *pred.Evaluator, args []pred.Val) (pred.Val, error) {
				if sc.dyn == nil { // the JSON value null: Token returns a nil interface with a nil error
					return pred.Tuple{pred.Const{}, pred.Const{}}, nil
				}
				return pred.Tuple{pred.Iface{Dyn: sc.dyn, V: pred.Sym{Name: "tok"}}, pred.Const{}}, nil
			},
			ut.String(): func(ev *pred.Evaluator, args []pred.Val) (pred.Val, error) {
				args = e.Unpermuted("size", "unmarshalText", ut, args) // the recorded order (input, rule), whatever the present one
				return pred.Tuple{pred.Term{Fn: "unmarshalText#0", Args: args}, pred.Term{Fn: "unmarshalText#1", Args: args}}, nil
			},
			ujo.String(): func(ev *pred.Evaluator, args []pred.Val) (pred.Val, error) {
				return pred.Tuple{pred.Term{Fn: "object#0", Args: args[1:]}, pred.Term{Fn: "object#1", Args: args[1:]}}, nil
			},
			// the scenario is a text that is one well-formed JSON value (where the whole-input test sits — in this
			// function or in its caller — and that it is made: C12.whole)
			"encoding/json.Valid": func(ev *pred.Evaluator, args []pred.Val) (pred.Val, error) {
				return pred.Const{V: constant.MakeBool(true)}, nil
			},
		}
		// the rule parameter by its type, every other parameter is (a form of) the input
		mk := func() []pred.Val {
			var out []pred.Val
			for _, prm := range top.Params {
				if nt, ok := prm.Type().(*types.Named); ok && nt.Obj().Name() == "Rule" {
					out = append(out, pred.Sym{Name: "r"})
				} else {
					out = append(out, pred.Sym{Name: "input"})
				}
			}
			return out
		}
		leaves, err := extractTree(e.P.SSA, top, mk, sums, nil, keyOf, binDomain)
		if err != nil {
			e.S.Unk(rule, site, sc.name, err.Error(), e.Pos(jv))
			continue
		}
		for _, lf := range leaves {
			construct := sc.name + " {" + lf.String() + "}"
			if lf.Err != nil {
				e.S.Unk(rule, site, construct, lf.Err.Error(), e.Pos(jv))
				continue
			}
			t, ok := lf.Out.Ret.(pred.Tuple)
			if !ok || len(t) != 2 {
				e.S.Unk(rule, site, construct, lf.Out.Ret.String(), e.Pos(jv))
				continue
			}
			val, errk := t[0].String(), sizeErrKind(t[1])
			get := func(k string) int {
				v, ok := lf.Assign[k]
				if !ok {
					return 2
				}
				if v == 0 {
					return 1
				}
				return 0
			}
			want := "?"
			switch sc.name {
			case "Delim":
				brace := get("delim==123")
				objOff := get(kObj) // masked == 0 ⇒ flag clear
				switch {
				case brace == 0:
					want = "0 / ParseError(ErrExpectedObject)"
				case brace == 1 && objOff == 1:
					want = "0 / ParseError(ErrObjectFormDisabled)"
				case brace == 1 && objOff == 0:
					if get("nil? object#1(r)") == 1 {
						want = "object#0(r) / nil"
					} else if get("nil? object#1(r)") == 0 {
						want = "0 / ParseError(object#1(r))"
					}
				}
			case "Number":
				// a number token carries no unit: rule 0 or the unit bit of the rule, the text parser decides the same
				want = "unmarshalText#0(tok,0) / unmarshalText#1(tok,0)"
				if alt := fmt.Sprintf("unmarshalText#0(tok,%v) / unmarshalText#1(tok,%v)", unitRule, unitRule); val+" / "+errk == alt {
					want = alt
				}
			case "string":
				switch get(kStr) {
				case 1:
					want = "0 / ParseError(ErrStringFormDisabled)"
				case 0:
					// "the result equals what the text rules give for the decoded string": the text parser gets the rule's
					// RuleDisableUnit bit, nothing else of the rule
					want = fmt.Sprintf("unmarshalText#0(tok,%v) / unmarshalText#1(tok,%v)", unitRule, unitRule)
				}
			default:
				want = "0 / ParseError(wrap(ErrInvalidType))"
			}
			got := val + " / " + errk
			// the text parser's result handed on in two steps (`v, err := unmarshalText(…); if err != nil { return 0, err };
			// … return v, nil`) is the same outcome, told apart by the error test
			if m := regexp.MustCompile(`^(unmarshalText)#0(\(.*\)) / unmarshalText#1(\(.*\))$`).FindStringSubmatch(want); m != nil && m[2] == m[3] {
				switch v, asked := lf.Assign["nil? unmarshalText#1"+m[2]]; {
				case asked && v == 0 && got == "unmarshalText#0"+m[2]+" / nil":
					got = want
				case asked && v != 0 && got == "0 / unmarshalText#1"+m[2]:
					got = want
				}
			}
			switch {
			case want == "?":
				e.S.Bad(rule, site, construct, "outcome "+got+" is decided without consulting what the documented gate depends on", e.Pos(jv), "")
			case got != want:
				e.S.Bad(rule, site, construct, "outcome "+got+", documented "+want, e.Pos(jv), "")
			default:
				e.S.Ok(rule, site, construct, "outcome "+want, e.Pos(jv))
			}
			// UseNumber before the first Token
			iu, it := -1, -1
			for i, tr := range lf.Trace {
				if strings.HasPrefix(tr, "(*encoding/json.Decoder).UseNumber(") && iu < 0 {
					iu = i
				}
			}
			_ = it
			if sc.name == "Number" {
				if iu < 0 {
					e.S.Bad(rule, site, "UseNumber", "the decoder is not switched to json.Number: integers above 2^53 lose precision as float64 and are rejected as 'other'", e.Pos(jv), "9007199254740993")
				} else {
					e.S.Ok(rule, site, "UseNumber", "UseNumber is called on the decoder before the value is read", e.Pos(jv))
				}
			}
		}
	}
	// DefaultParser: JSON mode iff a JSON rule bit is set
	isJSON := strBit | objBit
	var jsonEntry *ssa.Function
	for _, call := range e.C.Calls(dp, flow.InRepo) {
		callee := e.C.StaticCallee(&call.Call)
		if callee != ut && e.C.Reachable(callee)[jv] {
			jsonEntry = callee
		}
	}
	if jsonEntry == nil {
		e.S.Unk(rule, flow.FnName(dp), "mode", "DefaultParser does not call the JSON path directly", e.Pos(dp))
		return
	}
	sums := map[string]pred.Summary{
		ut.String(): func(ev *pred.Evaluator, args []pred.Val) (pred.Val, error) {
			return pred.Term{Fn: "text", Args: e.Unpermuted("size", "unmarshalText", ut, args)}, nil
		},
		jsonEntry.String(): func(ev *pred.Evaluator, args []pred.Val) (pred.Val, error) {
			return pred.Term{Fn: "json", Args: args}, nil
		},
	}
	fixed := func(a, b pred.Val) (int, bool, bool) {
		if a.String() == "*size.MaxInputLength" && b.String() == "0" {
			return 0, true, true
		}
		return 0, false, false
	}
	leaves, err := extractTree(e.P.SSA, dp, func() []pred.Val { return []pred.Val{pred.Sym{Name: "input"}, pred.Sym{Name: "r"}} }, sums, fixed, keyOf, binDomain)
	if err != nil {
		e.S.Unk(rule, flow.FnName(dp), "mode", err.Error(), e.Pos(dp))
		return
	}
	var bitsIdx []string
	for i := 0; i < 63; i++ {
		if isJSON>>uint(i)&1 == 1 {
			bitsIdx = append(bitsIdx, fmt.Sprint(i))
		}
	}
	kJSON := "rule&bits(" + strings.Join(bitsIdx, ",") + ")"
	for _, lf := range leaves {
		construct := "mode {" + lf.String() + "}"
		if lf.Err != nil {
			e.S.Unk(rule, flow.FnName(dp), construct, lf.Err.Error(), e.Pos(dp))
			continue
		}
		v, asked := lf.Assign[kJSON]
		got := lf.Out.Ret.String()
		switch {
		case !asked:
			e.S.Bad(rule, flow.FnName(dp), construct, "DefaultParser does not select the mode by exactly the two JSON rule bits (asked "+lf.String()+")", e.Pos(dp), "")
		case v == 1 && got == "(json#0(input,r), json#1(input,r))", v == 0 && got == "(text#0(input,r), text#1(input,r))":
			e.S.Ok(rule, flow.FnName(dp), construct, map[bool]string{true: "a JSON rule bit set ⇒ JSON path", false: "no JSON rule bit ⇒ text path"}[v == 1], e.Pos(dp))
		default:
			e.S.Bad(rule, flow.FnName(dp), construct, "returns "+got+"; documented: JSON path iff a JSON rule bit is set, with the input and rule passed unchanged", e.Pos(dp), "")
		}
	}
}

// ruleC12Keys: the object reader's member handling.
func ruleC12Keys(e *Env) {
	const rule = "C12.keys"
	// newOrError
	if fn := e.Fn(rule, "size", "newOrError"); fn != nil {
		site := flow.FnName(fn)
		ns := e.F("size", "newSize")
		sums := map[string]pred.Summary{}
		if ns != nil {
			sums[ns.String()] = func(ev *pred.Evaluator, args []pred.Val) (pred.Val, error) {
				args = e.Unpermuted("size", "newSize", ns, args)
				return pred.Tuple{pred.Term{Fn: "newSize#0", Args: args}, pred.Term{Fn: "newSize#1", Args: args}}, nil
			}
		}
		for _, c := range []struct {
			name     string
			val, uni bool
			want     string
		}{{"value missing", false, true, "(0, *size.ErrMissingValueKey)"}, {"both missing", false, false, "(0, *size.ErrMissingValueKey)"},
			{"unit missing", true, false, "(0, *size.ErrMissingUnitKey)"}, {"both present", true, true, "(newSize#0(v,u), newSize#1(v,u))"}} {
			var pv, pu pred.Val = pred.Ptr{}, pred.Ptr{}
			if c.val {
				pv = pred.Ptr{Cell: &pred.Cell{V: pred.Sym{Name: "v"}, Name: "value"}}
			}
			if c.uni {
				pu = pred.Ptr{Cell: &pred.Cell{V: pred.Sym{Name: "u"}, Name: "unit"}}
			}
			ev := &pred.Evaluator{Prog: e.P.SSA, GlobalInit: e.globalTables(), Oracle: noOracle{}, Summaries: sums}
			out, err := ev.Eval(fn, []pred.Val{pv, pu})
			switch {
			case err != nil:
				e.S.Unk(rule, site, c.name, err.Error(), e.Pos(fn))
			case out.Ret.String() != c.want:
				e.S.Bad(rule, site, c.name, "returns "+out.Ret.String()+", documented "+c.want, e.Pos(fn), "")
			default:
				e.S.Ok(rule, site, c.name, "returns "+c.want, e.Pos(fn))
			}
		}
	}
	// decodeValue / decodeUnit
	numberT := e.jsonType("Number")
	for _, d := range []struct {
		fn     string
		accept types.Type
		what   string
	}{{"decodeValue", numberT, "json.Number"}, {"decodeUnit", types.Typ[types.String], "string"}} {
		fn := e.Fn(rule, "size", d.fn)
		if fn == nil || d.accept == nil {
			continue
		}
		site := flow.FnName(fn)
		for _, sc := range []struct {
			name string
			dyn  types.Type
		}{{"json.Number", numberT}, {"string", types.Typ[types.String]}, {"json.Delim", e.jsonType("Delim")}, {"bool", types.Typ[types.Bool]}} {
			if sc.dyn == nil {
				continue
			}
			decT := e.jsonType("Decoder")
			if decT == nil {
				continue
			}
			dyn := sc.dyn
			mk := func() []pred.Val {
				return []pred.Val{pred.Iface{Dyn: types.NewPointer(decT), V: pred.Sym{Name: "dec"}}}
			}
			sums := map[string]pred.Summary{
				"(*encoding/json.Decoder).Token": func(ev *pred.Evaluator, args []pred.Val) (pred.Val, error) {
					return pred.Tuple{pred.Iface{Dyn: dyn, V: pred.Sym{Name: "tok"}}, pred.Term{Fn: "tokErr"}}, nil
				},
			}
			leaves, err := extractTree(e.P.SSA, fn, mk, sums, nil, errKeyOf, binDomain)
			if err != nil {
				e.S.Unk(rule, site, sc.name, err.Error(), e.Pos(fn))
				continue
			}
			for _, lf := range leaves {
				construct := sc.name + " {" + lf.String() + "}"
				if lf.Err != nil {
					e.S.Unk(rule, site, construct, lf.Err.Error(), e.Pos(fn))
					continue
				}
				t, _ := lf.Out.Ret.(pred.Tuple)
				if len(t) != 2 {
					e.S.Unk(rule, site, construct, lf.Out.Ret.String(), e.Pos(fn))
					continue
				}
				isAccepted := types.Identical(sc.dyn, d.accept)
				errk := sizeErrKind(t[1])
				if v, asked := lf.Assign["nil? tokErr()"]; asked && v == 1 {
					if t[0].String() == "nil" || t[0].String() == "nilptr" {
						if errk == "tokErr()" {
							e.S.Ok(rule, site, construct, "decoder error returned with a nil result", e.Pos(fn))
							continue
						}
					}
					if p, ok := t[0].(pred.Ptr); ok && p.Cell == nil && errk == "tokErr()" {
						e.S.Ok(rule, site, construct, "decoder error returned with a nil result", e.Pos(fn))
					} else {
						e.S.Bad(rule, site, construct, fmt.Sprintf("on a decoder error yields (%v, %s)", t[0], errk), e.Pos(fn), "")
					}
					continue
				}
				_, gotPtr := t[0].(pred.Ptr)
				nonNil := gotPtr && t[0].(pred.Ptr).Cell != nil
				switch {
				case !isAccepted && errk == "wrap(ErrInvalidType)" && !nonNil:
					e.S.Ok(rule, site, construct, "a "+sc.name+" token is rejected with ErrInvalidType", e.Pos(fn))
				case !isAccepted:
					e.S.Bad(rule, site, construct, fmt.Sprintf("a %s token yields (%v, %s); documented: only %s is accepted, anything else is ErrInvalidType", sc.name, t[0], errk, d.what), e.Pos(fn), "")
				case errk == "nil" && nonNil:
					e.S.Ok(rule, site, construct, "a "+d.what+" token is decoded", e.Pos(fn))
				case errk != "nil" && !nonNil:
					e.S.Ok(rule, site, construct, "conversion error propagated with a nil result", e.Pos(fn))
				default:
					e.S.Bad(rule, site, construct, fmt.Sprintf("yields (%v, %s)", t[0], errk), e.Pos(fn), "")
				}
			}
		}
	}
	ruleC12Arms(e)
}

// ruleC12Arms: duplicate tests, the unknown-key arm and the nested-value skipper, read off the SSA of the readers.
func ruleC12Arms(e *Env) {
	const rule = "C12.keys"
	rd := e.Fn(rule, "size", "unmarshalJSONObject")
	if rd == nil {
		return
	}
	site := flow.FnName(rd)
	for _, arm := range []struct{ decode, sentinel, what string }{{"decodeValue", "ErrDuplicatedValueKey", "value"}, {"decodeUnit", "ErrDuplicatedUnitKey", "unit"}} {
		dec := e.F("size", arm.decode)
		sent := e.V("size", arm.sentinel)
		calls := e.C.Calls(rd, func(f *ssa.Function) bool { return f == dec })
		if dec == nil || sent == nil || len(calls) != 1 {
			e.S.Unk(rule, site, arm.what+" arm", "call to "+arm.decode+" / sentinel "+arm.sentinel+" not found exactly once", e.Pos(rd))
			continue
		}
		call := calls[0]
		// the decoded pointer is what the loop carries as "already seen": a phi fed by this call's result #0
		var seen *ssa.Phi
		for _, r := range *call.Referrers() {
			if ex, ok := r.(*ssa.Extract); ok && ex.Index == 0 {
				for _, r2 := range *ex.Referrers() {
					if ph, ok := r2.(*ssa.Phi); ok {
						seen = ph
					}
				}
			}
		}
		okDup := false
		for d := call.Block(); d != nil && !okDup; d = d.Idom() {
			id := d.Idom()
			if id == nil {
				break
			}
			iff, ok := id.Instrs[len(id.Instrs)-1].(*ssa.If)
			if !ok {
				continue
			}
			cmp, ok := iff.Cond.(*ssa.BinOp)
			if !ok || !flow.IsNilConst(cmp.Y) || !(cmp.Op == token.NEQ || cmp.Op == token.EQL) {
				continue
			}
			if seen != nil && !phiChain(cmp.X, seen) {
				continue
			}
			dupEdge, cont := id.Succs[0], id.Succs[1]
			if cmp.Op == token.EQL {
				dupEdge, cont = cont, dupEdge
			}
			if !(cont == d || cont.Dominates(d)) {
				continue
			}
			if ret, ok := dupEdge.Instrs[len(dupEdge.Instrs)-1].(*ssa.Return); ok && len(ret.Results) == 2 {
				if flow.GlobalLoad(ret.Results[1]) == sent {
					okDup = true
				} else {
					e.S.Bad(rule, site, arm.what+" arm", "a repeated \""+arm.what+"\" member is rejected with "+ret.Results[1].String()+", documented "+arm.sentinel, e.posOf(ret), "")
					okDup = true
				}
			}
		}
		if okDup {
			e.S.Ok(rule, site, arm.what+" arm", "\""+arm.what+"\" already seen ⇒ "+arm.sentinel+", tested before decoding", e.posOf(call))
		} else {
			e.S.Bad(rule, site, arm.what+" arm", "the \""+arm.what+"\" member is decoded without first rejecting a duplicate with "+arm.sentinel, e.posOf(call), `{"`+arm.what+`":…,"`+arm.what+`":…}`)
		}
	}
	// the member loop as a whole branches only on what the documented reading depends on: the member limit, More(), the
	// errors of the reads, the (normalised) key against the key constants or its kind, "already seen", and the
	// unknown-keys bit of the rule. Any other test — both members already known, the decoded value against a bound —
	// makes the verdict depend on member order or refuses what the text rules accept. Nor is a decoded member rewritten.
	{
		foreign := ""
		var at ssa.Instruction
		limVar := e.V("size", "MaxObjectKeys")
		// fromDecoded: v is (a load through, a merge of) the pointer a member decoder handed back
		var fromDecoded func(v ssa.Value, depth int) bool
		fromDecoded = func(v ssa.Value, depth int) bool {
			if depth > 6 {
				return false
			}
			switch x := v.(type) {
			case *ssa.Extract:
				if c, ok := x.Tuple.(*ssa.Call); ok {
					if g := e.C.StaticCallee(&c.Call); g != nil && (g.Name() == "decodeValue" || g.Name() == "decodeUnit") {
						return true
					}
				}
			case *ssa.Phi:
				for _, ed := range x.Edges {
					if fromDecoded(ed, depth+1) {
						return true
					}
				}
			case *ssa.UnOp:
				return x.Op == token.MUL && fromDecoded(x.X, depth+1)
			case *ssa.Convert:
				return fromDecoded(x.X, depth+1)
			case *ssa.ChangeType:
				return fromDecoded(x.X, depth+1)
			}
			return false
		}
		okCond := func(cond ssa.Value) bool {
			for i := 0; i < 3; i++ {
				if u, ok := cond.(*ssa.UnOp); ok && u.Op == token.NOT {
					cond = u.X
					continue
				}
				break
			}
			switch x := cond.(type) {
			case *ssa.Const:
				return true
			case *ssa.Call:
				return x.Call.IsInvoke() && x.Call.Method.Name() == "More"
			case *ssa.Extract:
				_, isCall := x.Tuple.(*ssa.Call) // a boolean a helper of the module hands back
				return isCall
			case *ssa.BinOp:
				if flow.IsNilConst(x.Y) || flow.IsNilConst(x.X) {
					return true // an error, or a "seen" pointer, against nil
				}
				if limVar != nil && (flow.GlobalLoad(x.X) == limVar || flow.GlobalLoad(x.Y) == limVar) {
					return true
				}
				if _, isK := x.Y.(*ssa.Const); isK {
					switch l := x.X.(type) {
					case *ssa.Call: // normalised key / its kind against a constant — not a measure of a decoded member (`len(*unit) > 2`)
						for _, a := range l.Call.Args {
							if fromDecoded(a, 0) {
								return false
							}
						}
						return true
					case *ssa.Lookup:
						return true
					case *ssa.BinOp: // r & bit against 0
						return l.Op == token.AND
					case *ssa.TypeAssert, *ssa.Extract:
						return true // the raw key against a constant (ruleKeys decides whether that is allowed)
					}
				}
			}
			return false
		}
		for _, b := range rd.Blocks {
			if iff, ok := b.Instrs[len(b.Instrs)-1].(*ssa.If); ok && !okCond(iff.Cond) && foreign == "" {
				foreign, at = iff.Cond.String(), iff
			}
			for _, in := range b.Instrs {
				st, ok := in.(*ssa.Store)
				if !ok {
					continue
				}
				// *value / *unit written after decoding
				if fromDecoded(st.Addr, 0) && foreign == "" {
					foreign, at = "a store through the pointer a member decoder handed back", st
				}
			}
		}
		if foreign != "" {
			e.S.Bad(rule, site, "loop discipline", "the member loop depends on "+foreign+": beyond the limit, More(), read errors, the key, \"already seen\" and the unknown-keys bit nothing may decide or alter a member", e.posOf(at), `{"value":1,"unit":"B","value":2}`)
		} else {
			e.S.Ok(rule, site, "loop discipline", "the member loop branches only on the limit, More(), read errors, the key, \"already seen\" and the unknown-keys bit; decoded members are not rewritten", e.Pos(rd))
		}
	}
	// unknown keys
	skip := e.F("size", "decodeAndSkipNested")
	sentU := e.V("size", "ErrUnexpectedKey")
	bit, _ := tabConstInt(e, "size", "RuleDisallowUnknownKeys")
	calls := e.C.Calls(rd, func(f *ssa.Function) bool { return f == skip })
	// the rule parameter by its type (the gate tests a bit of it)
	ruleParamOf := func(f *ssa.Function) ssa.Value {
		for _, prm := range f.Params {
			if nt, ok := prm.Type().(*types.Named); ok && nt.Obj().Name() == "Rule" {
				return prm
			}
		}
		return nil
	}
	gateFn, ruleParam := rd, ssa.Value(nil)
	if len(rd.Params) > 1 {
		ruleParam = rd.Params[1]
	}
	if rp := ruleParamOf(rd); rp != nil {
		ruleParam = rp
	}
	if skip != nil && len(calls) == 0 {
		// the arm extracted into a helper of its own that is handed the rule unchanged
		for _, hc := range e.C.Calls(rd, flow.InRepo) {
			h := flow.Origin(e.C.StaticCallee(&hc.Call))
			inner := e.C.Calls(h, func(f *ssa.Function) bool { return f == skip })
			hr := ruleParamOf(h)
			if len(inner) != 1 || hr == nil {
				continue
			}
			passed := false
			for i, a := range hc.Call.Args {
				if i < len(h.Params) && ssa.Value(h.Params[i]) == hr && a == ruleParam {
					passed = true
				}
			}
			if passed {
				calls, gateFn, ruleParam = inner, h, hr
			}
		}
	}
	_ = gateFn
	if skip == nil || sentU == nil || len(calls) != 1 {
		e.S.Unk(rule, site, "unknown-key arm", "decodeAndSkipNested / ErrUnexpectedKey not found exactly once", e.Pos(rd))
	} else {
		call := calls[0]
		okGate := false
		for d := call.Block(); d != nil; d = d.Idom() {
			id := d.Idom()
			if id == nil {
				break
			}
			iff, ok := id.Instrs[len(id.Instrs)-1].(*ssa.If)
			if !ok {
				continue
			}
			cmp, ok := iff.Cond.(*ssa.BinOp)
			if !ok {
				continue
			}
			and, ok := cmp.X.(*ssa.BinOp)
			if !ok || and.Op != token.AND {
				continue
			}
			k, isK := flow.ConstInt(and.Y)
			z, isZ := flow.ConstInt(cmp.Y)
			if !isK || k != bit || !isZ || z != 0 || and.X != ruleParam {
				continue
			}
			setEdge, clrEdge := id.Succs[0], id.Succs[1]
			if cmp.Op == token.EQL {
				setEdge, clrEdge = clrEdge, setEdge
			}
			usesSent := false
			for _, in := range setEdge.Instrs {
				if u, ok := in.(*ssa.UnOp); ok && u.X == ssa.Value(sentU) {
					usesSent = true
				}
			}
			if (clrEdge == d || clrEdge.Dominates(d)) && usesSent && flow.LeadsOnlyToErrors(setEdge) {
				okGate = true
			}
		}
		if okGate {
			e.S.Ok(rule, site, "unknown-key arm", "RuleDisallowUnknownKeys ⇒ ErrUnexpectedKey, otherwise the member's value is skipped", e.posOf(call))
		} else {
			e.S.Bad(rule, site, "unknown-key arm", "the unknown-key arm is not gated by exactly RuleDisallowUnknownKeys with ErrUnexpectedKey on the set edge", e.posOf(call), "")
		}
	}
	ruleSkipper(e, rule, skip)
}

// ruleSkipper: the nesting counter of decodeAndSkipNested (also the justification of C18.T1's listed exception:
// the key token is a string only if every member value has been consumed completely).
func ruleSkipper(e *Env, rule string, skip *ssa.Function) {
	if skip != nil {
		ssite := flow.FnName(skip)
		findDepth := func(f *ssa.Function) *ssa.Phi {
			var depth *ssa.Phi
			for _, b := range f.Blocks {
				for _, in := range b.Instrs {
					if ph, ok := in.(*ssa.Phi); ok {
						for _, ed := range ph.Edges {
							if k, ok := flow.ConstInt(ed); ok && k == 1 {
								depth = ph
							}
						}
					}
				}
			}
			return depth
		}
		depth := findDepth(skip)
		if depth == nil {
			// the counting loop extracted into a helper of its own, called once the opening delimiter has been read
			for _, f := range flow.SortedFuncs(e.C.Reachable(skip)) {
				if f != skip && flow.InRepo(f) {
					if d := findDepth(f); d != nil {
						depth, skip = d, f
						break
					}
				}
			}
		}
		if depth == nil {
			e.S.Unk(rule, ssite, "depth counter", "no nesting counter starting at 1 found (idioms: depth++ on '{' '[', depth-- on other delimiters, stop at 0)", e.Pos(skip))
			return
		}
		// the counter's transfer function, one iteration per token class
		bad, und := "", ""
		for _, c := range []struct {
			name  string
			class int
			delta int
		}{{"a scalar token", -1, 0}, {"'{'", '{', 1}, {"'['", '[', 1}, {"'}'", '}', -1}, {"']'", ']', -1}} {
			st, err := flow.SkipLoopStep(skip, depth, c.class)
			switch {
			case err != nil:
				und = fmt.Sprintf("on %s: %v", c.name, err)
			case st.Returned:
				bad = fmt.Sprintf("on %s the skip ends without the counter having reached zero", c.name)
			case st.Delta != c.delta:
				bad = fmt.Sprintf("on %s the counter changes by %+d, the nesting depth by %+d", c.name, st.Delta, c.delta)
			case c.delta < 0 && !st.Tested:
				bad = fmt.Sprintf("after %s the decreased counter is not tested against zero: the skip runs past the end of the member's value", c.name)
			}
		}
		switch {
		case und != "":
			e.S.Unk(rule, ssite, "depth counter", "the loop is not decided by the token class ("+und+")", e.Pos(skip))
		case bad != "":
			e.S.Bad(rule, ssite, "depth counter", "nesting counter is not the documented one: "+bad, e.Pos(skip), `{"x":[[1]],"value":1,"unit":"B"}`)
		default:
			e.S.Ok(rule, ssite, "depth counter", "per token class: depth starts at 1, +1 on '{' and '[', −1 on '}' and ']' followed by the test against 0 whose zero side returns nil, unchanged on any other token", e.Pos(skip))
		}
	}
}

// ruleC12AllMembers: the key loop may leave towards the success continuation only on the edge where the decoder
// reports that no member is left (`!d.More()`): leaving earlier skips the duplicate tests, the unknown-key rule
// and the member count for everything that follows, so the verdict would depend on member order.
func ruleC12AllMembers(e *Env, rule string) {
	rd := e.Fn(rule, "size", "unmarshalJSONObject")
	if rd == nil {
		return
	}
	site := flow.FnName(rd)
	// loop head: the block with the 0,+1 counter phi, or any block on a cycle that calls More()
	inCycle := func(b *ssa.BasicBlock) bool {
		seen := map[*ssa.BasicBlock]bool{}
		stack := append([]*ssa.BasicBlock{}, b.Succs...)
		for len(stack) > 0 {
			x := stack[len(stack)-1]
			stack = stack[:len(stack)-1]
			if x == b {
				return true
			}
			if seen[x] {
				continue
			}
			seen[x] = true
			stack = append(stack, x.Succs...)
		}
		return false
	}
	n, bad := 0, 0
	for _, b := range rd.Blocks {
		if !inCycle(b) {
			continue
		}
		for si, s := range b.Succs {
			if inCycle(s) || onlyDefiniteErrors(s) {
				continue
			}
			// constant-condition edges (for …; true; …) are infeasible
			if iff, ok := b.Instrs[len(b.Instrs)-1].(*ssa.If); ok {
				if _, isConst := iff.Cond.(*ssa.Const); isConst {
					continue
				}
			}
			n++
			okExit := false
			if iff, ok := b.Instrs[len(b.Instrs)-1].(*ssa.If); ok {
				cond := iff.Cond
				neg := false
				if u, ok := cond.(*ssa.UnOp); ok && u.Op == token.NOT {
					cond, neg = u.X, true
				}
				if call, ok := cond.(*ssa.Call); ok && (call.Call.IsInvoke() && call.Call.Method.Name() == "More" || call.Call.StaticCallee() != nil && call.Call.StaticCallee().String() == "(*encoding/json.Decoder).More") {
					// exit must be the edge on which More() is false
					moreFalseEdge := 1
					if neg {
						moreFalseEdge = 0
					}
					okExit = si == moreFalseEdge
				}
			}
			if okExit {
				e.S.Ok(rule, site, "loop exit", "the member loop is left for the success path only when More() reports no further member", e.posOfBlock(b))
			} else {
				bad++
				e.S.Bad(rule, site, "early loop exit", "the member loop can be left for the success path while members remain: duplicates, unknown keys and the member count after that point are not examined, so the verdict depends on member order", e.posOfBlock(b), `{"value":1,"unit":"B","value":2}`)
			}
		}
	}
	if n == 0 {
		e.S.Unk(rule, site, "loop exit", "no exit of the member loop towards the success path found", e.Pos(rd))
	}
}

// phiChain: v is ph or a phi/merge fed (transitively) by ph.
func phiChain(v ssa.Value, ph *ssa.Phi) bool {
	seen := map[ssa.Value]bool{}
	var rec func(x ssa.Value, d int) bool
	rec = func(x ssa.Value, d int) bool {
		if x == ssa.Value(ph) {
			return true
		}
		if d > 6 || seen[x] {
			return false
		}
		seen[x] = true
		if p, ok := x.(*ssa.Phi); ok {
			for _, e := range p.Edges {
				if rec(e, d+1) {
					return true
				}
			}
		}
		return false
	}
	return rec(v, 0)
}

// onlyDefiniteErrors: every return reachable from b certainly carries a non-nil error (a pass-through of a
// callee's error result, which may be nil, does not count).
func onlyDefiniteErrors(b *ssa.BasicBlock) bool {
	seen := map[*ssa.BasicBlock]bool{}
	var rec func(x *ssa.BasicBlock) bool
	rec = func(x *ssa.BasicBlock) bool {
		if seen[x] {
			return true
		}
		seen[x] = true
		if _, ok := x.Instrs[len(x.Instrs)-1].(*ssa.Return); ok {
			return flow.IsErrorReturnBlock(x)
		}
		for _, s := range x.Succs {
			if !rec(s) {
				return false
			}
		}
		return true
	}
	return rec(b)
}
