package flow

import (
	"fmt"
	"go/constant"
	"go/token"
	"go/types"
	"sort"

	"golang.org/x/tools/go/ssa"
)

// Per-rune transfer function of a scanning loop, by abstract interpretation of the loop body.
//
// The loop `for i, r := range input` of a function such as size.prepareNumber is a state machine: each rune is
// either skipped, kept (appended to an accumulator) or stops the scan. What it does with a rune depends only on the
// rune's value and on whether anything has been kept so far. The body is interpreted once per (interval of rune
// values, accumulator empty / non-empty); comparisons of the rune with constants are decided by the interval,
// emptiness tests of the accumulator (strings.Builder / bytes.Buffer Len(), len of an appended slice, a boolean
// flag that is set when a rune is kept) by the state. Anything else is undecided. The result is a table over a
// partition of all rune values — an exhaustive abstraction, not a sample of inputs.

type RuneOutcome int

const (
	RuneUndecided RuneOutcome = iota
	RuneSkip
	RuneKeep
	RuneStop
)

func (o RuneOutcome) String() string {
	return [...]string{"undecided", "skip", "keep", "stop"}[o]
}

type RuneLoop struct {
	Fn     *ssa.Function
	Consts []int64 // rune constants the body compares the rune with (sorted, unique)

	head    *ssa.BasicBlock
	body    *ssa.BasicBlock
	rune    ssa.Value
	index   ssa.Value // byte offset of the current rune
	param   *ssa.Parameter
	builder *ssa.Alloc // strings.Builder / bytes.Buffer accumulator
	accPhi  *ssa.Phi   // slice accumulator
	flagPhi *ssa.Phi   // boolean "something kept" flag
	phiVal  map[*ssa.Phi]ssa.Value
}

// AnalyseRuneLoop finds the single range-over-string loop of fn (over parameter pi) and its accumulator.
func (c *Ctx) AnalyseRuneLoop(fn *ssa.Function, pi int) (*RuneLoop, error) {
	if fn == nil || pi >= len(fn.Params) {
		return nil, fmt.Errorf("no such parameter")
	}
	rl := &RuneLoop{Fn: fn, param: fn.Params[pi]}
	var nx *ssa.Next
	for _, b := range fn.Blocks {
		for _, in := range b.Instrs {
			if n, ok := in.(*ssa.Next); ok && n.IsString {
				if rg, ok := n.Iter.(*ssa.Range); ok && rootParam(rg.X) == fn.Params[pi] {
					if nx != nil {
						return nil, fmt.Errorf("more than one range loop over the input")
					}
					nx = n
				}
			}
		}
	}
	if nx == nil {
		return nil, fmt.Errorf("no `for … range input` loop found")
	}
	rl.head = nx.Block()
	var okV ssa.Value
	for _, r := range *nx.Referrers() {
		if ex, ok := r.(*ssa.Extract); ok {
			switch ex.Index {
			case 0:
				okV = ex
			case 1:
				rl.index = ex
			case 2:
				rl.rune = ex
			}
		}
	}
	iff, isIf := rl.head.Instrs[len(rl.head.Instrs)-1].(*ssa.If)
	if okV == nil || rl.rune == nil || !isIf || iff.Cond != okV {
		return nil, fmt.Errorf("range loop header not in the expected form")
	}
	rl.body = rl.head.Succs[0]
	// accumulators
	for _, b := range fn.Blocks {
		for _, in := range b.Instrs {
			if al, ok := in.(*ssa.Alloc); ok {
				t := al.Type().Underlying().(*types.Pointer).Elem().String()
				if t == "strings.Builder" || t == "bytes.Buffer" {
					rl.builder = al
				}
			}
		}
	}
	for _, in := range rl.head.Instrs {
		ph, ok := in.(*ssa.Phi)
		if !ok {
			break
		}
		switch t := ph.Type().Underlying().(type) {
		case *types.Slice:
			rl.accPhi = ph
		case *types.Basic:
			if t.Info()&types.IsBoolean != 0 {
				rl.flagPhi = ph
			}
		}
	}
	if rl.builder == nil && rl.accPhi == nil {
		return nil, fmt.Errorf("no accumulator found (idioms: strings.Builder / bytes.Buffer, a byte slice grown with append)")
	}
	// constants compared with the rune
	seen := map[int64]bool{}
	for _, b := range fn.Blocks {
		for _, in := range b.Instrs {
			if bo, ok := in.(*ssa.BinOp); ok {
				for _, pair := range [][2]ssa.Value{{bo.X, bo.Y}, {bo.Y, bo.X}} {
					if rl.isRune(pair[0]) {
						if k, ok := constInt(pair[1]); ok && !seen[k] {
							seen[k] = true
							rl.Consts = append(rl.Consts, k)
						}
					}
				}
			}
		}
	}
	// … and the constants of the predicates of the module the rune is handed to
	for _, b := range fn.Blocks {
		for _, in := range b.Instrs {
			call, ok := in.(*ssa.Call)
			if !ok || len(call.Call.Args) != 1 || !rl.isRune(call.Call.Args[0]) {
				continue
			}
			f := call.Call.StaticCallee()
			if f == nil || !inRepo(f) || len(f.Params) != 1 {
				continue
			}
			for _, fb := range origin(f).Blocks {
				for _, fin := range fb.Instrs {
					if bo, ok := fin.(*ssa.BinOp); ok {
						for _, v := range []ssa.Value{bo.X, bo.Y} {
							if k, ok := constInt(v); ok && !seen[k] {
								seen[k] = true
								rl.Consts = append(rl.Consts, k)
							}
						}
					}
				}
			}
		}
	}
	sort.Slice(rl.Consts, func(i, j int) bool { return rl.Consts[i] < rl.Consts[j] })
	return rl, nil
}

// predOnInterval evaluates a one-parameter boolean function of the module for an argument known only to lie in
// [lo, hi]: every branch and the returned value must be decided by comparisons of the parameter with constants.
func predOnInterval(fn *ssa.Function, lo, hi int64) (bool, bool) {
	if len(fn.Blocks) == 0 || len(fn.Params) != 1 {
		return false, false
	}
	param := fn.Params[0]
	isParam := func(v ssa.Value) bool {
		for i := 0; i < 4; i++ {
			if v == ssa.Value(param) {
				return true
			}
			switch c := v.(type) {
			case *ssa.Convert:
				v = c.X
			case *ssa.ChangeType:
				v = c.X
			default:
				return false
			}
		}
		return false
	}
	phiVal := map[*ssa.Phi]ssa.Value{}
	var eval func(v ssa.Value, depth int) (bool, bool)
	eval = func(v ssa.Value, depth int) (bool, bool) {
		if depth > 12 {
			return false, false
		}
		switch x := v.(type) {
		case *ssa.Const:
			if x.Value != nil && x.Value.Kind() == constant.Bool {
				return constant.BoolVal(x.Value), true
			}
		case *ssa.UnOp:
			if x.Op == token.NOT {
				r, ok := eval(x.X, depth+1)
				return !r, ok
			}
		case *ssa.Phi:
			if pv, ok := phiVal[x]; ok {
				return eval(pv, depth+1)
			}
		case *ssa.BinOp:
			op, a, b := x.Op, x.X, x.Y
			if _, isC := a.(*ssa.Const); isC {
				a, b = b, a
				op = flip(op)
			}
			if k, isK := constInt(b); isK && isParam(a) {
				return cmpInterval(op, lo, hi, k)
			}
		}
		return false, false
	}
	var prev *ssa.BasicBlock
	b := fn.Blocks[0]
	for steps := 0; steps < 64; steps++ {
		for _, in := range b.Instrs {
			if ph, ok := in.(*ssa.Phi); ok && prev != nil {
				for i, p := range b.Preds {
					if p == prev {
						phiVal[ph] = ph.Edges[i]
					}
				}
			}
		}
		switch t := b.Instrs[len(b.Instrs)-1].(type) {
		case *ssa.Return:
			if len(t.Results) != 1 {
				return false, false
			}
			return eval(t.Results[0], 0)
		case *ssa.Jump:
			prev, b = b, b.Succs[0]
		case *ssa.If:
			r, ok := eval(t.Cond, 0)
			if !ok {
				return false, false
			}
			if r {
				prev, b = b, b.Succs[0]
			} else {
				prev, b = b, b.Succs[1]
			}
		default:
			return false, false
		}
	}
	return false, false
}

func (rl *RuneLoop) isRune(v ssa.Value) bool {
	for i := 0; i < 4; i++ {
		if v == rl.rune {
			return true
		}
		switch x := v.(type) {
		case *ssa.Convert:
			v = x.X
		case *ssa.ChangeType:
			v = x.X
		default:
			return false
		}
	}
	return false
}

// Partition returns the intervals of rune values that the union of the loop's constants and extra distinguishes.
func (rl *RuneLoop) Partition(extra ...int64) [][2]int64 {
	set := map[int64]bool{}
	for _, k := range append(append([]int64{}, rl.Consts...), extra...) {
		set[k] = true
	}
	var ks []int64
	for k := range set {
		if k >= 0 && k <= 0x10FFFF {
			ks = append(ks, k)
		}
	}
	sort.Slice(ks, func(i, j int) bool { return ks[i] < ks[j] })
	var out [][2]int64
	prev := int64(0)
	for _, k := range ks {
		if k > prev {
			out = append(out, [2]int64{prev, k - 1})
		}
		out = append(out, [2]int64{k, k})
		prev = k + 1
	}
	if prev <= 0x10FFFF {
		out = append(out, [2]int64{prev, 0x10FFFF})
	}
	return out
}

// Step interprets the loop body for a rune in [lo,hi] with the accumulator empty (started=false) or not.
func (rl *RuneLoop) Step(lo, hi int64, started bool) (RuneOutcome, string) {
	prev, b := rl.head, rl.body
	wrote := false
	phiVal := map[*ssa.Phi]ssa.Value{} // the incoming value of every phi passed on this path
	rl.phiVal = phiVal
	for steps := 0; steps < 200; steps++ {
		if b == rl.head {
			// back at the loop head: which value do the accumulators carry on this edge?
			idx := -1
			for i, p := range rl.head.Preds {
				if p == prev {
					idx = i
				}
			}
			if idx < 0 {
				return RuneUndecided, "back edge not found"
			}
			if rl.accPhi != nil {
				ed := rl.accPhi.Edges[idx]
				switch {
				case ed == ssa.Value(rl.accPhi):
				case rl.isAppendOfRune(ed):
					wrote = true
				default:
					return RuneUndecided, "the accumulator is replaced by something other than itself or append(acc, rune)"
				}
			}
			if rl.flagPhi != nil {
				ed := rl.flagPhi.Edges[idx]
				newState := started
				if ed != ssa.Value(rl.flagPhi) {
					c, ok := ed.(*ssa.Const)
					if !ok || c.Value == nil || c.Value.Kind() != constant.Bool {
						return RuneUndecided, "the flag is updated with a non-constant"
					}
					newState = constant.BoolVal(c.Value)
				}
				if newState != (started || wrote) {
					return RuneUndecided, fmt.Sprintf("the flag becomes %v although the accumulator is %s", newState, map[bool]string{true: "non-empty", false: "empty"}[started || wrote])
				}
			}
			if wrote {
				return RuneKeep, ""
			}
			return RuneSkip, ""
		}
		var next *ssa.BasicBlock
		for _, in := range b.Instrs {
			if ph, ok := in.(*ssa.Phi); ok {
				for i, p := range b.Preds {
					if p == prev {
						phiVal[ph] = ph.Edges[i]
					}
				}
				continue
			}
			switch x := in.(type) {
			case *ssa.Call:
				if rl.isBuilderWrite(x) {
					if !rl.writesRune(x) {
						return RuneUndecided, "something other than the current rune is written to the accumulator"
					}
					wrote = true
				}
			case *ssa.If:
				v, ok, why := rl.cond(x.Cond, lo, hi, started || wrote, prev, b)
				if !ok {
					return RuneUndecided, why
				}
				if v {
					next = b.Succs[0]
				} else {
					next = b.Succs[1]
				}
			case *ssa.Jump:
				next = b.Succs[0]
			case *ssa.Return:
				return RuneStop, ""
			case *ssa.Panic:
				return RuneUndecided, "panic in the loop body"
			case *ssa.Store:
				// the compiler's variadic-argument array of an append call is not state
				if ia, ok := x.Addr.(*ssa.IndexAddr); ok {
					if al, ok := ia.X.(*ssa.Alloc); ok && al.Comment == "varargs" {
						continue
					}
				}
				return RuneUndecided, "store in the loop body"
			}
		}
		if next == nil {
			return RuneUndecided, "fell off a block"
		}
		prev, b = b, next
	}
	return RuneUndecided, "step limit"
}

func (rl *RuneLoop) isAppendOfRune(v ssa.Value) bool {
	call, ok := v.(*ssa.Call)
	if !ok {
		return false
	}
	bi, ok := call.Call.Value.(*ssa.Builtin)
	if !ok || bi.Name() != "append" || len(call.Call.Args) != 2 || call.Call.Args[0] != ssa.Value(rl.accPhi) {
		return false
	}
	// append(acc, byte(r)) — the variadic slice holds exactly the rune
	for _, e := range varargs(call.Call.Args[1]) {
		if !rl.isRune(e) {
			return false
		}
	}
	return len(varargs(call.Call.Args[1])) == 1
}

func (rl *RuneLoop) isBuilderWrite(call *ssa.Call) bool {
	f := call.Call.StaticCallee()
	if f == nil || rl.builder == nil || len(call.Call.Args) == 0 || call.Call.Args[0] != ssa.Value(rl.builder) {
		return false
	}
	switch f.Name() {
	case "WriteRune", "WriteByte", "WriteString", "Write":
		return true
	}
	return false
}

func (rl *RuneLoop) writesRune(call *ssa.Call) bool {
	f := call.Call.StaticCallee()
	return (f.Name() == "WriteRune" || f.Name() == "WriteByte") && len(call.Call.Args) == 2 && rl.isRune(call.Call.Args[1])
}

// accLen: v is the length of the accumulator (Len() of the builder, len of the slice).
func (rl *RuneLoop) accLen(v ssa.Value) bool {
	call, ok := v.(*ssa.Call)
	if !ok {
		return false
	}
	if bi, ok := call.Call.Value.(*ssa.Builtin); ok {
		return bi.Name() == "len" && rl.accPhi != nil && len(call.Call.Args) == 1 && call.Call.Args[0] == ssa.Value(rl.accPhi)
	}
	f := call.Call.StaticCallee()
	return f != nil && f.Name() == "Len" && rl.builder != nil && len(call.Call.Args) == 1 && call.Call.Args[0] == ssa.Value(rl.builder)
}

func cmpInterval(op token.Token, lo, hi, k int64) (bool, bool) {
	switch op {
	case token.EQL:
		if lo == hi && lo == k {
			return true, true
		}
		if k < lo || k > hi {
			return false, true
		}
	case token.NEQ:
		if r, ok := cmpInterval(token.EQL, lo, hi, k); ok {
			return !r, true
		}
	case token.LSS:
		if hi < k {
			return true, true
		}
		if lo >= k {
			return false, true
		}
	case token.LEQ:
		if hi <= k {
			return true, true
		}
		if lo > k {
			return false, true
		}
	case token.GTR:
		if lo > k {
			return true, true
		}
		if hi <= k {
			return false, true
		}
	case token.GEQ:
		if lo >= k {
			return true, true
		}
		if hi < k {
			return false, true
		}
	}
	return false, false
}

func (rl *RuneLoop) cond(v ssa.Value, lo, hi int64, nonEmpty bool, prev, cur *ssa.BasicBlock) (val, ok bool, why string) {
	switch x := v.(type) {
	case *ssa.Const:
		if x.Value != nil && x.Value.Kind() == constant.Bool {
			return constant.BoolVal(x.Value), true, ""
		}
	case *ssa.UnOp:
		if x.Op == token.NOT {
			r, ok, why := rl.cond(x.X, lo, hi, nonEmpty, prev, cur)
			return !r, ok, why
		}
	case *ssa.Phi:
		if x == rl.flagPhi {
			return nonEmpty, true, ""
		}
		if v, ok := rl.phiVal[x]; ok {
			return rl.cond(v, lo, hi, nonEmpty, prev, cur)
		}
		return false, false, fmt.Sprintf("phi %s was not passed on this path", x.Name())
	case *ssa.Call:
		// a predicate of the module applied to the rune (isDigit(r), isSeparator(r)): decided on the same interval
		if f := x.Call.StaticCallee(); f != nil && inRepo(f) && len(x.Call.Args) == 1 && rl.isRune(x.Call.Args[0]) && len(f.Params) == 1 {
			if r, ok := predOnInterval(origin(f), lo, hi); ok {
				return r, true, ""
			}
			return false, false, fmt.Sprintf("the predicate %s is not decided on the class [%d,%d]", f.Name(), lo, hi)
		}
	case *ssa.BinOp:
		op := x.Op
		a, b := x.X, x.Y
		if _, isC := a.(*ssa.Const); isC {
			a, b = b, a
			op = flip(op)
		}
		k, isK := constInt(b)
		if !isK {
			break
		}
		switch {
		case rl.isRune(a):
			if r, ok := cmpInterval(op, lo, hi, k); ok {
				return r, true, ""
			}
			return false, false, fmt.Sprintf("the comparison of the rune with %d splits the class [%d,%d]", k, lo, hi)
		case rl.accLen(a):
			l0, l1 := int64(0), int64(0)
			if nonEmpty {
				l0, l1 = 1, inf
			}
			if r, ok := cmpInterval(op, l0, l1, k); ok {
				return r, true, ""
			}
			return false, false, "the accumulator's length is compared with something other than emptiness"
		}
	}
	return false, false, fmt.Sprintf("condition %s = %s (block %d) is neither a comparison of the rune with a constant nor an emptiness test of the accumulator", v.Name(), v.String(), cur.Index)
}

// CheckReturns decides what the scanning function hands back: every return yields (the accumulated text, rest) where
// the accumulated text is the accumulator's content unchanged and rest is the empty constant when the loop ran to the
// end of the input, or the input from the offset of the stopping rune to its end — optionally with trailing
// characters trimmed (which ones is the business of the trim rule) — when a rune stopped the scan.
func (rl *RuneLoop) CheckReturns() (n int, bad string, at ssa.Instruction) {
	fn := rl.Fn
	exit := rl.head.Succs[1]
	for _, b := range fn.Blocks {
		ret, ok := b.Instrs[len(b.Instrs)-1].(*ssa.Return)
		if !ok {
			continue
		}
		n++
		vals := ReturnValues(ret)
		if len(vals) != 2 {
			return n, "the scanning function does not return (number, unit)", ret
		}
		// nothing to scan: ("", "") under a test that the input is empty
		if s0, c0 := constString(vals[0]); c0 && s0 == "" {
			if s1, c1 := constString(vals[1]); c1 && s1 == "" && rl.underEmptyInput(b) {
				continue
			}
		}
		// the number
		okAcc := false
		switch x := vals[0].(type) {
		case *ssa.Call:
			if f := x.Call.StaticCallee(); f != nil && f.Name() == "String" && rl.builder != nil && len(x.Call.Args) == 1 && x.Call.Args[0] == ssa.Value(rl.builder) {
				okAcc = true
			}
		case *ssa.Convert:
			if rl.accPhi != nil && x.X == ssa.Value(rl.accPhi) {
				okAcc = true
			}
		}
		if !okAcc {
			return n, "the number returned is not the accumulated digits unchanged", ret
		}
		// the rest
		if s, isC := constString(vals[1]); isC {
			switch {
			case s != "":
				return n, fmt.Sprintf("a constant unit %q is returned", s), ret
			case !(exit == b || exit.Dominates(b)) || len(exit.Preds) != 1:
				return n, "an empty unit is returned although a rune stopped the scan (the rest of the input is dropped)", ret
			}
			continue
		}
		rest := vals[1]
		if call, ok := rest.(*ssa.Call); ok {
			if f := call.Call.StaticCallee(); f != nil {
				switch f.String() {
				case "strings.TrimRight", "strings.TrimSuffix", "strings.TrimSpace", "strings.Trim":
					rest = call.Call.Args[0]
				}
			}
		}
		sl, ok := rest.(*ssa.Slice)
		if !ok || sl.X != ssa.Value(rl.param) || sl.Low != rl.index || sl.High != nil || sl.Max != nil {
			return n, "the unit returned when a rune stops the scan is not the input from that rune's offset to its end", ret
		}
		if !(rl.body == b || rl.body.Dominates(b)) {
			return n, "the rest of the input is returned outside the loop body, where the offset is not that of the stopping rune", ret
		}
	}
	return n, "", nil
}

// underEmptyInput: b is only reached through the true edge of `input == ""` / `len(input) == 0`.
func (rl *RuneLoop) underEmptyInput(b *ssa.BasicBlock) bool {
	for _, blk := range rl.Fn.Blocks {
		iff, ok := blk.Instrs[len(blk.Instrs)-1].(*ssa.If)
		if !ok {
			continue
		}
		cmp, ok := iff.Cond.(*ssa.BinOp)
		if !ok || cmp.Op != token.EQL {
			continue
		}
		empty := false
		if s, isC := constString(cmp.Y); isC && s == "" && cmp.X == ssa.Value(rl.param) {
			empty = true
		}
		if k, isK := constInt(cmp.Y); isK && k == 0 {
			if a, isLen := IsLenOf(cmp.X); isLen && a == ssa.Value(rl.param) {
				empty = true
			}
		}
		if t := blk.Succs[0]; empty && len(t.Preds) == 1 && (t == b || t.Dominates(b)) {
			return true
		}
	}
	return false
}
